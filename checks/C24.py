"""C24 The batching queue is FIFO, lossless and batch-bounded.
(A) Queue.tla (Write = lock, seq++, blocking send; run loop Recv/Flush/Timer/writeFn with the
    1-slot send channel; consumer) exhaustive: FIFOExactlyOnce, BatchBound, SeqIncreasing, liveness
    Drained under fairness; negative controls SeqUnderLock, BatchOnSize, BatchSeqIsMax.
(C) concurrent writers (random sizes, flush channels), flushers and a slow consumer on the real
    queue.Queue with ms timeouts; hook events under seqMu / in the run-loop goroutine plus
    consumer/writer observations are consumed by TraceQueue.tla (all invariants every step, batch
    sent only for size/flush/timer, flush channel observed closed only after its batch closes,
    nothing left at quiescence)."""
import os, vlib
LEVEL = "model_checking"
TECHNIQUE = "TLA+ spec of the queue, TLC exhaustive + trace validation of real concurrent runs"

def run(ctx):
    vlib.tlc_mc(ctx, "Queue", "Queue_mc.cfg")
    vlib.tlc_mc(ctx, "Queue", "Queue_live.cfg", coverage=False)
    vlib.tlc_neg(ctx, "Queue", "Queue_neg_SeqUnderLock.cfg", expect="FIFOExactlyOnce")
    vlib.tlc_neg(ctx, "Queue", "Queue_neg_BatchOnSize.cfg", expect="BatchBound")
    vlib.tlc_neg(ctx, "Queue", "Queue_neg_BatchSeqIsMax.cfg", expect="SeqIncreasing")
    runs = ctx.pick(80, 1200)
    tr = os.path.join(ctx.scratch, "queue.ndjson")
    p = ctx.run_harness(["queue-trace", "-out", tr, "-runs", str(runs), "-writes", str(ctx.pick(12, 20))], timeout=3000)
    ctx.cov["driver"] = p.stdout.strip()
    import json
    st = json.loads(p.stdout.strip().splitlines()[-1])

    def corrupt(rows):
        # swap the order of two consecutive q.recv events (FIFO broken) in the first run that has them
        for i in range(len(rows) - 1):
            if rows[i].get("ev") == "q.recv" and rows[i + 1].get("ev") == "q.recv":
                rows[i], rows[i + 1] = rows[i + 1], rows[i]
                return rows
        raise vlib.Undecided("no place to corrupt")

    def key(bad, inv):
        return "queue:%s:%s" % (bad.get("ev", "?"), inv or "rejected")
    vlib.trace_check(ctx, "TraceQueue", "TraceQueue.cfg", tr, "batching queue", key_fn=key, selftest=corrupt,
                     timeout=ctx.pick(900, 3000))
    if st["stuck"]:
        # the run never drained: the 'drained' event is missing, which the spec cannot see; report separately
        ctx.violation("queue:stuck", "queue did not emit everything written within 10 s after a final flush", st)
    ctx.add("traces_validated_against_impl", runs)
    ctx.sample(vlib.read_nd(tr)[1:14])
    ctx.cov["exhaustive"] = False
    ctx.assumptions += ["q.write is emitted under seqMu before the channel send; run-loop events by the single run goroutine",
                        "one consumer: at most one request taken from C but not yet logged"]
