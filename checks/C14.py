"""C14 Non-deterministic SQL is fully and faithfully rewritten.
(A) Rewrite.tla: a grammar of submitted statements -- 26 templates (SELECT / compound / sub-query /
    EXISTS / IN-select / window / VALUES / INSERT VALUES / multi-row / INSERT SELECT / REPLACE /
    UPDATE / UPDATE tuple / UPDATE FROM / DELETE / UPSERT / RETURNING x3 / CTE x4 / multi-statement)
    with 47 clause contexts (slots), a filler expression whose meaning must survive, and 0..3 call
    sites [function, argument / time-value form ('now', 'NOW', implicit, other literal, expression,
    column), modifiers, case, what separates name and parenthesis, expression nesting incl. inside
    a string literal / quoted identifier]; two sites in two clauses or side by side in one clause,
    in either order (one representative per kind of call, deterministic time calls included).  MustRewrite(site) transcribes the property text; Replaced(case, i)
    is the design of the rewriter (pre-filter, parse, walk, recognise) with one switch per mechanism.
    TLC checks Complete (must => replaced), Minimal (replaced => must: ORDER BY random(), strings,
    identifiers, non-'now' time values untouched), Unchanged (nothing to replace => byte-identical),
    OnePinPerStatement, ExclusionsExact / ResidualOnlyExcluded over every enumerated case; one
    negative control per switch.
(B) every enumerated case is rendered and sent through the REAL sql.Process the way the HTTP layer
    calls it; the result is aligned token by token with the parser's own rendering of the original
    (each site: retained / time value pinned / replaced by a literal) and compared with the spec's
    verdict; then executed on real SQLite through rqlite's db package with SQLite's clock driven by
    an LD_PRELOAD shim: rewritten text at the pinned instant == rewritten text 400 days later
    (deterministic) == ORIGINAL text at the pinned instant with the random literals substituted
    (faithful; exact comparison of results and table contents); pinned instant within the rewrite's
    resolution of the wall clock, random literals 64-bit integers, blob literals of length n.
    A clock that advances between readings is injected into Rewriter.Do to show one pin per statement.
    Violation keys name the 1-minimal failing feature set (delta debugging on the real code).
    Self-tests: with rewriting switched off every must-case is reported; with the pinned value /
    literal corrupted every observable case is reported."""
import collections, concurrent.futures, json, os, random, shutil, subprocess, vlib
LEVEL = "model_checking"
TECHNIQUE = "TLA+ grammar + rewriter-design spec, TLC exhaustive with negative controls; every enumerated statement replayed through the real sql.Process and executed on real SQLite under a controlled clock"

SWITCHES = collections.OrderedDict([
    ("PrefilterComplete", "Complete"), ("ImplicitNow", "Complete"), ("FormatOnly", "Complete"), ("SkipOrderBy", "Minimal"),
    ("LeaveStringsIdents", "Minimal"), ("UntouchedIfNoSite", "Unchanged"), ("WalkEverywhere", "Complete"),
    ("OnePin", "OnePinPerStatement"), ("SiteIndependent", "Complete")])
PAR = 4


def build_shim(ctx):
    src = os.path.join(vlib.ROOT, "harness", "timeshim", "shim.c")
    out = os.path.join(ctx.scratch, "timeshim.so")
    cc = shutil.which("clang") or shutil.which("gcc") or shutil.which("cc")
    if not cc:
        raise vlib.Undecided("no C compiler for the clock shim")
    p = subprocess.run([cc, "-shared", "-fPIC", "-O1", "-o", out, src, "-ldl"], capture_output=True, text=True)
    if p.returncode != 0:
        raise vlib.Undecided("clock shim does not build:\n" + p.stderr[-2000:])
    return out


def replay(ctx, shim, cases, mode, tag, env=None, extra=()):
    """Run the harness over the cases in PAR processes; returns (summed stats, kinds, samples, rows)."""
    n = max(1, min(PAR, len(cases) // 200 + 1))
    chunks = [cases[i::n] for i in range(n)]

    def one(i):
        inp = os.path.join(ctx.scratch, "%s.%d.ndjson" % (tag, i))
        out = os.path.join(ctx.scratch, "%s.%d.out.ndjson" % (tag, i))
        vlib.write_nd(inp, chunks[i])
        tf = os.path.join(ctx.scratch, "%s.%d.clock" % (tag, i))
        open(tf, "w").write("\n")
        p = ctx.run_harness(["rewrite-replay", "-in", inp, "-out", out, "-mode", mode] + list(extra), timeout=3000,
                            env=dict(env or {}, LD_PRELOAD=shim, VERIF_TIME_FILE=tf))
        return json.loads(p.stdout.strip().splitlines()[-1]), vlib.read_nd(out)

    ctx.harness()      # build once, before the threads
    with concurrent.futures.ThreadPoolExecutor(max_workers=n) as ex:
        res = list(ex.map(one, range(n)))
    stats, kinds, samples, rows = collections.Counter(), collections.Counter(), [], []
    for st, rw in res:
        if not st.get("shim"):
            raise vlib.Undecided("clock shim not active in the harness process")
        stats.update(st["stats"])
        kinds.update(st["kinds"])
        samples += st["samples"] or []
        rows += rw
    return stats, kinds, samples, rows


def run(ctx):
    gen = "Rewrite_gen_full.cfg" if ctx.thorough else "Rewrite_gen.cfg"
    with concurrent.futures.ThreadPoolExecutor(max_workers=PAR + 1) as ex:
        # the generator configuration also checks every design invariant on every case it prints, so it is
        # the exhaustive model check of the enumerated sets; Rewrite_mc*.cfg is the same run without printing
        f_gen = ex.submit(vlib.tlc_cases, ctx, "Rewrite", gen, timeout=3000, heap="4g")
        f_mc = ex.submit(vlib.tlc_mc, ctx, "Rewrite", "Rewrite_mc_full.cfg", coverage=False, workers=1, timeout=3000, heap="4g") if ctx.thorough else None
        f_neg = [ex.submit(vlib.tlc_neg, ctx, "Rewrite", "Rewrite_neg_%s.cfg" % sw, expect=inv, workers=1, heap="2g")
                 for sw, inv in SWITCHES.items()]
        cases, r = f_gen.result()
        if f_mc:
            f_mc.result()
        else:
            ctx.add("states", r["distinct"])
            ctx.add("transitions", r["generated"])
            ctx.cov.setdefault("tlc_models", []).append({"module": "Rewrite", "cfg": gen, "distinct": r["distinct"], "generated": r["generated"],
                                                         "depth": r["depth"], "wall_s": r["wall_s"]})
        for f in f_neg:
            f.result()
    if not cases:
        raise vlib.Undecided("generator produced no cases")
    random.Random(ctx.seed).shuffle(cases)          # order independence: one scratch database, one clock file per process
    shim = build_shim(ctx)

    # binding self-tests: the replay must notice a rewriter that does nothing / a wrong pinned value
    st0, _, _, _ = replay(ctx, shim, cases, "norewrite", "st0")
    if st0["must_cases"] == 0 or st0["selftest_flagged"] != st0["must_cases"]:
        raise vlib.Undecided("self-test: with rewriting off %d of %d must-rewrite cases were reported" % (st0["selftest_flagged"], st0["must_cases"]))
    sub = [c for c in cases if len(c["sites"]) == 1 and c["fill"] == "none" and c["sites"][0]["must"] and c["sites"][0]["nest"] == "bare"
           and c["sites"][0]["mod"] in ("none", "plus")
           and (c["tpl"], c["sites"][0]["slot"]) in (("insval", "values"), ("values", "values"), ("update", "set"), ("replace", "values"))]
    st1, _, _, rows1 = replay(ctx, shim, sub, "perturb", "st1")
    if st1["rewritten"] == 0 or st1["selftest_flagged"] != st1["rewritten"]:
        raise vlib.Undecided("self-test: %d of %d corrupted rewrites were reported; e.g. %s"
                             % (st1["selftest_flagged"], st1["rewritten"], [x for x in rows1 if x.get("unflagged")][:2]))
    ctx.cov["binding_selftests"] = [
        {"what": "Process with rewriting off: every case with a must-rewrite site reported", "cases": st0["must_cases"], "reported": st0["selftest_flagged"]},
        {"what": "pinned value / literal corrupted after Process: every observable case reported", "cases": st1["rewritten"], "reported": st1["selftest_flagged"]}]

    stats, kinds, samples, rows = replay(ctx, shim, cases, "check", "run")
    if stats["cases"] != len(cases):
        raise vlib.Undecided("replayed %d of %d cases" % (stats["cases"], len(cases)))
    # the node's time zone must not matter: SQLite's 'now' is UTC.  Same replay, single-site cases, TZ=Asia/Kolkata (+05:30)
    tzc = [c for c in cases if len(c["sites"]) == 1 and c["fill"] == "none" and c["sites"][0]["nest"] == "bare" and c["sites"][0]["gap"] == "none"
           and c["sites"][0]["fn"] not in ("random", "randomblob")
           and (c["tpl"], c["sites"][0]["slot"]) in (("select", "proj"), ("insval", "values"), ("update", "set"), ("insret", "returning"))]
    if os.path.exists("/usr/share/zoneinfo/Asia/Kolkata"):
        stz, ktz, _, rtz = replay(ctx, shim, tzc, "check", "tz", env={"TZ": "Asia/Kolkata"}, extra=["-key-suffix", "+tz=nonutc"])
        ctx.cov["nonutc_run"] = {"cases": stz["cases"], "rewritten": stz["rewritten"], "kinds": dict(ktz)}
        stats["sqlite_runs"] += stz["sqlite_runs"]
        stats["cases_nonutc"] = stz["cases"]
        rows += [x for x in rtz if x.get("key") and x["key"].startswith("rewrite:badvalue:")]
    else:
        ctx.assumptions.append("no zoneinfo database: the non-UTC run was skipped")
    gaps = [x for x in rows if x.get("specgap")]
    if gaps:
        raise vlib.Undecided("the spec's MustRewrite disagrees with SQLite (a statement without a must-rewrite site is time dependent): %s" % gaps[0]["in"])
    ctx.cov["driver"] = dict(stats)
    ctx.cov["violation_kinds"] = dict(kinds)
    ctx.add("evaluations", stats["sqlite_runs"] + stats["cases"])
    ctx.add("distinct_nontrivial", stats["distinct_nontrivial"])
    ctx.add("traces_validated_against_impl", stats["cases"])
    ctx.cov["rule"] = ("TLC-enumerated statements (templates x clause contexts x call-site forms x fillers, 1..3 sites); evaluations = "
                       "statements sent through sql.Process + executions on real SQLite; non-trivial = distinct statement texts that "
                       "were rewritten and whose rewritten / original / time-shifted executions were compared")
    ctx.cov["exhaustive"] = True
    for s in samples[:5]:
        ctx.sample(s)
    refused = [x for x in rows if x.get("kind") == "error"]
    if refused:
        # the request is answered with an error and nothing is replicated: not what the property forbids, recorded only
        ctx.cov["refused_statements"] = {"cases": len(refused), "example": refused[0]["in"], "error": refused[0]["detail"]}
    for m in rows:
        if not m.get("key") or m.get("kind") == "error":
            continue
        ctx.violation(m["key"], "%s: %s  [%s -> %s]" % (m["kind"], m["detail"], m["in"], m["out"]),
                      {"kind": m["kind"], "in": m["in"], "out": m["out"], "detail": m["detail"], "case": m["case"]})
    ctx.assumptions += [
        "SQLite's clock is moved with an LD_PRELOAD shim over gettimeofday/clock_gettime/time (harness/timeshim); Go's clock is unaffected",
        "statements are executed through rqlite's db.Request on a scratch database (table t(id, a, b), three rows), reset between executions",
        "the parser's own rendering of the original statement is the reference for the token alignment; its fidelity is judged by the execution comparison",
        "a request that sql.Process answers with an error is not replicated and is recorded, not counted as a violation"]
