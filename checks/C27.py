"""C27 CDC events describe exactly the rows changed.
(A) CDCEvents.tla: step-by-step model of event production - statement classes (insert, multi-row
    insert failing on a later row, update one / all / failing on row k / changing the rowid, delete
    one / all, INSERT OR REPLACE, UPSERT, prepare failure, BEGIN / COMMIT / ROLLBACK / SAVEPOINT /
    RELEASE / ROLLBACK TO inside a request, request-level transaction flag with rollback on failure,
    AFTER INSERT / AFTER DELETE triggers writing a second table) over two tables; machinery: the
    preupdate hook (table filter, row-ids-only) appends to the pending list, statement / transaction /
    savepoint rollback drop the pending events of the undone work, the commit hook flushes one group
    per commit (only for write transactions), Reset per request.  TLC exhaustive over all sessions of
    <= 3 (thorough: 4) statements in <= 2 requests x trigger/filter/ids settings: Exact (delivered
    groups = row changes of the committed work per commit, in order, projected by filter / ids-only),
    NoStale, DiffSound (replaying the committed changes over the initial rows gives the committed
    rows), Quiescent; negative controls DropRolledBack, GroupPerCommit, FilterTables, IdsOnly.
(B) every session TLC generates (all sessions of <= 2 statements in <= 2 requests, all one-request
    sessions of <= 4 statements over {insert, multi-row insert, BEGIN, COMMIT, ROLLBACK, SAVEPOINT,
    RELEASE, ROLLBACK TO}; thorough: also all one-request sessions of 3 statements) and seeded random longer sessions (4..9 statements, 3 rowids,
    expectations computed by TLC from the same spec) are concretised over typed columns (INTEGER
    rowid alias / implicit rowid, INTEGER, REAL, TEXT, BLOB, untyped; NULLs, 64-bit extremes, empty and
    long texts/blobs) and run on a REAL database through db.Request and db.Execute with the REAL
    CDCStreamer hooks registered as store.fsmApply does, in all four (filter, ids-only) modes; the
    delivered groups are compared (1) with the spec's groups and (2) with a shadow copy of the rows
    dumped through a second connection at every commit hook (group replayed over the rows before the
    commit must give the rows after it: rowid, operation, before/after values with storage classes),
    (3) through cdc/json marshalling; a subset runs through a one-node store with Store.EnableCDC.
    Outside the spec's alphabet, judged by the shadow rows only: statements changing thousands of rows
    (one group / several groups) and schema changes (CREATE TABLE, ADD / RENAME COLUMN) in the same
    transaction, request or an earlier request than the rows written.
(C) the observed groups are validated by TraceCDCEvents.tla (one line per session and mode)."""
import json, os, threading, vlib
LEVEL = "model_checking"
TECHNIQUE = "TLA+ model of CDC event production (TLC exhaustive, 4 negative controls); spec-generated and random sessions replayed on the real db/store hooks, judged by the spec, a shadow row diff and a trace spec"

SWITCHES = ("DropRolledBack", "GroupPerCommit", "FilterTables", "IdsOnly")
ACTIONS = {"ins": "DoIns", "insm": "DoInsMany", "upd": "DoUpd", "updall": "DoUpdAll", "updfail": "DoUpdFail", "updkey": "DoUpdKey",
           "del": "DoDel", "delall": "DoDelAll", "repl": "DoReplace", "upsert": "DoUpsert", "failprep": "DoFailPrep",
           "begin": "DoTxCtl", "commit": "DoTxCtl", "rollback": "DoTxCtl",
           "savepoint": "DoSpCtl", "release": "DoSpCtl", "rollbackto": "DoSpCtl"}


def _parallel(jobs):
    """Run independent TLC jobs concurrently (each with few workers); re-raise the first failure."""
    res, errs = {}, []

    def wrap(name, fn):
        try:
            res[name] = fn()
        except BaseException as e:       # noqa
            errs.append(e)
    ths = [threading.Thread(target=wrap, args=(n, f)) for n, f in jobs]
    for t in ths:
        t.start()
    for t in ths:
        t.join()
    if errs:
        raise errs[0]
    return res


def run(ctx):
    ctx.harness()
    res = {}

    # ---- (A) design, vacuity, negative controls; (B) generators + replay: independent pipelines run
    # concurrently (<= 5 JVMs, <= 6 TLC workers in total at any time)
    def negs():
        return [vlib.tlc_neg(ctx, "CDCEvents", "CDCEvents_neg_%s.cfg" % sw, expect="Exact", workers=1) for sw in SWITCHES]

    def models():
        out = [vlib.tlc(ctx, "CDCEvents", ctx.pick("CDCEvents_mc.cfg", "CDCEvents_mc3.cfg"), workers=ctx.pick(2, 3), timeout=3000, coverage=False)]
        if ctx.thorough:
            out.append(vlib.tlc(ctx, "CDCEvents", "CDCEvents_mc4.cfg", workers=4, timeout=3400, coverage=False, heap="12g"))
        return out

    def replay(name, cases, every, tracemax):
        inp = os.path.join(ctx.scratch, name + ".cases.ndjson")
        out = os.path.join(ctx.scratch, name + ".mismatch.ndjson")
        tr = os.path.join(ctx.scratch, name + ".trace.ndjson")
        vlib.write_nd(inp, cases)
        p = ctx.run_harness(["cdcev-replay", "-in", inp, "-out", out, "-trace", tr, "-every", str(every),
                             "-execevery", str(ctx.pick(2, 1)), "-tracemax", str(tracemax)] + (["-bulk", str(ctx.pick(2000, 20000))] if name == "rand" else []), timeout=3000)
        st = json.loads(p.stdout.strip().splitlines()[-1])
        return {"stat": st["stat"], "samples": st["samples"], "mism": vlib.read_nd(out), "trace": vlib.read_nd(tr), "cases": cases}

    def gen_pipeline():
        cfgs = ["CDCEvents_gen2.cfg", "CDCEvents_gen4c.cfg"] + (["CDCEvents_gen3.cfg"] if ctx.thorough else [])
        one = lambda cfg: vlib.tlc_cases(ctx, "CDCEvents", cfg, timeout=3000)[0]
        if ctx.thorough:
            cases = [c for cfg in cfgs for c in one(cfg)]
        else:       # the two small generators side by side
            got = _parallel([(cfg, (lambda cfg=cfg: one(cfg))) for cfg in cfgs])
            cases = [c for cfg in cfgs for c in got[cfg]]
        if len(cases) < 1000:
            raise vlib.Undecided("generator produced too few sessions (%d)" % len(cases))
        return replay("gen", cases, ctx.pick(4, 2), ctx.pick(1500, 6000))

    def rand_pipeline():
        progs = os.path.join(ctx.scratch, "progs.ndjson")
        ctx.run_harness(["cdcev-gen", "-out", progs, "-n", str(ctx.pick(150, 2500))])
        cases, r = vlib.tlc_cases(ctx, "CDCEventsEval", "CDCEventsEval.cfg", files={progs: "progs.ndjson"}, timeout=3000)
        if len(cases) < 100:
            raise vlib.Undecided("evaluator produced too few sessions (%d)" % len(cases))
        out = replay("rand", cases, 1, 1 << 30)
        # one-node store: per-log-entry Reset, hooks registered by fsmApply
        store_in = os.path.join(ctx.scratch, "store.cases.ndjson")
        vlib.write_nd(store_in, cases)
        out["store"] = []
        for extra in ([], ["-filter", "-ids"]):
            o = os.path.join(ctx.scratch, "store%d.mismatch.ndjson" % len(extra))
            p = ctx.run_harness(["cdcev-store", "-in", store_in, "-out", o, "-max", str(ctx.pick(150, 1200))] + extra, timeout=3000)
            st = json.loads(p.stdout.strip().splitlines()[-1])
            out["store"].append(("store" + "".join(extra), st["stat"], vlib.read_nd(o)))
        return out

    res = _parallel([("negs", negs), ("models", models), ("gen", gen_pipeline), ("rand", rand_pipeline)])

    for r in res["models"]:
        if r["violated"]:
            raise vlib.Undecided("design model CDCEvents/%s violates %s (spec defect, not a code verdict)\n%s"
                                 % (r["cfg"], r["violated"], r["out"][-4000:]))
        ctx.add("states", r["distinct"])
        ctx.add("transitions", r["generated"])
        ctx.cov.setdefault("tlc_models", []).append({k: r[k] for k in ("module", "cfg", "distinct", "generated", "depth", "wall_s")})
    # vacuity: how often each action of the spec was taken in the behaviours TLC enumerated (the generated
    # sessions ARE the behaviours of CDCEvents.tla within the generator bounds; -coverage is too slow here)
    acts = {a: 0 for a in ACTIONS.values()}
    acts.update({"StartRequest": 0, "EndRequest": 0, "Skipped": 0})
    for c in res["gen"]["cases"]:
        acts["StartRequest"] += len(c["sess"])
        acts["EndRequest"] += len(c["sess"])
        acts["Skipped"] += c["sk"]
        for rq in c["sess"]:
            for st in rq["s"]:
                acts[ACTIONS[st["op"]]] += 1
    acts["DoIns"] -= acts["Skipped"]        # skipped statements are recorded as the canonical insert
    dead = [a for a, n in acts.items() if n <= 0]
    if dead:
        raise vlib.Undecided("vacuous actions in CDCEvents: %s" % dead)
    ctx.cov["actions_taken_in_enumerated_sessions"] = acts

    gen_cases, rnd_cases = res["gen"]["cases"], res["rand"]["cases"]
    mism = res["gen"]["mism"] + res["rand"]["mism"]
    traces = res["gen"]["trace"] + res["rand"]["trace"]
    stats = [("gen", res["gen"]["stat"]), ("rand", res["rand"]["stat"])]
    for name, st, mm in res["rand"]["store"]:
        stats.append((name, st))
        mism += mm
    for s in res["gen"]["samples"] + res["rand"]["samples"]:
        ctx.sample(s, limit=4)

    runs = sum(s.get("runs", s.get("sessions", 0)) for _, s in stats)
    ctx.add("evaluations", runs)
    ctx.add("distinct_nontrivial", sum(1 for c in gen_cases + rnd_cases if c["want"]))
    ctx.cov["sessions_with_undone_work"] = sum(1 for c in gen_cases + rnd_cases if c["stale"])
    ctx.cov["replay"] = dict(stats)
    ctx.cov["rule"] = ("sessions = all TLC-enumerated sessions within the generator bounds + seeded random longer ones; each run in "
                       "full mode on db.Request and db.Execute and in the filter / ids-only / filter+ids modes; non-trivial = the "
                       "session delivers at least one event group; distinct by construction (TLC states / distinct random programs)")
    for m in mism:
        ctx.violation(m["key"], "%s [%s, filter=%s ids=%s trig=%s] sql=%s: want %s, delivered %s"
                      % (m["detail"], m["path"], m["filter"], m["ids"], m["trig"], json.dumps(m["sql"])[:1500],
                         json.dumps(m["want"])[:800], json.dumps(m["got"])[:800]), m)

    # ---- (C) the observed groups judged by the trace spec
    tr = os.path.join(ctx.scratch, "cdcev.trace.ndjson")
    vlib.write_nd(tr, traces)

    def corrupt(rows):
        for i, r in enumerate(rows):
            if r["groups"] and not r["k"]:
                r["groups"][-1][-1]["n"] += 7
                return rows[max(0, i - 20):i + 20]
        raise vlib.Undecided("nothing to corrupt")

    def key(bad, inv):
        ops = sorted({s["op"] for rq in bad.get("sess", []) for s in rq["s"]})
        return "cdcev:trace-rejected:filter=%s:ids=%s:trig=%s:ops=%s" % (bad.get("filter"), bad.get("ids"), bad.get("trig"), "+".join(ops))
    r = vlib.trace_check(ctx, "TraceCDCEvents", "TraceCDCEvents.cfg", tr, "CDC event groups", key_fn=key, selftest=corrupt,
                         timeout=ctx.pick(900, 3000), dfs=False)
    if r["accepted"]:
        known = set()
        for l in r["out"].splitlines():
            if l.startswith('<<"@@KNOWN"'):
                known.add(int(l.split(",")[1].strip(" >")))
        go_known = {i + 1 for i, t in enumerate(traces) if t["k"].startswith("cdcev:extra:rolled-back:")}
        if known != go_known:
            raise vlib.Undecided("the two judges disagree on %d trace lines (spec says as-written: %s..., harness: %s...)"
                                 % (len(known ^ go_known), sorted(known - go_known)[:3], sorted(go_known - known)[:3]))
        ctx.cov["trace_lines_matching_as_written_streamer"] = len(known)
    ctx.add("traces_validated_against_impl", len(traces))
    ctx.cov["exhaustive"] = True
    ctx.cov["exhaustive_part"] = "all sessions within the generator bounds (%d); the %d random longer sessions are a sample" % (len(gen_cases), len(rnd_cases))
    ctx.assumptions += [
        "row contents abstracted to a token in the spec; concrete typed values are judged by the shadow row diff (typeof/quote through a second connection inside the commit hook)",
        "a REAL-affinity column value reported as INTEGER with the identical numeric value (SQLite's preupdate_new on INSERT) is counted, not flagged: it renders identically in the CDC JSON",
        "WITHOUT ROWID tables, DDL inside a session and ON CONFLICT FAIL/ROLLBACK clauses are not generated",
        "the harness wraps CDCStreamer.CommitHook only to take the shadow dump; Reset(index) is called before each request as store.fsmApply does (the store itself is exercised by the one-node subset)",
    ]
