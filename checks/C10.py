"""C10 Snapshot transfer installs exactly the source data or nothing.
(A) Transfer.tla: the stream framing (length prefix, header{db{size,crc}, wals[{size,crc}]}, db, WALs) in
    cells (first / interior / last byte of every file), one optional mutation (flip, drop, insert, truncate at
    every cell, trailing data, 13 kinds of header edit incl. dropped / added / swapped WAL entries and a missing
    database entry, checksum cleared), COMPOUND mutations (one file's header entry edited AND that file's payload
    altered: checksum cleared / its tag bit flipped x payload byte altered; size -1/+1 x payload one byte shorter /
    longer), optional transport wrapper, and both acceptors transcribed from the code: the sink phase
    machine (Sink.Write header buffering + FullSink.Write/advance/Close, driven like raft's installSnapshot)
    under EVERY split of the stream into writes, and snapshot.Restore.  TLC exhaustive for 0..2 WALs:
    Accepted => installed = source, Mutated => not accepted, unmutated => installed, outcome independent of the
    split - for both acceptors; one negative control per mechanism (CheckSizes, CRCOnInstall, CRCOnRestore,
    RejectTrailing, ValidateFiles, CompressionTransparent, ZeroCRCCompared).
(B) every generated case is concretised on source snapshots built in a REAL snapshot store from real SQLite
    databases (full only, full + 1 / 2 incrementals opened through the chain, an installed full+WALs
    directory; 512- and 4096-byte pages), opened with the real streamer, mutated at the byte offsets of the
    cell (every offset of the small shapes in the thorough tier; all 8 bit flips of every header byte),
    split into writes (7 patterns), with and without the NodeTransport zstd compressor/decompressor pair
    (incl. raft's LimitReader(req.Size)), and fed to a second store's sink and to snapshot.Restore; plus
    corruption of the compressed wire bytes, transfers through the real NodeTransport over loopback TCP,
    and an incompressible snapshot whose wire form is longer than its declared size.
(C) the observed outcomes (installed / error / nothing / panic, installed == source) are trace lines
    validated by TraceTransfer.tla against the design's acceptors."""
import concurrent.futures as cf
import json, os, re, vlib

LEVEL = "model_checking"
TECHNIQUE = "TLA+ spec of the snapshot stream framing, sink phase machine and Restore; TLC exhaustive over cells x mutations x write splits; cases replayed byte-for-byte on the real store/sink/Restore, outcomes validated by a trace spec"

SWITCHES = (("CheckSizes", "SinkMutatedRejected"), ("CRCOnInstall", "SinkAcceptedIsSource"), ("CRCOnRestore", "RestoreAcceptedIsSource"),
            ("RejectTrailing", "RestoreAcceptedIsSource"), ("ValidateFiles", "SinkAcceptedIsSource"),
            ("CompressionTransparent", "SinkUnmutatedInstalls"), ("ZeroCRCCompared", "SinkAcceptedIsSource"))
KEEP = ("nw", "mut", "comp", "layer", "acceptor", "changed", "outcome", "same")


OKSAME = ("yes", "logical")


def line_key(r):
    """Violation key of a line the trace spec rejected: the class of input, never the bytes."""
    acc = r["outcome"] == "installed"
    tr = ""
    if r["layer"] != "stream":
        tr += ":layer=" + r["layer"]
    if r["comp"] != "none":
        tr += ":comp=" + r["comp"]
    if acc and r["changed"]:
        data = "same" if r["same"] in OKSAME else "different"
        return "transfer:accepted-mutated:acceptor=%s:mut=%s:data=%s%s" % (r["acceptor"], r["mutkey"], data, tr)
    if acc:
        return "transfer:installed-differs:acceptor=%s:mut=%s%s" % (r["acceptor"], r["mutkey"], tr)
    return "transfer:rejected-unmutated:acceptor=%s:mut=%s:outcome=%s%s" % (r["acceptor"], r["mutkey"], r["outcome"], tr)


def run(ctx):
    cases, _ = vlib.tlc_cases(ctx, "Transfer", "Transfer_gen.cfg")
    if len(cases) < 330:
        raise vlib.Undecided("generator produced only %d cases" % len(cases))
    inp = os.path.join(ctx.scratch, "transfer.cases.ndjson")
    tr = os.path.join(ctx.scratch, "transfer.trace.ndjson")
    vlib.write_nd(inp, cases)
    ctx.harness()          # build before the threads start

    def harness():
        return ctx.run_harness(["transfer-replay", "-in", inp, "-out", tr, "-scratch", ctx.sub("stores"), "-big", "1"],
                               timeout=ctx.pick(900, 3000))

    def design():
        vlib.tlc_mc(ctx, "Transfer", "Transfer_mc.cfg", workers=2)

    def neg(sw, inv):
        vlib.tlc_neg(ctx, "Transfer", "Transfer_neg_%s.cfg" % sw, expect=inv, workers=1)

    # the replay (one Go process, mostly I/O) runs while TLC checks the design and the negative controls
    with cf.ThreadPoolExecutor(max_workers=4) as ex:
        fh = ex.submit(harness)
        fs = [ex.submit(design)] + [ex.submit(neg, sw, inv) for sw, inv in SWITCHES]
        for f in fs:
            f.result()
        p = fh.result()
    st = json.loads(p.stdout.strip().splitlines()[-1])
    rows = vlib.read_nd(tr)
    if any(r["outcome"] == "harness-error" for r in rows):
        bad = [r for r in rows if r["outcome"] == "harness-error"][0]
        raise vlib.Undecided("harness could not run a case: %s" % json.dumps(bad)[:600])
    if st.get("node_err"):
        raise vlib.Undecided("NodeTransport pair could not be set up: %s" % st["node_err"])
    ctx.add("evaluations", st["runs"])
    ctx.cov["replay"] = {k: st[k] for k in ("runs", "lines", "cases", "shapes", "wire_runs", "node_runs", "big", "wall_s")}
    ctx.cov["rule"] = ("every abstract case x every source shape with that many WALs x the byte offsets of the cell "
                       "(thorough: every offset on the 512-byte-page shapes) x both acceptors; header bytes: all 8 single-bit flips + 0xff")
    ctx.cov["outcomes"] = {}
    for r in rows:
        k = "%s/%s/%s" % (r["acceptor"], "changed" if r["changed"] else "unchanged", r["outcome"])
        ctx.cov["outcomes"][k] = ctx.cov["outcomes"].get(k, 0) + r["n"]
    ctx.cov["sink_close_nil_nothing_installed"] = sum(r["n"] for r in rows if r["outcome"] == "nothing")
    ctx.cov["restore_panics"] = sum(r["n"] for r in rows if r["outcome"] == "panic")

    # project to what the trace spec reads; identical projections are one line
    proj, back = [], {}
    for r in rows:
        pr = {k: r[k] for k in KEEP}
        pr["mutkey"] = r["mutkey"]
        s = json.dumps(pr, sort_keys=True)
        if s not in back:
            back[s] = []
            proj.append(pr)
        back[s].append(r)
    ctx.cov["trace_lines"] = len(proj)

    def corrupt(rs):
        for r in rs:
            if r["layer"] == "stream" and r["mut"]["kind"] == "flip" and r["mut"]["sec"] == "db" and r["outcome"] == "error":
                r["outcome"], r["same"] = "installed", "yes"
                return rs
        raise vlib.Undecided("nothing to corrupt")

    def validate(lines, name):
        """One TLC run over the projected lines; returns the indices TraceTransfer flagged."""
        path = os.path.join(ctx.scratch, name)
        vlib.write_nd(path, lines)
        r = vlib.tlc_trace(ctx, "TraceTransfer", "TraceTransfer.cfg", path, timeout=ctx.pick(600, 1800))
        badix = sorted({int(m) - 1 for m in re.findall(r'@@BAD", (\d+)', r["out"])})
        hw = r["hw"] if r["hw"] is not None else len(lines)
        if not r["accepted"] and not badix:
            raise vlib.Undecided("TraceTransfer failed without flagging a line (consumed %s of %d):\n%s" % (r["hw"], len(lines), r["out"][-2500:]))
        if hw < len(lines):
            raise vlib.Undecided("TraceTransfer consumed only %d of %d lines:\n%s" % (hw, len(lines), r["out"][-2500:]))
        return badix

    # binding self-test in the same run: a copy of a correctly rejected line, altered to "installed", is
    # appended and MUST be flagged
    st_line = corrupt([dict(x) for x in proj])
    st_line = [x for x, y in zip(st_line, proj) if x != y][0]
    flagged = validate(proj + [st_line], "transfer.proj.ndjson")
    if len(proj) not in flagged:
        raise vlib.Undecided("binding self-test failed: TraceTransfer did not flag the corrupted line")
    flagged = [i for i in flagged if i < len(proj)]
    ctx.cov.setdefault("binding_selftests", []).append({"module": "TraceTransfer", "rejected_corrupted_trace": True})
    byk = {}
    for i in flagged:
        badp = proj[i]
        byk.setdefault(line_key(badp), []).append(badp)
    for key, bads in sorted(byk.items()):
        badp = bads[0]
        full = [x for bp in bads for x in back[json.dumps({k: bp[k] for k in list(KEEP) + ["mutkey"]}, sort_keys=True)]]
        what = ("%s %s a stream with mutation %s (%s, transport %s/%s): outcome %s, installed data %s; e.g. shape %s %s"
                % (badp["acceptor"], "accepted" if badp["outcome"] == "installed" else "did not install", badp["mutkey"],
                   "delivered bytes differ from the source" if badp["changed"] else "delivered bytes equal the source",
                   badp["layer"], badp["comp"], badp["outcome"], badp["same"], full[0]["shape"], json.dumps(full[0]["ex"])[:300]))
        ctx.violation(key, what, {"line": badp, "runs": sum(x["n"] for x in full),
                                  "examples": [{"shape": x["shape"], "split": x["split"], "ex": x["ex"], "more": (x.get("exs") or [])[:12], "errs": x["errs"]} for x in full[:8]]})
    ctx.add("traces_validated_against_impl", st["runs"])
    ctx.add("trace_events", len(proj))
    for r in rows[:2] + [x for x in rows if x["mut"]["kind"] == "hdr"][:2] + [x for x in rows if x["layer"] == "node"][:2]:
        ctx.sample({k: r[k] for k in ("shape", "mutkey", "comp", "layer", "acceptor", "split", "changed", "outcome", "same", "n")})
    ctx.cov["exhaustive"] = bool(ctx.thorough)
    ctx.assumptions += [
        "Accepted means a snapshot became visible in the receiving store (sink) / Restore returned nil; a sink Close that returns nil after an "
        "incomplete header installs nothing and counts as 'nothing installed' (raft's own size check turns it into an error)",
        "a panic inside snapshot.Restore (nil database entry in a corrupted header) counts as a failed restore",
        "CRC32 is treated as an ideal checksum in the spec; on the real bytes only single-byte flips, single drops/inserts, truncations and "
        "extensions are applied, all of which CRC-32C detects",
        "header-length flips that would declare a header of 1 MiB .. 4 GiB are represented by one 1 MiB case (Restore allocates the declared length)",
        "quick tier samples the byte offsets of a cell (ends, SQLite/WAL structure offsets, random); the thorough tier takes every offset on the small shapes",
    ]
