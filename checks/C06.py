"""C06 Incremental WAL segments stay correct under busy and partial checkpoints.
(A) Checkpoint.tla: SQLite's WAL in versioned-page terms (frames [pg, ver, commit], nBackfill, WAL
    header/salt, reader marks incl. db-only readers on read-lock 0; Write appends or restarts the WAL;
    TRUNCATE checkpoint with its outcomes truncated / busy-partial / all-moved-not-truncated) +
    db.CheckpointManager.Checkpoint as its real steps (stat, salt, WALResetWatch.Check, compact from
    start, checkpoint, classify -> disarm | busy error | arm) + the store's segment Cancel/Close.
    Exhaustive for 3 pages, <=4 writes, 2 readers started/stopped at every position (any number of
    times), <=4 attempts (thorough; 2 pages, 3 writes, 3 attempts in the quick tier): RebuildOK (previous snapshot + captured
    segments = live database at every successful attempt), NoSegmentAfterFailure, ResetDetected,
    NoSpuriousReset, NoRecapture, ArmedSane, SegWellFormed.  One negative control per switch
    (DisarmOnTruncate, ArmOnAllMoved, ResumeFromArmed, ResetBySalt, CancelOnError, BusyKeepsState);
    each counterexample is a witness schedule that is replayed on the real code.
(B) CheckpointGen.tla emits, for every distinct reachable state of the model, a shortest schedule to
    it followed by a checkpoint attempt; plus the witnesses, plus seeded random schedules beyond the
    exhaustive bound (4 pages, 3 readers, up to 24 steps).  Each schedule is replayed on a REAL SQLite
    database in WAL mode, readers being real read transactions on separate connections:
      db layer    db.SwappableDB / CheckpointManager / snapshot.StagingDir as the store wires them,
                  rebuild = previous snapshot's file + every staged segment through db.ReplayWAL;
      store layer a real single-node store.Store: Store.Execute, Store.Snapshot -> the real
                  fsmSnapshot (segment Cancel / Close) -> Persist; rebuild = snapshot.Restore of the
                  snapshot store's newest snapshot.
(C) every step (schedule step, ckpt.* hook events of the manager, and after each attempt the meta, the
    exported watch state, the segment files on disk, the new segment's frames, the live database and
    the rebuilt database) is one trace line; TraceCheckpoint.tla replays Checkpoint.tla's actions over
    it, binding SQLite's choices from the log, and names every departure of the real code from the
    design and every invariant that is false in the state the real run reached."""
import concurrent.futures as cf
import json
import os
import random
import re
import shutil
import tempfile

import vlib

LEVEL = "model_checking"
TECHNIQUE = ("TLA+ spec of SQLite WAL/checkpoint semantics + rqlite CheckpointManager/store segment handling; TLC "
             "exhaustive + negative controls; TLC-generated, witness and random schedules replayed on real SQLite "
             "(db layer and a real single-node store) with real readers, every step validated by a trace spec")

SWITCHES = (("DisarmOnTruncate", "NoSpuriousReset"), ("ArmOnAllMoved", "RebuildOK"), ("ResumeFromArmed", "NoRecapture"),
            ("ResetBySalt", "ResetDetected"), ("CancelOnError", "NoSegmentAfterFailure"), ("BusyKeepsState", "RebuildOK"))
ACTIONS = ("ReaderStart", "ReaderStop", "Write", "SqCkpt", "CkBeginWith", "CkCheckWith", "CkCompact", "CkClassify", "StoreFinish")


def _wrapped_counts(out):
    acts = {}
    for m in re.finditer(r"^<(\w+) line \d+, col \d+ to line \d+, col \d+ of module Checkpoint \([\d ]+\)>: (\d+):(\d+)", out, re.M):
        acts[m.group(1)] = acts.get(m.group(1), 0) + int(m.group(3))
    return acts


def model_check(ctx):
    if ctx.thorough:
        # the full bound without per-expression coverage (it costs ~25%); action coverage is read off the small bound
        vlib.tlc_mc(ctx, "Checkpoint", "Checkpoint_mc.cfg", workers=6, timeout=3300, heap="12g", coverage=False)
    r = vlib.tlc_mc(ctx, "Checkpoint", "Checkpoint_mc_quick.cfg", workers=ctx.pick(3, 1), timeout=900)
    w = dict(r["actions"])
    w.update(_wrapped_counts(r["out"]))      # actions reached through a wrapper definition (vlib does not parse those lines)
    dead = [a for a in ACTIONS if not w.get(a)]
    if dead:
        raise vlib.Undecided("vacuous actions in Checkpoint: %s" % dead)
    ctx.cov["tlc_models"][-1]["actions"] = w
    ctx.cov["exhaustive_bound"] = ("3 pages (up to renaming), <=4 writes, 2 readers started/stopped at every position any number of times, <=4 attempts"
                                   if ctx.thorough else "2 pages, <=3 writes, 2 readers started/stopped at every position, <=3 attempts (quick tier)")


def allpoints(ctx):
    # readers moving at every step of an attempt (not only between attempts and right before the SQLite
    # call), and no page-order symmetry breaking: the two reductions of Checkpoint_mc.cfg switched off
    vlib.tlc_mc(ctx, "Checkpoint", "Checkpoint_mc_allpoints.cfg", workers=2, timeout=3000, coverage=False)


def _ops(o):
    return [{k: v for k, v in op.items() if v not in (0, [])} for op in o["ops"]]


def controls(ctx):
    """negative controls; returns the witness schedules {switch: ops}"""
    def one(sw_inv):
        sw, inv = sw_inv
        r = vlib.tlc_neg(ctx, "CheckpointGen", "Checkpoint_neg_%s.cfg" % sw, expect="W" + inv, workers=1, timeout=1200, heap="3g")
        m = re.search(r'^<<"@@W", (".*")>>$', r["out"], re.M)
        if not m:
            raise vlib.Undecided("negative control %s printed no witness schedule" % sw)
        return sw, _ops(json.loads(json.loads(m.group(1))))
    with cf.ThreadPoolExecutor(max_workers=ctx.pick(6, 3)) as ex:     # tiny models: the JVM start dominates
        wit = dict(ex.map(one, SWITCHES))
    ctx.cov["witnesses"] = {sw: " ".join(o["op"] + (str(o.get("r", "")) if "r" in o else "") + ("".join(map(str, o.get("pages", []))))
                                         for o in ops) for sw, ops in wit.items()}
    return wit


def generate(ctx):
    gen = "Checkpoint_gen.cfg" if ctx.thorough else "Checkpoint_gen_quick.cfg"
    cases, r = vlib.tlc_cases(ctx, "CheckpointGen", gen, timeout=2400, heap="6g")
    if not cases:
        raise vlib.Undecided("the generator produced no schedule")
    ctx.cov["schedules_generated"] = len(cases)
    return [_ops(c) for c in cases]


# ------------------------------------------------------------------ replay + trace validation

def _tmp_root(ctx):
    """SQLite files of the replay: tmpfs when there is one (the replay fsyncs a lot), else the scratch dir."""
    for base in ("/dev/shm",):
        if os.path.isdir(base) and os.access(base, os.W_OK):
            try:
                return tempfile.mkdtemp(prefix="verif-C06-", dir=base)
            except OSError:
                pass
    return ctx.sub("ckpt-tmp")


def _runs(rows):
    """split a trace into runs: (first line number (1-based), rows)"""
    out, cur, start = [], None, 0
    for i, r in enumerate(rows):
        if r.get("ev") == "reset":
            if cur:
                out.append((start, cur))
            cur, start = [], i + 1
        if cur is not None:
            cur.append(r)
    if cur:
        out.append((start, cur))
    return out


def _validate(ctx, path, tag, selftest=False):
    """TLC over one trace file; returns {run id: {names, rows}} for the runs with flagged conditions.
    With selftest a corrupted copy of one real run is appended to the file: TLC must flag exactly
    the corrupted field there (binding demonstration in the same TLC run)."""
    rows = vlib.read_nd(path)
    nreal = len(rows)
    if selftest:
        extra = None
        for first, rr in _runs(rows):
            k = [i for i, x in enumerate(rr) if x.get("ev") == "att.end" and x.get("armed")]
            if k:
                extra = [dict(x) for x in rr]
                extra[0]["run"] = "selftest"
                extra[k[0]]["aidx"] += 1
                want = nreal + k[0] + 1
                break
        if extra is None:
            raise vlib.Undecided("nothing to corrupt for the binding self-test")
        path2 = path + ".st"
        vlib.write_nd(path2, rows + extra)
        path = path2
    r = vlib.tlc_trace(ctx, "TraceCheckpoint", "TraceCheckpoint.cfg", path, timeout=ctx.pick(900, 2400), heap=ctx.pick("4g", "8g"))
    if r["hw"] is not None and r["hw"] < r["n"]:
        hw = r["hw"]
        allrows = vlib.read_nd(path)
        raise vlib.Undecided("TraceCheckpoint cannot consume line %d of %s (defect of the trace spec or the replayer): %s\n%s"
                             % (hw + 1, tag, json.dumps(allrows[hw])[:400], r["out"][-1500:]))
    if not r["ok"] and not r["bads"]:
        raise vlib.Undecided("trace validation %s failed without a flagged condition:\n%s" % (tag, r["out"][-2000:]))
    bads = [(line, name) for line, name in r["bads"] if line <= nreal]
    if selftest:
        st = sorted(name for line, name in r["bads"] if line == want)
        if not any(n.startswith("ckpt:armed-state-mismatch") for n in st):
            raise vlib.Undecided("binding self-test failed: TraceCheckpoint accepted a corrupted watch state (flags: %s)" % st)
        ctx.cov.setdefault("binding_selftests", []).append({"module": "TraceCheckpoint", "rejected_corrupted_trace": True, "flags": st})
    flagged = {}
    if bads:
        starts = _runs(rows)
        for line, name in bads:
            for first, rr in reversed(starts):
                if first <= line:
                    rid = rr[0].get("run")
                    e = flagged.setdefault(rid, {"names": {}, "rows": rr, "first": first, "layer": rr[0].get("layer", "db")})
                    e["names"].setdefault(name, line - first)
                    break
    r["n"] = nreal
    return r, rows, flagged


def _merge_stats(res):
    tot = {}
    for _, st in res:
        for k, v in (st or {}).items():
            if isinstance(v, int):
                tot[k] = max(tot.get(k, 0), v) if k == "max_schedule_len" else tot.get(k, 0) + v
            elif isinstance(v, dict):
                d = tot.setdefault(k, {})
                for kk, vv in v.items():
                    d[kk] = d.get(kk, 0) + vv
            elif isinstance(v, list):
                tot.setdefault(k, []).extend(v)
    if tot.get("harness_errors"):
        raise vlib.Undecided("replayer failed on %d schedule(s): %s" % (len(tot["harness_errors"]), tot["harness_errors"][:3]))
    return tot


def _harness(ctx, args, timeout, tmp, crashes):
    """run the harness; a process that died (the store calls log.Fatal on some paths) is remembered in
    `crashes` - its trace up to that point is still judged, and the death itself makes the check
    undecided unless the trace already shows a violation"""
    p = ctx.run_harness(args, timeout=timeout, env={"TMPDIR": tmp}, check=False)
    if p.returncode != 0:
        crashes.append("%s rc=%d: %s" % (args[0], p.returncode, p.stderr[-600:]))
        return None
    return json.loads(p.stdout.strip().splitlines()[-1])


def _drive(ctx, cmd, sched, shards, nrand, rlen, tag, timeout, crashes):
    """run one harness command over the schedule file in `shards` processes; returns [(trace, stats)]"""
    tmp = _tmp_root(ctx)
    try:
        def shard(i):
            out = os.path.join(ctx.scratch, "%s.trace.%d.ndjson" % (tag, i))
            return out, _harness(ctx, [cmd, "-in", sched, "-shard", str(i), "-of", str(shards), "-out", out,
                                       "-random", str(nrand // shards), "-len", str(rlen), "-np", "4", "-readers", "3"],
                                 timeout, tmp, crashes)
        with cf.ThreadPoolExecutor(max_workers=shards) as ex:
            return list(ex.map(shard, range(shards)))
    finally:
        if tmp.startswith("/dev/shm"):
            shutil.rmtree(tmp, ignore_errors=True)


def replay(ctx, wit, cases):
    rnd = random.Random(ctx.seed)
    cap = ctx.pick(700, 10 ** 9)
    if len(cases) > cap:
        cases = [cases[i] for i in sorted(rnd.sample(range(len(cases)), cap))]
    ctx.cov["schedules_replayed_from_spec"] = len(cases)
    witl = [{"id": "witness-%s" % sw, "ops": ops} for sw, ops in sorted(wit.items())]
    sched = os.path.join(ctx.scratch, "ckpt.sched.ndjson")
    vlib.write_nd(sched, witl + [{"id": "spec-%d" % i, "ops": ops} for i, ops in enumerate(cases)])
    # the store layer costs ~1-2 s per schedule (a raft node is started for each): witnesses, a sample, random ones
    nst = ctx.pick(10, 300)
    ssched = os.path.join(ctx.scratch, "ckpt.store.sched.ndjson")
    vlib.write_nd(ssched, witl + [{"id": "spec-%d" % i, "ops": cases[i]} for i in sorted(rnd.sample(range(len(cases)), min(nst, len(cases))))])
    crashes = []
    with cf.ThreadPoolExecutor(max_workers=2) as ex:
        fdb = ex.submit(_drive, ctx, "ckpt-replay", sched, ctx.pick(3, 5), ctx.pick(150, 4000), 24, "ckpt", ctx.pick(900, 3000), crashes)
        fst = ex.submit(_drive, ctx, "ckpt-store", ssched, ctx.pick(3, 4), ctx.pick(9, 300), 12, "ckpt.store", ctx.pick(900, 3000), crashes)
        res, sres = fdb.result(), fst.result()
    tot, stot = _merge_stats(res), _merge_stats(sres)
    ctx.cov["driver"] = tot
    ctx.cov["driver_store_layer"] = stot
    if not crashes:
        for o in ("truncated", "busy", "allmoved"):
            if not tot.get("outcomes", {}).get(o) or not stot.get("outcomes", {}).get(o):
                raise vlib.Undecided("checkpoint outcome %r never occurred in the replay (vacuous run)" % o)
        if not tot.get("wal_restarts") or not stot.get("wal_restarts"):       # observed on the WAL file itself, not through the code under test
            raise vlib.Undecided("SQLite never restarted the WAL in the replay (vacuous run)")

    # trace validation: the runs of all traces are dealt into `groups` files of equal size (one JVM each, started together)
    groups = ctx.pick(1, 4)
    files = [os.path.join(ctx.scratch, "ckpt.group.%d.ndjson" % g) for g in range(groups)]
    outs = [open(f, "w") for f in files]
    sizes = [0] * groups
    for out, _ in sres + res:
        block = []
        for line in open(out):
            if line.startswith('{"ev":"reset"') and block:
                g = sizes.index(min(sizes))
                outs[g].writelines(block)
                sizes[g] += len(block)
                block = []
            block.append(line)
        if block:
            g = sizes.index(min(sizes))
            outs[g].writelines(block)
            sizes[g] += len(block)
    for f in outs:
        f.close()
    with cf.ThreadPoolExecutor(max_workers=groups) as ex:
        vals = list(ex.map(lambda a: _validate(ctx, a[1], "group %d" % a[0], selftest=(a[0] == 0)), enumerate(files)))
    flagged = {}
    for r, rows, fl in vals:
        ctx.add("trace_events", r["n"])
        flagged.update(fl)
    ctx.add("traces_validated_against_impl", tot.get("runs", 0) + stot.get("runs", 0))
    rr = _runs(vals[0][1])
    for first, run in rr[:1] + rr[len(rr) // 2:len(rr) // 2 + 1]:
        ctx.sample([{k: v for k, v in x.items() if k != "ops"} for x in run[:14]])

    model_defects = {rid: e for rid, e in flagged.items() if any(n.startswith(("sqlite:", "harness:")) for n in e["names"])}
    if model_defects:
        rid, e = sorted(model_defects.items())[0]
        raise vlib.Undecided("the model of SQLite / the replayer disagrees with the real run %s (%s layer): %s\nschedule: %s"
                             % (rid, e["layer"], sorted(e["names"]), json.dumps(e["rows"][0].get("ops"))))
    if flagged:
        confirm(ctx, flagged)
    if crashes and not ctx.violations:
        raise vlib.Undecided("the harness process died and the trace up to that point shows no violation: %s" % crashes[:2])


def confirm(ctx, flagged):
    """Every flagged run is replayed again from a freshly created database; only flags that show up
    again are violations (a flag that does not reproduce is a fault of the harness: undecided)."""
    # per failed condition the runs with the shortest schedules (the artefact should be readable)
    byname = {}
    for rid, e in flagged.items():
        for n in e["names"]:
            byname.setdefault((e["layer"], n), []).append((len(e["rows"][0]["ops"]), rid))
    chosen = {k: [rid for _, rid in sorted(l)[:2]] for k, l in byname.items()}
    ids = sorted({rid for l in chosen.values() for rid in l})[:80]
    ctx.cov["flagged_runs"] = len(flagged)
    again = {}
    for layer, cmd in (("db", "ckpt-replay"), ("store", "ckpt-store")):
        lids = [rid for rid in ids if flagged[rid]["layer"] == layer]
        if not lids:
            continue
        out = os.path.join(ctx.scratch, "ckpt.confirm.%s.trace.ndjson" % layer)
        # the store layer one process per run: the store may log.Fatal in the middle of one
        batches = [lids] if layer == "db" else [[rid] for rid in lids]
        tmp = _tmp_root(ctx)
        try:
            with open(out, "w") as fo:
                for bi, batch in enumerate(batches):
                    sched = os.path.join(ctx.scratch, "ckpt.confirm.%s.%d.ndjson" % (layer, bi))
                    vlib.write_nd(sched, [{"id": rid, "ops": flagged[rid]["rows"][0]["ops"]} for rid in batch])
                    _harness(ctx, [cmd, "-in", sched, "-out", out + ".part", "-np", "4"], 1800, tmp, [])
                    fo.write(open(out + ".part").read())
        finally:
            if tmp.startswith("/dev/shm"):
                shutil.rmtree(tmp, ignore_errors=True)
        again.update(_validate(ctx, out, "confirmation run (%s layer)" % layer)[2])
    for rid in ids:
        e = flagged[rid]
        names = {n: off for n, off in e["names"].items() if n.startswith(("ckpt:", "inv:")) and rid in chosen[(e["layer"], n)]}
        rep = again.get(rid, {"names": {}})["names"]
        missing = [n for n in names if n not in rep]
        if missing:
            raise vlib.Undecided("flag(s) %s of run %s did not reproduce on a fresh replay" % (missing, rid))
        byline = {}
        for n, off in names.items():
            byline.setdefault(off, []).append(n)
        for off, ns in sorted(byline.items()):
            ck = sorted(n for n in ns if n.startswith("ckpt:"))
            for n in (ck or sorted("ckpt:invariant:" + x[4:] for x in ns)):
                key = n if e["layer"] == "db" else n.replace("ckpt:", "ckpt:store-layer:", 1)
                art = {"schedule": e["rows"][0]["ops"], "run": rid, "layer": e["layer"], "failed_condition": n, "at_step": e["rows"][off],
                       "trace": [{k: v for k, v in x.items() if k != "ops"} for x in e["rows"][:off + 1]],
                       "replay": "verifh %s -in <ndjson file with {id, ops}> -out trace.ndjson; then TLC on TraceCheckpoint.tla"
                                 % ("ckpt-replay" if e["layer"] == "db" else "ckpt-store")}
                ctx.violation(key, "checkpoint schedule %s (%s layer): condition %s is false on the real run (line %d of the run)"
                              % (json.dumps(e["rows"][0]["ops"]), e["layer"], n, off + 1), art)


def run(ctx):
    ctx.harness()
    with cf.ThreadPoolExecutor(max_workers=5) as ex:
        fmc = ex.submit(model_check, ctx)
        fall = ex.submit(allpoints, ctx) if ctx.thorough else None
        fwit = ex.submit(controls, ctx)
        fgen = ex.submit(generate, ctx)
        errs = []
        try:
            replay(ctx, fwit.result(), fgen.result())
        except vlib.Undecided as e:
            errs.append(e)
        for f in (fmc, fall):
            if f is not None:
                try:
                    f.result()
                except vlib.Undecided as e:
                    errs.append(e)
        if errs:
            raise errs[0]
    ctx.cov["exhaustive"] = True
    ctx.assumptions += [
        "writes never overlap a checkpoint attempt (raft serialises Apply and Snapshot); readers are plain read transactions",
        "versioned pages: page k = single-row table p_k with its own root page; one write = one transaction of UPDATE p_k SET v=<n>",
        "the SQLite half of the model (restart rule, mxSafeFrame, read-lock 0 readers) is itself checked against real SQLite on every "
        "replayed step; a disagreement makes the check undecided, never a violation",
        "db layer: the store's segment handling is the incremental branch of fsmSnapshot re-enacted with the real StagingDir/WALWriter "
        "objects; store layer: the real Store.fsmSnapshot through Store.Snapshot on a single-node raft",
        "model checking reductions: readers move between attempts and right before the SQLite call (they commute with the other "
        "steps), pages are first written in index order (behaviours are symmetric under page renaming up to the frame order inside "
        "one transaction); Checkpoint_mc_allpoints.cfg checks a smaller bound without both reductions",
    ]
