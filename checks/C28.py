"""C28 Chunked loads reassemble the original bytes.
(A) Chunk.tla: Chunker.Next transcribed (read until S or EOF, `finished`, final empty chunk) over
    three reader behaviours (EOF separately / with the last bytes / one unit per read), the channel
    (in order, duplicate, skip, foreign, swap) and Dechunker.WriteChunk; invariants SenderOK (contiguous
    sequence numbers, exactly one last flag, lengths), Reassembled, NoWrongContent for every
    (N <= 3S+1, S <= 3, variant, tamper); negative controls.
(B) every case is concretised with random bytes (unit 1, 7, 1024 bytes; 1 MiB in the thorough tier
    to cross the 1 MiB internal buffer), run through the real Chunker/Dechunker and compared:
    chunk sequence, rejections, completion, reassembled bytes; aborts go through the real
    CommandProcessor and must leave no file behind."""
import json, os, vlib
LEVEL = "model_checking"
TECHNIQUE = "TLA+ spec of the chunk protocol, TLC exhaustive; every case replayed on the real chunker/dechunker"

def run(ctx):
    vlib.tlc_mc(ctx, "Chunk", "Chunk_mc.cfg", coverage=False)
    for sw, inv in (("LastWhenFinished", "SenderOK"), ("StreamIdCheck", "NoWrongContent"), ("SeqCheck", "NoWrongContent")):
        vlib.tlc_neg(ctx, "Chunk", "Chunk_neg_%s.cfg" % sw, expect=inv)
    vlib.tlc_mc(ctx, "Chunk", "Chunk_mc2.cfg", coverage=False)
    cases, r = vlib.tlc_cases(ctx, "Chunk", "Chunk_gen.cfg")
    inp = os.path.join(ctx.scratch, "chunk.ndjson")
    tr = os.path.join(ctx.scratch, "chunk.trace.ndjson")
    vlib.write_nd(inp, cases)
    p = ctx.run_harness(["chunk-replay", "-in", inp, "-out", tr], timeout=3000)
    st = json.loads(p.stdout.strip().splitlines()[-1])
    ctx.add("evaluations", st["cases"])
    ctx.add("distinct_nontrivial", st["nontrivial"])
    ctx.cov["rule"] = "all (N, S, reader variant, tamper kind, position) of the spec x byte units; non-trivial = N > 0"

    def corrupt(rows):
        for r in rows:
            if len(r["chunks"]) >= 2:
                r["chunks"][0]["last"] = True
                return rows
        raise vlib.Undecided("nothing to corrupt")

    def key(bad, inv):
        c = bad.get("c", {})
        return "chunk:rd=%s:tamper=%s:multiple=%s" % (c.get("rd"), c.get("tamper"), bool(c.get("n")) and c.get("n", 0) % max(1, c.get("s", 1)) == 0)
    vlib.trace_check(ctx, "TraceChunk", "TraceChunk.cfg", tr, "chunker/dechunker", key_fn=key, selftest=corrupt, timeout=1800)
    ctx.add("traces_validated_against_impl", st["cases"])
    rows = vlib.read_nd(tr)
    for r in rows[200:203]:
        ctx.sample(r)
    if st["abort_leftovers"]:
        ctx.violation("chunk:abort-leaves-file", "an aborted chunk stream left %d temporary file(s) behind" % st["abort_leftovers"], st)
    ctx.cov["exhaustive"] = True
    ctx.assumptions += ["verdict = TraceChunk.tla on the observed chunk sequences and receiver outcomes (not equality with one fixed sequence)"]
