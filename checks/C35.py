"""C35 Arbitrary bytes on the inter-node port cannot crash a node.
(A) ClusterProto.tla: a connection = mux header byte class (cluster / raft / unknown) + at most two
    frames, a frame = length class (0, < sent, = sent, > sent, 2^31, 2^62, 2^64-1) x payload class
    (garbage, command of every type with a nil sub-request, with a wrong password, well-formed);
    the mux dispatch and the cluster service's frame loop as coded; invariants Alive, MemBounded
    (memory <= C*sent + K), StateChangeAuthorized, MalformedRejected, and the responses equal the
    generator's per-frame expectation.  TLC exhaustive; negative controls BoundedRead (memory and
    crash), NilRequestChecked, UnknownHeaderClosed, AuthBeforeEffect.
(B) every single-frame sequence, a seeded sample of the two-frame ones (thorough: several thousand)
    and seeded random / mutated byte streams (pure noise, noise behind each header byte, bit flips,
    fuzzed lengths, truncations, well-formed protobuf that is no known command) are written to the
    inter-node port of a single-node rqlite running in a CHILD PROCESS; after each: the child is
    alive, a GET_NODE_META round trip succeeds, bytes allocated (runtime TotalAlloc) and peak RSS
    (VmHWM) grew by no more than C*sent + K, dump / membership / log index unchanged unless the
    sequence holds a well-formed, correctly authenticated state-changing command, and the response
    frames are those TLC expects (nothing but an error or a close for malformed input)."""
import collections, concurrent.futures, json, os, random, vlib
LEVEL = "model_checking"
TECHNIQUE = "TLA+ frame grammar of the inter-node port, TLC exhaustive; every enumerated frame sequence and seeded random streams sent to a node in a child process"

C_FACTOR = 4
K_BYTES = 64 << 20
RANDOM_KINDS = ["pure", "cluster-noise", "raft-noise", "bitflip", "lenfuzz", "truncated", "protonoise"]
SWITCHES = (("BoundedRead", "MemBounded"), ("BoundedRead_alive", "Alive"), ("NilRequestChecked", "Alive"),
            ("UnknownHeaderClosed", "MalformedRejected"), ("AuthBeforeEffect", "StateChangeAuthorized"))


def frame_class(f):
    l, p = f["len"], f["pay"]
    if l in ("2^31", "2^62", "2^64-1", "0"):
        return "len=" + l
    body = "payload=garbage" if p["k"] == "garbage" else "type=%s:sub=%s" % (p["t"], p["k"])
    return body if l == "eq" else "len=%s:%s" % (l, body)


def case_sig(c):
    return (c["mux"], tuple(frame_class(f) for f in c["frames"]))


def problems(c, o):
    """kinds of misbehaviour of one observed case -> {kind: text}"""
    out = {}
    bound = C_FACTOR * o["sent"] + K_BYTES
    if o["crashed"]:
        out["crash"] = "node process died (%s): %s" % (o.get("exit"), (o.get("panic") or "").splitlines()[0:1])
        return out
    if not o["meta_ok"]:
        out["unresponsive"] = "no valid GET_NODE_META round trip after the input: %s" % o.get("meta_err")
    if o["d_total_alloc"] > bound:
        out["alloc"] = "node allocated %d bytes for %d bytes sent (bound %d)" % (o["d_total_alloc"], o["sent"], bound)
    if o["d_hwm_kb"] * 1024 > bound:
        out["rss"] = "peak RSS grew by %d KiB for %d bytes sent" % (o["d_hwm_kb"], o["sent"])
    if o["changed"] and not c.get("maychange"):
        out["state-change"] = "state changed (%s) by input that holds no authorised state-changing command" % ",".join(o["changed"])
    if not o["closed"]:
        out["no-close"] = "connection neither answered to the end nor closed within the deadline after the client's EOF"
    if c.get("random"):
        if "ok" in o["resp"] or "stream" in o["resp"]:
            # no random stream carries valid credentials: only permission-free commands may be served
            pass
        return out
    if c["mux"] == "unknown" and o["bytes"] > 0:
        out["served-malformed"] = "%d bytes answered on a connection with an unregistered header byte" % o["bytes"]
    if c["mux"] == "cluster":
        exp = []
        for x in c["exp"]:
            if x in ("closed", "any"):
                break
            if x != "ignored":
                exp.append(x)
        openended = any(x == "any" for x in c["exp"]) or "stream" in exp[:-1]
        got = o["resp"]
        for j, x in enumerate(exp):
            g = got[j] if j < len(got) else None
            if g is None:
                break
            accept = {"served": lambda g: g in ("ok", "meta") or (g.startswith("err:")), "stream": lambda g: g == "stream" or g.startswith("err:"),
                      "nilerr": lambda g: g == "nilerr", "unauth": lambda g: g == "unauth"}[x]
            if not accept(g):
                if x in ("nilerr", "unauth") and g in ("ok", "meta", "stream"):
                    out["served-malformed"] = "frame %d (%s) had to be refused (%s) but was served: responses %s" % (j + 1, frame_class(c["frames"][j]), x, got)
                else:
                    out.setdefault("_mismatch", "frame %d expected %s, got %s" % (j + 1, x, g))
                break
            if x == "stream":
                break
        if not openended and len(got) > len(exp) and "served-malformed" not in out:
            out["served-malformed"] = "more response frames (%s) than the %d frames that may be answered" % (got, len(exp))
    return out


def run(ctx):
    ctx.harness()
    jobs = {"mc": lambda: vlib.tlc_mc(ctx, "ClusterProto", "ClusterProto_mc.cfg", workers=2),
            "gen": lambda: vlib.tlc_cases(ctx, "ClusterProto", "ClusterProto_gen.cfg", timeout=1800)}
    for sw, inv in SWITCHES:
        jobs["neg_" + sw] = (lambda sw=sw, inv=inv: vlib.tlc_neg(ctx, "ClusterProto", "ClusterProto_neg_%s.cfg" % sw, expect=inv, workers=1))
    res = {}
    with concurrent.futures.ThreadPoolExecutor(max_workers=4) as ex:
        futs = {k: ex.submit(f) for k, f in jobs.items()}
        for k, fu in futs.items():
            res[k] = fu.result()
    allcases, _ = res["gen"]
    allcases = [c for c in allcases if "frames" in c]
    singles = [c for c in allcases if len(c["frames"]) == 1]
    doubles = [c for c in allcases if len(c["frames"]) == 2]
    if len(singles) < 800 or len(doubles) < 10000:
        raise vlib.Undecided("generator produced %d + %d cases" % (len(singles), len(doubles)))
    rnd = random.Random(ctx.seed)
    sel = [c for c in singles if c["mux"] == "cluster"]
    other = [c for c in singles if c["mux"] != "cluster"]
    rnd.shuffle(other)
    rnd.shuffle(doubles)
    sel += other[:ctx.pick(60, len(other))]
    sel += doubles[:ctx.pick(120, 4000)]
    nrandom = ctx.pick(280, 6000)
    cases = [dict(c) for c in sel]
    for k in range(nrandom):
        cases.append({"mux": "random", "frames": [], "exp": [], "maychange": False, "random": RANDOM_KINDS[k % len(RANDOM_KINDS)]})
    for i, c in enumerate(cases):
        c["id"] = i + 1
    inp = os.path.join(ctx.scratch, "cp.cases.ndjson")
    out = os.path.join(ctx.scratch, "cp.obs.ndjson")
    vlib.write_nd(inp, cases)
    p = ctx.run_harness(["clusterproto-replay", "-in", inp, "-out", out, "-dir", ctx.sub("cp")], timeout=ctx.pick(1500, 5400))
    drv = json.loads(p.stdout.strip().splitlines()[-1])
    obs = vlib.read_nd(out)
    if len(obs) != len(cases):
        raise vlib.Undecided("driver answered %d of %d cases" % (len(obs), len(cases)))
    byid = {c["id"]: c for c in cases}

    # first pass: which single-frame classes misbehave, per kind (for minimal attribution of longer sequences)
    single_bad = collections.defaultdict(set)
    probs = {}
    for o in obs:
        c = byid[o["id"]]
        pr = problems(c, o)
        probs[o["id"]] = pr
        if not c.get("random") and len(c["frames"]) == 1:
            for kind in pr:
                single_bad[kind].add((c["mux"], frame_class(c["frames"][0])))
    st = collections.Counter()
    mism = []
    for o in obs:
        c = byid[o["id"]]
        st["random" if c.get("random") else "enumerated"] += 1
        for kind, text in probs[o["id"]].items():
            if kind == "_mismatch":
                st["response_differs_from_spec"] += 1
                mism.append({"case": case_sig(c), "what": text, "resp": o["resp"]})
                continue
            if c.get("random"):
                cls = "random=" + c["random"]
            else:
                fcs = [frame_class(f) for f in c["frames"]]
                culprit = [fc for fc in fcs if (c["mux"], fc) in single_bad[kind]]
                cls = culprit[0] if culprit else "+".join(fcs)
                if c["mux"] != "cluster":
                    cls = "mux=%s:%s" % (c["mux"], cls)
            ctx.violation("clusterproto:%s:%s" % (kind, cls), "%s; sent %s" % (text, o["sent_head"]), {"case": c, "observation": o})
    # vacuity of the binding: the well-formed commands must have reached their handlers and the driver must see state change
    reached = {}
    for o in obs:
        c = byid[o["id"]]
        if not c.get("random") and c["mux"] == "cluster" and len(c["frames"]) == 1 and c["frames"][0]["len"] == "eq":
            f = c["frames"][0]
            reached[(f["pay"]["k"], f["pay"]["t"])] = o
    for t in ("EXECUTE", "QUERY", "REQUEST", "BACKUP", "BACKUP_STREAM", "LOAD", "REMOVE_NODE", "NOTIFY", "JOIN", "STEPDOWN"):
        g, b, n = reached.get(("good", t)), reached.get(("bad", t)), reached.get(("nil", t))
        if not g or not b or not n:
            raise vlib.Undecided("single-frame cases of %s missing" % t)
        if not g["crashed"] and (not g["resp"] or g["resp"][0] in ("unauth", "nilerr")):
            raise vlib.Undecided("well-formed %s did not reach its handler: %s" % (t, g["resp"]))
    if not reached[("good", "EXECUTE")]["crashed"] and "dump" not in reached[("good", "EXECUTE")]["changed"]:
        raise vlib.Undecided("driver does not see the state change of an authorised EXECUTE")
    if mism and len(mism) > len(obs) // 20:
        raise vlib.Undecided("responses differ from the spec's expectation in %d cases, e.g. %s" % (len(mism), mism[:3]))
    # binding self-test: perturbed expectations must be reported
    kinds = set()
    for o in obs:
        c = byid[o["id"]]
        if c.get("random") or c["mux"] != "cluster":
            continue
        c2 = dict(c)
        c2["maychange"] = False
        c2["exp"] = ["unauth" if x == "served" else x for x in c["exp"]]
        kinds |= set(problems(c2, o)) - set(probs[o["id"]])
    if not {"state-change", "served-malformed"} <= kinds:
        raise vlib.Undecided("binding self-test: perturbed expectations reported only %s" % sorted(kinds))
    ctx.cov.setdefault("binding_selftests", []).append({"perturbed_expectations_reported": sorted(kinds)})

    nontrivial = len({case_sig(byid[o["id"]]) for o in obs if not byid[o["id"]].get("random")
                      and any(f["len"] != "eq" or f["pay"]["k"] != "good" for f in byid[o["id"]]["frames"])})
    ctx.add("evaluations", len(cases))
    ctx.add("traces_validated_against_impl", len(obs))
    ctx.add("distinct_nontrivial", nontrivial)
    ctx.cov["rule"] = ("cases = ClusterProto.tla mux class x <=2 frames (%d single, %d double enumerated by TLC) + seeded random streams of %d kinds; "
                       "non-trivial = distinct enumerated sequence with at least one frame that is not a well-formed authorised command"
                       % (len(singles), len(doubles), len(RANDOM_KINDS)))
    ctx.cov["cases_enumerated"] = len(allcases)
    ctx.cov["driver"] = drv
    ctx.cov["counts"] = dict(st)
    ctx.cov["response_differs_from_spec"] = mism[:20]
    ctx.cov["max_total_alloc_delta"] = max([o["d_total_alloc"] for o in obs if not o["crashed"]] or [0])
    ctx.cov["max_hwm_delta_kb"] = max([o["d_hwm_kb"] for o in obs if not o["crashed"]] or [0])
    ctx.cov["exhaustive"] = False
    show = {("cluster", ("len=2^31",)), ("cluster", ("len=2^62",)), ("cluster", ("type=BACKUP_STREAM:sub=nil",)),
            ("cluster", ("type=EXECUTE:sub=bad",)), ("unknown", ("type=EXECUTE:sub=good",))}
    for o in obs:
        c = byid[o["id"]]
        if not c.get("random") and case_sig(c) in show:
            ctx.sample({"mux": c["mux"], "frames": c["frames"], "exp": c["exp"], "sent": o["sent"], "sent_head": o["sent_head"], "resp": o["resp"],
                        "closed": o["closed"], "crashed": o["crashed"], "meta_ok": o["meta_ok"], "d_total_alloc": o["d_total_alloc"],
                        "d_hwm_kb": o["d_hwm_kb"], "changed": o["changed"]})
    ctx.assumptions += [
        "the node under test is a single-node cluster in a child process with a real credential store (one user holding 'all'); no TLS on the port",
        "memory is judged by the growth of runtime.MemStats.TotalAlloc (sees a buffer allocated and dropped) and of VmHWM of the child, bound %d*sent + %d MiB" % (C_FACTOR, K_BYTES >> 20),
        "behind the raft header byte only noise and cluster-shaped frames are sent; well-formed Raft RPCs (which carry no credentials by design) are outside the generated space",
        "random streams never carry the valid password, so every state change they cause counts as unauthorised",
    ]
