"""C17 Reads never modify data; databases change only through the log.
(A) ReadOnly.tla: one request = a SEQUENCE of statements, each of a statement class (one for the
    query endpoints; 1..3 -- thorough 1..4 -- for a unified request, every order and repetition
    of the classes plain read / plain write / read-only head with a writing tail / EXPLAIN of a
    write / EXPLAIN with a writing tail / PRAGMA optimize / INSERT..RETURNING, with and without
    the transaction flag) x endpoint x consistency level x role of the receiving node x
    linearizable-upgrade, followed through the code's steps -- HTTP handler, classification of
    every statement of a unified request, dispatch (local read | QUERY log entry | EXECUTE_QUERY
    log entry), the connection that runs the statements one after the other on each node
    (read-only pool / read-write connection; the driver's query loop that steps only the last
    statement of a text vs. its exec loop; the write guard around a read-only-classified
    statement; rollback of a transaction at the first error) -- recording which STATEMENT changes
    which node's database.  Invariants: NoChangeByRead (no query-endpoint request and no
    statement treated as read-only changes any node), OnlyThroughLog (a change is the application
    of a committed write entry on that node), EveryNode (then on every node).  TLC exhaustive;
    one negative control per mechanism (ROPool, ClassifyWholeText, GuardEveryROStmt -- the guard
    is established for every read-only-classified statement whatever ran before it on the
    connection --, LocalReadsOnROPool, StrongQueryOnROPool).
(B) the generated cases are sent over HTTP (POST /db/query, GET /db/query?q=, POST /db/request)
    to the leader or a follower of a live 3-node cluster: all query-endpoint and one- and
    two-statement cases as before, and EVERY statement sequence of the spec at least once through
    the log (and once without it when the store counts no write), the remaining dimensions
    drawn by the seed.  Every effect a statement can have carries its case number and position.
    Before and after each request every node is observed: logical content per component (schema,
    every table incl. sqlite_stat1, user_version, application_id), PRAGMA data_version on a
    connection owned by the harness, fingerprints of the database file and the WAL,
    attached/temp objects of the read-write connection, and the FSM applies of the window (node,
    index, entry type, statements).  Judged by the property text only: a change caused by a
    query-endpoint request or by a statement the unified request counts as read-only
    (Store.RORWCount, which decides the route) or runs as a query (DB.Request's own
    classification on the read-write connection), a change on a node without a write entry
    applied there, or a change that is not the same on every node is a violation.  Conformance
    with the spec (route, per-statement classification, RO/RW counts, which statements answer
    with an error, expected writes observed) is checked on every case.  The thorough tier runs
    six concrete texts per class (other heads, tails, separators, case) and sequences of four."""
import collections, concurrent.futures, json, os, random, re, vlib
LEVEL = "model_checking"
TECHNIQUE = "TLA+ request-path spec over statement sequences, TLC exhaustive + negative controls; every spec-generated sequence replayed over HTTP on a live 3-node cluster with per-node before/after observation, per-statement attribution and the FSM apply trace"

SWITCHES = (("ROPool", "NoChangeByRead"), ("ClassifyWholeText", "NoChangeByRead"), ("GuardEveryROStmt", "NoChangeByRead"),
            ("LocalReadsOnROPool", "EveryNode"), ("StrongQueryOnROPool", "OnlyThroughLog"))
WRITE_ENTRIES = ("EXECUTE", "EXECUTE_QUERY")
# classes whose errors the spec models (a refused write); for the others a transaction may be rolled back by an
# error the spec does not know (ATTACH inside a transaction, load_extension): no expectation on writes there
MODELLED = {"select", "write", "ro-head-rw-tail", "ro-head-ddl-tail", "ro-head-pragma-tail", "rw-head-ro-tail", "explain-write",
            "explain-ro-head-rw-tail", "explain-rw-head-rw-tail", "insert-returning", "pragma-write", "pragma-read", "ddl", "with-insert"}


def shape(c):
    """(endpoint, class) under which the violation key names the request."""
    ss = c["stmts"]
    if c["ep"] != "req":
        return c["ep"], ss[0]
    if len(ss) == 1:
        return "ralone", ss[0]
    if len(ss) == 2 and ss.count("write") == 1:
        return "rwrite", [x for x in ss if x != "write"][0]
    return "rseq", "+".join(ss)


def lines_delta(before, after):
    b, a = before.splitlines(), after.splitlines()
    return [l for l in a if l not in b], [l for l in b if l not in a]


def attribute(n, stm):
    """The changes of one node's database, each with the positions of the statements that can have made it:
    [(component, detail, [positions])].  Whatever a statement can write carries its tag (case number and
    position); a change that carries none is laid to every statement that is not a plain tagged INSERT."""
    other = [s["pos"] for s in stm if s["class"] != "write"] or [s["pos"] for s in stm]
    optimize = [s["pos"] for s in stm if s["class"].startswith("pragma-optimize")] or other
    items = []
    for d in n["diff"]:
        comp = d["comp"]
        if comp in ("table:w", "table:t"):
            added, gone = lines_delta(d["before"], d["after"])
            added_ids = {l.split("|")[0] for l in added}
            for l in added:
                who = [s["pos"] for s in stm if ('s:"%s%d"' % ("m" if comp == "table:w" else "c", s["tag"])) in l
                       and (comp == "table:t" or s["class"] == "write")]
                items.append((comp, "+" + l, who or other))
            for l in gone:
                rid = l.split("|")[0]
                if rid in added_ids:
                    continue      # the row was rewritten: explained by its new content
                m = re.fullmatch(r"i:1([1-4])", rid)
                who = [s["pos"] for s in stm if m and comp == "table:t" and s["pos"] == int(m.group(1))]
                items.append((comp, "-" + l, who or other))
        elif comp == "schema":
            added, gone = lines_delta(d["before"], d["after"])
            for l in added + gone:
                if "sqlite_stat" in l:
                    who = optimize
                else:
                    who = [s["pos"] for s in stm if re.search(r"[a-z]%d\b" % s["tag"], l)]
                items.append((comp, l[:120], who or other))
        elif comp.startswith("table:sqlite_stat"):
            items.append((comp, "", optimize))
        elif comp.startswith("table:"):
            who = [s["pos"] for s in stm if re.search(r"[a-z]%d$" % s["tag"], comp)]
            items.append((comp, "", who or other))
        else:   # user_version, application_id
            who = [s["pos"] for s in stm if d["after"] == str(s["tag"])]
            items.append((comp, d["after"], who or other))
    return items


def judge(r):
    """Returns (violations [(kind, position or None, what)], info dict) for one observed case; property text only."""
    c = r["c"]
    stm = r["stmts"]
    viol = []
    is_query = c["ep"] in ("qpost", "qget")
    # a unified request classifies every statement twice: Store.RORWCount decides the route, DB.Request (on the
    # read-write connection of every node) decides whether the text is run as a query or as an execute
    ro_by = {}
    for s in stm:
        store_ro = (not is_query) and s["store_nro"] == 1
        db_ro = (not is_query) and bool(s.get("db_ro"))
        ro_by[s["pos"]] = "+".join(x for x, f in (("store", store_ro), ("db", db_ro)) if f)
    any_changed = []      # nodes where anything changed logically
    phys_changed = []     # nodes whose file changed (data_version / WAL / db file)
    by_pos = collections.defaultdict(lambda: collections.defaultdict(set))    # position -> component -> nodes (sure attribution)
    blamed = {}           # position of a read-only-treated statement -> (components, nodes)
    ambiguous = 0
    # the result a statement got: texts that are empty get none, and a transaction ends at its first error
    res = r.get("res_errors")
    res_idx, k = {}, 0
    for s in stm:
        if s["text"] != "":
            res_idx[s["pos"]] = k
            k += 1

    def answered(p):
        return res is not None and p in res_idx and res_idx[p] < len(res) and not res[res_idx[p]]
    for n in r["nodes"]:
        for comp, detail, who in attribute(n, stm):
            # several read-only-treated statements can have made it (two PRAGMA optimize): those that ran through
            # the query loop and were answered with rows, not with an error
            if len(who) > 1 and all(ro_by[p] for p in who) and any(answered(p) for p in who):
                who = [p for p in who if answered(p)]
            if len(who) == 1:
                by_pos[who[0]][comp].add(n["id"])
            else:
                ambiguous += 1
            # laid to a read-only-treated statement only if every statement that can have made it is one
            if all(ro_by[p] for p in who):
                b = blamed.setdefault(who[0], (set(), set()))
                b[0].add(comp)
                b[1].add(n["id"])
        if n["diff"]:
            any_changed.append(n["id"])
        if n["dv"] or n["wal"] or n["dbf"]:
            phys_changed.append(n["id"])
    applies = [e for e in r["events"] if e["ev"] == "apply"]
    wr_idx = collections.defaultdict(set)      # node -> indexes of write entries applied in the window
    for e in applies:
        if e["type"] in WRITE_ENTRIES:
            wr_idx[e["node"]].add(e["idx"])
    all_nodes = [n["id"] for n in r["nodes"]]
    comps_all = sorted({d["comp"] for n in r["nodes"] for d in n["diff"]})
    # sentence 1: no query-endpoint request, no statement treated as read-only, changes any node
    if is_query and (any_changed or phys_changed):
        kind = "query-changed" if any_changed else "query-changed-file-only"
        viol.append((kind, None, "a query-endpoint request changed the database of %s (%s)" % (any_changed or phys_changed, comps_all or "file only")))
    for p in sorted(blamed):
        comps, nodes = blamed[p]
        viol.append(("treated-ro-changed:by=" + ro_by[p], p, "statement %d (%s: %r), which the unified request treats as read-only (%s classification), changed %s on %s"
                     % (p, stm[p - 1]["class"], stm[p - 1]["text"], ro_by[p], sorted(comps), sorted(nodes))))
    if not is_query and all(s["store_nro"] == 1 for s in stm) and phys_changed and not any_changed:
        viol.append(("treated-ro-changed-file-only:by=" + ro_by[1], 1, "a unified request of read-only statements only rewrote the database file of %s" % phys_changed))
    # sentence 2: a node's database changes only by applying a committed (write) log entry ...
    nolog = [n for n in set(any_changed + phys_changed) if not wr_idx[n]]
    if nolog:
        viol.append(("changed-without-log", None, "the database of %s changed but no write entry was applied there in the window" % sorted(nolog)))
    # ... which every node applies: a change on some nodes only did not come from the log
    partial = {}
    for comp in comps_all:
        on = [n["id"] for n in r["nodes"] if any(d["comp"] == comp for d in n["diff"])]
        if set(on) != set(all_nodes):
            partial[comp] = on
    if phys_changed and set(phys_changed) != set(all_nodes):
        partial["file"] = phys_changed
    if partial:
        viol.append(("changed-on-some-nodes", None, "changed on some of %s only: %s" % (all_nodes, partial)))
    # (all nodes applied the same write entry but ended up different: replica divergence, C01's subject, reported as an observation)
    sigs = {json.dumps(n["diff"], sort_keys=True) for n in r["nodes"]}
    diverged = len(sigs) > 1 or not r["equal_after"]
    idxs = {n: frozenset(wr_idx[n]) for n in all_nodes}
    if len(set(idxs.values())) > 1:
        viol.append(("log-applied-on-some-nodes", None, "write entries applied per node differ: %s" % {k: sorted(v) for k, v in idxs.items()}))
    entry = "none"
    types = {e["type"] for e in applies}
    for t in ("EXECUTE_QUERY", "EXECUTE", "QUERY"):
        if t in types:
            entry = t
            break
    changed_pos = sorted(p for p in by_pos if by_pos[p])
    info = {"changed_pos": changed_pos, "text_changed": any(stm[p - 1]["class"] != "write" for p in changed_pos) or ambiguous > 0,
            "entry": entry, "ro_by": ro_by, "comps": comps_all, "ambiguous": ambiguous,
            "diverged": diverged and not any(k == "changed-on-some-nodes" for k, _, _ in viol),
            "conn_changed": any(n["conn_before"] != n["conn_after"] for n in r["nodes"])}
    return viol, info


def key_of(kind, pos, r):
    """Stable across seeds and tiers: the dimensions drawn by the seed (level, role, transaction flag of a sequence)
    are not part of it; a statement-level violation of a sequence names the statement's class and what ran before it."""
    c = r["c"]
    ep, cls = shape(c)
    if ep == "rseq":
        if pos is not None:
            ro_by = {s["pos"]: (s["store_nro"] == 1 or bool(s.get("db_ro"))) for s in r["stmts"]}
            hist = ".".join("ro" if ro_by[p] else "rw" for p in range(1, pos)) or "nothing"
            return "readonly:%s:class=%s:endpoint=rseq:after=%s" % (kind, c["stmts"][pos - 1], hist)
        return "readonly:%s:class=%s:endpoint=rseq" % (kind, cls)
    k = "readonly:%s:class=%s:endpoint=%s:level=%s:role=%s" % (kind, cls, ep, c["level"], c["role"])
    if c["up"]:
        k += ":upgraded"
    return k


def select_cases(ctx, gens):
    """The cases to replay.  Query-endpoint, one-statement and statement+write requests: every (class, endpoint,
    level, role, upgrade), the transaction flag and the place of the write by the text variant as before.  Longer
    sequences: EVERY sequence the spec generates, once through the log and -- when the store counts no write in it --
    once without, level / role / upgrade / transaction flag drawn by the seed."""
    rnd = random.Random(ctx.seed)
    seen = set()
    base = collections.defaultdict(list)     # (ep-shape, class, level, role, up) -> cases (tx, order)
    seqs = collections.defaultdict(list)     # statement sequence -> cases
    ngen = 0
    for gen in gens:
        for c in gen:
            k = (c["ep"], tuple(c["stmts"]), c["tx"], c["level"], c["role"], c["up"])
            if k in seen:
                continue
            seen.add(k)
            ngen += 1
            ep, cls = shape(c)
            if ep == "rseq":
                seqs[tuple(c["stmts"])].append(c)
            else:
                base[(ep, cls, c["level"], c["role"], c["up"])].append(c)
    cases = []
    nvar = ctx.pick(1, 6)
    for v in range(nvar):
        for k in sorted(base):
            # quick: the canonical text of every class, plus one seeded other text for every third case
            variant = v if ctx.thorough else (0 if rnd.random() < 0.67 else rnd.randrange(1, 6))
            tx = variant % 3 == 2 and k[0] in ("ralone", "rwrite")
            cand = [c for c in base[k] if c["tx"] == tx and (k[0] != "rwrite" or (c["stmts"][0] == "write") == (variant >= 3))]
            if len(cand) != 1:
                raise vlib.Undecided("generator: %d cases for %s variant %d" % (len(cand), k, variant))
            d = dict(cand[0])
            d["variant"] = variant
            cases.append(d)
    nbase = len(cases)
    per_seq = collections.Counter()
    for ss in sorted(seqs):
        cs = sorted(seqs[ss], key=lambda c: (c["level"], c["role"], c["up"], c["tx"]))
        logged = [c for c in cs if c["entry"] == "EXECUTE_QUERY"]
        local = [c for c in cs if c["entry"] == "none"]
        picks = [rnd.choice(logged)]
        if local:
            picks.append(rnd.choice(local))
        elif ctx.thorough and len(ss) <= 3:
            # a second one through the log, with the other value of the transaction flag
            picks.append(rnd.choice([c for c in logged if c["tx"] != picks[0]["tx"]]))
        for c in picks:
            d = dict(c)
            d["variant"] = 0 if rnd.random() < 0.67 else rnd.randrange(1, 6)
            cases.append(d)
        per_seq[len(ss)] += 1
    rnd.shuffle(cases)           # the order decides which pooled connection / which leftovers a case meets
    for i, d in enumerate(cases):
        d["id"] = i + 1
    return cases, {"generated": ngen, "base_cases": nbase, "sequences_by_length": {str(k): v for k, v in sorted(per_seq.items())},
                   "sequence_cases": len(cases) - nbase, "texts_per_class": nvar}


def run(ctx):
    gens = []
    with concurrent.futures.ThreadPoolExecutor(max_workers=3) as ex:
        hb = ex.submit(ctx.harness)      # the harness is built while the spec generates the cases
        gf = [ex.submit(vlib.tlc_cases, ctx, "ReadOnly", cfg, timeout=3600)
              for cfg in ctx.pick(("ReadOnly_gen.cfg",), ("ReadOnly_gen_len4.cfg", "ReadOnly_gen_wide.cfg"))]
        for f in gf:
            gens.append(f.result()[0])
        hb.result()
    if sum(len(g) for g in gens) < 9000:
        raise vlib.Undecided("generator produced %d cases" % sum(len(g) for g in gens))
    cases, sel = select_cases(ctx, gens)
    # every order of every three distinct classes of the sequence alphabet must be among the cases
    alpha = sorted({x for c in cases if shape(c)[0] == "rseq" for x in c["stmts"]})
    have = {tuple(c["stmts"]) for c in cases}
    missing = [(a, b, d) for a in alpha for b in alpha for d in alpha if len({a, b, d}) == 3 and (a, b, d) not in have]
    if len(alpha) < 7 or missing:
        raise vlib.Undecided("sequence cases incomplete: alphabet %s, %d orders missing" % (alpha, len(missing)))
    inp = os.path.join(ctx.scratch, "ro.ndjson")
    outp = os.path.join(ctx.scratch, "ro.out.ndjson")
    vlib.write_nd(inp, cases)
    ctx.harness()
    # the design (exhaustive) and its negative controls are checked while the cluster replays the cases
    with concurrent.futures.ThreadPoolExecutor(max_workers=2) as ex:
        futs = [ex.submit(vlib.tlc_mc, ctx, "ReadOnly", cfg, workers=ctx.pick(1, 4), timeout=3600)
                for cfg in ctx.pick(("ReadOnly_mc.cfg",), ("ReadOnly_mc_len4.cfg", "ReadOnly_mc_wide.cfg"))]
        futs += [ex.submit(vlib.tlc_neg, ctx, "ReadOnly", "ReadOnly_neg_%s.cfg" % sw, expect=inv, workers=1) for sw, inv in SWITCHES]
        p = ctx.run_harness(["readonly-replay", "-in", inp, "-out", outp, "-dir", ctx.sub("ro")], timeout=ctx.pick(1800, 7200))
        negs = {}
        for f in futs:
            x = f.result()
            negs[x["cfg"]] = x
    # the counterexample of the guard control is the history-dependent one: at least three statements
    m = re.search(r"stmts \|-> <<([^>]*)>>", negs["ReadOnly_neg_GuardEveryROStmt.cfg"]["out"])
    if not m or len(m.group(1).split(",")) < 3:
        raise vlib.Undecided("negative control GuardEveryROStmt: unexpected counterexample %s" % (m.group(0) if m else None))
    ctx.cov["guard_control_counterexample"] = [x.strip().strip('"') for x in m.group(1).split(",")]
    st = json.loads(p.stdout.strip().splitlines()[-1])
    ctx.cov["driver"] = st
    rows = vlib.read_nd(outp)
    done = [r for r in rows if "skipped" not in r]
    if len(done) < 0.97 * len(cases):
        raise vlib.Undecided("only %d of %d cases ran: %s" % (len(done), len(cases), [r["skipped"] for r in rows if "skipped" in r][:5]))

    stats = collections.Counter()
    route_mismatch = []
    class_mismatch = []
    resp_mismatch = []
    diverged_obs = []
    must_missing = []
    changed_cases = 0
    seq_done = collections.Counter()
    conn_obs = collections.Counter()
    for r in done:
        c = r["c"]
        ep, cls = shape(c)
        viol, info = judge(r)
        stats["status%d" % r["status"]] += 1
        if r.get("route_retries"):
            stats["repeated_because_route_not_as_planned"] += r["route_retries"]
        stats["entry_" + info["entry"]] += 1
        if ep == "rseq":
            seq_done[tuple(c["stmts"])] += 1
            stats["sequence_%s%s" % ("through_log" if info["entry"] == "EXECUTE_QUERY" else "local", "_tx" if c["tx"] else "")] += 1
        if info["text_changed"]:
            changed_cases += 1
        if info["ambiguous"]:
            stats["changes_without_a_single_author"] += info["ambiguous"]
        if info["diverged"]:
            diverged_obs.append({"case": {k: c[k] for k in ("stmts", "ep", "level", "role")}, "text": r["text"],
                                 "after": {n["id"]: [d["after"][:300] for d in n["diff"]] for n in r["nodes"]}})
        for s in r["stmts"]:
            if s["class"] == "attach" and ("a%d" % s["tag"]) in r.get("pool_dblist", "").split(","):
                conn_obs["pool-connection-keeps-attached-db:endpoint=%s" % ep] += 1
        if "attach" in c["stmts"] and r.get("attach_files"):
            conn_obs["attach-created-a-file:endpoint=%s" % ep] += 1
        if info["conn_changed"]:
            conn_obs["rwconn-state-changed:class=%s:endpoint=%s" % (cls, ep)] += 1
        for kind, pos, what in viol:
            ctx.violation(key_of(kind, pos, r), "%s %s%s level=%s to the %s: %r -- %s" % (c["ep"], "+".join(c["stmts"]), " in a transaction" if c["tx"] else "", c["level"], c["role"], r["text"], what),
                          {"case": c, "request": r["sent"], "status": r["status"], "response": r["body"], "store_nro": r["store_nro"], "store_nrw": r["store_nrw"],
                           "statements": r["stmts"],
                           "nodes": [{k: n[k] for k in ("id", "role", "target", "diff", "dv", "wal", "dbf")} for n in r["nodes"]], "events": r["events"]})
        # ---- conformance of the code with the design (not a verdict on the property)
        per = c["per"]
        is_req = c["ep"] == "req"
        tolerated = any(s["class"].startswith("pragma-optimize") or s["text"].strip() == "" for s in r["stmts"])
        classified_as_spec = True
        if is_req:
            for s, e in zip(r["stmts"], per):
                got = (s["store_nro"] == 1, bool(s["db_ro"]) or s["explain_flag"])
                if got != (e["store_ro"], e["db_ro"]):
                    classified_as_spec = False
                    # PRAGMA optimize: SQLite's verdict depends on how many tables the connection thinks need analysis
                    if s["class"].startswith("pragma-optimize") or s["text"].strip() == "":
                        stats["classified_unlike_spec_tolerated"] += 1
                    else:
                        class_mismatch.append({"case": c["stmts"], "pos": s["pos"], "text": s["text"], "store_ro": got[0], "db_ro": s["db_ro"], "explain": s["explain_flag"]})
            if (r["store_nrw"], r["store_nro"]) != (c["nrw"], c["nro"]):
                classified_as_spec = False
                if not tolerated:
                    class_mismatch.append({"case": c["stmts"], "text": r["text"], "counted_rw_ro": (r["store_nrw"], r["store_nro"]), "spec": (c["nrw"], c["nro"])})
        if c["level"] == "linearizable" and r["status"] == 200 and r["upgraded"] != c["up"] and not (c["role"] == "follower" and is_req):
            stats["upgrade_not_as_planned"] += 1
        elif r["status"] == 200 and classified_as_spec and info["entry"] != c["entry"]:
            route_mismatch.append({"case": c, "observed_entry": info["entry"], "text": r["text"]})
        if is_req and r["status"] == 200 and classified_as_spec and (not c["tx"] or all(x in MODELLED for x in c["stmts"])):
            for e, s in zip(per, r["stmts"]):
                # (a later statement of the request that sets the same header field hides what this one wrote)
                field = re.search(r"(?i)user_version|application_id", s["text"])
                hidden = field and any(field.group(0).lower() in x["text"].lower() for x in r["stmts"] if x["pos"] > s["pos"])
                if e["must_change"] and s["pos"] not in info["changed_pos"] and not hidden:
                    must_missing.append({"case": c["stmts"], "tx": c["tx"], "pos": s["pos"], "text": r["text"], "body": r["body"]})
        # which statements answer with an error: the refused writes of the design, and in a transaction nothing after the first
        if is_req and r["status"] == 200 and classified_as_spec and all(x in MODELLED for x in c["stmts"]):
            want = [e["fails"] for e in per if e["runs"]]
            got = r.get("res_errors")
            if got != want:
                resp_mismatch.append({"case": c["stmts"], "tx": c["tx"], "entry": c["entry"], "text": r["text"], "errors_expected": want, "body": r["body"]})
            else:
                stats["responses_as_designed"] += 1
    # spec/code conformance problems make the run undecided -- unless the real code violated the property in
    # this run: a misbehaving classifier or route is then the violation's cause, and the violation is the verdict
    ctx.cov["conformance"] = {"route_mismatches": len(route_mismatch), "classification_mismatches": len(class_mismatch),
                              "expected_writes_not_observed": len(must_missing), "responses_unlike_design": len(resp_mismatch)}
    if not [v for v in ctx.violations if not vlib.match_known(ctx.pid, v[0])]:
        if route_mismatch:
            raise vlib.Undecided("the code's dispatch differs from ReadOnly.tla in %d cases, e.g. %s" % (len(route_mismatch), route_mismatch[:3]))
        if class_mismatch:
            raise vlib.Undecided("the code classifies %d texts unlike ReadOnly.tla's class attributes, e.g. %s" % (len(class_mismatch), class_mismatch[:3]))
        if must_missing:
            raise vlib.Undecided("writes through the unified endpoint were not observed (harness blind?): %s" % must_missing[:3])
        if resp_mismatch:
            raise vlib.Undecided("statements answered with / without an error unlike ReadOnly.tla in %d cases, e.g. %s" % (len(resp_mismatch), resp_mismatch[:3]))
    short = [ss for ss in have if len(ss) >= 2 and shape({"ep": "req", "stmts": list(ss)})[0] == "rseq" and not seq_done[ss]]
    if len(short) > 0.03 * len(seq_done) + 1:
        raise vlib.Undecided("%d statement sequences were not replayed, e.g. %s" % (len(short), short[:3]))

    # binding self-test of the judge: (1) a fabricated change on one node of a real read-only observation must be caught;
    # (2) the tagged effect of a read-only-treated statement, fabricated on every node of a clean sequence observation,
    # must be laid to that statement
    caught = caught_seq = 0
    for r in done:
        if judge(r)[0]:
            continue
        if caught < 200:
            fake = json.loads(json.dumps(r))
            fake["nodes"][1]["diff"] = fake["nodes"][1]["diff"] + [{"comp": "table:zz", "before": "", "after": "x"}]
            fake["nodes"][1]["dv"] = True
            kinds = {k for k, _, _ in judge(fake)[0]}
            if not ({"changed-on-some-nodes"} <= kinds):
                raise vlib.Undecided("judge self-test: a change on one node only was not caught (%s)" % kinds)
            caught += 1
        ro = [s for s in r["stmts"] if s["store_nro"] == 1 and s["pos"] > 1]
        rw = [s for s in r["stmts"] if s["store_nro"] == 0]
        if caught_seq < 200 and shape(r["c"])[0] == "rseq" and ro and rw and r["c"]["entry"] == "EXECUTE_QUERY":
            fake = json.loads(json.dumps(r))
            s = ro[-1]
            for n in fake["nodes"]:
                line = 'i:99|s:"c%d"\n' % s["tag"]
                d = next((d for d in n["diff"] if d["comp"] == "table:t"), None)
                if d is None:
                    n["diff"].append({"comp": "table:t", "before": "", "after": line})
                else:
                    d["after"] += line
            got = [(k, pos) for k, pos, _ in judge(fake)[0]]
            if not any(k.startswith("treated-ro-changed") and pos == s["pos"] for k, pos in got):
                raise vlib.Undecided("judge self-test: the fabricated write of read-only-treated statement %d of %s was not laid to it (%s)" % (s["pos"], r["c"]["stmts"], got))
            caught_seq += 1
    if caught == 0 or caught_seq == 0:
        raise vlib.Undecided("judge self-test did not run (%d, %d)" % (caught, caught_seq))
    ctx.cov["binding_selftests"] = [{"fabricated_single_node_change_caught": caught, "fabricated_write_of_a_read_only_statement_in_a_sequence_attributed": caught_seq}]

    ctx.add("traces_validated_against_impl", len(done))
    ctx.add("evaluations", len(done))
    ctx.add("distinct_nontrivial", changed_cases)
    sel.update({"run": len(done), "skipped": len(rows) - len(done), "text_changed_a_database": changed_cases,
                "sequence_alphabet": alpha, "sequences_replayed": len(seq_done)})
    ctx.cov["cases"] = sel
    ctx.cov["outcomes"] = dict(stats)
    ctx.cov["connection_state_observations"] = dict(conn_obs)
    ctx.cov["diverged_through_the_log"] = {"cases": len(diverged_obs), "examples": diverged_obs[:2]}
    ctx.cov["rule"] = ("every (class, endpoint, level, role, upgrade) of ReadOnly.tla for one statement and statement + write; every statement "
                       "sequence of ReadOnly.tla (all orders and repetitions of the sequence alphabet up to the tier's length) at least once "
                       "through the log and once without it where the store counts no write, the other dimensions drawn by the seed; "
                       "non-trivial = a statement other than the plain write changed some node's database")
    ctx.cov["exhaustive"] = True
    for r in done[:600]:
        if len(r["c"]["stmts"]) >= 3 and "write" in r["c"]["stmts"][1:] and len(ctx.cov["samples"]) < 5:
            ctx.sample({"case": {k: r["c"][k] for k in ("stmts", "tx", "ep", "level", "role", "up", "entry")}, "text": r["text"], "status": r["status"],
                        "response": r["body"][:300], "changed": {n["id"]: [d["comp"] for d in n["diff"]] for n in r["nodes"]},
                        "applies": [(e["node"], e["idx"], e["type"]) for e in r["events"] if e["ev"] == "apply"]})
    ctx.assumptions += ["one request at a time on a fault-free cluster; a case during which leadership moved is repeated",
                        "a linearizable read is made to be upgraded (or not) by resetting (or establishing) the leader's strong-read term before the request",
                        "attached databases and TEMP objects are connection state, not the node's database: observed and reported, not judged",
                        "PRAGMAs blocked by the request guard (C15) are not generated",
                        "a change is laid to a statement by the tag its effects carry (case number and position in names, values, row ids); "
                        "a change without a tag is laid to a read-only-treated statement only when every statement of the request that can have made it is one"]

