"""C17 Reads never modify data; databases change only through the log.
(A) ReadOnly.tla: one request (statement class x endpoint x consistency level x role of the
    receiving node x linearizable-upgrade) followed through the code's steps -- HTTP handler,
    classification of a unified request's statements, dispatch (local read | QUERY log entry |
    EXECUTE_QUERY log entry), the connection that runs the text on each node (read-only pool /
    read-write connection, the driver's query loop that steps only the last statement of a text
    vs. its exec loop) -- recording which nodes' databases the text changes.  Invariants:
    NoChangeByRead (no query-endpoint request and no statement treated as read-only changes any
    node), OnlyThroughLog (a change is the application of a committed write entry on that node),
    EveryNode (then on every node).  TLC exhaustive over 21 classes x 4 endpoints x 4 levels x
    2 roles (+ upgrade); one negative control per mechanism (ROPool, ClassifyWholeText,
    LocalReadsOnROPool, StrongQueryOnROPool).
(B) every generated case is sent over HTTP (POST /db/query, GET /db/query?q=, POST /db/request
    alone and together with a genuine write) to the leader or a follower of a live 3-node
    cluster.  Before and after each request every node is observed: logical content per
    component (schema, every table incl. sqlite_stat1, user_version, application_id),
    PRAGMA data_version on a connection owned by the harness, fingerprints of the database file
    and the WAL, attached/temp objects of the read-write connection, and the FSM applies of the
    window (node, index, entry type, statements).  Judged by the property text only: a change
    caused by a query-endpoint request or by a statement the unified request counts as read-only
    (Store.RORWCount, which decides the route) or runs as a query (DB.Request's own classification on
    the read-write connection), a change on a node without a write entry applied there, or a change that
    is not the same on every node is a violation.  The thorough tier runs six concrete texts
    per class (other heads, tails, separators, case, transaction flag, order of the genuine
    write)."""
import collections, concurrent.futures, json, os, random, vlib
LEVEL = "model_checking"
TECHNIQUE = "TLA+ request-path spec, TLC exhaustive + negative controls; every spec-generated case replayed over HTTP on a live 3-node cluster with per-node before/after observation and the FSM apply trace"

SWITCHES = (("ROPool", "NoChangeByRead"), ("ClassifyWholeText", "NoChangeByRead"),
            ("LocalReadsOnROPool", "EveryNode"), ("StrongQueryOnROPool", "OnlyThroughLog"))
WRITE_ENTRIES = ("EXECUTE", "EXECUTE_QUERY")


def judge(r):
    """Returns (violations [(kind, what)], info dict) for one observed case; property text only."""
    c = r["c"]
    viol = []
    marker = "s:\"m%d\"" % c["id"]
    text_changed = []     # nodes where something other than the genuine write's row changed
    any_changed = []      # nodes where anything changed logically
    phys_changed = []     # nodes whose file changed (data_version / WAL / db file)
    per_node = {}
    for n in r["nodes"]:
        comps = []
        for d in n["diff"]:
            if d["comp"] == "table:w" and c["ep"] == "rwrite":
                # the genuine write: exactly one new row carrying this case's marker
                added = [l for l in n["w_after"].splitlines() if l not in n["w_before"].splitlines()]
                gone = [l for l in n["w_before"].splitlines() if l not in n["w_after"].splitlines()]
                if len(added) == 1 and not gone and marker in added[0]:
                    continue
            comps.append(d["comp"])
        per_node[n["id"]] = comps
        if comps:
            text_changed.append(n["id"])
        if n["diff"]:
            any_changed.append(n["id"])
        if n["dv"] or n["wal"] or n["dbf"]:
            phys_changed.append(n["id"])
    applies = [e for e in r["events"] if e["ev"] == "apply"]
    wr_idx = collections.defaultdict(set)      # node -> indexes of write entries applied in the window
    for e in applies:
        if e["type"] in WRITE_ENTRIES:
            wr_idx[e["node"]].add(e["idx"])
    all_nodes = [n["id"] for n in r["nodes"]]
    is_query = c["ep"] in ("qpost", "qget")
    # a unified request classifies twice: Store.RORWCount decides the route, DB.Request (on the read-write
    # connection of every node) decides whether the text is run as a query or as an execute
    store_ro = (not is_query) and r["store_nro"] == 1
    db_ro = (not is_query) and bool(r.get("db_ro"))
    by = "+".join(x for x, f in (("store", store_ro), ("db", db_ro)) if f)
    comps_all = sorted({x for v in per_node.values() for x in v})
    # sentence 1: no query-endpoint request, no statement treated as read-only, changes any node
    if is_query and (any_changed or phys_changed):
        kind = "query-changed" if any_changed else "query-changed-file-only"
        viol.append((kind, "a query-endpoint request changed the database of %s (%s)" % (any_changed or phys_changed, comps_all or "file only")))
    if by and text_changed:
        viol.append(("treated-ro-changed:by=" + by, "a statement the unified request treats as read-only (%s classification) changed %s on %s" % (by, comps_all, text_changed)))
    if store_ro and c["ep"] == "ralone" and phys_changed and not text_changed:
        viol.append(("treated-ro-changed-file-only:by=" + by, "a unified request of one read-only statement rewrote the database file of %s" % phys_changed))
    # sentence 2: a node's database changes only by applying a committed (write) log entry ...
    nolog = [n for n in set(any_changed + phys_changed) if not wr_idx[n]]
    if nolog:
        viol.append(("changed-without-log", "the database of %s changed but no write entry was applied there in the window" % sorted(nolog)))
    # ... which every node applies: a change on some nodes only did not come from the log
    partial = {}
    for comp in sorted({d["comp"] for n in r["nodes"] for d in n["diff"]}):
        on = [n["id"] for n in r["nodes"] if any(d["comp"] == comp for d in n["diff"])]
        if set(on) != set(all_nodes):
            partial[comp] = on
    if phys_changed and set(phys_changed) != set(all_nodes):
        partial["file"] = phys_changed
    if partial:
        viol.append(("changed-on-some-nodes", "changed on some of %s only: %s" % (all_nodes, partial)))
    # (all nodes applied the same write entry but ended up different: replica divergence, C01's subject, reported as an observation)
    sigs = {json.dumps(n["diff"], sort_keys=True) for n in r["nodes"]}
    diverged = len(sigs) > 1 or not r["equal_after"]
    idxs = {n: frozenset(wr_idx[n]) for n in all_nodes}
    if len(set(idxs.values())) > 1:
        viol.append(("log-applied-on-some-nodes", "write entries applied per node differ: %s" % {k: sorted(v) for k, v in idxs.items()}))
    entry = "none"
    types = {e["type"] for e in applies}
    for t in ("EXECUTE_QUERY", "EXECUTE", "QUERY"):
        if t in types:
            entry = t
            break
    info = {"text_changed": bool(text_changed), "entry": entry, "store_ro": store_ro, "db_ro": db_ro, "comps": comps_all,
            "diverged": diverged and not any(k == "changed-on-some-nodes" for k, _ in viol),
            "conn_changed": any(n["conn_before"] != n["conn_after"] for n in r["nodes"])}
    return viol, info


def key_of(kind, c):
    k = "readonly:%s:class=%s:endpoint=%s:level=%s:role=%s" % (kind, c["class"], c["ep"], c["level"], c["role"])
    if c["up"]:
        k += ":upgraded"
    return k


def run(ctx):
    gen, _ = vlib.tlc_cases(ctx, "ReadOnly", "ReadOnly_gen.cfg")
    if len(gen) < 840:
        raise vlib.Undecided("generator produced %d cases" % len(gen))
    gen.sort(key=lambda c: (c["class"], c["ep"], c["level"], c["role"], c["up"]))
    rnd = random.Random(ctx.seed)
    cases = []
    nvar = ctx.pick(1, 6)
    for v in range(nvar):
        for c in gen:
            d = dict(c)
            # quick: the canonical text of every class, plus one seeded other text for every third case
            d["variant"] = v if ctx.thorough else (0 if rnd.random() < 0.67 else rnd.randrange(1, 6))
            cases.append(d)
    rnd.shuffle(cases)           # the order decides which pooled connection / which leftovers a case meets
    for i, d in enumerate(cases):
        d["id"] = i + 1
    inp = os.path.join(ctx.scratch, "ro.ndjson")
    outp = os.path.join(ctx.scratch, "ro.out.ndjson")
    vlib.write_nd(inp, cases)
    ctx.harness()
    # the design (exhaustive) and its negative controls are checked while the cluster replays the cases
    with concurrent.futures.ThreadPoolExecutor(max_workers=2) as ex:
        futs = [ex.submit(vlib.tlc_mc, ctx, "ReadOnly", "ReadOnly_mc.cfg", workers=1)]
        futs += [ex.submit(vlib.tlc_neg, ctx, "ReadOnly", "ReadOnly_neg_%s.cfg" % sw, expect=inv, workers=1) for sw, inv in SWITCHES]
        p = ctx.run_harness(["readonly-replay", "-in", inp, "-out", outp, "-dir", ctx.sub("ro")], timeout=ctx.pick(1500, 5400))
        for f in futs:
            f.result()
    st = json.loads(p.stdout.strip().splitlines()[-1])
    ctx.cov["driver"] = st
    rows = vlib.read_nd(outp)
    done = [r for r in rows if "skipped" not in r]
    if len(done) < 0.97 * len(cases):
        raise vlib.Undecided("only %d of %d cases ran: %s" % (len(done), len(cases), [r["skipped"] for r in rows if "skipped" in r][:5]))

    stats = collections.Counter()
    route_mismatch = []
    class_mismatch = []
    diverged_obs = []
    must_missing = []
    changed_cases = 0
    conn_obs = collections.Counter()
    for r in done:
        c = r["c"]
        viol, info = judge(r)
        stats["status%d" % r["status"]] += 1
        if r.get("route_retries"):
            stats["repeated_because_route_not_as_planned"] += r["route_retries"]
        stats["entry_" + info["entry"]] += 1
        if info["text_changed"]:
            changed_cases += 1
        if info["diverged"]:
            diverged_obs.append({"case": {k: c[k] for k in ("class", "ep", "level", "role")}, "text": r["text"],
                                 "after": {n["id"]: [d["after"] for d in n["diff"]] for n in r["nodes"]}})
        if c["class"] == "attach" and ("a%d" % (c["id"] + 1000)) in r.get("pool_dblist", "").split(","):
            conn_obs["pool-connection-keeps-attached-db:endpoint=%s" % c["ep"]] += 1
        if c["class"] == "attach" and r.get("attach_files"):
            conn_obs["attach-created-a-file:endpoint=%s" % c["ep"]] += 1
        if info["conn_changed"]:
            conn_obs["rwconn-state-changed:class=%s:endpoint=%s" % (c["class"], c["ep"])] += 1
        for kind, what in viol:
            ctx.violation(key_of(kind, c), "%s %s level=%s to the %s: %r -- %s" % (c["ep"], c["class"], c["level"], c["role"], r["text"], what),
                          {"case": c, "request": r["sent"], "status": r["status"], "response": r["body"], "store_nro": r["store_nro"], "store_nrw": r["store_nrw"], "db_ro": r.get("db_ro"),
                           "nodes": [{k: n[k] for k in ("id", "role", "target", "diff", "dv", "wal", "dbf")} for n in r["nodes"]], "events": r["events"]})
        # conformance of the code's route with the design (not a verdict on the property)
        if c["level"] == "linearizable" and r["status"] == 200 and r["upgraded"] != c["up"] and not (c["role"] == "follower" and c["ep"] in ("ralone", "rwrite")):
            stats["upgrade_not_as_planned"] += 1
        elif r["status"] == 200 and info["store_ro"] == c["store_ro"] and info["entry"] != c["entry"]:
            route_mismatch.append({"case": c, "observed_entry": info["entry"], "text": r["text"]})
        if c["must_change"] and r["status"] == 200 and not info["text_changed"]:
            must_missing.append({"case": c, "text": r["text"], "body": r["body"]})
        if c["ep"] in ("ralone", "rwrite") and (info["store_ro"], info["db_ro"] or r["explain_flag"]) != (c["store_ro"], c["db_ro"]):
            # PRAGMA optimize: SQLite's verdict depends on how many tables the connection thinks need analysis
            if c["class"].startswith("pragma-optimize") or r["text"].strip() == "":
                stats["classified_unlike_spec_tolerated"] += 1
            else:
                class_mismatch.append({"case": c, "text": r["text"], "store_ro": info["store_ro"], "db_ro": info["db_ro"], "explain": r["explain_flag"]})
    # spec/code conformance problems make the run undecided -- unless the real code violated the property in
    # this run: a misbehaving classifier or route is then the violation's cause, and the violation is the verdict
    ctx.cov["conformance"] = {"route_mismatches": len(route_mismatch), "classification_mismatches": len(class_mismatch),
                              "expected_writes_not_observed": len(must_missing)}
    if not [v for v in ctx.violations if not vlib.match_known(ctx.pid, v[0])]:
        if route_mismatch:
            raise vlib.Undecided("the code's dispatch differs from ReadOnly.tla in %d cases, e.g. %s" % (len(route_mismatch), route_mismatch[:3]))
        if class_mismatch:
            raise vlib.Undecided("the code classifies %d texts unlike ReadOnly.tla's class attributes, e.g. %s" % (len(class_mismatch), class_mismatch[:3]))
        if must_missing:
            raise vlib.Undecided("writes through the unified endpoint were not observed (harness blind?): %s" % must_missing[:3])

    # binding self-test of the judge: a fabricated change on one node of a real read-only observation must be caught
    caught = 0
    for r in done[:200]:
        if judge(r)[0]:
            continue
        fake = json.loads(json.dumps(r))
        fake["nodes"][1]["diff"] = fake["nodes"][1]["diff"] + [{"comp": "table:zz", "before": "", "after": "x"}]
        fake["nodes"][1]["dv"] = True
        kinds = {k for k, _ in judge(fake)[0]}
        if not ({"changed-on-some-nodes"} <= kinds):
            raise vlib.Undecided("judge self-test: a change on one node only was not caught (%s)" % kinds)
        caught += 1
    if caught == 0:
        raise vlib.Undecided("judge self-test did not run")
    ctx.cov["binding_selftests"] = [{"fabricated_single_node_change_caught": caught}]

    ctx.add("traces_validated_against_impl", len(done))
    ctx.add("evaluations", len(done))
    ctx.add("distinct_nontrivial", changed_cases)
    ctx.cov["cases"] = {"generated": len(gen), "run": len(done), "skipped": len(rows) - len(done), "texts_per_class": nvar,
                        "text_changed_a_database": changed_cases}
    ctx.cov["outcomes"] = dict(stats)
    ctx.cov["connection_state_observations"] = dict(conn_obs)
    ctx.cov["diverged_through_the_log"] = {"cases": len(diverged_obs), "examples": diverged_obs[:2]}
    ctx.cov["rule"] = "every (class, endpoint, level, role, upgrade) of ReadOnly.tla; non-trivial = the text changed some node's database"
    ctx.cov["exhaustive"] = True
    for r in done[:400]:
        if r["c"]["class"] in ("ro-head-rw-tail", "ddl", "pragma-optimize") and len(ctx.cov["samples"]) < 5:
            ctx.sample({"case": {k: r["c"][k] for k in ("class", "ep", "level", "role", "up", "entry", "may_change")}, "text": r["text"], "status": r["status"],
                        "response": r["body"][:200], "changed": {n["id"]: [d["comp"] for d in n["diff"]] for n in r["nodes"]},
                        "applies": [(e["node"], e["idx"], e["type"]) for e in r["events"] if e["ev"] == "apply"]})
    ctx.assumptions += ["one request at a time on a fault-free cluster; a case during which leadership moved is repeated",
                        "a linearizable read is made to be upgraded (or not) by resetting (or establishing) the leader's strong-read term before the request",
                        "attached databases and TEMP objects are connection state, not the node's database: observed and reported, not judged",
                        "PRAGMAs blocked by the request guard (C15) are not generated"]
