"""C31 Shutdown waits for an in-flight snapshot or backup only as long as needed.
(A) CloseGate.tla (discrete, event-driven time, tick = 10 ms: a holder of the snapshot gate with start
    time and duration; Close = optional snapshot, then BeginWithRetry(timeout, interval) as timed
    steps) exhaustive over all placements of the close call relative to holders of 0 .. beyond the
    limit: ClosePrompt (Close gets the gate within Eps of max(release, call)), FailOnlyIfOutlasts
    (Close gives up only if the holder still holds after the limit), termination.  Negative controls
    ShortRetryInterval, TenSecondLimit and both together (= the swapped arguments of the pinned tree).
(B) real single-node stores; the gate is held through the verif export for d in {50 ms, 500 ms, 2 s}
    (+ 5 s, 11 s in the thorough tier) with Close called at offsets 0, d/2 and d - 30 ms, by a real
    Store.Backup whose destination stalls for d, by real user snapshots racing with Close, and by
    nobody; with and without snapshot-on-close.  The gate's own hook events (cas.begin / cas.end under
    its mutex), time-stamped on arrival, give call / acquisition / release times; TraceCloseGate.tla
    evaluates the model's Prompt and MayFail predicates on them with generous constants (Close obtains
    the gate within 1.5 s of max(release, its first attempt); "about ten seconds" >= 8.5 s)."""
import json, os, threading, vlib
LEVEL = "model_checking"
TECHNIQUE = "timed TLA+ spec of Close vs. a gate holder, TLC exhaustive over all placements + negative controls; measured timings of the real store evaluated with the spec's predicates by trace validation"


def run(ctx):
    errs = []
    tr = os.path.join(ctx.scratch, "closegate.ndjson")
    res = {}

    # holder durations: a fixed grid over the whole wait limit (a retry schedule that thins out with time --
    # back-off -- is prompt after short holds and late only after long ones) plus seeded ones
    import random
    rng = random.Random(ctx.seed)
    grid = ctx.pick([0, 50, 500, 1300, 2000, 2700, 6500], [0, 50, 500, 1300, 2000, 2700, 3900, 5000, 5300, 6500, 7900, 9400, 11000])
    grid = sorted(set(grid + [rng.randrange(1000, 9500, 10) for _ in range(ctx.pick(2, 6))]))

    def drive():
        try:
            res["p"] = ctx.run_harness(["closegate", "-out", tr, "-durs", ",".join(map(str, grid)),
                                        "-par", ctx.pick("10", "12")], timeout=1500)
        except BaseException as e:
            errs.append(e)
    ctx.harness()
    threads = [threading.Thread(target=drive)]

    def neg(cfg, inv):
        def f():
            try:
                vlib.tlc_neg(ctx, "CloseGate", cfg, expect=inv, workers=1)
            except BaseException as e:
                errs.append(e)
        return threading.Thread(target=f)
    threads += [neg("CloseGate_neg_ShortRetryInterval.cfg", "ClosePrompt"),
                neg("CloseGate_neg_TenSecondLimit.cfg", "FailOnlyIfOutlasts"),
                neg("CloseGate_neg_Swapped.cfg", "ClosePrompt")]
    for t in threads:
        t.start()
    vlib.tlc_mc(ctx, "CloseGate", ctx.pick("CloseGate_mcq.cfg", "CloseGate_mc.cfg"), workers=2)
    if ctx.thorough:
        vlib.tlc_mc(ctx, "CloseGate", "CloseGate_live.cfg", workers=2, coverage=False, extra=["-lncheck", "final"])
    for t in threads:
        t.join()
    if errs:
        raise errs[0]
    rows = vlib.read_nd(tr)
    cases = [r for r in rows if r.get("ev") == "case"]
    if len(cases) < 10 or not any(c["rel"] > c["t0"] for c in cases):
        raise vlib.Undecided("driver produced no contended close: %s" % cases[:3])
    ctx.cov["driver"] = json.loads(res["p"].stdout.strip().splitlines()[-1])
    ctx.cov["cases"] = [{k: c[k] for k in ("kind", "d_ms", "o_ms", "snap_on_close", "ok", "wait_ms", "tries", "t0", "ready", "rel", "gate", "ret")} for c in cases]

    def dclass(ms):
        return "0" if ms == 0 else "<=100ms" if ms <= 100 else "<=1s" if ms <= 1000 else "<=5s" if ms <= 5000 else ">10s"

    def key(bad, name):
        what = {"ClosePrompt": "late", "FailOnlyIfOutlasts": "failed-early"}.get(name, name or "rejected")
        return "closegate:%s:holder=%s:d=%s:snap_on_close=%s" % (what, bad.get("kind"), dclass(bad.get("d_ms", 0)), str(bad.get("snap_on_close")).lower())

    def corrupt(rs):
        # a close that came back 3 s after the release it waited for
        for r in rs:
            if r.get("ev") == "case" and r["ok"] and r["rel"] > r["t0"]:
                r["gate"] += 300
                return rs
        raise vlib.Undecided("no place to corrupt")
    vlib.trace_check(ctx, "TraceCloseGate", "TraceCloseGate.cfg", tr, "close vs. gate holder", key_fn=key, selftest=corrupt, timeout=600)
    ctx.add("traces_validated_against_impl", len(cases))
    ctx.sample(cases[:8], limit=8)
    ctx.cov["exhaustive"] = False
    ctx.assumptions += [
        "durations are wall-clock measurements on a shared machine; only generous one-sided bounds are asserted (gate obtained within 1.5 s of max(release, first attempt); a give-up not before 8.5 s); the disk work of the snapshot-on-close and of the shutdown itself is not judged",
        "a Close that succeeds although the holder outlasted the limit would not be reported (the property only says when Close may fail)",
        "the gate's hook events are emitted under its mutex and time-stamped when they reach the recorder",
    ]
