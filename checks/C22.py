"""C22 Loads and boots replace the database everywhere, durably.
(A) Snapshotting.tla (see C03/C04): Load is an action of the storage model (database file swapped,
    FULL_NEEDED set, replayed on restart); invariants LiveOK and Rebuild cover "loaded database plus
    later writes survives snapshots and restarts"; negative controls FullAfterLoad and
    ClearFlagOnlyIfCovers (a snapshot chain must never continue across a load).
(B) single node: TLC-generated behaviours containing loads, and witnesses with invalid loads
    (valid SQLite header + garbage body, pure garbage), replayed on real stores in child processes
    with restarts, kills and forced restores; (C) live 3-node cluster: writes, loads of generated
    WAL-mode and DELETE-mode files through a follower's HTTP API, invalid loads, SQL-text loads,
    snapshots that truncate the log, follower restarts and nodes that join afterwards (snapshot
    install).  After every step the projection of EVERY node goes to TraceSnapshotting.tla: it must
    be the acknowledged history applied once; a refused load must change nothing anywhere."""
import json, os, vlib, snapcases
LEVEL = "model_checking"
TECHNIQUE = "TLA+ spec of the storage stack with loads, TLC exhaustive + negative controls; spec-generated and witness histories replayed on real single nodes and on a live cluster, validated by a TLA+ trace spec"

WITNESSES = [
    ("bad-body", [("w:1,w:2,LB,w:1,c", False), ("w:2,c", False)]),
    ("bad-body-after-snapshot", [("w:1,s,w:2,LB,w:1,s,c", False), ("c", True)]),
    ("load-snap-restart", [("w:1,L,w:2,s,w:1,x", False), ("w:2,s,c", False), ("c", True)]),
    ("load-kill", [("w:12,s,L,x", False), ("w:1,c", False), ("c", False)]),
    ("load-load", [("L,w:1,L,w:2,s,c", False), ("LB,w:1,c", True)]),
    ("load-after-fast-restart", [("w:1,s,c", False), ("L,w:2,s,c", False), ("c", True)]),
    ("load-after-fast-restart-2", [("w:12,s,w:1,s,c", False), ("w:2,L,w:1,s,w:2,c", False), ("w:1,c", True)]),
    ("load-after-restore-restart", [("w:1,s,c", False), ("L,w:2,s,c", True), ("c", True)]),
]

def run(ctx):
    vlib.tlc_mc(ctx, "Snapshotting", "Snapshotting_mc.cfg", coverage=False, heap="16g", timeout=3000, workers=ctx.pick(8, "auto"))
    vlib.tlc_neg(ctx, "Snapshotting", "Snapshotting_neg_FullAfterLoad.cfg", expect="Rebuild", heap="8g")
    loads = lambda h: any(x["a"] == "L" for x in h) and not any(x["a"] == "open" and x.get("recover") for x in h)
    sample, gst = snapcases.generated(ctx, vlib, ctx.pick("SnapshottingGen.cfg", "SnapshottingGen4.cfg"), ctx.pick(30, 300), loads, final_restore=True)
    cases = sample + [{"id": "wit-" + n, "phases": [{"script": s, "crash": "", "recover": False, "rmfp": f} for s, f in ph]} for n, ph in WITNESSES]
    st, rows = snapcases.run_cases(ctx, vlib, cases, "loads on a single node", "load")
    ctx.cov["generated"] = gst
    ctx.cov["replay_single_node"] = st
    # live cluster
    tr = os.path.join(ctx.scratch, "loadcluster.ndjson")
    p = ctx.run_harness(["load-cluster", "-out", tr, "-runs", str(ctx.pick(2, 10)), "-steps", str(ctx.pick(14, 30)), "-dir", ctx.sub("lc")], timeout=3000)
    cst = json.loads(p.stdout.strip().splitlines()[-1])
    ctx.cov["cluster_driver"] = cst
    if cst.get("errors", 0) > 0 and cst.get("errors", 0) >= ctx.pick(2, 4):
        raise vlib.Undecided("cluster histories failed to run: %s" % cst)
    crow = vlib.read_nd(tr)

    def key(bad, name):
        return "load:cluster:%s:after=%s:node=%s" % (name or "rejected", bad.get("why", "?"), "joiner" if str(bad.get("node", "")).startswith("j") else "member")
    vlib.trace_check(ctx, "TraceSnapshotting", "TraceSnapshotting.cfg", tr, "loads on a live cluster", key_fn=key, timeout=1800)
    ctx.add("traces_validated_against_impl", len(cases) + cst.get("load", 0) + cst.get("load-delete", 0))
    ctx.sample([snapcases.describe(c) for c in cases[-3:]])
    ctx.sample([r for r in crow if r.get("ev") in ("ack", "state")][10:16])
    ctx.cov["exhaustive"] = False
    ctx.assumptions += ["invalid data = files SQLite refuses to open (garbage; valid header with garbage body); a file that opens but is corrupt deeper inside is not generated",
                        "boot is exercised through the same Swap path as load; /boot itself is not driven"]
