"""C03 Acknowledged writes survive crashes and restarts.
(A) Snapshotting.tla: one node's storage stack in versioned-page terms (non-idempotent writes, loads,
    live WAL, staged segments, snapshot catalog, FULL_NEEDED, fingerprint) with Raft's real snapshot
    call order (fsm.Snapshot -> persist data -> finalizer/fingerprint -> sink close -> release) and a
    process crash possible between any two steps, Open with the fast-path decision, restore and log
    replay, manual recovery.  Invariant LiveOK: whenever the node is up its database is exactly the
    committed log applied once.  Negative controls FingerprintGate and FPVouchesForVisible (the
    fingerprint written before the sink is closed must not be trusted for a snapshot that never
    became visible: otherwise the log is applied a second time).
(B) TLC-generated behaviours with a crash (SnapshottingGen.tla: every state reached right after an
    Open) are replayed on real single-node stores living in child processes: the process is killed
    at operation boundaries and, through gates, inside a snapshot after the data was persisted
    and after the fingerprint was written; plus a fixed history run once for every crash point of
    the snapshot / fingerprint / restore paths (VERIF_CRASH).  The ordered events of all lives go
    to TraceSnapshotting.tla: after every restart the database must be exactly the acknowledged
    operations applied once (an operation in flight at the kill may or may not have happened)."""
import json, os, vlib, snapcases
LEVEL = "model_checking"
TECHNIQUE = "TLA+ spec of the storage stack with crash points, TLC exhaustive + negative controls; spec-generated crash behaviours replayed on real stores in child processes, validated by a TLA+ trace spec"

CRASH_POINTS = ["snap.ckpt.full", "snap.staged", "snap.persisted", "snap.finalized", "fp.tmp", "snap.release",
                "restore.extracted", "restore.fpremoved", "restore.swapped", "restore.fp"]

REAP_POINTS = ["reap.plan", "ckptwal.renamed", "ckptwal.done", "plan.op.post", "reap.done"]

def crash_point_cases(quick):
    cases = []
    hist = "w:1,s,w:12,w:2,s,w:1,w:2,s,w:12"           # full, then two incrementals
    for pt in CRASH_POINTS:
        for k in ((1, 2) if quick else (1, 2, 3)):
            if pt.startswith("restore."):
                # the restore path runs at start-up: first life leaves a store that must restore (no fingerprint)
                cases.append({"id": "cp-%s-%d" % (pt, k), "phases": [
                    {"script": hist + ",c", "crash": "", "recover": False, "rmfp": False},
                    {"script": "w:1,c", "crash": "%s#1" % pt, "recover": False, "rmfp": True},
                    {"script": "w:2,s,c", "crash": "", "recover": False, "rmfp": k == 2},
                    {"script": "c", "crash": "", "recover": False, "rmfp": False}]})
                if k == 1:
                    continue
                break
            cases.append({"id": "cp-%s-%d" % (pt, k), "phases": [
                {"script": hist + ",x", "crash": "%s#%d" % (pt, k), "recover": False, "rmfp": False},
                {"script": "w:1,s,w:2,c", "crash": "", "recover": False, "rmfp": False},
                {"script": "c", "crash": "", "recover": False, "rmfp": False}]})
    # a reap (consolidation of the incrementals into the full snapshot) interrupted at its crash points; the next life
    # must rebuild the database from the snapshot store alone (fingerprint removed: no fast path) and lose nothing
    for pt in REAP_POINTS:
        for k in ((1, 2) if quick else (1, 2, 3, 4)):
            cases.append({"id": "reap-%s-%d" % (pt, k), "phases": [
                {"script": hist + ",r,x", "crash": "%s#%d" % (pt, k), "recover": False, "rmfp": False},
                {"script": "c", "crash": "", "recover": False, "rmfp": True},
                {"script": "w:1,s,w:2,r,c", "crash": "", "recover": False, "rmfp": False},
                {"script": "c", "crash": "", "recover": False, "rmfp": True}]})
    return cases

def run(ctx):
    vlib.tlc_mc(ctx, "Snapshotting", "Snapshotting_mc.cfg", coverage=ctx.thorough, heap="16g", timeout=3000, workers=ctx.pick(8, "auto"))
    vlib.tlc_neg(ctx, "Snapshotting", "Snapshotting_neg_FingerprintGate.cfg", expect="LiveOK", heap="8g")
    vlib.tlc_neg(ctx, "Snapshotting", "Snapshotting_neg_FPVouchesForVisible.cfg", expect="LiveOK", heap="8g")
    crashed = lambda h: any(x["a"] == "crash" for x in h) and not any(x["a"] == "open" and x.get("recover") for x in h)
    sample, gst = snapcases.generated(ctx, vlib, ctx.pick("SnapshottingGen.cfg", "SnapshottingGen4.cfg"), ctx.pick(40, 500), crashed)
    cases = sample + crash_point_cases(not ctx.thorough)
    st, rows = snapcases.run_cases(ctx, vlib, cases, "crash and restart of a single node", "crash")
    ctx.cov["generated"] = gst
    ctx.cov["replay"] = st
    if st["kills"] < 10:
        raise vlib.Undecided("too few kills happened: %s" % st)
    ctx.add("traces_validated_against_impl", len(cases))
    ctx.sample([snapcases.describe(c) for c in cases[:4]] + [snapcases.describe(cases[-1])])
    ctx.sample([r for r in rows if r.get("ev") in ("open", "end")][:6])
    ctx.cov["exhaustive"] = False
    ctx.assumptions += ["process crash = os.Exit at the crash point / kill at a gate: completed file writes are kept (OS cache intact); loss of unsynced directory entries is not modelled",
                        "single-node cluster (the minority-of-a-cluster case shares the same storage stack)"]
