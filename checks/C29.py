"""C29 Commands survive encoding into the log unchanged.
(A) Marshal.tla: the encode/decode pipeline as a state machine (Submit, Encode = RequestMarshaler.Marshal /
    MarshalLoadRequest / MarshalLoadChunkRequest / MarshalNoop transcribed incl. the statistics counters, Wrap =
    Command{Type,SubCommand,Compressed}, Decode = Unmarshal + UnmarshalSubCommand / UnmarshalLoadRequest / ...)
    over every (type, statement count vs batch threshold, longest SQL vs size threshold, plain size vs gzip size
    in five classes, forced, payload class); invariants RoundTrip, UsefulOnly (compressed only if smaller or
    forced), FlagTable (compressed = thresholdMet /\\ (smaller \\/ forced)), FlagOnlyForRequests, FlagMatchesBody,
    StatsPartition, and EntrySmaller for the design that counts the flag field; one negative control per
    mechanism (BatchThreshold, SizeThreshold, OnlyIfSmallerOrForced, DecompressOnFlag) and for CountFlagOverhead.
(B) every abstract case is printed by TLC and concretised into real requests (random SQL texts in several scripts,
    every parameter type incl. int64 extremes, NaN payloads, +-Inf, -0, subnormals, empty / nil / large byte slices,
    empty / emoji / NUL / invalid-UTF-8 strings, named and value-less parameters, all flags, statement counts and
    text lengths at threshold-1 / threshold / threshold+1 for the default 512/4096 and for small thresholds, filler
    tuned so that gzip is larger / equal / 1 / 2 / >=3 bytes smaller), pushed through the REAL marshaler, wrapped as
    the store does, and decoded by command.Unmarshal+UnmarshalSubCommand, by the REAL CommandProcessor.Process
    (cp.decoded hook) and, for a subset, by the FSMs of the leader AND the follower of a real two-node store
    (Store.Execute/Query/Request/Load); equality is proto.Equal plus bit-identical re-marshalling.
(C) what the code did for every request (flag, real body encoding, sizes, counter movements, decode verdicts) is a
    trace line validated by TraceMarshal.tla: the invariants of Marshal.tla are evaluated on the observed
    behaviour, and the observed decision must be the one the transcribed table gives."""
import collections, concurrent.futures, json, os, re, time, vlib
LEVEL = "model_checking"
TECHNIQUE = "TLA+ spec of the marshal/unmarshal pipeline, TLC exhaustive; spec-generated cases replayed on the real marshaler, CommandProcessor and a two-node store; decisions trace-validated"

CHUNK = 12000       # trace lines per TLC validation run


def okdec(row):
    return all(v in ("equal", "skip") for v in row["dec"].values())


def cls(o):
    return "type=%s:batch=%s:size=%s:gain=%s:forced=%s" % (o["type"], o["batch"], o["size"], o["gain"], str(o["forced"]).lower())


def key_for(row, inv):
    o = row["o"]
    if inv == "RoundTrip" or not okdec(row):
        via = "+".join(sorted(k for k, v in row["dec"].items() if v not in ("equal", "skip"))) or "none"
        return "marshal:roundtrip:type=%s:param=%s:compressed=%s:via=%s" % (o["type"], o["param"], str(row["flag"]).lower(), via)
    if inv == "refused":
        return "marshal:refused:type=%s:param=%s" % (o["type"], o["param"])
    if inv == "UsefulOnly":
        return "marshal:flag:useless:" + cls(o)
    if inv in ("FlagMatchesBody", "FlagOnlyForRequests"):
        return "marshal:flag:body:type=%s:flag=%s:body=%s" % (o["type"], str(row["flag"]).lower(), row["enc"])
    if inv == "StatsPartition":
        return "marshal:stats:" + cls(o)
    return "marshal:table:%s:flag=%s" % (cls(o), str(row["flag"]).lower())


def finished(r):
    """a TLC process killed from outside (seen on the shared machine: rc 143, no output) must not count as a clean run"""
    return 0 <= r["rc"] < 128 and "Finished in" in r["out"]


def sure(fn, *a, **kw):
    """run a vlib TLC helper; if the run did not finish (or the helper gave up) try once more before giving up"""
    for attempt in (1, 2):
        try:
            res = fn(*a, **kw)
            r = res[1] if isinstance(res, tuple) else res
            if finished(r):
                return res
            why = "TLC did not finish (rc=%s)" % r["rc"]
        except vlib.Undecided as e:
            why = str(e)
            if attempt == 2:
                raise
        vlib.log("TLC run %s: %s; retrying once" % (a[1:3], why[:200]))
    raise vlib.Undecided("TLC run %s did not finish twice: %s" % (a[1:3], why[:2000]))


def trace_run(ctx, cfg, path, timeout):
    """vlib.tlc_trace plus a completeness guard: an 'accepted' run must really have walked the whole trace."""
    r = sure(vlib.tlc_trace, ctx, "TraceMarshal", cfg, path, timeout=timeout)
    if r["accepted"] and (r["generated"] < r["n"] + 1 or "Model checking completed" not in r["out"]):
        raise vlib.Undecided("TLC did not report a completed walk over %d trace lines (%d states):\n%s" % (r["n"], r["generated"], r["out"][-3000:]))
    return r


def bad_row_index(r):
    """index (0-based) of the line TLC could not accept"""
    if r["violated"]:
        ls = re.findall(r"/\\ l = (\d+)", r["out"])
        return int(ls[-1]) - 2 if ls else 0
    return r["hw"] if r["hw"] is not None else 0


def run(ctx):
    # the negative controls and the generator are independent TLC runs: start them next to the two design checks
    with concurrent.futures.ThreadPoolExecutor(3) as ex:
        negs = [ex.submit(sure, vlib.tlc_neg, ctx, "Marshal", "Marshal_neg_%s.cfg" % sw, expect=inv, workers=1)
                for sw, inv in (("BatchThreshold", "FlagTable"), ("SizeThreshold", "FlagTable"), ("OnlyIfSmallerOrForced", "UsefulOnly"),
                                ("DecompressOnFlag", "RoundTrip"), ("CountFlagOverhead", "EntrySmaller"))]
        gen = ex.submit(sure, vlib.tlc_cases, ctx, "Marshal", "Marshal_gen.cfg")
        sure(vlib.tlc_mc, ctx, "Marshal", "Marshal_mc.cfg", workers=2)
        sure(vlib.tlc_mc, ctx, "Marshal", "Marshal_mc2.cfg", workers=2)
        for f in negs:
            f.result()
        cases, _ = gen.result()
    if len(cases) < 1000:
        raise vlib.Undecided("the generator produced only %d cases" % len(cases))
    inp = os.path.join(ctx.scratch, "marshal.cases.ndjson")
    tr = os.path.join(ctx.scratch, "marshal.trace.ndjson")
    det = os.path.join(ctx.scratch, "marshal.detail.ndjson")
    vlib.write_nd(inp, cases)
    args = ["marshal-replay", "-in", inp, "-out", tr, "-detail", det, "-mode", "direct",
            "-k", str(ctx.pick(1, 5)), "-sample", str(ctx.pick(4, 1))]
    if ctx.thorough:
        args.append("-big")
    # the real two-node store runs in its own process (a node that cannot decode a log entry panics in its FSM),
    # concurrently with the direct / CommandProcessor route
    tr2, det2, intent = tr + ".store", det + ".store", os.path.join(ctx.scratch, "marshal.intent.json")
    ctx.harness()
    t0 = time.time()
    with concurrent.futures.ThreadPoolExecutor(1) as ex:
        fut = ex.submit(ctx.run_harness, ["marshal-replay", "-in", inp, "-out", tr2, "-detail", det2, "-mode", "store", "-intent", intent,
                                          "-store", str(ctx.pick(150, 1500))], timeout=ctx.pick(900, 3000), check=False)
        p = ctx.run_harness(args, timeout=ctx.pick(900, 3000))
        st = json.loads(p.stdout.strip().splitlines()[-1])
        st["direct_wall_s"] = round(time.time() - t0, 1)
        p2 = fut.result()
    st["store_wall_s"] = round(time.time() - t0, 1)
    crashed = None
    if p2.returncode == 0:
        st2 = json.loads(p2.stdout.strip().splitlines()[-1])
        st["store"], st["store_notes"] = st2["store"], {k: v for k, v in st2["gain_realised"].items() if k.startswith("store:")}
    elif "failed to unmarshal" in p2.stderr and os.path.exists(intent):
        crashed = json.load(open(intent))          # the request in flight when a node's FSM panicked on decoding
        st["store"] = "crashed"
    else:
        raise vlib.Undecided("store route failed rc=%d:\n%s" % (p2.returncode, p2.stderr[-4000:]))
    with open(tr, "a") as f:
        f.write(open(tr2).read() if os.path.exists(tr2) else "")
    with open(det, "a") as f:
        f.write(open(det2).read() if os.path.exists(det2) else "")
    rows = vlib.read_nd(tr)
    details = {d["id"]: d for d in vlib.read_nd(det)}
    ctx.cov["driver"] = st
    ctx.add("evaluations", len(rows))
    ctx.add("traces_validated_against_impl", len(rows))
    seen = collections.Counter((r["route"],) + tuple(r["o"][k] for k in ("type", "batch", "size", "gain", "forced")) + (r["flag"],) for r in rows)
    ctx.add("distinct_nontrivial", len(seen))
    ctx.cov["rule"] = ("all %d abstract cases of Marshal_gen.cfg (quick: a seeded quarter of the request-type cases), each concretised "
                       "into random requests; distinct = distinct (route, type, batch class, size class, gain class, forced, observed flag)" % len(cases))
    ctx.cov["decode_paths"] = dict(collections.Counter("%s/%s=%s" % (r["route"], k, v) for r in rows for k, v in r["dec"].items()))
    ctx.cov["refused_at_encode"] = sum(1 for r in rows if r["enc_err"])
    ctx.cov["compressed"] = sum(1 for r in rows if r["flag"])
    ctx.cov["misses"] = sum(r["stats"]["miss"] for r in rows)

    def art(row):
        return {"line": row, "detail": details.get(row["id"]), "seed": ctx.seed,
                "how": "bin/check C29 --tier %s --seed %d --keep; the request is line id=%d of marshal.trace.ndjson" % (ctx.tier, ctx.seed, row["id"])}

    # (B) value fidelity: the Go comparison of every decoder's output with the submitted request
    if crashed:
        c = crashed["c"]
        m = re.search(r"panic: (failed to unmarshal[^\n]*)", p2.stderr)
        ctx.violation("marshal:roundtrip:type=%s:compressed=?:via=fsm-panic" % c["type"],
                      "a node of the real store could not decode the log entry of a request and panicked: %s" % (m.group(1) if m else "?"),
                      {"case": c, "id": crashed["id"], "stderr_tail": p2.stderr[-1500:]})
    keep = []
    for r in rows:
        if not okdec(r):
            ctx.violation(key_for(r, "RoundTrip"), "a request did not come back identical from the log entry: %s" % r["dec"], art(r))
        else:
            keep.append(r)
    # the entry reading of "compression is used only when it makes the entry smaller or is forced"
    for r in rows:
        if r["flag"] and not r["o"]["forced"] and not r["enc_err"] and r["entry"] >= r["entry_plain"]:
            ctx.violation("marshal:entry-not-smaller:gain=%s" % r["o"]["gain"],
                          "unforced compression kept although the log entry is not smaller: %d bytes compressed vs %d plain "
                          "(sub-command %d -> %d; the Compressed field costs 2 bytes)" % (r["entry"], r["entry_plain"], r["u"], r["g"]), art(r))

    # (C) the observed decisions against the spec: TSpec judges; after a rejection TDSpec names every failing line
    PROPERTY = ("RoundTrip", "UsefulOnly", "FlagOnlyForRequests", "FlagMatchesBody", "refused")
    deviations = collections.OrderedDict()
    nruns = 0
    byid = {r["id"]: r for r in keep}
    for lo in range(0, len(keep), CHUNK):
        part = keep[lo:lo + CHUNK]
        path = os.path.join(ctx.scratch, "part-%d.ndjson" % lo)
        vlib.write_nd(path, part)
        r = trace_run(ctx, "TraceMarshal.cfg", path, ctx.pick(900, 2400))
        nruns += 1
        ctx.add("trace_events", r["n"])
        if r["accepted"]:
            continue
        first = part[min(max(bad_row_index(r), 0), len(part) - 1)]
        d = trace_run(ctx, "TraceMarshal_diag.cfg", path, ctx.pick(900, 2400))
        nruns += 1
        bad = [(int(i), re.findall(r'"(\w+)"', names)) for i, names in re.findall(r'<<"@@BAD", (\d+), (\{[^}]*\})>>', d["out"])]
        if not d["accepted"] or not bad or first["id"] not in [i for i, _ in bad]:
            raise vlib.Undecided("TraceMarshal rejected line id=%s (%s) but the diagnosis run does not explain it:\n%s"
                                 % (first["id"], r["violated"], d["out"][-2000:]))
        for i, names in bad:
            row = byid[i]
            prop = [n for n in names if n in PROPERTY]
            if prop:
                ctx.violation(key_for(row, prop[0]), "spec TraceMarshal rejects what the code did: %s false on the observed behaviour" % ", ".join(prop),
                              dict(art(row), failed=names))
            else:   # table / StatsPartition only: the transcription of thresholds or counters is off, the property text is not touched
                deviations.setdefault(key_for(row, names[0] if names[0] != "table" else None), row)
    for k in deviations:
        vlib.log("design deviation (threshold table / counters differ from the transcription; not forbidden by the property text):", k)
    ctx.cov["trace_validation_runs"] = nruns
    ctx.cov["design_deviations"] = [{"class": k, "line": v} for k, v in list(deviations.items())[:12]]
    ctx.cov["design_deviation_classes"] = len(deviations)

    # binding self-tests on a prefix of the real trace: TLC must reject a wrong decode verdict and a wrong decision
    base = [json.loads(json.dumps(x)) for x in keep[:150] + [x for x in keep[150:] if x["flag"]][:100] + keep[-150:]]
    i = next((i for i, x in enumerate(base) if x["flag"] and not x["enc_err"]), None)
    j = next((j for j, x in enumerate(base) if not x["enc_err"] and x["dec"]), None)
    if i is None or j is None:
        raise vlib.Undecided("nothing to corrupt for the binding self-test")
    t1 = [json.loads(json.dumps(x)) for x in base]
    t1[j]["dec"][sorted(t1[j]["dec"])[0]] = "diff"
    t2 = [json.loads(json.dumps(x)) for x in base]
    t2[i]["flag"], t2[i]["enc"], t2[i]["out"] = False, "plain", t2[i]["u"]
    for name, rows2, want in (("decode-verdict", t1, "RoundTrip"), ("decision", t2, None)):
        path = os.path.join(ctx.scratch, "selftest-%s.ndjson" % name)
        vlib.write_nd(path, rows2)
        r = sure(vlib.tlc_trace, ctx, "TraceMarshal", "TraceMarshal.cfg", path, timeout=600)
        if r["accepted"] or (want and r["violated"] != want):
            raise vlib.Undecided("binding self-test failed: TraceMarshal accepted a corrupted %s" % name)
        ctx.cov.setdefault("binding_selftests", []).append({"module": "TraceMarshal", "corrupted": name, "rejected": True, "violated": r["violated"]})

    for r in (keep[:1] + [x for x in keep if x["flag"]][:2] + [x for x in keep if x["stats"]["miss"]][:1]
              + [x for x in keep if x["route"] == "store"][:1] + [x for x in keep if x["enc_err"]][:1]):
        ctx.sample(r)
    ctx.cov["exhaustive"] = False
    ctx.cov["exhaustive_part"] = "the abstract decision table (TLC, Marshal_mc.cfg) and its %d generated cases; concrete requests per case are seeded random" % len(cases)
    ctx.assumptions += [
        "'smaller' is measured with compress/gzip at the default level on proto.Marshal of the request (the same library the code uses)",
        "equality = proto.Equal and byte-identical deterministic re-marshalling (NaN payloads and the sign of zero are compared as bits)",
        "requests whose text is not valid UTF-8 are refused by proto.Marshal before anything is logged; the spec allows exactly that refusal",
        "the threshold table and the statistics counters are the design transcribed from the code; the property text does not fix them, so a "
        "deviation there is reported in coverage.design_deviations and is not a violation",
    ]
