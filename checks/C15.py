"""C15 No request can change rqlite-critical SQLite settings.
(A) Pragma.tla: grammar of PRAGMA texts (leading trivia, case, separator, schema prefix, quoting,
    '=' / '(..)' / query form, position in a multi-statement text) with Dangerous(t) (SQLite
    semantics) and Guard(t) (what the guard must recognise); TLC checks Dangerous => Guard over the
    whole grammar (72 576 texts) and no over-blocking; one negative control per guard mechanism.
(B) every text of the grammar is rendered, executed on a scratch database opened exactly as
    rqlite opens it (WAL, synchronous off, auto-checkpoint 0), the read-write connection's
    journal_mode / synchronous / wal_autocheckpoint / query_only and the main file's checksum
    (checkpoint ran) observed before and after, and the REAL guard (store.PragmaCheckRequest and
    db.IsBreakingPragma) asked.  accepted && settings changed = violation; the spec's Dangerous
    is cross-checked against the observation.  Violations are keyed by the minimal set of
    non-plain grammar features that still bypasses the guard."""
import collections, json, os, vlib
LEVEL = "model_checking"
TECHNIQUE = "TLA+ grammar spec, TLC exhaustive; every text executed on real SQLite and judged by the real guard"

def run(ctx):
    vlib.tlc_mc(ctx, "Pragma", "Pragma_mc.cfg", coverage=False)
    for sw in ("AfterTrivia", "EveryStatement", "CallSyntax", "SchemaPrefix", "QuotedName"):
        vlib.tlc_neg(ctx, "Pragma", "Pragma_neg_%s.cfg" % sw, expect="NoBypass")
    cases, r = vlib.tlc_cases(ctx, "Pragma", "Pragma_gen.cfg", timeout=1800)
    if ctx.tier == "quick":
        # quick: every single- and double-feature text (all minimal bypass classes), plus a seeded sample of the rest
        import random
        rnd = random.Random(ctx.seed)
        small = [c for c in cases if len(c["features"]) <= 2]
        rest = [c for c in cases if len(c["features"]) > 2]
        cases = small + rnd.sample(rest, min(len(rest), 6000))
    inp = os.path.join(ctx.scratch, "pragma.ndjson")
    out = os.path.join(ctx.scratch, "pragma.mismatch.ndjson")
    vlib.write_nd(inp, cases)
    p = ctx.run_harness(["pragma-replay", "-in", inp, "-out", out], timeout=3000)
    st = json.loads(p.stdout.strip().splitlines()[-1])
    ctx.cov["driver"] = st
    ctx.add("evaluations", st["cases"])
    ctx.add("distinct_nontrivial", st["changed"])
    ctx.add("traces_validated_against_impl", st["cases"])
    ctx.cov["rule"] = "TLC-enumerated PRAGMA grammar; non-trivial = the text changed a critical setting or ran a checkpoint on the scratch database"
    for s in st["samples"]:
        ctx.sample(s)
    if st["spec_dangerous_but_no_effect"] or st["effect_but_spec_safe"]:
        ctx.cov["spec_vs_sqlite_disagreements"] = [st["spec_dangerous_but_no_effect"], st["effect_but_spec_safe"]]
    rows = vlib.read_nd(out)
    V = collections.defaultdict(set)
    for m in rows:
        _, _, name, feat = m["key"].split(":", 3)
        m["_name"], m["_F"] = name, frozenset(f for f in feat.split("+") if f)
        V[name].add(m["_F"])
    for m in rows:
        subs = sorted((s for s in V[m["_name"]] if s <= m["_F"]), key=lambda s: (len(s), sorted(s)))
        key = "pragma:bypass:%s:%s" % (m["_name"], "+".join(sorted(subs[0])) or "plain")
        ctx.violation(key, "accepted text changes a critical setting: %r -> %s" % (m["text"], m["effect"]),
                      {"text": m["text"], "effect": m["effect"]})
    ctx.cov["exhaustive"] = ctx.thorough
    ctx.assumptions += ["scratch database opened with rqlite's own db.Open; settings read on the read-write connection",
                        "endpoints share one guard (store.PragmaCheckRequest); the live-endpoint sweep is part of the store-level checks"]
