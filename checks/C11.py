"""C11 Open snapshot streams never race with reaping.
(A) Streams.tla (the MRSW part of Sync.tla reused; LockingStreamer Open / Read / Close / idle timer each
    under l.mu with the `closed` guard; sinks without lock, atomic rename; auto-reaper with blocking
    writer and Store.Reap() with the non-blocking one) exhaustive for 2 streamers, 1 sink, reaper,
    timer: readers >= 0, writer => readers = 0, a reap mutates only while no streamer is open, every
    streamer releases exactly once, streams read the content they opened; liveness under fairness
    without a state constraint: a waiting reaper gets the lock although consumers stall for ever
    (idle force-close).  Negative controls StreamHoldsReadLock, ReleaseOnce, IdleForceClose,
    ReaperWaitsForReaders (the last one is the re-check after the wake-up in BeginWriteBlocking).
(B) the witness schedules of the four negative controls are forced on a REAL snapshot.Store with gates
    (reaper parked before BeginWriteBlocking; Close and the idle timer parked at their entries and let
    go in each order) and hand-offs (Close of the last reader immediately followed by an Open); and
    behaviours sampled by TLC from the same model (StreamsGen.tla: projection on the steps a driver
    can force: open / read / stop reading / Close / wait for the force-close / sink / Store.Reap() /
    reaper let go before BeginWriteBlocking, before the plan execution, before EndWrite) are replayed
    with the reaper held at those three gates.
(C) free-running randomized runs: real sinks fed through the production path from a live SQLite
    database, concurrent consumers (drain, early close, stall + late close, stall for ever, Close
    racing the timer, concurrent double Close), short anonymous readers, Store.Reap() callers and the
    auto-reaper, idle timeout of a few ms.  Hook events (under the lock's mutex / under l.mu) and the
    harness's verdict on the bytes of every stream (sizes + CRC32 of the stream's own header, byte
    equality between streams of one snapshot, restored rows = rows of the snapshot's index) are
    consumed by TraceStreams.tla; all invariants after every event."""
import json, os, re, threading, vlib
LEVEL = "model_checking"
TECHNIQUE = "TLA+ spec of streams/sinks/reaper over the MRSW lock, TLC exhaustive incl. liveness + negative controls; witness schedules and randomized concurrent runs on the real snapshot store validated by trace validation"

NEGS = (("Streams_neg_StreamHoldsReadLock.cfg", "NoReapWhileOpen"),
        ("Streams_neg_ReleaseOnce.cfg", "ReleaseExactlyOnce"),
        ("Streams_neg_ReaperWaitsForReaders.cfg", "NoReapWhileOpen"))

CLASS = {  # violated condition of TraceStreams -> class of misbehaviour
    "ReadersNonNegative": "readers-negative",
    "WriterExcludes": "writer-with-readers",
    "LockCoversStreams": "open-stream-without-read-lock",
    "NoReapWhileOpen": "reap-while-open",
    "StreamsSeeOwnContent": "content-mismatch",
    "ReleasedOnTrace": "double-release",
    "CountMatches": "reader-count-differs",
    "Quiescent": "stream-not-released",
    "NothingStuck": "stuck",
}
LOCK_PANICS = {"reader count went negative": "readers-negative:panic",
               "write done received but no write is active": "writer-with-readers:panic",
               "upgrade attempted with no readers": "readers-negative:panic"}


def neg_live(ctx, cfg, prop):
    r = vlib.tlc(ctx, "Streams", cfg, workers=1, coverage=False, expect_violation=True, timeout=900)
    if not re.search(r"Temporal propert(y|ies) .*violated", r["out"]):
        raise vlib.Undecided("negative control %s produced no liveness counterexample\n%s" % (cfg, r["out"][-2000:]))
    ctx.cov.setdefault("negative_controls", []).append({"cfg": cfg, "violated": "temporal:" + prop, "wall_s": r["wall_s"]})


def normalise(sched):
    """StreamsGen prints C:s when Close is entered and c:s when it has released the lock; the real Close is one
    call, made where the release is (c:s) when the behaviour got that far, else where it was entered."""
    res = []
    for i, st in enumerate(sched):
        if st.startswith("C:"):
            later = False
            for t in sched[i + 1:]:
                if t == "O:" + st[2:]:
                    break
                if t == "c:" + st[2:]:
                    later = True
                    break
            if not later:
                res.append(st)
        elif st.startswith("c:"):
            res.append("C:" + st[2:])
        else:
            res.append(st)
    return res


def judge(ctx, p, tr, ntraces, selftest, label=""):
    """Validate the driver's trace; a panic of the lock itself is a verdict of the real code, too."""
    rows = vlib.read_nd(tr) if os.path.exists(tr) else []
    panic = None
    if p.returncode != 0 and not (label and "DATA RACE" in p.stderr):
        m = re.search(r"^panic: (.*)$", p.stderr, re.M)
        panic = m.group(1) if m else None
        if panic is None or not any(k in panic for k in LOCK_PANICS):
            raise vlib.Undecided("driver failed rc=%d:\n%s" % (p.returncode, "\n".join(
                l for l in p.stderr.splitlines() if not l.startswith("[snapshot"))[-4000:]))
    elif p.returncode == 0:
        st = json.loads(p.stdout.strip().splitlines()[-1])
        ctx.cov["driver" + (" (%s)" % label if label else "")] = st
        if st["streams"] == 0 or st["reap_mutations"] == 0 or st["complete"] == 0:
            raise vlib.Undecided("driver exercised nothing: %s" % st)
    if not rows:
        raise vlib.Undecided("driver wrote no trace")

    def closers(bad):
        by = [r.get("by") for r in rows if r.get("ev") == "ls.close" and r.get("ls") == bad.get("ls")]
        return "+".join(by[:2]) if by else "?"

    def key(bad, inv, out=""):
        ev = bad.get("ev", "?")
        if inv == "ReleasedOnTrace":
            return "streams:double-release:by=%s" % closers(bad)
        if inv == "StreamsSeeOwnContent":
            return "streams:content-mismatch:%s:end=%s" % (bad.get("content"), bad.get("end"))
        if inv == "NothingStuck":
            return "streams:stuck:%s" % bad.get("what")
        return "streams:%s:at=%s" % (CLASS.get(inv, inv or "rejected"), ev)

    def corrupt(rs):
        # make one reap start before the last open streamer was closed
        for i, r in enumerate(rs):
            if r.get("ev") == "ls.close":
                for j in range(i + 1, len(rs)):
                    if rs[j].get("ev") == "reap.mutate":
                        rs[i], rs[j] = rs[j], rs[i]
                        lo = max(k for k in range(i + 1) if rs[k].get("ev") == "reset")
                        hi = next((k for k in range(j, len(rs)) if rs[k].get("ev") == "reset"), len(rs))
                        return rs[lo:hi]          # the corrupted run alone is enough
                    if rs[j].get("ev") == "reset":
                        break
        raise vlib.Undecided("no place to corrupt")

    r = vlib.trace_check(ctx, "TraceStreams", "TraceStreams.cfg", tr, "snapshot store streams vs. reaping" + (" (%s)" % label if label else ""),
                         key_fn=key, selftest=corrupt if (selftest and not panic) else None, timeout=ctx.pick(900, 3000))
    if panic and r["accepted"]:
        k = next(v for s, v in LOCK_PANICS.items() if s in panic)
        ctx.violation("streams:" + k, "the store's lock panicked during the run: %s" % panic,
                      {"stderr_tail": p.stderr[-3000:], "trace_tail": rows[-25:]})
    ctx.add("traces_validated_against_impl", ntraces)
    return rows


def run(ctx):
    errs = []

    def guarded(f):
        def g():
            try:
                f()
            except BaseException as e:      # re-raised in the main thread
                errs.append(e)
        t = threading.Thread(target=g)
        t.start()
        return t

    # ---- (B)+(C): driver, then validation of its trace, in the background while TLC checks the design
    tr = os.path.join(ctx.scratch, "streams.ndjson")
    runs, directed = ctx.pick(40, 120), ctx.pick(12, 36)
    res = {}

    def drive():
        # schedules sampled from the design model (projection on the steps a driver can force)
        cases, g = vlib.tlc_cases(ctx, "StreamsGen", "Streams_gen.cfg", simulate="num=%d" % ctx.pick(30, 90), depth=45, seed=ctx.seed)
        scheds = sorted(set(tuple(normalise(c)) for c in cases if c))
        if len(scheds) < 10:
            raise vlib.Undecided("schedule generator produced %d schedules\n%s" % (len(scheds), g["out"][-2000:]))
        ctx.cov["generated_schedules"] = len(scheds)
        if ctx.thorough:
            # the counterexamples of the safety negative controls, as schedules: the real code must survive them
            wit = []
            for sw in ("StreamHoldsReadLock", "ReleaseOnce", "ReaperWaitsForReaders"):
                w = vlib.tlc(ctx, "StreamsGen", "Streams_gen_neg_%s.cfg" % sw, workers=1, coverage=False, expect_violation=True, timeout=900)
                m = re.findall(r"hist = (<<.*?>>)", w["out"], re.S)
                if not w["violated"] or not m:
                    raise vlib.Undecided("no witness schedule for %s\n%s" % (sw, w["out"][-2000:]))
                wit.append(tuple(normalise(re.findall(r'"([^"]+)"', m[-1]))))
            ctx.cov["witness_schedules"] = [" ".join(x) for x in wit]
            scheds = wit * 3 + scheds
        sf = os.path.join(ctx.scratch, "sched.json")
        with open(sf, "w") as f:
            json.dump([list(x) for x in scheds], f)
        p = ctx.run_harness(["streams-trace", "-out", tr, "-runs", str(runs), "-directed", str(directed), "-sched", sf],
                            timeout=ctx.pick(600, 2400), check=False)
        res["p"] = p
        res["rows"] = judge(ctx, p, tr, runs + directed + len(scheds), selftest=True)
    ctx.harness()
    th = guarded(drive)

    # ---- (A) negative controls and the liveness run in their own threads, the safety run in this one
    def negs():
        for cfg, inv in NEGS:
            vlib.tlc_neg(ctx, "Streams", cfg, expect=inv, workers=1)
        neg_live(ctx, "Streams_neg_IdleForceClose.cfg", "ReapProceeds")

    def live():
        res["live"] = vlib.tlc(ctx, "Streams", ctx.pick("Streams_live.cfg", "Streams_live2.cfg"), workers=2,
                               coverage=False, timeout=3000, expect_violation=True, extra=["-lncheck", "final"])
    tn, tl = guarded(negs), guarded(live)
    vlib.tlc_mc(ctx, "Streams", ctx.pick("Streams_mcq.cfg", "Streams_mc.cfg"), workers=3, timeout=3000)
    for t in (tn, tl, th):
        t.join()
    if errs:
        raise errs[0]
    lv = res["live"]
    if not lv["ok"]:
        raise vlib.Undecided("liveness of the design model %s: %s\n%s" % (lv["cfg"], lv["violated"] or lv["error"], lv["out"][-3000:]))
    ctx.add("states", lv["distinct"])
    ctx.add("transitions", lv["generated"])
    ctx.cov.setdefault("tlc_models", []).append({"module": "Streams", "cfg": lv["cfg"], "distinct": lv["distinct"], "generated": lv["generated"],
                                                 "depth": lv["depth"], "wall_s": lv["wall_s"], "properties": ["ReapProceeds", "StalledClosed"]})
    rows, p = res["rows"], res["p"]
    ctx.cov["events_by_kind"] = {}
    for x in rows:
        ctx.cov["events_by_kind"][x["ev"]] = ctx.cov["events_by_kind"].get(x["ev"], 0) + 1
    ctx.sample([x for x in rows if x["ev"] != "mrsw.bwrite" or x.get("ok")][2:22])

    # ---- side check: the same driver under the race detector (thorough tier; data races are reported, the trace is judged)
    if ctx.thorough and p.returncode == 0:
        tr2 = os.path.join(ctx.scratch, "streams-race.ndjson")
        p2 = ctx.run_harness(["streams-trace", "-out", tr2, "-runs", "25", "-directed", "12"], timeout=1800, check=False, race=True)
        races = re.findall(r"WARNING: DATA RACE", p2.stderr)
        frames = re.findall(r"^  (\S+)\(\)\s*$", p2.stderr, re.M)
        where = sorted(set(f for f in frames if "rqlite/v10/snapshot" in f or "rqlite/v10/internal/rsync" in f))
        ctx.cov["race_detector"] = {"rc": p2.returncode, "data_races": len(races), "frames_in_snapshot_or_rsync": where[:12],
                                    "other_frames": sorted(set(frames) - set(where))[:8]}
        if p2.returncode == 0 or races:
            judge(ctx, p2, tr2, 37, selftest=False, label="race build")
    ctx.cov["exhaustive"] = False
    ctx.assumptions += [
        "lock events are emitted under the lock's mutex, ls.close under l.mu right after `closed` is set, ls.released after that streamer's EndRead: the order of trace lines is consistent with the code's own synchronisation",
        "the content oracle judges streams by the CRC32s of their own header, byte equality with other streams of the same snapshot ID and the rows of the restored database; a rewritten data.db can be observed only through bytes actually read",
        "the Go scheduler provides the interleavings of the free runs; the directed schedules fix only the order of lock acquisitions (hand-off on one P), not every instruction",
        "liveness on the real store is judged with long timeouts (90 s against idle timeouts of 4-50 ms; a reap fsyncs and was seen to take 19 s on the loaded machine)",
    ]
