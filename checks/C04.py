"""C04 Snapshot store plus log always rebuilds the applied state.
(A) Snapshotting.tla (see C03) without crashes: writes, loads, full and incremental snapshots whose
    persist is not invoked, is refused, or is interleaved with writes and loads, graceful restarts.
    Invariant Rebuild: restore(newest snapshot) + replay(log after it) = the applied database, in
    every state in which a snapshot exists.  Negative controls CleanStagingOnNewBase (a staged WAL
    segment kept across a full snapshot is packaged into the next incremental and reverts data),
    FullAfterLoad, ClearFlagOnlyIfCovers (a load applied while a snapshot is being persisted).
(B) TLC-generated behaviours are replayed on real single-node stores; after the last operation the
    node is closed, its fingerprint removed, and reopened - which forces exactly "restore the newest
    snapshot and replay the log after it" - and TraceSnapshotting.tla compares the result with the
    acknowledged history.  Snapshots with persist not invoked use a fault point in the snapshot
    store's Create; loads during a snapshot use gates after the data persist / after the finalizer.
    The TLC counterexamples of the negative controls are replayed as witnesses."""
import json, os, vlib, snapcases
LEVEL = "model_checking"
TECHNIQUE = "TLA+ spec of the storage stack, TLC exhaustive + negative controls; spec-generated histories replayed on real stores with a forced restore, validated by a TLA+ trace spec"

WITNESSES = [
    ("stale-staging", "w:1,s,w:12,sn,L,s,w:2,s,c"),
    ("stale-staging-modified", "w:1,s,w:12,sn,w:2,sn,L,w:1,s,w:2,s,w:12,c"),
    ("load-during-persist", "w:2,s[snap.persisted:L],sn,w:1,s,c"),
    ("load-after-finalizer", "w:2,s[snap.finalized:L],sn,w:1,s,w:2,c"),
    ("load-during-incremental-persist", "w:1,s,w:2,s[snap.persisted:L],sn,w:1,s,c"),
    ("load-after-incremental-finalizer", "w:1,s,w:2,s[snap.finalized:L],sn,w:1,s,w:2,c"),
    ("load-during-incremental-persist-2", "w:12,s,w:1,s,w:2,s[snap.persisted:L;w:1],sn,w:2,s,w:1,s,c"),
    ("refused-incremental", "w:1,s,w:2,s[snap.persisted:w:1],L,w:2,s,w:1,s,c"),
    ("reap", "w:1,s,w:2,s,w:12,s,r,w:1,s,c"),
    # the database replaced by Store.ReadFrom ("boot") instead of a load through the log
    ("boot-stale-staging", "w:1,s,w:12,sn,B,s,w:2,s,c"),
    ("boot-stale-staging-modified", "w:1,s,w:12,sn,w:2,sn,B,w:1,s,w:2,s,w:12,c"),
    ("boot-then-incrementals", "w:1,s,w:2,B,w:1,s,w:2,s,w:12,c"),
    ("boot-on-fresh-node", "B,w:1,s,w:2,s,c"),
]

def run(ctx):
    vlib.tlc_mc(ctx, "Snapshotting", "Snapshotting_mc_nocrash.cfg", coverage=ctx.thorough, heap="16g", timeout=3000, workers=ctx.pick(8, "auto"), vacuity_ok=("Crash",))
    for sw in ("CleanStagingOnNewBase", "FullAfterLoad", "ClearFlagOnlyIfCovers"):
        vlib.tlc_neg(ctx, "Snapshotting", "Snapshotting_neg_%s.cfg" % sw, expect="Rebuild", heap="8g")
    calm = lambda h: not any(x["a"] == "crash" or (x["a"] == "open" and x.get("recover")) for x in h) and any(x["a"] == "close" for x in h)
    sample, gst = snapcases.generated(ctx, vlib, ctx.pick("SnapshottingGen.cfg", "SnapshottingGen4.cfg"), ctx.pick(40, 500), calm, final_restore=True)
    cases = sample + [{"id": "wit-" + n, "phases": [{"script": s, "crash": "", "recover": False, "rmfp": False},
                                                     {"script": "c", "crash": "", "recover": False, "rmfp": True}]} for n, s in WITNESSES]
    # boot twins of the generated histories with a load: same abstract step (the database is replaced), other code path
    twins = []
    for c in sample:
        ph = [dict(p) for p in c["phases"]]
        hit = False
        for p in ph:
            ops = p["script"].split(",")
            if "L" in ops:
                p["script"] = ",".join("B" if o == "L" else o for o in ops)
                hit = True
        if hit:
            twins.append({"id": c["id"] + "-boot", "phases": ph})
    cases += twins[:ctx.pick(10, 120)]
    st, rows = snapcases.run_cases(ctx, vlib, cases, "restore of the newest snapshot plus log replay", "rebuild")
    ctx.cov["generated"] = gst
    ctx.cov["replay"] = st
    ctx.add("traces_validated_against_impl", len(cases))
    ctx.sample([snapcases.describe(c) for c in cases[:4]] + [snapcases.describe(cases[-1])])
    ctx.cov["exhaustive"] = False
    ctx.assumptions += ["follower snapshot install is exercised through the same restore path (forced restore at start-up); a boot (Store.ReadFrom) is the same abstract step as a load: witnesses and twins of generated histories",
                        "page-heavy write batches are not generated (two pages, one row each)"]
