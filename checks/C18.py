"""C18 Every endpoint and inter-node request enforces its permission.
(A) Perm.tla: table endpoint / inter-node command family -> required permissions (read off the
    handlers; GET_NODE_META, the CDC high-water-mark update, LOAD_CHUNK, '/', OPTIONS carry none by
    design), credential stores over {user, all-users entry} x permission sets {required.., siblings.., all}
    (siblings = the permissions closest to the required ones that must NOT authorise the family),
    presentations none / blank / unknown user / wrong password / right password; the authorisation
    rule and the decision procedure as coded are those of Auth.tla (C19, INSTANCE).  One request is
    followed through the handler (decide -> header -> perform | stream | deny).  TLC exhaustive over
    families x stores x presentations: performed => authorised, not authorised => no side effect and
    no content byte, denied => clean, authorised => performed.  Negative controls: NoBodyAfterError
    (streaming handler continues after its error header), and the permission check of EVERY family
    removed in turn (one TLC run, violations collected per family, all permissioned families demanded).
(B) every case TLC enumerates carries the expected verdict; every (family, near-miss permission) pair
    (each sibling / partial permission alone, for the user and for the all-users entry, and in
    combination) plus a stratified sample (larger in the thorough tier) is sent AT THE WIRE LEVEL -- raw HTTP read to EOF,
    raw mux byte + length-prefixed protobuf read until the server closes -- to the leader and to a
    follower of a live 3-voter + 1-non-voter cluster whose database holds a sentinel and whose
    credential store is the real auth.CredentialsStore loaded from the case's JSON.  Not authorised:
    the response must be a refusal, must not contain the sentinel anywhere (raw, de-chunked, inside
    gzip members), and logical dumps of all nodes, membership, snapshot directories, leader and log
    index must be unchanged (a difference must show again in two re-runs on the settled cluster to count).
    Authorised: must not be refused; per family the effect / content must have been observed at least
    once (otherwise the driver cannot see a wrongly performed action: undecided)."""
import collections, concurrent.futures, json, os, random, vlib
LEVEL = "model_checking"
TECHNIQUE = "TLA+ table of endpoints/commands x credential stores x presentations, TLC exhaustive; every sampled case replayed at the wire level on a live cluster"

ORDER = ["none", "blank", "unknown", "wrongpw", "right"]


def pres_class(c):
    """presentation class named in violation keys"""
    if c["pres"] == "right":
        return "right-noperm" if not c["auth"] else "right"
    return c["pres"]


def fam_key(f):
    kind, rest = f.split(":", 1)
    if kind == "cmd":
        return "cmd=" + rest
    method, path = rest.split(":", 1)
    return "endpoint=%s:method=%s" % (path, method)


def near_miss_stores(c0):
    """the stores every family must be replayed with: each sibling permission (and, where several are
    required, each required permission) ALONE, held by the authenticated user and held by the all-users
    entry; all siblings together; all siblings plus all-but-one of the required permissions; and the empty
    store (anchor for the minimal key).  Returned as (pres, U, S) triples that must not authorise."""
    sib = sorted(c0["sib"])
    alts = [sorted(a) for a in c0["req"]]
    partial = sorted({p for a in alts if len(a) > 1 for p in a})
    out = [("right", (), ())]
    for p in sib + partial:
        out.append(("right", (p,), ()))
        out.append(("none", (), (p,)))
    if len(sib) > 1:
        out.append(("right", tuple(sib), ()))
    for a in alts:
        if len(a) > 1:
            for drop in a:
                out.append(("right", tuple(sorted(set(sib) | (set(a) - {drop}))), ()))
    return out


def select(cases, ctx):
    """every (family, near-miss permission) pair on the leader (thorough: on a follower too), then per
    (family, role, presentation) k more denied cases, per (family, role) a few allowed ones (one per distinct
    reason); thorough: larger k."""
    rnd = random.Random(ctx.seed)
    kd = ctx.pick(1, 12)
    ka = ctx.pick(2, 8)
    ka_eff = ctx.pick(1, 5)
    groups = collections.defaultdict(list)
    index = {}
    for c in cases:
        groups[(c["f"], c["role"], c["auth"], c["pres"] if not c["auth"] else "")].append(c)
        index[(c["f"], c["role"], c["pres"], tuple(sorted(c["U"])), tuple(sorted(c["S"])))] = c
    out, taken = [], set()

    def take(c):
        if id(c) not in taken:
            taken.add(id(c))
            out.append(c)
    fams = {}
    for c in cases:
        fams.setdefault(c["f"], c)
    pairs = set()
    for f, c0 in sorted(fams.items()):
        if not c0["sib"] and all(len(a) < 2 for a in c0["req"]):
            continue
        for role in ctx.pick(["leader"], ["leader", "follower"]):
            for pres, U, S in near_miss_stores(c0):
                c = index.get((f, role, pres, U, S))
                if c is None:
                    raise vlib.Undecided("near-miss store %s/%s/%s of %s is not in the space TLC enumerated" % (pres, U, S, f))
                if c["auth"]:
                    raise vlib.Undecided("near-miss store %s/%s/%s authorises %s: sibling table wrong" % (pres, U, S, f))
                c["must"] = True
                take(c)
                for p in set(U) | set(S):
                    pairs.add((f, p))
    for (f, role, auth, pres), g in sorted(groups.items()):
        rnd.shuffle(g)
        if not auth:
            # near misses first: stores that grant as much as possible without authorising the request
            # (some but not all of the required permissions, sibling permissions, "all" held by a user who
            # is not authenticated), the rest in seeded random order
            def score(c):
                req = set(p for a in c["req"] for p in a) | set(c["sib"])
                return len(req & set(c["U"])) + len(req & set(c["S"])) + ("all" in c["U"])
            g.sort(key=lambda c: -score(c))
            for c in g[:kd]:
                take(c)
            continue
        # allowed: distinct reasons first
        def reason(c):
            req = set(p for a in c["req"] for p in a)
            if c["pres"] == "right":
                return "user:" + ("all" if "all" in c["U"] and not (req & set(c["U"])) else "perm" if req & set(c["U"]) else "star")
            return "star:" + ("all" if "all" in c["S"] and not (req & set(c["S"])) else "perm")
        g.sort(key=lambda c: len(c["U"]) + len(c["S"]))      # minimal stores first: one grant, one source
        seen, picked = set(), []
        for c in g:
            r = reason(c)
            if r not in seen:
                seen.add(r)
                picked.append(c)
        rest = [c for c in g if c not in picked]
        k = ka_eff if g[0]["eff"] else ka
        for c in (picked + rest)[:k]:
            take(c)
    # group by family so that membership set-up (n4 in / out) changes rarely; effects last within a family
    fam_order = {f: i for i, f in enumerate(sorted({c["f"] for c in out}))}
    out.sort(key=lambda c: (fam_order[c["f"]], c["role"], c["auth"], ORDER.index(c["pres"])))
    for i, c in enumerate(out):
        c["id"] = i + 1
    return out, len(pairs)


def holds(c):
    """permissions effectively available to the presenter of a case"""
    h = set(c["S"])
    if c["pres"] == "right":
        h |= set(c["U"])
    return frozenset(h)


def judge(ctx, cases, obs, report):
    """compare observations with TLC's expectation; report(kind, case, what, artefact) for every violation.
    Returns (stats, anomalies, families whose effect / content was never seen)."""
    byid = {c["id"]: c for c in cases}
    st = collections.Counter()
    seen_eff, seen_con, need_eff, need_con = set(), set(), set(), set()
    anomalies = []
    for o in obs:
        c = byid[o["id"]]
        if o.get("skipped"):
            st["skipped"] += 1
            continue
        art = {"case": c, "observation": o}
        if not c["auth"]:
            st["not_authorised"] += 1
            if o["leak"]:
                report("leak", c, "database content (sentinel, found in %s) in the response to a request that is not authorised: %s -> %s"
                       % (o["leak_in"], o["sent"], o["head"]), art)
            if o["changed"]:
                report("side-effect", c, "state changed (%s) by a request that is not authorised: %s" % (",".join(o["changed"]), o["sent"]), art)
            if not o["denied"]:
                # a refusal is a 401 / "unauthorized"; anything else means the handler went on
                report("performed-without-perm", c, "request that is not authorised (credentials %s, presented: %s) was not refused: status=%s err=%r %s"
                       % (o["creds"], c["pres"], o["status"], o["err"], o["head"]), art)
            elif o["extra"] > 0:
                report("body-after-error", c, "%d bytes follow the 'unauthorized' response frame" % o["extra"], art)
            if o.get("flaky"):
                st["flaky_first_attempt"] += 1
        else:
            st["authorised"] += 1
            if c["eff"] and (c["role"] == "leader" or c["f"].startswith("http:")):
                need_eff.add(c["f"])
                if o["changed"]:
                    seen_eff.add(c["f"])
            if c["con"]:
                need_con.add(c["f"])
                if o["leak"]:
                    seen_con.add(c["f"])
            if o["denied"]:
                st["allowed_but_refused"] += 1
                anomalies.append({"family": c["f"], "role": c["role"], "creds": o["creds"], "pres": c["pres"], "status": o["status"], "err": o["err"], "head": o["head"]})
    return st, anomalies, (need_eff - seen_eff), (need_con - seen_con)


def keyed(found):
    """found = [(kind, case, what, artefact)] -> [(key, what, artefact)].  The key names kind, family,
    presentation, node role and the MINIMAL set of permissions held by the presenter with which the same
    misbehaviour of that family was seen in this run, with any presentation on any node (so a check that is missing altogether is keyed
    holds=none, a sibling permission accepted by mistake is keyed by that permission)."""
    groups = collections.defaultdict(set)
    for kind, c, what, art in found:
        groups[(kind, c["f"])].add(holds(c))
    out = []
    for kind, c, what, art in found:
        hs = [h for h in groups[(kind, c["f"])] if h <= holds(c)]
        h = min(hs, key=lambda h: (len(h), sorted(h)))
        out.append(("perm:%s:%s:pres=%s:holds=%s:at=%s" % (kind, fam_key(c["f"]), pres_class(c), "+".join(sorted(h)) or "none", c["role"]), what, art))
    return out


def run(ctx):
    ctx.harness()      # build first: the TLC runs below are started in parallel
    jobs = {
        "mc": lambda: vlib.tlc_mc(ctx, "Perm", ctx.pick("Perm_mc.cfg", "Perm_mc_full.cfg"), workers=2, coverage=True),
        "neg_body": lambda: vlib.tlc_neg(ctx, "Perm", "Perm_neg_NoBodyAfterError.cfg", expect="NoContentUnlessAuth", workers=1),
    }
    if ctx.thorough:     # the per-family run (negall) subsumes these; kept as named witnesses
        jobs.update({
        "neg_eff": lambda: vlib.tlc_neg(ctx, "Perm", "Perm_neg_Check_effect.cfg", expect="NoEffectUnlessAuth", workers=1),
        "neg_con": lambda: vlib.tlc_neg(ctx, "Perm", "Perm_neg_Check_content.cfg", expect="NoContentUnlessAuth", workers=1),
        "neg_stream": lambda: vlib.tlc_neg(ctx, "Perm", "Perm_neg_Check.cfg", expect="OnlyIfAuthorized", workers=1)})
    jobs.update({
        "negall": lambda: vlib.tlc(ctx, "Perm", "Perm_negall.cfg", workers=1, coverage=False, expect_violation=True),
        "gen": lambda: vlib.tlc_cases(ctx, "Perm", ctx.pick("Perm_gen.cfg", "Perm_gen_full.cfg"), timeout=1800, heap="12g"),
    })
    res = {}
    with concurrent.futures.ThreadPoolExecutor(max_workers=4) as ex:
        futs = {k: ex.submit(f) for k, f in jobs.items()}
        for k, fu in futs.items():
            res[k] = fu.result()
    na = res["negall"]
    if na["error"] or na["violated"] or na["postfail"] or '"@@NEG"' not in na["out"]:
        raise vlib.Undecided("per-family negative controls: some family's missing check reaches no violation\n" + na["out"][-2000:])
    neg = [l for l in na["out"].splitlines() if l.startswith('<<"@@NEG"')][-1]
    nfam = int(neg.split(",")[1])
    ctx.cov.setdefault("negative_controls", []).append({"cfg": "Perm_negall.cfg", "families_with_counterexample": nfam})
    allcases, _ = res["gen"]
    allcases = [c for c in allcases if "f" in c]
    if len(allcases) < 50000:
        raise vlib.Undecided("generator produced %d cases" % len(allcases))
    fams = sorted({c["f"] for c in allcases})
    cases, npairs = select(allcases, ctx)
    inp = os.path.join(ctx.scratch, "perm.cases.ndjson")
    out = os.path.join(ctx.scratch, "perm.obs.ndjson")
    vlib.write_nd(inp, cases)
    p = ctx.run_harness(["perm-replay", "-in", inp, "-out", out, "-dir", ctx.sub("perm")], timeout=ctx.pick(1500, 5400))
    drv = json.loads(p.stdout.strip().splitlines()[-1])
    obs = vlib.read_nd(out)
    if len(obs) != len(cases):
        raise vlib.Undecided("driver answered %d of %d cases" % (len(obs), len(cases)))

    found = []
    st, anomalies, blind_eff, blind_con = judge(ctx, cases, obs, lambda *a: found.append(a))
    for key, what, art in keyed(found):
        ctx.violation(key, what, art)
    must = {c["id"] for c in cases if c.get("must")}
    ran = {o["id"] for o in obs if not o.get("skipped")}
    if must - ran:
        raise vlib.Undecided("%d near-miss cases were not replayed" % len(must - ran))
    # vacuity of the binding: for every family whose action has an effect / returns content the driver must
    # have SEEN that effect / content in an authorised case, else a wrongly performed action would go unseen
    if blind_eff or blind_con:
        raise vlib.Undecided("driver never observed the effect of %s / the content of %s in an authorised case"
                             % (sorted(blind_eff), sorted(blind_con)))
    if st["authorised"] < len(fams) or st["not_authorised"] < len(fams):
        raise vlib.Undecided("too few cases ran: %s" % dict(st))
    # binding self-test: flip the expectation of authorised cases that performed -> the comparator must object
    flipped = []
    for c in cases:
        c2 = dict(c)
        c2["auth"] = not c["auth"] if c["auth"] else c["auth"]
        flipped.append(c2)
    found2 = []
    judge(ctx, flipped, obs, lambda kind, c, w, a: found2.append(kind))
    kinds = set(found2)
    if not {"leak", "side-effect", "performed-without-perm"} <= kinds:
        raise vlib.Undecided("binding self-test: with flipped expectations the comparator reported only %s" % sorted(kinds))
    ctx.cov.setdefault("binding_selftests", []).append({"flipped_expectations_reported": len(found2), "kinds": sorted(kinds)})

    ctx.add("evaluations", len(cases))
    ctx.add("traces_validated_against_impl", len(obs) - st["skipped"])
    ctx.add("distinct_nontrivial", st["not_authorised"])
    ctx.cov["rule"] = ("cases = Perm.tla family x role x store x presentation (%d enumerated by TLC, %d families); replayed: stratified sample per "
                       "(family, role, presentation); non-trivial = the case is not authorised (refusal, no sentinel, state unchanged demanded)" % (len(allcases), len(fams)))
    ctx.cov["cases_enumerated"] = len(allcases)
    ctx.cov["families"] = len(fams)
    ctx.cov["family_near_miss_permission_pairs_replayed"] = npairs
    ctx.cov["near_miss_cases_replayed"] = len(must)
    ctx.cov["driver"] = drv
    ctx.cov["verdicts"] = dict(st)
    ctx.cov["allowed_but_refused"] = anomalies[:40]
    ctx.cov["exhaustive"] = False
    for o in obs:
        if o["f"] in ("cmd:BACKUP_STREAM", "http:POST:/snapshot", "http:GET:/db/backup") and not o["auth"]:
            ctx.sample({k: o[k] for k in ("f", "role", "pres", "creds", "sent", "status", "err", "denied", "bytes", "extra", "leak", "changed", "head")})
    ctx.assumptions += [
        "one credential store object per cluster whose content (a real auth.CredentialsStore loaded from the case's JSON) is replaced between cases",
        "'no content byte' is judged by two sentinels (a table name and a value) searched in the raw bytes, the de-chunked body and every inflatable gzip member",
        "an authorised request that is refused is recorded (coverage.allowed_but_refused) but is not a violation: the property is an only-if",
        "queued writes (/db/execute?queue) are not sent to a follower when authorised (forwarded without credentials, the queue would block)",
        "TLS / mutual-TLS on either port is not modelled",
    ]
