"""C08 Upgrading old snapshot formats is crash-safe.
(A) Upgrade.tla: the start-up sequence Upgrade7To8; Upgrade8To10 over an abstract file system (v7 dir,
    rsnapshots.tmp, v8 dir, wsnapshots.tmp, v10 dir with per-snapshot directory / meta / data
    none-partial-full / CRC sidecar, UPGRADE_8_10_PLAN tmp+written), one action per step of the code,
    plan operations with the executor's idempotence rules, resume branch, Crash after every step,
    CrashInRemove (any downward-closed part of the old directory left by an interrupted RemoveAll),
    up to 2 crashes, then clean starts (the second one = "a later open").  Exhaustive for v7 and v8
    stores with 1-3 snapshots (older ones complete or meta-only): RunOK (no start fails), ResultExact
    (exactly one v10 snapshot = data, meta, CRC of the newest original), CleanFinish (no old dir, tmp
    dir or plan left), NoDataLoss (at every instant a complete copy of the newest original exists).
    Negative controls: TmpThenRename, RemoveOldIfNewExists, PlanResume, ResumeToleratesDoneRename.
(B) the same spec enumerates every crash schedule for every store shape (all single crashes are
    replayed; the double crashes in seeded order within a time budget); each is replayed on the REAL
    code: generated old-format stores from small real SQLite databases (plus the repository's v7.20.3 /
    v9.4.1 fixtures and an empty database), every crashing run in a child process killed at the crash
    point (VERIF_CRASH=<point>#<k>), partial removals of the old directory applied by the driver, then
    clean starts; after each successful start snapshot.NewStore, List, LatestIndexTerm, Open + Restore
    of the newest snapshot, compared with the original database, index and term.
(C) every step event of the instrumented code, every exit, the disk after every run (projection of
    the model state) and every open result are validated by TraceUpgrade.tla."""
import concurrent.futures as cf
import json, os, random, vlib

LEVEL = "model_checking"
TECHNIQUE = "TLA+ spec of both upgraders + plan executor, TLC exhaustive incl. double crashes; spec-generated crash schedules replayed on the real code in killed child processes; traces validated by TraceUpgrade.tla"

SWITCHES = (("TmpThenRename", "NoDataLoss"), ("RemoveOldIfNewExists", "RunOK"),
            ("PlanResume", "CleanFinish"), ("ResumeToleratesDoneRename", "RunOK"))
# actions that only exist for states the design never reaches (error returns, branches shadowed by the resume)
DESIGN_DEAD = ("U78Err", "OpErr", "U810OldEmpty", "U810NewExists", "U810NoSnap", "Op4Skip")

OPN = ["plan-write", "mkdir-tmp", "mkdir-snap", "write-meta", "copy", "crc", "rename", "remove-old"]
PLAIN = {  # model position (pc) -> (crash point of the instrumented code, label)
    "u78.check": ("up78.start#1", "up78-after-start"),
    "u78.meta": ("up78.tmp#1", "up78-after-mkdir-tmp"),
    "u78.dbcreate": ("up78.meta#1", "up78-after-meta"),
    "u78.copy": ("up78.dbcreated#1", "up78-in-copy"),
    "u78.wal": ("up78.copied#1", "up78-after-copy"),
    "u78.rename": ("up78.wal#1", "up78-after-walmode"),
    "u78.remove": ("up78.renamed#1", "up78-after-rename"),
    "u810.start": ("up.between#1", "between-upgrades"),
    "u810.check": ("up810.start#1", "up810-after-start"),
    "u810.planrename": ("plan.write.tmp#1", "up810-in-plan-write"),
    "opcopy": ("plan.copy.created#1", "up810-in-copy"),
    "u810.cleanup": ("up810.cleanup.pre#1", "up810-in-resume-cleanup"),
    "ret": ("up.done#1", "after-upgrade"),
}
PARTIAL = {"u78.check": "up78.newexists.pre#1", "u78.remove": "up78.renamed#1", "u810.check": "up810.newexists.pre#1",
           "op": "plan.op.pre#7", "u810.cleanup": "up810.cleanup.pre#1"}
FIXTURES = {("v7", ("nodata", "full", "none")): "fixture:v7.20.3-snapshots",
            ("v7", ("full", "none", "none")): "fixture:v7.20.3-empty-snapshots",
            ("v8", ("full", "none", "none")): "fixture:v9.4.1-snapshots"}


def map_entry(e, rng):
    """one schedule entry of the spec -> (run for the harness, label)"""
    pc, opi = e["pc"], e["opi"]
    if pc == "ok":
        return {"crash": "", "partial": False, "pdir": "", "ps": []}, "ok"
    if e["pdir"]:
        base = {"u78.check": "up78-new-exists", "u78.remove": "up78", "u810.check": "up810-new-exists", "op": "up810",
                "u810.cleanup": "up810-resume"}[pc]
        return {"crash": PARTIAL[pc], "partial": True, "pdir": e["pdir"], "ps": e["ps"]}, base + "-in-remove-old"
    if pc == "op":
        pts = ["plan.op.pre#%d" % opi]
        if opi > 1:
            pts.append("plan.op.post#%d" % (opi - 1))
        elif e["ev"] == "up810.plan":
            pts.append("up810.plan#1")
        return {"crash": rng.choice(pts), "partial": False, "pdir": "", "ps": []}, "up810-after-" + OPN[opi - 1]
    if pc == "u810.planremove":
        if e["ev"] == "plan.op":
            return {"crash": "plan.op.post#7", "partial": False, "pdir": "", "ps": []}, "up810-after-remove-old"
        return {"crash": "up810.cleanup#1", "partial": False, "pdir": "", "ps": []}, "up810-after-resume-cleanup"
    pt, lab = PLAIN[pc]
    if pc == "u810.start" and e["ev"] in ("up78.removed", "up78.newexists", "up78.oldempty"):
        pt = rng.choice([pt, e["ev"] + "#1"])
    if pc == "ret" and e["ev"] in ("up810.planremoved", "up810.newexists", "up810.oldempty"):
        pt = rng.choice([pt, e["ev"] + "#1"])
    return {"crash": pt, "partial": False, "pdir": "", "ps": []}, lab


def to_case(c, variant, rng):
    runs, labs = [], []
    for e in c["sched"]:
        r, lab = map_entry(e, rng)
        runs.append(r)
        labs.append(lab)
    runlabels = list(labs)
    while labs and labs[-1] == "ok":
        labs.pop()
    return {"kind": c["kind"], "shape": c["shape"], "variant": variant, "runs": runs, "runlabels": runlabels,
            "label": "from=%s:crash=%s" % (c["kind"], "+".join(labs) or "none")}


def ncrashes(c):
    return sum(1 for e in c["sched"] if e["pc"] != "ok")


def validate(ctx, rows, name, cfg="TraceUpgrade.cfg", timeout=1700):
    """-> (accepted, index of the first line TLC could not consume / that broke an invariant, invariant)"""
    p = os.path.join(ctx.scratch, name)
    vlib.write_nd(p, rows)
    r = vlib.tlc_trace(ctx, "TraceUpgrade", cfg, p, timeout=timeout, heap="4g -XX:ParallelGCThreads=2")
    if r["accepted"]:
        return True, None, None, r
    hw = r["hw"]
    if r["violated"] and hw is None:        # invariant false on the real trace: the state's line counter
        import re
        m = re.findall(r"/\\ l = (\d+)", r["out"])
        hw = int(m[-1]) - 2 if m else 0     # l points to the next line; the offending step is the one before
    return False, min(max(hw or 0, 0), len(rows) - 1), r["violated"], r


def run(ctx):
    rng = random.Random(ctx.seed)
    # ---------------- (A) design, negative controls, case generation (TLC runs side by side, <= 6 workers in total)
    jvm = "3g -XX:ParallelGCThreads=2"          # (interpolated into -Xmx by vlib.tlc) small, short runs on a shared machine
    gen1, gen2 = ("Upgrade_gen1.cfg", "Upgrade_gen2.cfg") if ctx.thorough else ("Upgrade_gen1q.cfg", "Upgrade_gen2q.cfg")
    with cf.ThreadPoolExecutor(max_workers=3) as ex:
        f_g2 = ex.submit(vlib.tlc_cases, ctx, "Upgrade", gen2, timeout=1500, heap=jvm)
        f_mc = ex.submit(vlib.tlc_mc, ctx, "Upgrade", "Upgrade_mc.cfg", vacuity_ok=DESIGN_DEAD, workers=2, heap=jvm)
        f_g1 = ex.submit(vlib.tlc_cases, ctx, "Upgrade", gen1, heap=jvm)
        f_neg = [ex.submit(vlib.tlc_neg, ctx, "Upgrade", "Upgrade_neg_%s.cfg" % sw, expect=inv, workers=1, heap=jvm) for sw, inv in SWITCHES]
        f_mc.result()
        for f in f_neg:
            f.result()
        single, _ = f_g1.result()
        allc, _ = f_g2.result()
    pad = {"dir": False, "meta": False, "data": "none", "crc": "none"}
    for c in single + allc:                      # the quick generators use stores of at most 2 snapshots
        c["shape"] = (c["shape"] + ["none"] * 3)[:3]
        for e in c["sched"]:
            if e["pdir"]:
                e["ps"] = (e["ps"] + [pad] * 3)[:3]
    double = [c for c in allc if ncrashes(c) == 2]
    if not single or not double:
        raise vlib.Undecided("generator produced no cases")
    ndouble = len(double)
    rng.shuffle(double)                          # replayed in this order while the time budget lasts
    cases = []
    nvar = ctx.pick(2, 3)

    def add(c, variant):
        k = to_case(c, variant, rng)
        k["id"] = len(cases)
        cases.append(k)
    for i, c in enumerate(single):               # every single-crash schedule on generated stores ...
        add(c, "gen:%d" % ((i + ctx.seed) % nvar))
    nd_must = min(len(double), ctx.pick(30, 350))
    for i, c in enumerate(double[:nd_must]):     # ... a first block of double-crash schedules ...
        add(c, "gen:%d" % ((i + ctx.seed) % nvar))
    extra = []                                   # ... the single-crash schedules on the repository's fixtures / the empty database
    for c in single:
        fx = FIXTURES.get((c["kind"], tuple(c["shape"])))
        if fx:
            extra.append((c, fx))
            if fx.endswith("empty-snapshots"):
                extra.append((c, "empty"))
    rng.shuffle(extra)
    ne_must = min(len(extra), ctx.pick(36, 10000))
    for c, v in extra[:ne_must]:
        add(c, v)
    must = len(cases)
    extra = extra[ne_must:]                      # ... and, while the time budget lasts, the rest interleaved with more double crashes
    rest = double[nd_must:]
    for i in range(max(len(extra), len(rest))):
        if i < len(extra):
            add(*extra[i])
        if i < len(rest):
            fx = FIXTURES.get((rest[i]["kind"], tuple(rest[i]["shape"])))
            add(rest[i], fx if fx and i % 3 == 0 else "gen:%d" % ((i + ctx.seed) % nvar))
    inp = os.path.join(ctx.scratch, "upgrade.cases.ndjson")
    tr = os.path.join(ctx.scratch, "upgrade.trace.ndjson")
    vlib.write_nd(inp, cases)
    # ---------------- (B) replay on the real code
    p = ctx.run_harness(["upgrade-run", "-cases", inp, "-out", tr, "-par", "6", "-must", str(must), "-budget", str(ctx.pick(45, 240)),
                         "-fixtures", os.path.join(vlib.REPO, "snapshot", "testdata", "upgrade")], timeout=3000)
    st = json.loads(p.stdout.strip().splitlines()[-1])
    ctx.cov["driver"] = {k: v for k, v in st.items() if k != "failures"}
    ran = vlib.read_nd(tr)
    ran_ids = {x["case"] for x in ran if x["ev"] == "reset"}
    ran_cases = [c for c in cases if c["id"] in ran_ids]
    n2 = sum(1 for c in ran_cases if sum(1 for r in c["runs"] if r["crash"]) == 2)
    ctx.cov["cases"] = {"single_crash_or_none_generated": len(single), "double_crash_generated": ndouble,
                        "replayed_total": st["cases"], "replayed_single_or_none": st["cases"] - n2, "replayed_double": n2,
                        "replayed_on_fixtures": st["fixture_cases"], "replayed_on_empty_database": sum(1 for c in ran_cases if c["variant"] == "empty")}
    ctx.cov["exhaustive"] = False
    ctx.cov["exhaustive_part"] = ("every crash position of the model (after every step / plan op, inside the copy, inside RemoveAll(old) with "
                                  "representative partial states) as a single crash for all %d store shapes of up to %d snapshots; "
                                  "%d of the %d generated double-crash schedules (seeded order, as many as fit the time budget)"
                                  % (len({(c["kind"], tuple(c["shape"])) for c in single}), ctx.pick(2, 3), n2, ndouble))
    failed = {}
    first = {}
    for f in st["failures"]:
        key = "upgrade:%s:%s" % (f["class"], f["label"])
        failed.setdefault(f["case"], key)
        first.setdefault(key, f["case"])
    if first:
        # a violation is only reported if its case, rebuilt from scratch, fails the same way again
        again = [dict(cases[cid], id=i) for i, cid in enumerate(list(first.values())[:20])]
        inp2 = os.path.join(ctx.scratch, "upgrade.again.ndjson")
        vlib.write_nd(inp2, again)
        p2 = ctx.run_harness(["upgrade-run", "-cases", inp2, "-out", os.path.join(ctx.scratch, "upgrade.again.trace.ndjson"), "-par", "4",
                              "-fixtures", os.path.join(vlib.REPO, "snapshot", "testdata", "upgrade")], timeout=1200)
        st2 = json.loads(p2.stdout.strip().splitlines()[-1])
        keys2 = {"upgrade:%s:%s" % (f["class"], f["label"]) for f in st2["failures"]}
        lost = [k for k in list(first)[:20] if k not in keys2]
        if lost:
            raise vlib.Undecided("failures did not reproduce on a freshly built store (harness fault?): %s" % lost)
        ctx.cov["violations_reproduced_from_scratch"] = len(again)
    for f in st["failures"]:
        key = "upgrade:%s:%s" % (f["class"], f["label"])
        ctx.violation(key, "%s (case: %s store, %s, runs %s)" % (f["detail"], f["kind"], f["variant"],
                                                                  [r["crash"] + ("~partial" if r["partial"] else "") or "clean" for r in f["runs"]]), f)
    # ---------------- (C) trace validation; a rejected case is cut out and the rest is validated again
    rows = ran
    ctx.add("trace_events", len(rows))
    diverged, rejected_cases = [], set()
    chunks, curc = [], []
    for x in rows:                               # chunks of whole cases, validated side by side
        if x["ev"] == "reset" and len(curc) > 25000:
            chunks.append(curc)
            curc = []
        curc.append(x)
    chunks.append(curc)

    def check_chunk(ci):
        cur, div, rej = chunks[ci], [], set()
        for it in range(5):
            ok, at, inv, r = validate(ctx, cur, "upgrade.c%d.v%d.ndjson" % (ci, it), timeout=ctx.pick(900, 1700))
            if ok:
                return div, rej, False
            bad = cur[at]
            cid = bad["case"]
            rej.add(cid)
            ctxt = [x for x in cur if x["case"] == cid]
            if cid not in failed:
                div.append({"case": cid, "label": bad.get("label"), "event": bad, "invariant": inv, "trace": ctxt[:60], "tlc_tail": r["out"][-1200:]})
            cur = [x for x in cur if x["case"] != cid]
        return div, rej, True
    with cf.ThreadPoolExecutor(max_workers=3) as ex:
        for div, rej, stopped in ex.map(check_chunk, range(len(chunks))):
            diverged += div
            rejected_cases |= rej
            if stopped:
                ctx.cov["trace_validation_stopped_after_rejections"] = 5
    ctx.cov["trace_cases_rejected"] = len(rejected_cases)
    ctx.cov["model_code_divergences"] = [{"label": d["label"], "event": d["event"].get("ev"), "invariant": d["invariant"]} for d in diverged]
    for d in diverged:
        ev = d["event"]
        if ev.get("ev") in ("open", "exit") or d["invariant"]:
            # the property itself on the real trace: a start failed / the opened store is not the newest original
            cls = {"open": "open-wrong", "exit": "run-fails"}.get(ev.get("ev"), "invariant-" + str(d["invariant"]))
            ctx.violation("upgrade:%s:%s" % (cls, d["label"]), "TraceUpgrade rejects the real trace at %s" % json.dumps(ev)[:300], d)
    ctx.add("traces_validated_against_impl", st["cases"] - len(rejected_cases))
    # binding self-test: a corrupted observation must be rejected
    if not rejected_cases:
        bad_rows = [dict(x) for x in rows[:1200]]
        for x in bad_rows:
            if x["ev"] == "fs" and x["fs"]["d10"]["ex"]:
                x["fs"] = json.loads(json.dumps(x["fs"]))
                x["fs"]["d10"]["s"] = [dict(s, data="partial" if s["data"] == "full" else s["data"]) for s in x["fs"]["d10"]["s"]]
                break
        else:
            raise vlib.Undecided("nothing to corrupt")
        drop = [x for x in rows[:1200]]
        i = next(i for i, x in enumerate(drop) if x["ev"] == "up810.plan")
        del drop[i]
        with cf.ThreadPoolExecutor(max_workers=2) as ex:
            f1 = ex.submit(validate, ctx, bad_rows, "upgrade.corrupt.ndjson")
            f2 = ex.submit(validate, ctx, drop, "upgrade.dropped.ndjson")
            ok, at, inv, _ = f1.result()
            ok2, _, _, _ = f2.result()
        if ok:
            raise vlib.Undecided("binding self-test failed: TraceUpgrade accepted a corrupted observation")
        if ok2:
            raise vlib.Undecided("binding self-test failed: TraceUpgrade accepted a trace with a missing step")
        ctx.cov["binding_selftests"] = [{"corrupted_observation_rejected_at_line": at + 1}, {"missing_step_rejected": True}]
    for c in (cases[1], cases[len(single) // 2], cases[must - 1]):
        ctx.sample({"case": {k: c[k] for k in ("kind", "shape", "variant", "label")}, "runs": [r["crash"] + ("~partial:" + json.dumps(r["ps"]) if r["partial"] else "") or "clean" for r in c["runs"]]})
    one = [x for x in rows if x["case"] == cases[must - 1]["id"]]
    ctx.sample({"trace": [{k: v for k, v in x.items() if k not in ("case", "label")} for x in one[:40]]})
    ctx.assumptions += [
        "process crash = os.Exit at a crash point: completed file operations persist (OS page cache intact); lost unsynced directory entries are not modelled",
        "the harness calls snapshot.Upgrade7To8, snapshot.Upgrade8To10 and snapshot.NewStore with store.Open's directory names and order instead of starting a whole store",
        "crash inside RemoveAll(old) = crash just before it + removal of a downward-closed part of the old directory by the driver (representative parts: newest snapshot's data / meta / directory, everything but the top directory)",
        "'same database' = same schema and rows (logical digest); index and term from List and LatestIndexTerm",
    ]
    if st["unhit"] and not ctx.violations:
        raise vlib.Undecided("%d crash points were not reached by the real code (mapping model position -> crash point is off): %s" % (st["unhit"], st.get("unhit_examples")))
    bad = [d for d in diverged if not (d["event"].get("ev") in ("open", "exit") or d["invariant"])]
    if bad and not ctx.violations:
        raise vlib.Undecided("the real code took a step / left a disk state the model does not have (no property violation observed): %s"
                             % json.dumps([{"label": d["label"], "event": d["event"]} for d in bad])[:1500])
