"""C33 Manual recovery keeps all applied data.
(A) Snapshotting.tla with the RecoverNode action placed where Store.Open runs it (after the fast-path
    decision, before the database is opened): recovery snapshot = newest snapshot + all log entries
    after it, log deleted.  Invariant LiveOK after the recovered node is up.  Negative control
    RecoverDiscardsFile (keeping the old database file on the fast path loses every entry after the
    last snapshot).
(B) TLC-generated histories of writes / snapshots / loads, closed gracefully or killed (also inside
    a snapshot), then a peers.json is written and the node reopened; TraceSnapshotting.tla compares
    the recovered database with the acknowledged history; the node must continue to work and
    restart normally afterwards."""
import json, os, vlib, snapcases
LEVEL = "model_checking"
TECHNIQUE = "TLA+ spec of the storage stack incl. manual recovery, TLC exhaustive + negative control; spec-generated histories replayed on real stores with peers.json recovery, validated by a TLA+ trace spec"

def run(ctx):
    vlib.tlc_mc(ctx, "Snapshotting", "Snapshotting_mc.cfg", coverage=False, heap="16g", timeout=3000, workers=ctx.pick(8, "auto"))
    vlib.tlc_neg(ctx, "Snapshotting", "Snapshotting_neg_RecoverDiscardsFile.cfg", expect="LiveOK", heap="8g")
    rec = lambda h: any(x["a"] == "open" and x.get("recover") for x in h)
    sample, gst = snapcases.generated(ctx, vlib, ctx.pick("SnapshottingGen.cfg", "SnapshottingGen4.cfg"), ctx.pick(40, 400), rec)
    wit = [{"id": "wit-recover-fast", "phases": [{"script": "w:1,s,w:12,w:2,c", "crash": "", "recover": False, "rmfp": False},
                                                 {"script": "w:1,c", "crash": "", "recover": True, "rmfp": False},
                                                 {"script": "w:2,s,c", "crash": "", "recover": False, "rmfp": False},
                                                 {"script": "c", "crash": "", "recover": False, "rmfp": True}]},
           {"id": "wit-recover-nosnap", "phases": [{"script": "w:1,w:12,x", "crash": "", "recover": False, "rmfp": False},
                                                   {"script": "w:1,c", "crash": "", "recover": True, "rmfp": False},
                                                   {"script": "c", "crash": "", "recover": False, "rmfp": False}]}]
    # recovery when the newest snapshot already covers the whole log (full, and incremental on a full)
    for name, script in (("covered-by-full", "w:1,w:12,s,c"), ("covered-by-incremental", "w:1,s,w:2,s,c"),
                         ("covered-by-incremental-2", "w:12,s,w:1,s,w:2,s,x"), ("covered-after-load", "w:1,s,L,s,w:2,s,c")):
        wit.append({"id": "wit-recover-" + name, "phases": [{"script": script, "crash": "", "recover": False, "rmfp": False},
                                                            {"script": "w:1,c", "crash": "", "recover": True, "rmfp": False},
                                                            {"script": "w:2,s,c", "crash": "", "recover": False, "rmfp": False},
                                                            {"script": "c", "crash": "", "recover": False, "rmfp": True}]})
    cases = sample + wit
    st, rows = snapcases.run_cases(ctx, vlib, cases, "manual recovery from a peers file", "recover")
    nrec = sum(1 for r in rows if r.get("ev") == "open" and r.get("recover"))
    if nrec < 10:
        raise vlib.Undecided("too few recoveries ran: %d" % nrec)
    ctx.cov["generated"] = gst
    ctx.cov["replay"] = dict(st, recoveries=nrec)
    ctx.add("traces_validated_against_impl", len(cases))
    ctx.sample([snapcases.describe(c) for c in cases[:5]])
    ctx.cov["exhaustive"] = False
    ctx.assumptions += ["single node; the peers file names that node (the configuration clause is observed as: the node elects itself and serves)"]
