"""C02 Writes and linearizable/strong reads form a linearizable history.
(A) Cluster.tla: abstract Raft (elections by quorum, replication, truncation, commit, lease
    step-down; a new leader's commit index may lag the committed prefix) + the rqlite node layer:
    writes and strong reads through the log, the linearizable read as its separate steps (strong-
    read-term check / upgrade, leader check, read index := commit index, VerifyLeader with a quorum,
    term re-check, wait on fsmTarget, serve).  Invariants StateMachineSafety, OneLeaderPerTerm and
    ReadLin (a completed linearizable or strong read reflects every write acknowledged before it
    began) on 3 nodes; negative controls UpgradeStrong, VerifyQuorum, RecheckTerm, StrongThroughLog
    each yield the witness in which exactly that guard stops a stale read.  With log compaction
    (TakeSnapshot / InstallSnapshot / restart from the snapshot; configs Cluster_mc_snap*.cfg) the
    database contents are part of the state: DbIsLogPrefix, SnapshotIsLogPrefix and ReadSeesAcked
    (the read saw every acknowledged write, by content); negative controls InstallReplacesDb,
    SnapAtApplied.
(C) real 3- and 5-node clusters (full nodes: store + cluster service + proxy + HTTP) in one process
    on a faulty network; concurrent clients issue writes and reads at every level over HTTP to ANY
    node (so forwarding is included) while a fault injector steps leaders down, transfers
    leadership, isolates leaders/followers, splits the cluster and restarts nodes.  The workload is
    a versioned register store (each write stamps a global version inside its transaction, each
    read returns the version and all registers in one statement), so every acknowledged operation
    names its own linearization point.  TraceCluster.tla consumes the single ordered trace: the
    client history against the sequential specification (a read sees every version acknowledged or
    observed before it was invoked; states are one history; unknown-outcome writes are possibly
    applied) AND every step of every linearizable read on every node against RqRead's rules
    (not upgraded only in a term with a strong read; quorum check after the read index; term
    unchanged; wait target = read index; served only once the FSM reached it).  Final per-node
    dumps must be equal.
(C') the repository's own store and system tests are run with the hooks on, one process and one trace
    per test, and validated by the same trace spec (node-level rules only)."""
import json, os, vlib
LEVEL = "model_checking"
TECHNIQUE = "TLA+ cluster spec, TLC exhaustive + negative controls; fault-injected live-cluster histories and read-protocol events validated by a TLA+ trace spec"

def run(ctx):
    # quick: 3 nodes / 2 terms / 3 entries without configuration entries; thorough adds them, a third term, and coverage
    vlib.tlc_mc(ctx, "MCCluster", ctx.pick("Cluster_mc_q.cfg", "Cluster_mc.cfg"), coverage=ctx.thorough, heap="20g", timeout=3000, vacuity_ok=("Restart", "TakeSnapshot", "InstallSnapshot"))
    if ctx.thorough:
        vlib.tlc_mc(ctx, "MCCluster", "Cluster_mc_t3.cfg", coverage=False, heap="24g", timeout=6000)
        vlib.tlc_mc(ctx, "MCCluster", "Cluster_mc_restart.cfg", coverage=False, heap="16g", timeout=3000)   # + one node restart (volatile state lost)
    for sw in ("UpgradeStrong", "VerifyQuorum", "StrongThroughLog") + (("RecheckTerm",) if ctx.thorough else ()):
        vlib.tlc_neg(ctx, "MCCluster", "Cluster_neg_%s.cfg" % sw, expect="ReadLin", heap="16g", timeout=3000)
    # log compaction, snapshot install on a lagging follower, restart from the snapshot; database contents in the state
    vlib.tlc_mc(ctx, "MCCluster", ctx.pick("Cluster_mc_snapq.cfg", "Cluster_mc_snap.cfg"), coverage=False, heap="20g", timeout=3000)
    if ctx.thorough:
        vlib.tlc_mc(ctx, "MCCluster", "Cluster_mc_snap5.cfg", coverage=False, heap="24g", timeout=6000)
        # 3 voters + 1 read replica (non-voter), with a snapshot: 44.7 M states
        vlib.tlc_mc(ctx, "MCCluster", "Cluster_mc_nv.cfg", coverage=False, heap="24g", timeout=6000)
    vlib.tlc_neg(ctx, "MCCluster", "Cluster_neg_InstallReplacesDb.cfg", expect="DbIsLogPrefix", heap="8g", timeout=3000)
    vlib.tlc_neg(ctx, "MCCluster", "Cluster_neg_SnapAtApplied.cfg", expect="SnapshotIsLogPrefix", heap="8g", timeout=3000)
    tr = os.path.join(ctx.scratch, "cluster.ndjson")
    p = ctx.run_harness(["cluster-trace", "-out", tr, "-runs", str(ctx.pick(4, 40)), "-clients", "5",
                         "-ops", str(ctx.pick(150, 250)), "-faults", str(ctx.pick(6, 10)), "-dir", ctx.sub("cl")], timeout=3300)
    st = json.loads(p.stdout.strip().splitlines()[-1])
    ctx.cov["driver"] = st
    # (B) the RecheckTerm witness replayed with a gate inside the read protocol; its trace is validated with the rest
    trw = os.path.join(ctx.scratch, "witness.ndjson")
    p = ctx.run_harness(["lr-witness", "-out", trw, "-runs", str(ctx.pick(2, 8)), "-dir", ctx.sub("lw")], timeout=900)
    stw = json.loads(p.stdout.strip().splitlines()[-1])
    ctx.cov["witness_RecheckTerm"] = stw
    if stw["Aborted"] + stw["Continued"] == 0:
        raise vlib.Undecided("witness replay never got the held read released: %s" % stw)
    with open(tr, "a") as f:
        f.write(open(trw).read())
    if st["WritesOK"] < 20 or st["ReadsOK"] < 20:
        raise vlib.Undecided("driver made too little progress: %s" % st)

    def corrupt(rows):
        # a linearizable read that returns a version older than one acknowledged before it began
        acked = 0
        lin = {}
        for r in rows:
            if r.get("ev") == "c.inv" and r.get("lvl") == "lin":
                lin[r["op"]] = acked
            elif r.get("ev") == "c.ok" and "regs" not in r:
                acked = max(acked, r["n"])
            elif r.get("ev") == "c.ok" and r["op"] in lin and lin[r["op"]] >= 2:
                r["n"] = 0
                r["regs"] = [[0, 0]] * len(r["regs"])
                return rows
        raise vlib.Undecided("no linearizable read to corrupt")

    def key(bad, name):
        return "lin:%s" % (name or "rejected")
    vlib.trace_check(ctx, "TraceCluster", "TraceCluster.cfg", tr, "cluster history / read protocol",
                     key_fn=key, selftest=corrupt, timeout=3000, heap="12g")
    # the repository's own store and system tests, run with the hooks on (one process and one trace per test), as
    # further executions of the node layer: read protocol and FSM order rules (nothing is compared across nodes:
    # a test may build several clusters that reuse node ids).  Tests that drive the FSM by hand are left out.
    trr = os.path.join(ctx.scratch, "repotests.ndjson")
    pref = ("lr.", "fsm.", "srt.", "vl.")
    wb = set()
    sd = os.path.join(vlib.REPO, "store")
    for fn in os.listdir(sd):
        if fn.endswith("_test.go"):
            cur = None
            for line in open(os.path.join(sd, fn), errors="replace"):
                if line.startswith("func Test"):
                    cur = line[5:line.index("(")]
                elif cur and "NewFSM(" in line:
                    wb.add(cur)
    rts = [vlib.repo_test_traces(ctx, "./store", ".*", trr, keep=lambda ev: ev.startswith(pref), skip=wb, limit=ctx.pick(48, None)),
           vlib.repo_test_traces(ctx, "./system_test", ".*", trr, keep=lambda ev: ev.startswith(pref), limit=ctx.pick(12, None))]
    ctx.cov["repository_tests_as_traces"] = rts
    if sum(x["tests_with_events"] for x in rts) < 10:
        raise vlib.Undecided("repository tests produced no traces: %s" % rts)
    vlib.trace_check(ctx, "TraceCluster", "TraceClusterRepo.cfg", trr, "repository test run with hooks on",
                     key_fn=lambda bad, name: "lin:repotest:%s" % (name or "rejected"), timeout=3000, heap="12g")
    for m in st.get("FinalMismatch") or []:
        ctx.violation("lin:final-dump-mismatch", "after healing and convergence the nodes' databases differ: %s" % m, st)
    ctx.add("traces_validated_against_impl", st["Runs"])
    ctx.cov["client_ops"] = st["Ops"]
    ctx.cov["faults_injected"] = st["Faults"]
    rows = vlib.read_nd(tr)
    # snapshot installs on live nodes: an fsm.restore that is not the first FSM event of the node's life
    fresh, installs = set(), 0
    for r in rows:
        if r.get("ev") == "reset":
            fresh = set()
        elif r.get("ev") == "fsm.reset":
            fresh.add(r.get("inst"))
        elif r.get("ev") == "fsm.apply":
            fresh.discard(r.get("inst"))
        elif r.get("ev") == "fsm.restore":
            if r.get("inst") not in fresh:
                installs += 1
            fresh.discard(r.get("inst"))
    ctx.cov["snapshots_taken"] = st.get("Snapshots", 0)
    ctx.cov["snapshot_installs_on_live_nodes"] = installs
    ctx.sample([r for r in rows if r.get("ev", "").startswith(("c.", "note"))][40:52])
    ctx.cov["exhaustive"] = False
    ctx.assumptions += ["hashicorp/raft implements Raft; the harness network cuts connections at the dialing side",
                        "node crash is approximated by graceful restart and by permanent isolation (all nodes share one process)",
                        "register workload: 3 keys, unique values; versions are assigned inside the write's transaction"]
