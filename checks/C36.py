"""C36 Write throttling stays within its configured bounds.
(A) Throttler.tla: level / idle-timer state machine; InRange, IdleCovers (a non-zero level always
    has the idle timer running), StepSizes (action property) for several table lengths and release
    rates; negative controls ClampHigh, ClampLow, UseReleaseRate, IdleReset.
(C) real Throttlers (delay tables of length 1, 4 and 7, release rates 1..3, short idle timeout)
    driven with random Signal/Release/Reset/Level/Delay calls and explicit idle waits; the level and
    delay observed after every call, the measured Delay duration and early return on context end
    are validated by TraceThrottler.tla (silent idle reset allowed only when the measured time since
    the last re-arm exceeds the idle timeout; required after a wait of 5x the timeout)."""
import json, os, vlib
LEVEL = "model_checking"
TECHNIQUE = "TLA+ spec of the throttle, TLC exhaustive + trace validation of real call sequences (one-sided timing)"

CFG = """SPECIFICATION TSpec
CONSTANTS
  MaxLevel = %d
  ReleaseRate = %d
  HasIdle = TRUE
  ClampHigh = TRUE
  ClampLow = TRUE
  UseReleaseRate = TRUE
  IdleReset = TRUE
  IdleMs = %d
INVARIANTS InRange IdleCovers
CONSTRAINT HW
POSTCONDITION Accepted
CHECK_DEADLOCK FALSE
"""

def run(ctx):
    for c in ("Throttler_mc.cfg", "Throttler_mc2.cfg", "Throttler_mc3.cfg"):
        vlib.tlc_mc(ctx, "Throttler", c)
    for sw, inv in (("ClampHigh", "InRange"), ("ClampLow", "InRange"), ("UseReleaseRate", "StepSizes"), ("IdleReset", "IdleCovers")):
        vlib.tlc_neg(ctx, "Throttler", "Throttler_neg_%s.cfg" % sw, expect=inv)
    idle = 200
    first = True
    for delays, rr in (([0, 10, 20, 40], 2), ([0], 1), ([0, 5, 10, 15, 20, 30, 40], 3)):
        tr = os.path.join(ctx.scratch, "thr%d.ndjson" % len(delays))
        runs = ctx.pick(16, 160)
        p = ctx.run_harness(["throttler-trace", "-out", tr, "-runs", str(runs), "-ops", "30", "-delays",
                             ",".join(map(str, delays)), "-rr", str(rr), "-idle", str(idle)], timeout=3000)
        cfgp = os.path.join(ctx.scratch, "TraceThrottler_%d.cfg" % len(delays))
        open(cfgp, "w").write(CFG % (len(delays) - 1, rr, idle))

        def corrupt(rows):
            for r in rows:
                if r.get("ev") == "signal" and r["level"] > 0:
                    r["level"] -= 1
                    return rows
            for r in rows:
                if r.get("ev") == "signal":
                    r["level"] += 1
                    return rows
            raise vlib.Undecided("nothing to corrupt")

        def key(bad, inv):
            return "throttler:%s:%s" % (bad.get("ev", "?"), inv or "rejected")
        vlib.trace_check(ctx, "TraceThrottler", os.path.basename(cfgp), tr, "throttler", key_fn=key,
                         selftest=corrupt if first else None, timeout=900, files={cfgp: os.path.basename(cfgp)})
        first = False
        # Delay with a context that ends before the delay: the context's error is expected; a nil return is legal only
        # when both timers had expired before the goroutine ran -- the exception on a loaded machine, the rule if the
        # context were ignored
        early = late_nil = 0
        for r in vlib.read_nd(tr):
            if r.get("ev") == "delay" and r.get("ctx", 0) > 0 and 0 <= r.get("level", 0) < len(delays) and r["ctx"] < delays[r["level"]]:
                early += 1
                late_nil += 0 if r.get("err") else 1
        ctx.add("delay_calls_with_early_context", early)
        ctx.add("of_which_returned_nil_after_the_full_delay", late_nil)
        if early >= 10 and late_nil * 4 > early:
            ctx.violation("throttler:delay:context-ignored", "Delay returned nil after the full delay in %d of %d calls whose context ended earlier" % (late_nil, early), {"trace": tr})
        ctx.add("traces_validated_against_impl", runs)
        ctx.sample(vlib.read_nd(tr)[1:8])
    ctx.cov["exhaustive"] = False
    ctx.assumptions += ["timing is one-sided: Delay never shorter than the table entry, at most entry + 1.5 s; idle reset judged only after 5x the timeout"]
