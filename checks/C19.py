"""C19 Credential decisions follow the documented rule.
(A) Auth.tla: Load and AA transcribed from the code, Rule = the documented rule; TLC checks
    AA(Load(f)) = Rule(Declared(f)) for EVERY credentials file (<= MaxLen entries over users
    {a,b,*,absent} x passwords {p,q,absent} x perm sets) and every query; one negative control per
    mechanism (FreshEntry, LastWins, AllUsersFirst, NeedUsername, ExactPassword, PermOrAll).
(B) every file of the same space is serialised by TLC (expected decision per query attached),
    concretised to JSON text (absent fields really omitted), loaded by the real
    CredentialsStore.Load and every query compared with the real AA."""
import json, os, vlib
LEVEL = "model_checking"
TECHNIQUE = "TLA+ spec of loader+rule, TLC exhaustive; spec-enumerated files replayed through the real loader/AA"

def run(ctx):
    mc = "Auth_mc3.cfg" if ctx.thorough else "Auth_mc.cfg"
    vlib.tlc_mc(ctx, "Auth", mc, coverage=False)
    for sw in ("FreshEntry", "LastWins", "AllUsersFirst", "NeedUsername", "ExactPassword", "PermOrAll"):
        vlib.tlc_neg(ctx, "Auth", "Auth_neg_%s.cfg" % sw, expect="RuleHolds")
    total = 0
    for gen in (["Auth_gen.cfg", "Auth_gen3.cfg"] if ctx.thorough else ["Auth_gen.cfg"]):
        cases, r = vlib.tlc_cases(ctx, "Auth", gen, timeout=3000)
        if not cases:
            raise vlib.Undecided("generator produced no cases")
        inp = os.path.join(ctx.scratch, gen + ".ndjson")
        vlib.write_nd(inp, cases)
        out = os.path.join(ctx.scratch, gen + ".mismatch.ndjson")
        p = ctx.run_harness(["auth-replay", "-in", inp, "-out", out], timeout=1200)
        st = json.loads(p.stdout.strip().splitlines()[-1])
        total += st["files"]
        ctx.add("evaluations", st["queries"])
        ctx.add("distinct_nontrivial", st["distinct_files"])
        ctx.add("traces_validated_against_impl", st["files"])
        ctx.sample({"file": cases[len(cases) // 2]["file"], "queries": len(cases[0]["q"])})
        for m in vlib.read_nd(out):
            ctx.violation(m["key"], "real AA decision differs from the documented rule: file=%s query=%s got=%s want=%s"
                          % (m.get("file"), m.get("query"), m.get("got"), m.get("want")), m)
    ctx.cov["rule"] = "every credentials file of the bounded universe (TLC-enumerated) x every (user,password,perm) query; distinct = distinct JSON texts"
    ctx.cov["exhaustive"] = True
    ctx.assumptions += ["JSON text produced by encoding/json from the abstract file; absent fields omitted"]
