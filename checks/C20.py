"""C20 Forwarding to the leader is transparent and never local.
(A) Forward.tla: one request followed through the real steps (HTTP handler -> proxy: local attempt
    -> not leader -> redirect | forward to the leader as known by the receiving node with the
    caller's credentials -> cluster service: permission check, execute on the leader -> response)
    while leadership moves; invariants AtMostOnce, CallerCreds, Transparent (result and index are
    the leader's), RedirectOnly, action property OnlyLeaderExec (never executed against a
    follower's database); negative controls LocalOnlyIfLeader, ForwardWithCreds,
    RedirectWhenAsked, ReturnLeaderIndex.
(C) a live 3-node cluster with a credential store: every request kind (execute, strong / weak /
    linearizable / none query, unified request) to every node, with and without redirect, with
    sufficient and insufficient credentials, on a stable leader (leader moved between rounds) and
    while leadership is being transferred.  Hook events of proxy (local attempt, forward, return),
    cluster service (command received, permission decision) and FSM (apply) plus the HTTP
    response are validated per request by TraceForward.tla; at the end every written value must be
    in the database at most once, acknowledged ones exactly once."""
import json, os, vlib
LEVEL = "model_checking"
TECHNIQUE = "TLA+ spec of the forwarding path, TLC exhaustive + negative controls; live-cluster request matrix validated by a TLA+ trace spec"

def run(ctx):
    vlib.tlc_mc(ctx, "Forward", "Forward_mc.cfg", workers=4)
    for sw, inv in (("LocalOnlyIfLeader", "OnlyLeaderExec"), ("ForwardWithCreds", "CallerCreds"),
                    ("RedirectWhenAsked", "RedirectOnly"), ("ReturnLeaderIndex", "Transparent")):
        vlib.tlc_neg(ctx, "Forward", "Forward_neg_%s.cfg" % sw, expect=inv, workers=4)
    tr = os.path.join(ctx.scratch, "forward.ndjson")
    p = ctx.run_harness(["forward-trace", "-out", tr, "-rounds", str(ctx.pick(2, 8)), "-churn", str(ctx.pick(40, 250)),
                         "-dir", ctx.sub("fw")], timeout=3000)
    st = json.loads(p.stdout.strip().splitlines()[-1])
    ctx.cov["driver"] = st
    if st.get("status200", 0) < 40 or st.get("status301", 0) < 8 or st.get("status401", 0) < 6:
        raise vlib.Undecided("request matrix did not run: %s" % st)
    rows = vlib.read_nd(tr)

    def corrupt(rows):
        # a forward that lost the caller's credentials
        for r in rows:
            if r.get("ev") == "px.fwd":
                r["user"] = ""
                return rows
        raise vlib.Undecided("no forward to corrupt")

    def key(bad, name):
        # the request the response belongs to
        i = rows.index(bad) if bad in rows else -1
        req = {}
        while i >= 0:
            if rows[i].get("ev") == "c.req":
                req = rows[i]
                break
            i -= 1
        return "forward:%s:kind=%s:redirect=%s:churn=%s" % (name or "rejected", req.get("kind"), req.get("redirect"), req.get("churn"))
    vlib.trace_check(ctx, "TraceForward", "TraceForward.cfg", tr, "request forwarding", key_fn=key, selftest=corrupt, timeout=1800)
    ctx.add("traces_validated_against_impl", st.get("stable", 0) + st.get("churn", 0))
    ctx.cov["requests"] = st
    ctx.sample([r for r in rows if r.get("ev") in ("c.req", "px.local", "px.fwd", "cl.rx", "px.fwdret", "c.resp")][30:42])
    ctx.cov["exhaustive"] = False
    ctx.assumptions += ["one request at a time; the cluster is allowed to converge between requests so that FSM applies are attributed to the right request",
                        "all nodes share one credential store (caller's credentials are compared verbatim at the leader)"]
