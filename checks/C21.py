"""C21 Backups are complete, point-in-time consistent copies.
(A) Backup.tla: the database history as a sequence of states produced by transfers between two
    tables that preserve their sum (plus an insert into a third table); a backup has a window of
    log indexes [start, end]; the backup procedure as its real steps per format (binary: snapshot
    if the WAL is not empty, take the snapshot gate, copy the main file unit by unit, release;
    vacuum / DELETE-mode: SQLite online backup in one step; SQL dump: schema then table by table in
    one read transaction; through a follower: header, compressed stream, end marker, cut at any
    position with FIN or RST; HTTP response aborted when the failure comes after the first body
    byte; the producer failing before the first unit, between two units or before the end marker).
    Invariants Consistent (content = State(i), i in the window), Complete, CutIsError (cut or
    failed production => error), GateReleased; one negative control per mechanism switch
    (GateDuringFileCopy, SnapshotBeforeCopy, DumpInOneReadTxn, BackupSingleStep, StreamEndDetected,
    AbortAfterPartial, EndMarkerOnlyOnSuccess, CopyErrorReturned, DumpRowErrorsReturned: the query
    that reads a table's rows reports an error => the dump fails, it does not go on without the rows).
(C) a live 3-node cluster: writer goroutines run the transfers over HTTP (each acknowledged with
    its raft index) while backups are requested in every format / flag combination
    (fmt=binary|sql|delete, vacuum, compress) from the leader, through a follower (forwarded) and
    from a follower's own database (noleader), sequentially and overlapping each other; every
    backup is restored (gunzip; opened by SQLite with integrity_check / replayed into an empty
    database) and projected; TraceBackup.tla validates the history (each state is Backup!Apply of
    its predecessor) and judges every backup with Backup.tla's CompleteP / SomeState / ConsistentP.
    Witnesses of the negative controls GateDuringFileCopy and DumpInOneReadTxn, every round: Store.Backup
    on the leader writing into a destination that, in the middle of the copy (binary: after the first
    chunk of the main file; SQL: after the rows of the first table), runs three acknowledged transfers
    and asks the store for a snapshot (WAL checkpoint) before it lets the copy continue.
(B) on a quiescent small database the leader->follower byte stream of a forwarded backup
    (binary and SQL, compressed and not) is cut after p bytes, FIN and RST, for sampled p (quick)
    or every p (thorough); a response with status 200 that is read to its end without error and
    is not the complete backup violates CutIsError.
(P) the node producing the backup fails after streaming began (fault points: the source of the
    file copy in Store.Backup is closed right before the copy; db.Dump fails at the 1st / 2nd / 3rd
    table), every format x compress x (leader itself | through a follower), requested over HTTP;
    a response with status 200 that is read to its end without error violates CutIsError.
(S) identifier shapes: the workload's tables exist a second time under table names and column names
    of every shape (plain, keyword that needs quoting, with a space, with an embedded double quote,
    with an embedded single quote, unicode; quick: every shape against plain and both alike,
    thorough: every pair), a few acknowledged transfers run on them, backups are taken in the
    format / compress / via combinations (quick: SQL dump in all six, the file formats in two;
    thorough: all 24), restored, projected under the same names and judged like those of (C):
    restorable, Complete (every object, every table, at least the rows of the first state),
    equal to a state of the history, of the window."""
import json, os, shutil, threading, vlib
LEVEL = "model_checking"
TECHNIQUE = "TLA+ spec of the backup procedures and the inter-node stream, TLC exhaustive + negative controls; live-cluster backups under a sum-preserving write load and stream cuts validated by a TLA+ trace spec"

NEG = (("GateDuringFileCopy", "Consistent"), ("SnapshotBeforeCopy", "Consistent"), ("DumpInOneReadTxn", "Consistent"),
       ("BackupSingleStep", "Consistent"), ("StreamEndDetected", "CutIsError"), ("AbortAfterPartial", "CutIsError"),
       ("EndMarkerOnlyOnSuccess", "CutIsError"), ("EndMarkerOnlyOnSuccess_Complete", "Complete"),
       ("CopyErrorReturned", "CutIsError"), ("CopyErrorReturned_Complete", "Complete"),
       ("DumpRowErrorsReturned", "Complete"))


def b(x):
    return "true" if x else "false"


def twice(f, *a, **kw):
    """The machine is shared: a TLC or harness run that was killed or starved is repeated once before the check gives up."""
    try:
        return f(*a, **kw)
    except vlib.Undecided as e:
        vlib.log("retrying after:", str(e)[:300])
        return f(*a, **kw)


def run(ctx):
    # (A) runs beside the harness: both are dominated by start-up and waiting, not by CPU
    failure = []

    def design():
        try:
            twice(vlib.tlc_mc, ctx, "Backup", ctx.pick("Backup_mc.cfg", "Backup_mc3.cfg"), workers=ctx.pick(2, 3), timeout=2400)
            for sw, inv in NEG:
                twice(vlib.tlc_neg, ctx, "Backup", "Backup_neg_%s.cfg" % sw, expect=inv, workers=1, timeout=900)
        except BaseException as e:      # re-raised in the main thread
            failure.append(e)
    th = threading.Thread(target=design)
    th.start()
    try:
        tr = os.path.join(ctx.scratch, "backup.ndjson")
        p = twice(ctx.run_harness, ["backup-trace", "-out", tr, "-dir", ctx.sub("bk"), "-rounds", str(ctx.pick(40, 200)),
                             "-secs", str(ctx.pick(45, 330)), "-wps", str(ctx.pick(60, 40)), "-writers", "6",
                             "-cuts", str(ctx.pick(40, 0)), "-ident", ctx.pick("star", "full"),
                             # bounds the whole inter-node transfer of a forwarded backup: a client that misses the end of
                             # the stream then costs seconds per request, not the default 30 s
                             "-fwdtimeout", os.environ.get("VERIF_C21_FWDTIMEOUT", "8s")], timeout=ctx.pick(1200, 3000))
    except BaseException:
        th.join()
        raise
    try:
        judge(ctx, p, tr)
    finally:
        th.join()
    if failure:
        raise failure[0]


def judge(ctx, p, tr):
    st = json.loads(p.stdout.strip().splitlines()[-1])
    ctx.cov["driver"] = {k: v for k, v in st.items() if k not in ("CutOutcomes", "PFOutcomes", "IdentOutcomes")}
    ctx.cov["cut_outcomes"] = st.get("CutOutcomes")
    ctx.cov["producer_failure_outcomes"] = st.get("PFOutcomes")
    ctx.cov["identifier_shape_outcomes"] = st.get("IdentOutcomes")
    if st["BackupsOK"] < ctx.pick(40, 300) or st["WritesAcked"] < 300 or st["DistinctStates"] < 20:
        raise vlib.Undecided("backups under load did not run: %s" % ctx.cov["driver"])
    if st["CutFired"] < ctx.pick(200, 2000):
        raise vlib.Undecided("stream cuts did not run: %s" % ctx.cov["driver"])
    if st["PFCases"] < 24 or st["PFFired"] < st["PFCases"]:
        raise vlib.Undecided("producer failures were not injected in every case: %s" % ctx.cov["driver"])
    if st["IdentShapes"] < ctx.pick(16, 36) or st["IdentBackupsOK"] < ctx.pick(150, 800) or not st["IdentOutcomes"].get("t-plain/c-plain/sql/ok"):
        # an error is always allowed, but a shape phase in which (nearly) nothing succeeds has shown nothing
        raise vlib.Undecided("backups of the identifier shapes did not run: %s" % ctx.cov["driver"])
    if st["WitnessPaused"] < 4:
        raise vlib.Undecided("the paused-copy witnesses did not run: %s" % ctx.cov["driver"])
    if min(st["ByVia"].get(v, 0) for v in ("leader", "follower", "local")) < 10:
        raise vlib.Undecided("a backup path was not exercised: %s" % st["ByVia"])
    bad = os.path.join(os.path.dirname(tr), "bad")
    if os.path.isdir(bad):
        # diagnostics the harness keeps of a backup answered 200 that does not restore: its body and the
        # recent gate / checkpoint hook events of all nodes
        keep = os.path.join(vlib.OUT, "replays", ctx.pid)
        os.makedirs(keep, exist_ok=True)
        for f in sorted(os.listdir(bad)):
            shutil.copy(os.path.join(bad, f), os.path.join(keep, "%s-%s" % (ctx.tier, f)))
        ctx.cov["unrestorable_bodies_kept"] = sorted(os.listdir(bad))
    rows = vlib.read_nd(tr)

    def corrupt(rows):
        # a successful backup whose t_a is one unit off (what a torn dump looks like)
        n = 0
        for r in rows:
            if r.get("ev") == "bk" and r.get("status") == 200 and r.get("restored"):
                n += 1
                if n == 5:
                    r["sa"] += 1
                    return rows
        raise vlib.Undecided("no backup to corrupt")

    def key(bad, name):
        ev = bad.get("ev")
        if ev == "bk":
            k = "backup:%s:fmt=%s:vacuum=%s:compress=%s:via=%s" % (name, bad.get("fmt"), b(bad.get("vacuum")), b(bad.get("compress")), bad.get("via"))
            return k + ":ident=" + bad["ident"] if bad.get("ident") else k
        if ev == "ref":
            return "backup:%s:fmt=%s:vacuum=false:compress=%s:via=follower" % (name, bad.get("fmt"), b(bad.get("compress")))
        if ev == "cut":
            return "backup:%s:cut=%s:compress=%s:fmt=%s:at=%s" % (name, bad.get("kind"), b(bad.get("compress")), bad.get("fmt"), bad.get("class"))
        if ev == "pf":
            return "backup:%s:format=%s:compress=%s:via=%s:at=%s" % (name, bad.get("format"), b(bad.get("compress")), bad.get("via"), bad.get("at"))
        return "backup:%s:%s" % (name or "rejected", ev)
    r = twice(vlib.trace_check, ctx, "TraceBackup", "TraceBackup.cfg", tr, "backup", key_fn=key, selftest=corrupt, timeout=2400)
    if r["accepted"]:
        # binding of the producer-failure rule: the recorded cases with one of them answered 200 / read to the end
        pf = [dict(x) for x in rows if x.get("ev") == "pf"]
        pf[len(pf) // 2].update(status=200, clean=True)
        p2 = tr + ".pf-corrupt"
        vlib.write_nd(p2, pf)
        r2 = twice(vlib.tlc_trace, ctx, "TraceBackup", "TraceBackup.cfg", p2, timeout=900)
        if r2["accepted"] or [n for _, n in r2["bads"]] != ["success-although-producer-failed"]:
            raise vlib.Undecided("binding self-test failed: TraceBackup accepted a producer failure answered as a backup (%s)" % r2["bads"])
        ctx.cov.setdefault("binding_selftests", []).append({"module": "TraceBackup", "rule": "success-although-producer-failed", "rejected_corrupted_trace": True})
        # binding of Complete's row rule: the first identifier-shape history with one SQL dump restored without the rows of t_z
        first = next(i for i, x in enumerate(rows) if x.get("ev") == "reset" and x.get("phase") == "S")
        nxt = next((i for i in range(first + 1, len(rows)) if rows[i].get("ev") == "reset"), len(rows))
        sh = [dict(x) for x in rows[first:nxt]]
        victim = next(x for x in sh if x.get("ev") == "bk" and x.get("fmt") == "sql" and x.get("status") == 200 and x.get("restored"))
        victim.update(nz=0, sz=0)
        p3 = tr + ".ident-corrupt"
        vlib.write_nd(p3, sh)
        r3 = twice(vlib.tlc_trace, ctx, "TraceBackup", "TraceBackup.cfg", p3, timeout=900)
        if r3["accepted"] or [n for _, n in r3["bads"]] != ["incomplete"]:
            raise vlib.Undecided("binding self-test failed: TraceBackup accepted a dump without the rows of a table (%s)" % r3["bads"])
        ctx.cov["binding_selftests"].append({"module": "TraceBackup", "rule": "incomplete (rows of a table missing)", "rejected_corrupted_trace": True})
    nbk = sum(1 for r in rows if r.get("ev") in ("bk", "ref"))
    ncut = sum(1 for r in rows if r.get("ev") == "cut")
    npf = sum(1 for r in rows if r.get("ev") == "pf")
    ctx.add("traces_validated_against_impl", nbk + ncut + npf)
    ctx.cov["producer_failures_validated"] = npf
    ctx.cov["identifier_shape_backups_validated"] = sum(1 for r in rows if r.get("ev") == "bk" and r.get("phase") == "S")
    ctx.cov["backups_validated"] = nbk
    ctx.cov["cuts_validated"] = ncut
    ctx.cov["history_states"] = sum(1 for r in rows if r.get("ev") in ("init", "w"))
    combos = {}
    for r in rows:
        if r.get("ev") == "bk" and r.get("phase") != "S":
            k = "%s%s%s/%s" % (r["fmt"], "+vacuum" if r["vacuum"] else "", "+compress" if r["compress"] else "", r["via"])
            c = combos.setdefault(k, {"ok": 0, "error": 0})
            c["ok" if r["status"] == 200 and r["clean"] else "error"] += 1
    ctx.cov["combinations"] = combos
    if len(combos) < 24 or sum(1 for c in combos.values() if c["ok"] > 0) < 22:
        # overlapping binary backups refuse each other (gate held): with few rounds a combination may have had no success
        raise vlib.Undecided("not every format/flag/via combination produced a backup: %s" % combos)
    bks = [r for r in rows if r.get("ev") == "bk" and r.get("phase") != "S"]
    ctx.sample([r for r in rows if r.get("ev") == "bk" and r.get("phase") == "S" and r.get("cshape") == "dquote"][:2])
    ctx.sample(bks[7:11])
    ctx.sample([r for r in rows if r.get("ev") == "cut"][20:24])
    ctx.sample([r for r in rows if r.get("ev") == "w"][50:53])
    ctx.sample([r for r in rows if r.get("ev") == "pf"][16:19])
    ctx.cov["exhaustive"] = False
    ctx.cov["cut_positions"] = "every byte position" if ctx.thorough else "sampled (first 12, last 12, random)"
    ctx.assumptions += [
        "window of a backup: start = DBAppliedIndex of the source node read before the request, end = its Raft commit index read after the response; if leadership moved during the request only the window-free rules (restorable, complete, equal to SOME state of the history) are applied",
        "a backup's content is compared through a projection (row counts, sums of every numeric column of the three tables, number of schema objects, integrity_check), not byte by byte",
        "identifier shapes: one representative name per shape and role (e.g. dquote: x\"a, i\"d; keyword: group, order, select / primary, values, key, where, default, table; unicode: x\u00e9\u8868a), tables and an index; views, triggers and column shapes inside index expressions are not varied",
        "the stream cut is injected at the follower's end of the TCP connection (reads end with EOF / ECONNRESET after p bytes, the socket is then really closed, with linger 0 for RST)",
        "a failure of the producing node after streaming began is injected at two places only: the source file of the copy in Store.Backup is closed right before the copy (so the copy fails on its first read: nothing of the file is in the stream), and db.Dump returns an error at the k-th table (k = 1, 2, 3); a read error in the middle of the file copy and SQLite errors inside a dump query are not injected",
    ]
