"""C13 Transactional requests are all-or-nothing and results match statements.
(A) Txn.tla: step-by-step evaluator of a request (tx / rollback-on-error / execute or unified
    path; statement classes: write, RETURNING, query, runtime failure, prepare failure, constraint
    failure in the middle of a multi-row statement, multi-command text whose second command fails,
    empty, explicit BEGIN/COMMIT) and the user-level invariants AllOrNothing, ResultsMatch,
    RoeClean, NoTxLeftOpen for every request up to MaxLen statements; negative controls.
(B) every request is concretised over a real SQLite table and run through db.Execute / db.Request;
    the result list and the rows that exist afterwards are compared with the spec's evaluator."""
import json, os, vlib
LEVEL = "model_checking"
TECHNIQUE = "TLA+ evaluator spec, TLC exhaustive over requests; every request replayed on the real db layer"

def run(ctx):
    vlib.tlc_mc(ctx, "Txn", "Txn_mc.cfg", coverage=False)
    for sw, inv in (("TxAllOrNothing", "AllOrNothing"), ("StopAtFirstFailure", "ResultsMatch"),
                    ("PrepareFailureAborts", "AllOrNothing"), ("RollbackOnError", "RoeClean")):
        vlib.tlc_neg(ctx, "Txn", "Txn_neg_%s.cfg" % sw, expect=inv)
    gen = "Txn_gen4.cfg" if ctx.thorough else "Txn_gen3.cfg"
    cases, r = vlib.tlc_cases(ctx, "Txn", gen, timeout=3000)
    inp = os.path.join(ctx.scratch, "txn.ndjson")
    out = os.path.join(ctx.scratch, "txn.mismatch.ndjson")
    vlib.write_nd(inp, cases)
    p = ctx.run_harness(["txn-replay", "-in", inp, "-out", out], timeout=3000)
    st = json.loads(p.stdout.strip().splitlines()[-1])
    ctx.add("evaluations", st["cases"])
    ctx.add("distinct_nontrivial", st["with_failing_statement"])
    ctx.add("traces_validated_against_impl", st["cases"])
    ctx.cov["rule"] = "all requests up to MaxLen statements over the class alphabet (TLC-enumerated); non-trivial = contains a failing statement"
    for s in st["samples"]:
        ctx.sample(s)
    for m in vlib.read_nd(out):
        ctx.violation(m["key"], "request %s: want db=%s res=%s, got db=%s res=%s (err=%s, left_open=%s)"
                      % (m["sql"], m["want_db"], m["want_res"], m["got_db"], m["got_res"], m["err"], m["left_open"]), m)
    ctx.cov["exhaustive"] = True
    ctx.assumptions += ["statement classes concretised by one representative SQL text each (txn.go)"]
