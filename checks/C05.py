"""C05 WAL compaction is equivalent to the original WAL.
(A) WALCompact.tla: a WAL is a sequence of frames [page, commit marker = database size or 0, salt ok,
    checksum ok]; the REFERENCE is SQLite's reading (valid prefix = longest run of good frames,
    committed part = up to its last commit marker, Checkpoint = latest frame per page <= final size,
    file truncated/extended to the final size) and the CODE is CompactingFrameScanner.scan()
    transcribed (per-transaction staging, fold at commit frames, ErrOpenTransaction, offset order;
    checksum-verifying mode at start 0, salt-only mode at every commit-boundary resume position).
    TLC checks for EVERY WAL within the bounds and every judged (mode, start):
    Checkpoint(base, Compact(w, start)) = Checkpoint(base, committed valid frames from start), nothing
    beyond the valid prefix or before start is emitted, error <=> open trailing transaction, output
    shape, transcription = design sentence.  One negative control per mechanism (LatestPerPage,
    TxnBoundary, OffsetOrder, StopAtSaltBreak, StopAtChecksumBreak, ErrorOnOpenTxn, RespectStart).
(B) every WAL of the generator bound is concretised frame by frame into real bytes (real header,
    little/big-endian checksum magic, page sizes 512..8192 and 65536, salts, SQLite's cumulative
    checksums; stale frames as salt-only breaks or as a genuine older generation; corrupted data or
    checksum bytes; tails: junk, zero frame, torn frame, stale generation) and given to the REAL
    scanner + Writer + Bytes: error class and emitted source-frame list must equal the spec's, the
    output must be a well-formed WAL of verbatim copies; on a sample REAL SQLite (directly and through
    db.ReplayWAL) checkpoints the compacted WAL and the committed frames from start into copies of a
    base database and the files are compared byte for byte (and SQLite's checkpoint of the untouched
    original is projected and compared with the spec's Checkpoint).
(C) seeded workloads on real SQLite (WAL mode, no auto-checkpoint; several tables, growth, overflow,
    DELETE, DROP TABLE, VACUUM, auto/incremental vacuum, rollbacks with cache spill, checkpoints that
    restart the WAL and leave stale frames): the WAL file is parsed into abstract frames and recorded
    with the real scanner's output for start 0 and sampled commit boundaries; TraceWALCompact.tla must
    accept every line; real checkpoint results are compared again.  End to end: a live rqlite database,
    db.CheckpointManager.Checkpoint(writer) with a pinned reader (all frames moved, WAL not truncated ->
    resume position armed), more writes, second Checkpoint (compaction from the resume frame, or from 0
    after SQLite restarted the WAL): each compacted WAL checkpointed into the previous database file must
    give the live database file byte for byte."""
import concurrent.futures as cf
import json, os, re, vlib

LEVEL = "model_checking"
TECHNIQUE = ("TLA+ spec of WAL validity/compaction/checkpoint, TLC exhaustive + negative controls; spec-generated WALs "
             "concretised to bytes and replayed on the real scanner/writer with real-SQLite checkpoint comparison; "
             "SQLite-generated WALs validated as traces")
# vlib.tlc puts "-Xmx<heap>" into JAVA_TOOL_OPTIONS; the extra flags keep the many short JVMs of this check from
# starting 16 GC / JIT threads each on a shared machine (40% less CPU per small run, measured)
SMALL = "1g -XX:ParallelGCThreads=2 -XX:TieredStopAtLevel=1"
BIG = "6g -XX:ParallelGCThreads=4"
SWITCHES = (("LatestPerPage", "Equiv"), ("TxnBoundary", "Equiv"), ("OffsetOrder", "Equiv"), ("StopAtSaltBreak", "Equiv"),
            ("StopAtChecksumBreak", "Equiv"), ("ErrorOnOpenTxn", "OpenTxnIsError"), ("RespectStart", "Equiv"))


def complete(r):
    """vlib.tlc reports a JVM that was killed from outside (no 'Error:' line, no state count) as ok; this check does not."""
    if r["rc"] != 0 or r["distinct"] == 0 or "Model checking completed" not in r["out"]:
        raise vlib.Undecided("TLC %s/%s did not run to completion (rc=%s, %d states)" % (r["module"], r["cfg"], r["rc"], r["distinct"]))
    return r


def design(ctx):
    # small bound with coverage: every Append* action must have been taken (vacuity)
    complete(vlib.tlc_mc(ctx, "WALCompact", "WALCompact_mc.cfg", workers=2, heap=SMALL))
    with cf.ThreadPoolExecutor(4) as ex:
        fs = [ex.submit(vlib.tlc_neg, ctx, "WALCompact", "WALCompact_neg_%s.cfg" % sw, expect=inv, workers=1, heap=SMALL) for sw, inv in SWITCHES]
        for f in fs:
            f.result()
    for cfg in ctx.pick(["WALCompact_mc4q.cfg"], ["WALCompact_mc4b.cfg", "WALCompact_mc5.cfg", "WALCompact_mc6.cfg"]):
        complete(vlib.tlc_mc(ctx, "WALCompact", cfg, coverage=False, workers=ctx.pick(4, 6), timeout=3000, heap=BIG))
    ctx.cov["exhaustive"] = True


_CASE = re.compile(r'<<\s*"@@",\s*"([^"]*)"\s*>>')


def gen_cases(ctx, cfg):
    """The generator prints nested integer tuples (TLC's ToString); see Emit in WALCompact.tla."""
    r = vlib.tlc(ctx, "WALCompact", cfg, workers=ctx.pick(3, 5), coverage=False, timeout=3000, heap=BIG)
    if r["rc"] != 0 and not r["violated"]:
        raise vlib.Undecided("generator %s did not run to completion (rc=%s)" % (cfg, r["rc"]))
    if r["violated"]:
        raise vlib.Undecided("generator %s violated %s" % (cfg, r["violated"]))
    cases = []
    for m in _CASE.finditer(r["out"]):
        w, vp, c, exp, db = json.loads(m.group(1).replace("<<", "[").replace(">>", "]"))
        cases.append({"w": w, "vp": vp, "c": c,
                      "exp": [{"full": bool(e[0]), "start": e[1], "err": bool(e[2]), "out": e[3]} for e in exp],
                      "db": [{"b": d[0], "pages": d[1]} for d in db]})
    if len(cases) != r["distinct"] or not cases:
        raise vlib.Undecided("generator %s: %d cases parsed for %d states" % (cfg, len(cases), r["distinct"]))
    cases.sort(key=lambda x: (len(x["w"]), x["w"]))
    return cases


# generator config -> (real-SQLite comparison on every n-th case, concretisations per case, page size 65536 on every n-th case)
QUICK_SETS = [[("WALCompact_gen.cfg", 25, 1, 997)]]
THOROUGH_SETS = [[("WALCompact_gen4.cfg", 100, 1, 199)],
                 [("WALCompact_gen3b.cfg", 20, 2, 199), ("WALCompact_gen6.cfg", 40, 2, 199)]]


def replay_set(ctx, cfg, sql_every, variants, big_every, tot):
    cases = gen_cases(ctx, cfg)
    # replayer self-test: one case with a perturbed expectation must come back as a mismatch
    st_case = next(c for c in cases if len(c["w"]) >= 3 and c["vp"] == len(c["w"]) and len(c["exp"][0]["out"]) >= 2)
    st_case = json.loads(json.dumps(st_case))
    st_case["selftest"] = True
    for e in st_case["exp"]:
        e["out"] = e["out"][1:]
    cases.append(st_case)
    inp = os.path.join(ctx.scratch, cfg + ".cases.ndjson")
    out = os.path.join(ctx.scratch, cfg + ".violations.ndjson")
    vlib.write_nd(inp, cases)
    n = len(cases)
    del cases
    args = ["walcompact-replay", "-in", inp, "-out", out, "-sqlite-every", str(sql_every), "-rqlite-every", "10",
            "-variants", str(variants), "-big-every", str(big_every), "-workers", "4"]
    p = ctx.run_harness(args, timeout=3000)
    os.remove(inp)
    res = json.loads(p.stdout.strip().splitlines()[-1])
    if res["spec_mismatch"]:
        raise vlib.Undecided("WALCompact.tla's SQLite rules disagree with real SQLite (spec/concretiser defect): %s" % json.dumps(res["spec_mismatch"][:2]))
    st = res["stats"]
    if st.get("equiv_compared", 0) == 0 or st.get("open_txn_errors", 0) == 0 or st.get("nontrivial", 0) == 0:
        raise vlib.Undecided("replay of %s did not exercise the comparison: %s" % (cfg, st))
    selftest_seen = False
    for v in vlib.read_nd(out):
        if v.get("selftest"):
            selftest_seen = True
            continue
        ctx.violation(v["key"], v["what"], v["artefact"])
    if not selftest_seen:
        raise vlib.Undecided("replayer self-test failed: a perturbed expectation was not reported")
    st["violations"] = st.get("violations", 0) - sum(1 for v in vlib.read_nd(out) if v.get("selftest"))
    for k, v in st.items():
        tot[k] = tot.get(k, 0) + v
    ctx.cov.setdefault("synthetic_classes", {})[cfg] = res["classes"]
    for s in res["samples"] or []:
        ctx.sample(s)
    tot["wals_replayed"] = tot.get("wals_replayed", 0) + n - 1


def synthetic(ctx):
    tot = {}

    def chain(sets):
        for cfg, sql_every, variants, big_every in sets:
            replay_set(ctx, cfg, sql_every, variants, big_every, tot)
    groups = ctx.pick(QUICK_SETS, THOROUGH_SETS)
    with cf.ThreadPoolExecutor(len(groups)) as ex:
        for f in [ex.submit(chain, g) for g in groups]:
            f.result()
    ctx.cov.setdefault("binding_selftests", []).append({"replayer": "walcompact-replay", "perturbed_expectation_reported": True})
    ctx.cov["synthetic"] = tot
    ctx.add("traces_validated_against_impl", tot["wals_replayed"])
    ctx.add("evaluations", tot["runs"])
    ctx.add("distinct_nontrivial", tot.get("nontrivial_wals", 0))


def sqlite_wals(ctx):
    tr = os.path.join(ctx.scratch, "walcompact.trace.ndjson")
    vf = os.path.join(ctx.scratch, "walcompact.sqlite.violations.ndjson")
    keep = os.path.join(vlib.ROOT, "replays", "C05", "wals")
    n = ctx.pick(40, 600)
    p = ctx.run_harness(["walcompact-sqlite", "-n", str(n), "-out", tr, "-violations", vf, "-keep", keep, "-starts", "4",
                         "-manager", str(ctx.pick(8, 80))], timeout=3000)
    res = json.loads(p.stdout.strip().splitlines()[-1])
    if res["spec_mismatch"]:
        raise vlib.Undecided("harness reading of SQLite's WAL disagrees with SQLite's own checkpoint: %s" % json.dumps(res["spec_mismatch"][:2])[:3000])
    st = res["stats"]
    if st.get("wals", 0) < n // 2 or st.get("equiv_compared", 0) == 0 or st.get("manager_runs", 0) == 0:
        raise vlib.Undecided("SQLite workloads produced too few WALs: %s" % st)
    for v in vlib.read_nd(vf):
        ctx.violation(v["key"], v["what"], v["artefact"])

    def corrupt(rows):
        for r in rows:
            for o in r["obs"]:
                if not o["err"] and len(o["out"]) >= 2:
                    o["out"] = o["out"][1:]          # the scanner "lost" a frame
                    return rows
        raise vlib.Undecided("nothing to corrupt in the SQLite WAL trace")

    def key(bad, inv):
        return "wal:compact:trace:sqlite:%s" % bad.get("scenario", "?")
    r = vlib.trace_check(ctx, "TraceWALCompact", "TraceWALCompact.cfg", tr, "compacting scanner on SQLite-generated WALs",
                         key_fn=key, selftest=corrupt, timeout=3000, heap=BIG)
    if r["accepted"] and (r["rc"] != 0 or r["distinct"] != r["n"] + 1):
        raise vlib.Undecided("trace validation did not run to completion (rc=%s, %d states for %d lines)" % (r["rc"], r["distinct"], r["n"]))
    ctx.add("traces_validated_against_impl", st["wals"])
    ctx.add("evaluations", st["runs"])
    ctx.add("distinct_nontrivial", st.get("nontrivial_wals", 0))
    ctx.cov["sqlite_wals"] = {"stats": st, "scenarios": res["scenarios"], "page_sizes": res["page_sizes"],
                              "fast_mode_not_judged_examples": res["fast_unjudged_notes"]}
    rows = vlib.read_nd(tr)
    if rows:
        r = rows[len(rows) // 2]
        ctx.sample({"sqlite_wal": {k: r[k] for k in ("scenario", "page_size")}, "frames": len(r["w"]),
                    "first_frames": r["w"][:6], "obs": [{"full": o["full"], "start": o["start"], "err": o["err"], "emitted": len(o["out"])} for o in r["obs"]]})


def run(ctx):
    ctx.harness()
    with cf.ThreadPoolExecutor(3) as ex:
        fs = [ex.submit(f, ctx) for f in (design, synthetic, sqlite_wals)]
        errs = []
        for f in fs:
            try:
                f.result()
            except Exception as e:      # let the other parts finish; report the first problem
                errs.append(e)
        if errs:
            raise errs[0]
    ctx.cov["rule"] = ("synthetic: every WAL of the generator bound (frames over 3 pages x commit marker 0/1..4 x at most one stale-salt and one "
                       "bad-checksum frame) x rotating page size / checksum endianness / tail / base size, evaluated in the checksum mode at start 0 "
                       "and in the fast mode at every commit-boundary start; SQLite: seeded workloads, sampled starts; non-trivial = distinct WALs on which some judged "
                       "compaction dropped at least one committed frame (evaluations = scanner runs over WAL x concretisation x mode x start)")
    ctx.assumptions += [
        "fast (salt-only) mode is not judged on WALs whose valid prefix is decided by a checksum alone (documented as trusting the WAL)",
        "resume positions are commit boundaries inside the committed valid prefix; frames with page number 0 and broken WAL headers are not generated",
        "synthetic pages are opaque bytes except page 1 (header page of a real empty database); SQLite's refusal of WALs far larger than file+WAL is avoided by the bounds",
        "SQLite-generated WALs with start > 0 are checkpointed into the base after SQLite checkpointed the frames before start",
    ]
