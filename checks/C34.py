"""C34 Coordination primitives are safe and make progress.
(A) TLC exhaustive on Sync.tla (CAS mutual exclusion; MultiRSW exclusion + NoLostWake + progress
    under fairness; ReadyTarget NeverBefore/WokenWhenReached), negative controls per mechanism.
(C) free-running concurrent goroutines on the REAL internal/rsync primitives; every hook event
    (emitted under the object's mutex) is consumed by TraceSync.tla, all invariants at every step;
    a goroutine left blocked although the model says the lock is free is a lost wake-up."""
import os, vlib
LEVEL = "model_checking"

def run(ctx):
    vlib.tlc_mc(ctx, "Sync", "Sync_cas.cfg")
    vlib.tlc_mc(ctx, "Sync", "Sync_mrsw.cfg")
    vlib.tlc_mc(ctx, "Sync", "Sync_rt.cfg")
    vlib.tlc_mc(ctx, "Sync", "Sync_mrsw_live.cfg", coverage=False)
    for n, inv in (("Sync_cas_neg_CASExclusive.cfg", "CasMutex"),
                   ("Sync_mrsw_neg_WriterExcludesReaders.cfg", "MrswExclusion"),
                   ("Sync_mrsw_neg_BlockingWakes.cfg", "NoLostWake"),
                   ("Sync_rt_neg_WakeAtTarget.cfg", "NeverBefore")):
        vlib.tlc_neg(ctx, "Sync", n, expect=inv)
    runs = ctx.pick(60, 600)
    tr = os.path.join(ctx.scratch, "sync.ndjson")
    p = ctx.run_harness(["sync-trace", "-out", tr, "-runs", str(runs), "-ops", str(ctx.pick(40, 60))], timeout=1500)
    ctx.cov["driver"] = p.stdout.strip()

    def corrupt(rows):
        # flip the outcome of the first successful non-blocking write acquire
        for r in rows:
            if r.get("ev") == "mrsw.bwrite" and r.get("ok") is False:
                r["ok"] = True
                return rows
        rows[1]["ev"] = "mrsw.ewrite"
        return rows

    def key(bad, inv):
        return "sync:%s:%s" % (bad.get("ev", "?"), inv or "rejected")
    r = vlib.trace_check(ctx, "TraceSync", "TraceSync.cfg", tr, "rsync primitives", key_fn=key, selftest=corrupt,
                         timeout=ctx.pick(600, 3000))
    ctx.add("traces_validated_against_impl", 2 * runs)
    rows = vlib.read_nd(tr)
    ctx.sample(rows[1:12])
    ctx.cov["exhaustive"] = False
    ctx.assumptions += ["hook events are emitted under the primitive's own mutex, so their order is the linearization order",
                        "Go runtime scheduler provides the interleavings (free-running, seeded op choice)"]
