"""C07 Reaping snapshots is crash-safe.
(A) SnapStore.tla, reap mode: for every store shape (0-2 older snapshots, newest full with 0-2 WALs,
    0-3 incrementals with 1-2 WALs, optionally a sink's .tmp directory) the reap as the code runs it:
    plan construction exactly as reapInternal, REAP_PLAN.tmp + rename, the executor's operations one by
    one with their idempotence rules, Checkpoint split per WAL (leftover <db>-wal first, rename,
    checkpoint), plan removal; NewStore -> check(): LastOpDone shortcut, re-execution, tmp clean-up.
    A process crash may follow every step (the k-th arrival at each of the code's crash points), again
    during recovery; the third process must open.  TLC exhaustive: NoFailure, Recovered (store opens,
    newest (term, index) and resolved content as before the reap, no plan / half-applied WAL left),
    NoTmpLeft.  Negative controls: PlanBeforeMutation, ResumeOnOpen, IdempotentOps, LeftoverWALFirst,
    LastOpDoneShortcut, TmpCleanAfterResume; their counterexamples are replayed on the real code.
(B) every (shape, crash point#k [, crash point#k during recovery]) emitted by TLC is realised on the
    real store: shape built in place by real sinks from real SQLite files, the reap in a child process
    killed by VERIF_CRASH, recovery (snapshot.NewStore) in a second child killed again where the case
    says so, then a third open: List, Open + snapshot.Restore of the newest snapshot; (term, index)
    and the logical content of the restored database are compared with those before the reap; the raw
    directory listing after every kill is compared with the spec's state at that step."""
import concurrent.futures as cf
import json, os, random, re
import vlib

LEVEL = "model_checking"
TECHNIQUE = "TLA+ spec of reap plan/executor/recovery, TLC exhaustive over crash points; every generated crash schedule replayed with real child processes"

NEGS = (("PlanBeforeMutation", "Recovered"), ("ResumeOnOpen", "Recovered"), ("IdempotentOps", "NoFailure"),
        ("LeftoverWALFirst", "Recovered"), ("LastOpDoneShortcut", "NoFailure"), ("TmpCleanAfterResume", "NoTmpLeft"))


def shape_str(c):
    parts = [it["kind"] + ("/%dw" % it["nw"] if it["nw"] else "") for it in c["shape"]["items"]]
    return "+".join(parts + (["tmp"] if c["shape"]["tmp"] else []))


def witness(r):
    m = None
    for m in re.finditer(r'case = "(.*)"\s*$', r["out"], re.M):
        pass
    if not m:
        raise vlib.Undecided("negative control %s printed no witness" % r["cfg"])
    return json.loads(json.loads('"' + m.group(1) + '"'))


def run(ctx):
    rng = random.Random(ctx.seed)
    pool = cf.ThreadPoolExecutor(3)

    def design():
        vlib.tlc_mc(ctx, "SnapStore", "SnapStore_reap_mc2.cfg" if ctx.thorough else "SnapStore_reap_mc.cfg", workers=3, timeout=3000)

    def neg(sw, inv):
        return sw, witness(vlib.tlc_neg(ctx, "SnapStore", "SnapStore_neg_%s.cfg" % sw, expect=inv, workers=1, timeout=900))
    f_design = pool.submit(design)
    f_negs = [pool.submit(neg, sw, inv) for sw, inv in NEGS]
    ctx.cov["generated"] = {}
    if ctx.thorough:
        f_double = pool.submit(lambda: vlib.tlc_cases(ctx, "SnapStore", "SnapStore_reap_gen2.cfg", timeout=2400)[0])
        single, _ = vlib.tlc_cases(ctx, "SnapStore", "SnapStore_reap_gen1.cfg", timeout=1800)
        big, _ = vlib.tlc_cases(ctx, "SnapStore", "SnapStore_reap_gen1b.cfg", timeout=1800)
        seen = {shape_str(c) for c in single}
        big = [c for c in big if shape_str(c) not in seen]
        ctx.cov["generated"]["single_crash_cases_big_shapes"] = len(big)
        cases = single + rng.sample(big, min(len(big), 100))
        double = [c for c in f_double.result() if len(c["crashes"]) == 2]
    else:
        # one generator run: 12 shapes, every schedule of up to two crashes
        allc, _ = vlib.tlc_cases(ctx, "SnapStore", "SnapStore_reap_gen2q.cfg", timeout=1800)
        single = [c for c in allc if len(c["crashes"]) <= 1]
        double = [c for c in allc if len(c["crashes"]) == 2]
        cases = list(single)
    if len(single) < 150:
        raise vlib.Undecided("generator produced only %d single-crash cases" % len(single))
    ctx.cov["generated"]["single_crash_cases"] = len(single)
    ctx.cov["generated"]["double_crash_cases"] = len(double)
    cases += rng.sample(double, min(len(double), ctx.pick(50, 400)))
    nwit = 0
    for f in f_negs:
        sw, w = f.result()
        w["nodisk"] = True
        w["witness"] = sw
        cases.append(w)
        nwit += 1

    inp = os.path.join(ctx.scratch, "reap-cases.ndjson")
    outp = os.path.join(ctx.scratch, "reap-results.ndjson")
    vlib.write_nd(inp, cases)
    p = ctx.run_harness(["ss-reap", "-in", inp, "-out", outp, "-scratch", ctx.sub("reap"), "-par", "6"], timeout=3300)
    st = json.loads(p.stdout.strip().splitlines()[-1])
    res = vlib.read_nd(outp)
    if len(res) != len(cases):
        raise vlib.Undecided("harness returned %d results for %d cases" % (len(res), len(cases)))

    # binding self-test of the replayer: a falsified expectation must be reported
    pert = json.loads(json.dumps([c for c in cases if c["want"]["applied"] and len(c["crashes"]) == 1][0]))
    pert["want"]["last"] += 1
    pert["perturb"] = True
    pin = os.path.join(ctx.scratch, "reap-pert.ndjson")
    pout = os.path.join(ctx.scratch, "reap-pert-results.ndjson")
    vlib.write_nd(pin, [pert])
    ctx.run_harness(["ss-reap", "-in", pin, "-out", pout, "-scratch", ctx.sub("reap"), "-par", "1"], timeout=600)
    pr = vlib.read_nd(pout)[0]
    if pr["verdict"] != "content-changed":
        raise vlib.Undecided("replayer self-test failed: a falsified expected content was not reported (%s)" % pr["verdict"])
    ctx.cov["binding_selftests"] = [{"perturbed": "expected last applied WAL of one case", "reported_as": pr["verdict"]}]

    by_point, by_verdict, diffs, skipped, faults = {}, {}, [], 0, []
    for c, r in zip(cases, res):
        v = r["verdict"]
        if v.startswith("harness:"):
            if c.get("witness") and v == "harness:crash-point-not-reached":
                skipped += 1
                continue
            faults.append("%s / %s: %s %s" % (r["shape"], r["crash"], v, r.get("detail")))
            continue
        by_verdict[v] = by_verdict.get(v, 0) + 1
        for cr in c["crashes"]:
            by_point[cr["point"]] = by_point.get(cr["point"], 0) + 1
        if r.get("model_diffs"):
            diffs.append({"shape": r["shape"], "crash": r["crash"], "diffs": r["model_diffs"][:2]})
        if v != "ok":
            key = "reap:%s:crash=%s:shape=%s" % (v, r["crash"].replace("@run1", "").replace("@run2", "/recovery"), r["shape"])
            ctx.violation(key, "reap interrupted at %s on store shape %s: %s (%s)" % (r["crash"], r["shape"], v, r.get("detail")),
                          {"case": c, "result": r})
    f_design.result()
    pool.shutdown()
    if faults and not ctx.violations:
        # e.g. a crash point of the schedule was never reached: spec and code disagree on the steps, no verdict
        raise vlib.Undecided("harness fault in %d case(s), e.g. %s" % (len(faults), faults[0]))
    ctx.cov["cases_without_verdict"] = len(faults)
    ctx.cov["replay"] = st
    ctx.cov["cases_by_verdict"] = by_verdict
    ctx.cov["crashes_by_point"] = by_point
    ctx.cov["shapes_replayed"] = len({r["shape"] for r in res})
    ctx.cov["witnesses_replayed"] = nwit - skipped
    ctx.cov["crash_state_listing_differs_from_spec"] = len(diffs)
    if diffs:
        ctx.cov["crash_state_diff_examples"] = diffs[:3]
        vlib.log("note: %d cases where the directory listing at a kill differs from the spec state" % len(diffs))
    ctx.add("traces_validated_against_impl", len(res) - skipped)
    for i in (0, len(cases) // 2, len(cases) - nwit - 1):
        ctx.sample({"shape": res[i]["shape"], "crash": res[i]["crash"], "before": res[i].get("pre"), "after": res[i].get("post"),
                    "exits": res[i]["exits"], "verdict": res[i]["verdict"]})
    ctx.cov["exhaustive"] = bool(ctx.thorough)
    ctx.cov["exhaustive_part"] = ("spec: every crash schedule (<= 2 crashes) of every shape of the cfg; replay: %s"
                                  % ("all single-crash schedules of the 84 medium shapes, a seeded sample of double-crash schedules and of larger shapes"
                                     if ctx.thorough else "all single-crash schedules of the 12 shapes of SnapStore_reap_gen2q.cfg and a seeded sample of their double-crash schedules"))
    ctx.assumptions += [
        "process crash = os.Exit at the crash point (page cache intact); crashes inside SQLite's own checkpoint or inside os.WriteFile are not injected",
        "REAP_PLAN holds absolute paths: every case is built, crashed and recovered in place",
        "content = (base, set of applied WALs, last applied WAL) on page-disjoint WAL materials; byte identity of the restored file is recorded, not required",
    ]
