"""C32 Membership changes keep node IDs and addresses unique, give each node the role it asked for, and reap only after the role's timeout.
(A) Membership.tla: the Raft configuration as a set of (id, address, suffrage); Store.Join step by step as
    written (GetConfiguration; per matching entry "same id, address and role => ignore", otherwise
    remove-before-add of the entry found; AddVoter / AddNonvoter), Store.Remove, Store.Notify with
    BootstrapExpect, the failed-heartbeat reaper with per-role timeouts, other requests interleaving between
    the Raft calls of a join; hashicorp/raft's nextConfiguration / checkConfiguration as the environment
    (atomic changes; duplicate ids / addresses and voterless configurations refused; AddNonvoter never
    demotes; a request that loses leadership may or may not have taken effect).  TLC exhaustive, every history
    of any length: join / re-join / remove over 3 ids x 3 addresses (quick) or 4 x 4 (thorough), discovery
    bootstrap 3 x 2 or 3 x 3, reaping with one node down 2 x 3 or 3 x 3, and (thorough) two joins in flight,
    and sequential requests without Raft's duplicate check; invariants InvUniqueIds, InvUniqueAddrs, RoleAsRequested, JoinTakesEffect,
    BootstrapAtMostOnce, ReapOnlyAfterRoleTimeout, and StepsMatchClosedForm (the step-by-step join equals the
    closed form the trace specification uses).  Negative controls: IgnoreOnlyIfIdenticalInclRole,
    RemoveConflictingEntry (with and without Raft's duplicate check), BootstrapOnce, ReapAfterRoleTimeout.
(B) TLC generates every sequence of 3 join / remove requests for two spare nodes (2 ids x 2 addresses x
    voter / non-voter: 1000 histories); a seeded sample that always contains the witness shapes of the negative
    controls is replayed on a live cluster: 3 stable voters formed by discovery bootstrap + up to 2 spare REAL
    nodes on fixed ports, so address reuse (old process stopped, another id listens on its port) and id reuse
    (same id on another port, same or fresh directory) are real; seeded random walks over 3 ids x 3 addresses;
    the model's final configuration is compared with the cluster's.
(C) every operation (request, result, Nodes() of the leader, agreement of all nodes) is one trace line judged
    by TraceMembership.tla with Membership's own operators; Store.Notify histories on fresh nodes; reaping
    scenarios with short ReapTimeout / ReapReadOnlyTimeout where a stopped voter and a stopped non-voter must
    leave the configuration only after the timeout of their own role (reaper hook events for the exact rule,
    the harness clock, one-sided, for an independent one; a role with timeout 0 is never reaped)."""
import concurrent.futures
import json
import os
import random
import threading
import vlib

LEVEL = "model_checking"
TECHNIQUE = ("TLA+ spec of Store.Join/Remove/Notify/reaper against Raft's configuration rules, TLC exhaustive + negative controls; "
             "TLC-generated and random membership histories replayed on a live cluster with real spare nodes on fixed ports, "
             "every operation validated by a TLA+ trace spec")

NEGS = (("IgnoreOnlyIfIdenticalInclRole", "RoleAsRequested"), ("RemoveConflictingEntry", "JoinTakesEffect"),
        ("RaftRejectsDuplicates", "InvUniqueAddrs"), ("BootstrapOnce", "BootstrapAtMostOnce"),
        ("ReapAfterRoleTimeout", "ReapOnlyAfterRoleTimeout"))
# actions that a configuration switches off by its constants
NO_BOOT = ("Notify",)
NO_REAP = ("Stop", "Start", "Tick", "Reap")


def witness(c):
    """shape of a generated history when it is one of the negative controls' counterexamples"""
    o = c["ops"]
    j = [x for x in o if x["op"] == "join"]
    if len(o) >= 2 and o[0]["op"] == o[1]["op"] == "join" and o[0]["id"] == o[1]["id"] and o[0]["addr"] == o[1]["addr"] \
            and o[0]["voter"] != o[1]["voter"]:
        return "same-id-same-addr-other-role:" + ("V-N" if o[0]["voter"] else "N-V")
    if len(o) >= 2 and o[0]["op"] == o[1]["op"] == "join" and o[0]["id"] != o[1]["id"] and o[0]["addr"] == o[1]["addr"]:
        return "new-id-on-used-addr:" + ("V" if o[0]["voter"] else "N")
    if len(j) == 3 and j[0]["id"] != j[1]["id"] and j[0]["addr"] != j[1]["addr"] and j[2]["id"] == j[0]["id"] and j[2]["addr"] == j[1]["addr"]:
        return "own-id-on-anothers-addr"
    if len(o) >= 2 and o[0]["op"] == o[1]["op"] == "join" and o[0]["id"] == o[1]["id"] and o[0]["addr"] != o[1]["addr"] \
            and o[0]["voter"] != o[1]["voter"]:
        return "same-id-new-addr-other-role"
    return None


def run(ctx):
    lock = threading.Lock()
    add0 = ctx.add

    def add(key, n=1):
        with lock:
            add0(key, n)
    ctx.add = add

    # ---------------------------------------------------------------- generator first: the replay needs its histories
    cases, _ = vlib.tlc_cases(ctx, "Membership", "Membership_gen.cfg", heap="2g", timeout=900)
    cases = sorted(cases, key=lambda c: json.dumps(c, sort_keys=True))
    uniq, seen = [], set()
    for c in cases:
        k = json.dumps(c["ops"], sort_keys=True)
        if k in seen:
            raise vlib.Undecided("generator printed two final configurations for one sequential history: %s" % k)
        seen.add(k)
        uniq.append(c)
    if len(uniq) != 1000:
        raise vlib.Undecided("generator produced %d histories, expected 10^3" % len(uniq))
    ctx.cov["generated_histories"] = len(uniq)

    # (B) which histories are replayed: one of every witness shape + a seeded sample
    rnd = random.Random(ctx.seed * 7919 + 32)
    by_w = {}
    for c in uniq:
        w = witness(c)
        if w:
            by_w.setdefault(w, []).append(c)
    chosen = [rnd.choice(v) for _, v in sorted(by_w.items())]
    rest = [c for c in uniq if c not in chosen]
    rnd.shuffle(rest)
    chosen += rest[:ctx.pick(14, 340)]
    rnd.shuffle(chosen)
    cf = os.path.join(ctx.scratch, "cases.json")
    with open(cf, "w") as f:
        json.dump(chosen, f)
    ctx.cov["witness_shapes_replayed"] = sorted(by_w)

    # ---------------------------------------------------------------- (A) design + negative controls (3 TLC processes, one
    # worker each) while the live cluster runs
    if ctx.thorough:
        jobs = [("mc", "Membership_mc_conc.cfg", NO_BOOT + NO_REAP), ("mc", "Membership_mc_reap.cfg", NO_BOOT),
                ("mc", "Membership_mc.cfg", NO_BOOT + NO_REAP), ("mc", "Membership_mc_boot.cfg", NO_REAP),
                ("mc", "Membership_mc_noraft.cfg", NO_BOOT + NO_REAP)]
    else:
        jobs = [("mc", "Membership_mc3.cfg", NO_BOOT + NO_REAP), ("mc", "Membership_mc_boot_small.cfg", NO_REAP),
                ("mc", "Membership_mc_reap_small.cfg", NO_BOOT)]
    jobs += [("neg", "Membership_neg_%s.cfg" % sw, inv) for sw, inv in NEGS]

    def one(job):
        kind, cfg, arg = job
        if kind == "mc":
            # per-action counts (vacuity) are read in the thorough tier; they double the cost
            return vlib.tlc_mc(ctx, "Membership", cfg, vacuity_ok=arg, workers=1, heap="4g", timeout=3000, coverage=ctx.thorough)
        if kind == "neg":
            return vlib.tlc_neg(ctx, "Membership", cfg, expect=arg, workers=1, heap="2g", timeout=600)
        tr = os.path.join(ctx.scratch, "membership.ndjson")
        # ReapTimeout:ReapReadOnlyTimeout in ms; one role's timeout is more than twice the other's, both ways round; 0 = never
        reap = ctx.pick("5000:2000,2000:5000", "5000:2000,2000:5000,0:2000,2500:0,7000:3000")
        return ctx.run_harness(["membership", "-out", tr, "-cases", cf, "-walks", str(ctx.pick(2, 20)), "-walklen", str(ctx.pick(12, 30)),
                                "-notify", str(ctx.pick(5, 30)), "-reap", reap, "-dir", ctx.sub("mb")], timeout=3000)
    ctx.harness()       # build before the threads start
    with concurrent.futures.ThreadPoolExecutor(max_workers=4) as ex:
        hf = ex.submit(one, ("live", None, None))
        sem = threading.Semaphore(3)

        def gated(job):
            with sem:
                return one(job)
        futs = [ex.submit(gated, j) for j in jobs]
        for f in futs:
            f.result()             # an Undecided from any job ends the check (exit 2)
        p = hf.result()
    tr = os.path.join(ctx.scratch, "membership.ndjson")
    st = json.loads(p.stdout.strip().splitlines()[-1])
    ctx.cov["driver"] = {k: v for k, v in st.items() if k != "FinalMismatch"}
    if st["Histories"] != len(chosen) or st["Joins"] < 20 or st["Reaped"] < 2 or st["NotifyHistories"] < 1:
        raise vlib.Undecided("driver did not run the planned scenarios: %s" % ctx.cov["driver"])
    if st["NotLeader"] > st["Ops"] // 4:
        raise vlib.Undecided("cluster too unstable (%d of %d operations met no leader)" % (st["NotLeader"], st["Ops"]))
    rows = vlib.read_nd(tr)

    def corrupt(rows):
        # a successful join as voter after which the node is listed as non-voter
        for r in rows:
            if r.get("ev") == "join" and r.get("res") == "ok" and r.get("voter"):
                for e in r["cfg"]:
                    if e[0] == r["id"] and e[1] == r["addr"] and e[2] == "V":
                        e[2] = "N"
                        return rows
        raise vlib.Undecided("no join to corrupt")

    def key(bad, name):
        return "membership:%s" % (name or "trace-rejected:%s" % bad.get("ev", "?"))
    r = vlib.trace_check(ctx, "TraceMembership", "TraceMembership.cfg", tr, "membership operation on a live cluster",
                         key_fn=key, selftest=corrupt, timeout=1800, heap="4g")

    # (B) the model's final configuration of every replayed history against the cluster's: a difference must
    # have been reported by the trace specification inside that history, otherwise the two bindings disagree
    starts = {}
    for i, row in enumerate(rows):
        if row.get("ev") == "note" and "history" in row:
            starts[row["history"]] = i + 1
    badlines = sorted(b[0] for b in r.get("bads", []))
    for mm in st.get("FinalMismatch") or []:
        lo = starts.get(mm["history"], 0)
        hi = lo
        while hi < len(rows) and rows[hi].get("ev") != "reset":
            hi += 1
        if not any(lo < b <= hi for b in badlines):
            raise vlib.Undecided("replay: final configuration differs from the model's but the trace specification accepted the history: %s" % mm)
    ctx.cov["replay_final_configuration_mismatches"] = len(st.get("FinalMismatch") or [])

    ctx.add("traces_validated_against_impl", st["Histories"] + st["Walks"] + st["NotifyHistories"] + len(st.get("Reap") or []) + 1)
    ctx.cov["join_classes_met"] = st["Classes"]
    ctx.cov["results"] = st["Results"]
    ctx.sample([x for x in rows if x.get("ev") in ("join", "remove")][:8])
    ctx.sample([x for x in rows if x.get("ev") in ("stop", "reap.remove", "gone", "kept")][:8])
    ctx.sample([x for x in rows if x.get("ev") == "notify"][:9])
    ctx.cov["exhaustive"] = False
    ctx.assumptions += [
        "hashicorp/raft applies configuration changes one at a time and atomically and implements nextConfiguration/checkConfiguration as read in raft@v1.7.3/configuration.go (modelled as the environment)",
        "live histories are sequential (one membership request at a time, sent to the current leader's Store); interleaved requests are covered by the model only",
        "RoleAsRequested / JoinTakesEffect are stated for requests no other membership change interleaves with (a concurrent request for the same id may legitimately win)",
        "reaping: the exact rule (duration since last contact > timeout of the node's role in the tracked configuration) uses the duration reported by the reaper hook; the independent harness-clock rule is coarse and one-sided (not before half the role's timeout after the harness began to stop the process)",
        "the spare nodes' ports are reserved by listen/close at start; another process taking one of them makes the run undecided, not a violation",
    ]
