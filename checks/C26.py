"""C26 The CDC disk queue is ordered, durable and duplicate-suppressing.
(A) FIFO.tla (items + persisted highest key; volatile cursor and loaded head; Enqueue, Emit,
    DeleteRange, Reopen/kill) exhaustive: Increasing, Durable, HighestRemembered, StoredIncreasing,
    NoStranded, HeadValid; negative controls PersistHighest, IgnoreAtOrBelow, CursorMonotone,
    DeleteExactly.
(C) the real cdc.Queue driven through its public API: seeded random histories with close/reopen and
    with child processes killed at crash points inside/after the bbolt transactions, plus ALL
    operation sequences of a fixed length over a small alphabet; after every operation the queue's
    own Len/FirstKey/HighestKey/HasNext and every emitted (index, payload) are checked by
    TraceFIFO.tla (deterministic replay of the model, invariants at every step)."""
import json, os, vlib
LEVEL = "model_checking"
TECHNIQUE = "TLA+ spec of the disk queue, TLC exhaustive + trace validation of real histories incl. process kills"

def run(ctx):
    vlib.tlc_mc(ctx, "FIFO", "FIFO_mc.cfg")
    for sw, inv in (("PersistHighest", "HighestRemembered"), ("IgnoreAtOrBelow", "StoredIncreasing"),
                    ("CursorMonotone", "Increasing"), ("DeleteExactly", "Durable")):
        vlib.tlc_neg(ctx, "FIFO", "FIFO_neg_%s.cfg" % sw, expect=inv)
    tr = os.path.join(ctx.scratch, "fifo.ndjson")
    p = ctx.run_harness(["fifo-trace", "-out", tr, "-runs", str(ctx.pick(150, 1500)), "-segs", "4",
                         "-exhaustive", str(ctx.pick(3, 5))], timeout=3400)
    st = json.loads(p.stdout.strip().splitlines()[-1])
    ctx.cov["driver"] = st

    def corrupt(rows):
        for r in rows:
            if r.get("ev") == "emit":
                r["idx"] += 1
                return rows
        raise vlib.Undecided("no emit to corrupt")

    def key(bad, inv):
        return "fifo:%s:%s" % (bad.get("ev", "?"), inv or "rejected")
    vlib.trace_check(ctx, "TraceFIFO", "TraceFIFO.cfg", tr, "cdc disk queue", key_fn=key, selftest=corrupt,
                     timeout=ctx.pick(900, 3400), heap="12g")
    ctx.add("traces_validated_against_impl", st["runs"] + st["exhaustive_sequences"])
    ctx.sample(vlib.read_nd(tr)[1:14])
    ctx.cov["exhaustive"] = False
    ctx.cov["exhaustive_part"] = "all %d sequences of length %d over {enq 1..3, del 0..3, emit, reopen}" % (st["exhaustive_sequences"], ctx.pick(3, 5))
    ctx.assumptions += ["process kill = os.Exit at the crash point (OS page cache intact); bbolt transactions are atomic",
                        "queries are served by the manager goroutine, so state lines are sequentially consistent with operations"]
