"""C12 Corrupt snapshot data is detected before it is used.
(A) Corrupt.tla: data files {db, wal1, wal2, old} x checksum sidecars, the once-only `verified` latch, one
    corruption event (file; place: a data byte / the magic bytes / sidecar unparseable / sidecar another
    well-formed value; when: present at start / after the first verification), consumers start-restore,
    open-restore, open-transfer (install on a receiver), reap-then-restore, reap-then-transfer, with taint
    following the altered bytes through transfer, consolidation and re-checksumming.  TLC exhaustive:
    corruption present at start is never restored, installed or consolidated; corruption arising later is
    never restored or installed; start-up reports it before raft restores; no false detection.  The design
    (all mechanisms on, incl. VerifyBeforeConsolidate) holds; Corrupt_asis.cfg shows what the code as written
    still guarantees; one negative control per mechanism.
(B) every generated case is concretised on template stores built with the REAL store/sink from real SQLite
    databases (chain: old full, full, 2 incrementals; the same chain installed on a receiver as one directory):
    page-aligned and random byte flips, truncations, the magic bytes, every byte of every sidecar (classified
    by the real sidecar parser), before the store is opened or after its first verification, followed by each
    consumer on the real store / sink / snapshot.Restore; repeated in a child process that keeps the production
    fatal function (exit status 1 before use = detection); and on a REAL node (store.Store with raft) whose
    snapshot files are corrupted while it is down and which is restarted with a forced restore.
(C) the observed outcomes are trace lines judged by TraceCorrupt.tla (property: Good; agreement with the
    design's detection: Conforms)."""
import concurrent.futures as cf
import json, os, re, vlib

LEVEL = "model_checking"
TECHNIQUE = "TLA+ spec of sidecar verification (verify-once latch, recorded CRC in the stream header, receiver recomputation, reap re-checksumming) with taint tracking; TLC exhaustive; generated corruption cases replayed on the real store incl. child processes and a real node; outcomes validated by a trace spec"

NEGS = (("VerifyBeforeConsolidate", "RunCorruptionNeverServed"), ("VerifyBeforeFirstUse", "StartCorruptionNeverUsed"),
        ("VerifyAtStartRestore", "EarlyStartDetection"), ("HeaderCarriesRecordedCRC", "RunCorruptionNeverServed"),
        ("ReceiverRecomputes", "RunCorruptionNeverServed"))
KEEP = ("mode", "file", "filecls", "place", "when", "consumer", "kind", "detected", "used", "altered")


def line_key(r):
    m = "" if r["mode"] == "inproc" else ":mode=" + r["mode"]
    if r["place"] in ("-", "sidecar-equivalent"):
        what = "false-detection" if r["detected"] else "uncorrupted-altered"
        return "corrupt:%s:place=%s:consumer=%s%s" % (what, r["place"], r["consumer"], m)
    effect = r["altered"] if r["used"] and r["altered"] != "no" else "none"
    return "corrupt:undetected:file=%s:place=%s:when=%s:consumer=%s:kind=%s:effect=%s%s" % (
        r["filecls"], r["place"], r["when"], r["consumer"], r["kind"], effect, m)


def run(ctx):
    cases, _ = vlib.tlc_cases(ctx, "Corrupt", "Corrupt_gen.cfg")
    uniq, seen = [], set()
    for c in cases:
        k = json.dumps(c, sort_keys=True)
        if k not in seen:
            seen.add(k)
            uniq.append(c)
    if len(uniq) < 140:
        raise vlib.Undecided("generator produced only %d cases" % len(uniq))
    inp = os.path.join(ctx.scratch, "corrupt.cases.ndjson")
    tr = os.path.join(ctx.scratch, "corrupt.trace.ndjson")
    vlib.write_nd(inp, uniq)
    ctx.harness()

    def harness():
        return ctx.run_harness(["corrupt-replay", "-in", inp, "-out", tr, "-scratch", ctx.sub("stores"), "-child", "1",
                                "-node", str(ctx.pick(4, 24))], timeout=ctx.pick(900, 3000))

    def design():
        vlib.tlc_mc(ctx, "Corrupt", "Corrupt_mc.cfg", workers=1)
        vlib.tlc_mc(ctx, "Corrupt", "Corrupt_asis.cfg", workers=1)

    def neg(sw, inv):
        vlib.tlc_neg(ctx, "Corrupt", "Corrupt_neg_%s.cfg" % sw, expect=inv, workers=1)

    with cf.ThreadPoolExecutor(max_workers=4) as ex:
        fh = ex.submit(harness)
        fs = [ex.submit(design)] + [ex.submit(neg, sw, inv) for sw, inv in NEGS]
        for f in fs:
            f.result()
        p = fh.result()
    st = json.loads(p.stdout.strip().splitlines()[-1])
    rows = vlib.read_nd(tr)
    ctx.add("evaluations", st["runs"])
    ctx.cov["replay"] = {k: st[k] for k in ("runs", "lines", "cases", "templates", "child_runs", "node", "wall_s")}
    ctx.cov["rule"] = ("every abstract case (file x place x when x consumer) x template stores x concrete corruptions of the class "
                       "(page-aligned / random flips, truncations, magic bytes, every sidecar byte); thorough: every page and frame of every file")
    oc = {}
    for r in rows:
        k = "%s/%s/%s/%s" % (r["mode"], r["when"], "detected" if r["detected"] else ("used-" + r["altered"]), r["place"])
        oc[k] = oc.get(k, 0) + r["n"]
    ctx.cov["outcomes"] = oc

    proj, back = [], {}
    for r in rows:
        pr = {k: r[k] for k in KEEP}
        s = json.dumps(pr, sort_keys=True)
        if s not in back:
            back[s] = []
            proj.append(pr)
        back[s].append(r)
    ctx.cov["trace_lines"] = len(proj)
    # binding self-test inside the same run: a correctly detected line, altered to "used, logically different"
    src = [x for x in proj if x["place"] == "data" and x["detected"] and x["when"] == "before-open" and x["filecls"] == "db"]
    if not src:
        raise vlib.Undecided("nothing to corrupt for the binding self-test")
    stl = dict(src[0], detected=False, used=True, altered="logical")
    path = os.path.join(ctx.scratch, "corrupt.proj.ndjson")
    vlib.write_nd(path, proj + [stl])
    r = vlib.tlc_trace(ctx, "TraceCorrupt", "TraceCorrupt.cfg", path, timeout=ctx.pick(600, 1800))
    bad = sorted({int(m) - 1 for m in re.findall(r'@@BAD", (\d+)', r["out"])})
    dev = sorted({int(m) - 1 for m in re.findall(r'@@DEV", (\d+)', r["out"])})
    hw = r["hw"] if r["hw"] is not None else len(proj) + 1
    if hw < len(proj) + 1:
        raise vlib.Undecided("TraceCorrupt consumed only %d of %d lines:\n%s" % (hw, len(proj) + 1, r["out"][-2500:]))
    if len(proj) not in bad:
        raise vlib.Undecided("binding self-test failed: TraceCorrupt did not flag the corrupted line")
    ctx.cov.setdefault("binding_selftests", []).append({"module": "TraceCorrupt", "rejected_corrupted_trace": True})
    bad = [i for i in bad if i < len(proj)]
    byk = {}
    for i in bad:
        byk.setdefault(line_key(proj[i]), []).append(proj[i])
    for key, bads in sorted(byk.items()):
        full = [x for bp in bads for x in back[json.dumps(bp, sort_keys=True)]]
        b0 = bads[0]
        what = ("%s corruption of %s (%s) %s, consumer %s: %s, %s; e.g. store %s %s"
                % (b0["place"], b0["filecls"], b0["kind"], b0["when"], b0["consumer"],
                   "integrity error raised" if b0["detected"] else "no integrity error",
                   ("restored/installed data altered: " + b0["altered"]) if b0["used"] else "nothing used",
                   full[0]["template"], json.dumps(full[0]["exs"][:1])[:300]))
        ctx.violation(key, what, {"line": b0, "runs": sum(x["n"] for x in full),
                                  "examples": [{"template": x["template"], "mode": x["mode"], "file": x["file"], "exs": x["exs"][:4], "stages": x["stages"]} for x in full[:8]]})
    # deviations from the design that did not let altered data through
    devs = {}
    for i in dev:
        x = proj[i]
        k = "%s/%s/%s/%s:%s" % (x["filecls"], x["place"], x["when"], x["consumer"], "detected" if x["detected"] else "not-detected")
        devs[k] = devs.get(k, 0) + sum(y["n"] for y in back[json.dumps(x, sort_keys=True)])
    ctx.cov["deviations_from_design_without_altered_use"] = devs
    ctx.add("traces_validated_against_impl", st["runs"])
    ctx.add("trace_events", len(proj))
    for r in rows[:2] + [x for x in rows if x["mode"] == "child"][:2] + [x for x in rows if x["mode"] == "node"][:2]:
        ctx.sample({k: r[k] for k in ("template", "mode", "file", "place", "when", "consumer", "kind", "detected", "used", "altered", "n")})
    ctx.cov["exhaustive"] = bool(ctx.thorough)
    ctx.assumptions += [
        "'after its first verification' = after Store.EnsureVerify returned nil on this Store instance; a restart is a new instance (= present at start)",
        "start-restore is exercised twice: on the snapshot store alone (NewStore, EnsureVerify, Open, Restore - the calls store.Open makes) and on a real "
        "store.Store restarted in a child process with the clean-snapshot marker removed",
        "a sidecar byte change that still decodes to the same checksum (JSON key case, hex digit case) is not a corruption of the checksum record: "
        "such runs must behave like the uncorrupted store",
        "altered = the restored / installed database differs from what the uncorrupted store yields (bytes; 'bytes-only' when the logical dump is equal)",
        "an interrupted reap (REAP_PLAN present at start) is resumed without verification by design and is not part of this check (C07 covers the plan)",
    ]
