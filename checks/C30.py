"""C30 Values round-trip through the HTTP API without loss.
(A) Values.tla: the value pipeline as a staged decision table — JSON input class (int64 incl.
    min/max and |v|>2^53, float fractional/integral/exponent/huge, bool, null, plain / escaped /
    non-ASCII / NUL / hex-looking / numeric-looking text, x'..' hex literal, byte array) x
    (positional | named parameter | SQL literal) x destination (untyped, INTEGER, REAL, TEXT, BLOB,
    NUMERIC column, or no column) x read-back (column | expression) x response form (array |
    associative) x blob_array; actions ParseParameter/SqlLiteral, Bind, Store (SQLite affinity
    rules), ReadBack (row normalisation), Encode.  TLC checks on all 3 900 paths that the staged
    pipeline gives the declarative outcome (TypeFaithful, StoredAsSQLite, ValueExact, OutFaithful,
    FormBlind); one negative control per mechanism (Int64Exact, HexLiteralToBlob, ByteArrayToBlob,
    BlobStaysBlob, TextStaysText).
(B) every path is concretised with several seeded values per class (boundary representatives +
    random), rendered as JSON *text* and sent through the REAL pipeline on two layers — db
    (http.ParseRequest -> db.Execute/Query/Request -> encoding.Encoder) and http (single-node
    store behind proxy + http.Service over loopback: /db/execute, /db/query, /db/request,
    ?associative, ?blob_array).  SQLite is observed without rqlite (typeof(), value,
    hex(CAST(..))) and compared with an oracle database into which the intended native value was
    bound directly; every row is read back in all forms, single- and multi-row, decoded with
    json.Number and compared exactly with what is stored."""
import concurrent.futures, json, os, vlib
LEVEL = "model_checking"
TECHNIQUE = "TLA+ decision-table spec, TLC exhaustive over all paths; every path replayed with seeded values through the real parser, db/store, HTTP service and JSON encoder"
SWITCHES = (("Int64Exact", "ValueExact"), ("HexLiteralToBlob", "TypeFaithful"), ("ByteArrayToBlob", "TypeFaithful"),
            ("BlobStaysBlob", "OutFaithful"), ("TextStaysText", "TypeFaithful"))


def run(ctx):
    # (A) design + negative controls + generator: the JVM start dominates, so they run side by side, and
    # (B) the replay starts as soon as the generator has delivered the paths
    k = ctx.pick(8, 150)
    decls = ctx.pick(1, 3)
    inp = os.path.join(ctx.scratch, "values.ndjson")
    out = os.path.join(ctx.scratch, "values.mismatch.ndjson")
    ctx.harness()
    with concurrent.futures.ThreadPoolExecutor(max_workers=4) as ex:
        f_gen = ex.submit(vlib.tlc_cases, ctx, "Values", "Values_gen.cfg", heap="2g")
        f_mc = ex.submit(vlib.tlc_mc, ctx, "Values", "Values_mc.cfg", workers=2, heap="2g")
        f_neg = [ex.submit(vlib.tlc_neg, ctx, "Values", "Values_neg_%s.cfg" % sw, expect=inv, workers=1, heap="1g")
                 for sw, inv in SWITCHES]
        cases, _ = f_gen.result()
        if not cases:
            raise vlib.Undecided("generator produced no paths")
        vlib.write_nd(inp, cases)
        p = ctx.run_harness(["values-replay", "-in", inp, "-out", out, "-k", str(k), "-decls", str(decls), "-layers", "db,http"], timeout=2400)
        mc = f_mc.result()
        for f in f_neg:
            f.result()
    npaths = mc["actions"].get("Init", 0)
    if len(cases) != npaths:
        raise vlib.Undecided("generator emitted %d paths, the model has %d" % (len(cases), npaths))
    st = json.loads(p.stdout.strip().splitlines()[-1])
    ctx.cov["driver"] = {x: st[x] for x in st if x not in ("samples",)}
    if st["spec_vs_sqlite"]:
        raise vlib.Undecided("Values.tla disagrees with SQLite itself (spec defect, not a code verdict): %s" % st["spec_vs_sqlite"][:5])
    if st["selftest_tried"] == 0 or st["selftest_caught"] != st["selftest_tried"]:
        raise vlib.Undecided("binding self-test: %d of %d perturbed expectations detected" % (st["selftest_caught"], st["selftest_tried"]))
    if st["evaluations"] == 0 or st["bind_checks"] == 0:
        raise vlib.Undecided("replay evaluated nothing")
    ctx.cov.setdefault("binding_selftests", []).append({"replayer": "values-replay", "perturbed_expectations_detected": st["selftest_caught"]})
    ctx.add("evaluations", st["evaluations"] + st["bind_checks"])
    ctx.add("distinct_nontrivial", st["distinct_tokens"])
    ctx.add("traces_validated_against_impl", st["rows_written"])
    ctx.cov["rule"] = ("all %d paths of Values.tla x %d seeded values per input class x {db, http} layers x {execute/query, unified} endpoints; "
                       "distinct = distinct (class, JSON token) inputs" % (len(cases), k))
    for s in st["samples"]:
        ctx.sample(s, limit=8)
    for m in vlib.read_nd(out):
        ctx.violation(m["key"], m["what"], m)
    ctx.cov["exhaustive"] = True   # over the table; values per class are sampled (DESIGN §8)
    ctx.assumptions += ["SQLite observed through a plain database/sql connection of the same go-sqlite3 driver; text/blob/integer are taken from hex(CAST(x AS BLOB)) so driver conversions cannot hide a difference",
                        "oracle = the intended native value bound directly with database/sql; a disagreement between Values.tla and the oracle is reported as undecided, never as a violation",
                        "columns declared with date/time or boolean types are not generated (excluded by the property); reals are compared bit-exactly except the sign of zero",
                        "values per class are sampled (boundary representatives + seeded random), not exhaustive"]
