"""C01 Replicas converge: the same committed log gives the same database on every node.
(A) Replica.tla: a committed log of abstract requests [endpoint, transaction flag, statements]; a
    statement is DDL, a write from the write templates of Rewrite.tla with up to TWO call sites of
    that spec's site space (function, time-value form incl. a fixed value and a column, modifiers,
    case, gap before the parenthesis, expression nesting, clause context -- minus what the property
    excludes) in one clause or in two clauses, in either order, a failing statement or a query;
    parameterised or not.  Submit rewrites at the HTTP layer (design of Rewrite.tla: EVERY
    must-rewrite call is replaced whatever the other calls of the statement are; transcribed and, in
    the thorough tier, checked equal to Rewrite.tla over the whole one-site space and over pairs of
    sites by ReplicaRewriteEq.tla) and appends; ApplyLive / SnapshotAt(i) / RestartReplay / Install(i) /
    Recover / AdvanceClock build one abstract database per apply path (live, follower, restart,
    install, recover) in which a statement's effect is a function of its replicated text iff no
    must-rewrite call survives, and otherwise records who applied it and when.  TLC checks Converge
    (paths that consumed the same prefix have equal databases), LogDeterministic and RewrittenIffMust
    exhaustively over a small request alphabet; one negative control per switch (RewriteAllSites,
    RewriteOnEndpoint[execute|queued|request], SingleApplyPath, SiteIndependent) must violate Converge.
(B) TLC -simulate on the same spec emits programs (6 requests, 1..3 statements each, random sites,
    two of five statements with a second site) with their path schedules (snapshot points, where the
    late joiner comes in, where the follower lags); ReplicaPairs.tla (same actions, fixed schedule)
    enumerates programs of two-site statements covering EVERY ordered pair of the ten site kinds
    (random, randomblob, time function at 'now' / without time value / on a fixed value / on a
    column, strftime at 'now' / fixed, timediff with / without 'now') in two clauses and in one
    clause, the other dimensions drawn by a hash of the seed.  Every program is sent through the REAL HTTP front end of the leader of an in-process
    cluster (/db/execute, /db/execute?queue&wait, /db/request, with and without ?transaction,
    positional / named parameters) and the database of every apply path built from the SAME raft log
    is compared with the live node's: two read-only replicas applying live (one lagging / catching
    up), a node joined late in a child process (snapshot install + trailing logs), the leader
    restarted alone in child processes with and without the clean-snapshot fingerprint (log replay /
    full restore + replay), peers.json recovery of a node with snapshots and of one without (whole
    log) -- every child with SQLite's clock shifted by hundreds of days (LD_PRELOAD shim).  Oracle:
    logical dump (schema, rows with storage classes, AUTOINCREMENT counters) per program.  A
    divergence is keyed by the call that survived unrewritten in the replicated text (taken from the
    cp.decoded hook of the leader), narrowed by the statement tags in the differing rows, and by the
    path pair.  A few hand-written programs probe forms outside Rewrite.tla's site space.
(C) cp.decoded / fsm.apply / recover.apply events of every node and path: the same index carries the
    same entry everywhere.
    Self-test (every run): a program sent with ?norwrandom&norwtime (excluded by the property) MUST be
    reported as diverging on the follower / install / restart / recover paths."""
import collections, concurrent.futures, json, os, random, re, shutil, subprocess, vlib
LEVEL = "model_checking"
TECHNIQUE = ("TLA+ spec of apply paths over a grammar of SQL programs, TLC exhaustive with negative controls; TLC -simulate programs + "
             "schedules replayed through the real HTTP layer; live / follower / late joiner / restart / peers.json recovery databases built "
             "from the same raft log (children under a clock shim) compared by logical dump")

NEG = collections.OrderedDict([
    ("RewriteAllSites", "Replica_neg_RewriteAllSites.cfg"),
    ("RewriteOnEndpoint[execute]", "Replica_neg_RewriteOnEndpoint_Execute.cfg"),
    ("RewriteOnEndpoint[queued]", "Replica_neg_RewriteOnEndpoint_Queued.cfg"),
    ("RewriteOnEndpoint[request]", "Replica_neg_RewriteOnEndpoint_Request.cfg"),
    ("SingleApplyPath", "Replica_neg_SingleApplyPath.cfg"),
    ("SiteIndependent", "Replica_neg_SiteIndependent.cfg")])
# the site kinds whose ordered pairs the quick tier must have replayed (timediff pairs are generated as well)
KINDS8 = ["random", "randomblob", "time-now", "time-omitted", "time-fixed", "time-column", "strftime-now", "strftime-fixed"]


def pairs_cfg(ctx, variants):
    """ReplicaPairs_gen.cfg with this run's seed and number of variants per first kind."""
    src = open(os.path.join(vlib.SPECS, "ReplicaPairs_gen.cfg")).read().splitlines()
    out = []
    for l in src:
        if l.strip().startswith("Seed ="):
            l = "  Seed = %d" % (ctx.seed % 1000000)
        elif l.strip().startswith("Variants ="):
            l = "  Variants = %d" % variants
        out.append(l)
    p = os.path.join(ctx.scratch, "ReplicaPairs_run.cfg")
    open(p, "w").write("\n".join(out) + "\n")
    return p


def build_shim(ctx):
    src = os.path.join(vlib.ROOT, "harness", "timeshim", "shim.c")
    out = os.path.join(ctx.scratch, "timeshim.so")
    cc = shutil.which("clang") or shutil.which("gcc") or shutil.which("cc")
    if not cc:
        raise vlib.Undecided("no C compiler for the clock shim")
    p = subprocess.run([cc, "-shared", "-fPIC", "-O1", "-o", out, src, "-ldl"], capture_output=True, text=True)
    if p.returncode != 0:
        raise vlib.Undecided("clock shim does not build:\n" + p.stderr[-2000:])
    return out


def raw(sql, cls, must, args=None):
    s = {"k": "raw", "raw": sql, "class": cls, "must": must, "design": must}
    if args is not None:
        s["args"] = args
    return s


def sched(n, snap_after=None, install=False):
    out = []
    for i in range(1, n + 1):
        out.append({"a": "submit", "p": "-", "i": i})
        out.append({"a": "apply", "p": "live", "i": i})
        out.append({"a": "apply", "p": "follower", "i": i})
        if snap_after == i:
            out.append({"a": "snap", "p": "live", "i": i})
            if install:
                out.append({"a": "install", "p": "install", "i": i})
    return out


def selftest_group():
    prog = [
        {"ep": "execute", "tx": False, "stmts": [raw("INSERT INTO {T}t(a, b) VALUES('plain', {tag})", "plain-insert", False)]},
        {"ep": "execute", "tx": False, "stmts": [raw("INSERT INTO {T}t(a, b) VALUES(random(), {tag})", "selftest:random", True)]},
        {"ep": "queued", "tx": False, "stmts": [raw("INSERT INTO {T}t(a, b) VALUES(datetime('now'), {tag})", "selftest:datetime", True)]},
        {"ep": "request", "tx": True, "stmts": [raw("UPDATE {T}t SET a = julianday('now'), b = {tag} WHERE id = 2", "selftest:julianday", True)]},
    ]
    return {"id": "selftest", "norw": True, "snap_half": False, "cases": [{"id": "selftest", "prog": prog, "sched": sched(4, 1, True)}]}


def ext_group():
    """Hand-written programs with forms that are outside Rewrite.tla's site space but inside the property's wording."""
    def one(cid, reqs, snap_after=None):
        return {"id": cid, "prog": reqs, "sched": sched(len(reqs), snap_after, True)}
    ex = lambda *st: {"ep": "execute", "tx": False, "stmts": list(st)}
    ins = lambda: raw("INSERT INTO {T}t(a, b) VALUES('plain', {tag})", "plain-insert", False)
    cases = [
        # connection state: a TEMP table and last_insert_rowid() live in the connection of the node that applied the
        # earlier entries live -- not in snapshots, not in a node that restarts, recovers or joins
        one("ext-temp-table", [ex(raw("CREATE TEMP TABLE {T}tmp(x)", "ext:connection-state:temp-table-create", False),
                                  raw("INSERT INTO {T}tmp(x) VALUES(7)", "ext:connection-state:temp-table-fill", False)),
                               ex(raw("INSERT INTO {T}t(a, b) SELECT x, {tag} FROM {T}tmp", "ext:connection-state:temp-table", False))], snap_after=1),
        one("ext-last-insert-rowid", [ex(raw("INSERT INTO {T}t(id, a, b) VALUES(40, 'forty', {tag})", "plain-insert", False)),
                                      ex(raw("INSERT INTO {T}t(a, b) VALUES(last_insert_rowid(), {tag})", "ext:connection-state:last-insert-rowid", False))], snap_after=1),
        # 'now' handed to a date/time function as a bound parameter
        one("ext-now-parameter", [ex(raw("INSERT INTO {T}t(a, b) VALUES(datetime(?), {tag})", "ext:now-as-parameter:fn=datetime", True, ["now"])),
                                  {"ep": "request", "tx": False, "stmts": [raw("UPDATE {T}t SET a = julianday(:w), b = {tag} WHERE id = 2", "ext:now-as-parameter:fn=julianday", True, [{"w": "now"}])]}]),
        # a call in the second command of one statement text
        one("ext-second-command", [ex(raw("INSERT INTO {T}t(a, b) VALUES('first', {tag}); INSERT INTO {T}t(a, b) VALUES(random(), {tag})",
                                          "ext:second-command-of-text:fn=random", True))]),
        # function name written as a quoted identifier
        one("ext-quoted-name", [ex(raw('INSERT INTO {T}t(a, b) VALUES("random"(), {tag})', "ext:quoted-function-name:fn=random", True)),
                                {"ep": "queued", "tx": False, "stmts": [raw("INSERT INTO {T}t(a, b) VALUES(`datetime` ('now'), {tag})", "ext:quoted-function-name:fn=datetime", True)]}]),
        one("ext-bracket-name", [ex(raw("INSERT INTO {T}t(a, b) VALUES([julianday]('now'), {tag})", "ext:bracket-quoted-name:fn=julianday", True))]),
        # calls inside the body of a trigger / a view (pinned when the trigger / view is created)
        one("ext-trigger-body", [ex(raw("CREATE TRIGGER {T}trx AFTER INSERT ON {T}t BEGIN INSERT INTO {T}log(rid, what) VALUES(NEW.id, random()); END",
                                        "ext:trigger-body:fn=random", True)), ex(ins())]),
        one("ext-view-body", [ex(raw("CREATE VIEW {T}vn AS SELECT julianday('now') AS j", "ext:view-body:fn=julianday", True)),
                              ex(raw("INSERT INTO {T}t(a, b) SELECT j, {tag} FROM {T}vn", "ext:view-body:use", False))]),
    ]
    # the nodes of this group enforce foreign keys (-fk): does every apply path?
    cases.append(one("ext-foreign-keys", [
        ex(raw("CREATE TABLE {T}p(id INTEGER PRIMARY KEY)", "ext:fk:schema", False),
           raw("CREATE TABLE {T}c(id INTEGER PRIMARY KEY, pid REFERENCES {T}p(id) ON DELETE CASCADE, tag)", "ext:fk:schema", False),
           raw("INSERT INTO {T}p(id) VALUES(1), (2)", "ext:fk:parents", False),
           raw("INSERT INTO {T}c(pid, tag) VALUES(1, {tag}), (2, {tag})", "ext:fk:children", False)),
        ex(raw("INSERT INTO {T}c(pid, tag) VALUES(99, {tag})", "ext:fk:insert-without-parent", False)),
        ex(raw("DELETE FROM {T}p WHERE id = 1", "ext:fk:delete-cascade", False))]))
    return {"id": "ext", "norw": False, "snap_half": False, "fk": True, "cases": cases}


def run(ctx):
    nprog = ctx.pick(40, 1000)
    per_group = 10
    gen_runs = ctx.pick(1, 4)
    ctx.harness()      # build once, before the threads
    shim = build_shim(ctx)
    with concurrent.futures.ThreadPoolExecutor(max_workers=ctx.pick(4, 6)) as ex:     # generator first: the replay waits for it
        per_run = -(-nprog // gen_runs)
        f_gen = [ex.submit(vlib.tlc_cases, ctx, "Replica", "Replica_gen.cfg", simulate="num=%d" % (per_run + 4), depth=100,
                           seed=ctx.seed * 100 + i, timeout=2400, heap="2g") for i in range(gen_runs)]
        variants = ctx.pick(2, 12)
        f_pairs = ex.submit(vlib.tlc_cases, ctx, "ReplicaPairs", "ReplicaPairs_run.cfg", files={pairs_cfg(ctx, variants): "ReplicaPairs_run.cfg"},
                            timeout=2400, heap="2g")
        f_mc = ex.submit(vlib.tlc_mc, ctx, "Replica", "Replica_mc_full.cfg" if ctx.thorough else "Replica_mc.cfg",
                         workers=4, timeout=3000, heap="4g")
        f_eq = ex.submit(vlib.tlc, ctx, "ReplicaRewriteEq", "ReplicaRewriteEq.cfg", workers=1, coverage=False, timeout=2400, heap="4g") if ctx.thorough else None
        f_neg = [ex.submit(vlib.tlc_neg, ctx, "Replica", cfg, expect="Converge", workers=1, heap="2g", timeout=1800) for cfg in NEG.values()]

        cases, seen = [], set()
        for f in f_gen:
            cs, r = f.result()
            for c in cs:
                if "prog" not in c:
                    continue
                k = json.dumps(c, sort_keys=True)
                if k not in seen:
                    seen.add(k)
                    cases.append(c)
        cases = cases[:nprog]
        if len(cases) < min(nprog, 20):
            raise vlib.Undecided("the generator produced only %d complete behaviours" % len(cases))
        for i, c in enumerate(cases):
            c["id"] = "p%d" % i
        pcases, rp = f_pairs.result()
        pcases = [c for c in pcases if "prog" in c]
        if len(pcases) != 10 * variants:
            raise vlib.Undecided("ReplicaPairs produced %d programs, expected %d" % (len(pcases), 10 * variants))
        # TLC prints them in the order the breadth-first search completes them: order by content, then shuffle by seed
        pcases.sort(key=lambda c: json.dumps(c, sort_keys=True))
        random.Random(ctx.seed).shuffle(pcases)
        for i, c in enumerate(pcases):
            c["id"] = "q%d" % i
        ctx.add("states", rp["distinct"])
        ctx.add("transitions", rp["generated"])
        ctx.cov.setdefault("tlc_models", []).append({"module": "ReplicaPairs", "cfg": "ReplicaPairs_gen.cfg (Seed=%d, Variants=%d)" % (ctx.seed, variants),
                                                     "distinct": rp["distinct"], "generated": rp["generated"], "depth": rp["depth"], "wall_s": rp["wall_s"]})
        groups = [selftest_group(), ext_group()]
        for gi in range(0, len(pcases), per_group):
            groups.append({"id": "gq%d" % (gi // per_group), "cases": pcases[gi:gi + per_group], "norw": False, "snap_half": True})
        for gi in range(0, len(cases), per_group):
            groups.append({"id": "g%d" % (gi // per_group), "cases": cases[gi:gi + per_group], "norw": False, "snap_half": True})
        inp = os.path.join(ctx.scratch, "groups.ndjson")
        out = os.path.join(ctx.scratch, "results.ndjson")
        vlib.write_nd(inp, groups)
        must = ctx.pick(len(groups), 2 + len(pcases) // per_group + 30)
        p = ctx.run_harness(["replica-replay", "-in", inp, "-out", out, "-dir", ctx.sub("replay"), "-shim", shim, "-par", str(ctx.pick(6, 4)),
                             "-must", str(must), "-budget", ctx.pick("150s", "900s")], timeout=ctx.pick(1500, 4000))
        st = json.loads(p.stdout.strip().splitlines()[-1])
        results = vlib.read_nd(out)

        f_mc.result()
        if f_eq:
            r = f_eq.result()
            if not r["ok"]:
                raise vlib.Undecided("Replica.tla's transcription of the rewriter design differs from Rewrite.tla:\n" + r["out"][-3000:])
            m = re.search(r'<<"ReplicaRewriteEq", (\d+), (\d+), (\d+), (\d+)>>', r["out"])
            if not m:
                raise vlib.Undecided("ReplicaRewriteEq did not print its sizes:\n" + r["out"][-2000:])
            ctx.cov["rewrite_spec_equivalence"] = ("ReplicaRewriteEq: MustRewrite / Excluded / NonDet / Replaced equal to Rewrite.tla on %s slots x %s sites, and "
                                                   "per-site Replaced / Must of two-site statements on %s slot pairs x %s^2 ordered pairs of representative sites, both switch values"
                                                   % m.groups())
        for f in f_neg:
            f.result()

    bad = [r for r in results if r.get("err")]
    if bad and (len(bad) > max(1, len(results) // 10) or any(r["group"] in ("selftest", "") for r in bad)):
        raise vlib.Undecided("%d of %d groups could not be run, e.g. %s" % (len(bad), len(results), bad[0]["err"][:1500]))
    good = [r for r in results if not r.get("err")]
    byid = {r["group"]: r for r in good}

    # ---- binding self-test: with rewriting disabled by the client every apply path must be seen to diverge
    stg = byid.get("selftest")
    if not stg:
        raise vlib.Undecided("the self-test group did not run")
    seen_st = collections.defaultdict(set)
    for d in stg["divergences"]:
        for cls in ("selftest:random", "selftest:datetime", "selftest:julianday"):
            if (":%s:" % cls) in d["key"]:
                seen_st[cls].add(d["path_class"])
    need = {"selftest:random": {"follower", "install", "restart", "recover"}, "selftest:datetime": {"install", "restart", "recover"},
            "selftest:julianday": {"install", "restart", "recover"}}
    missing = {c: sorted(v - seen_st[c]) for c, v in need.items() if v - seen_st[c] and not stg.get("skipped_paths")}
    if missing:
        raise vlib.Undecided("self-test: unrewritten calls were not reported as diverging on %s (skipped: %s)" % (missing, stg.get("skipped_paths")))
    ctx.cov["binding_selftests"] = [{"what": "program sent with ?norwrandom&norwtime: every unrewritten call reported on every shifted path",
                                     "reported": {k: sorted(v) for k, v in seen_st.items()}}]

    # ---- verdicts
    tot = collections.Counter()
    kind_pairs = collections.Counter()
    skipped, retried = [], []
    viol = {}     # key -> first divergence
    nkeys = collections.Counter()
    for r in good:
        if r["group"] == "selftest":
            continue
        for k in ("comparisons", "requests", "statements", "must_sites", "two_site_statements", "rewritten", "snapshots", "installs", "entries_compared"):
            tot[k] += r.get(k) or 0
        kind_pairs.update(r.get("kind_pairs") or {})
        tot["programs"] += len(r["programs"])
        tot["programs_with_surviving_call"] += sum(1 for pr in r["programs"] if pr.get("survivors"))
        tot["unexpected_statement_errors"] += sum(pr.get("unexpected_errors") or 0 for pr in r["programs"])
        tot["paths_built"] += len(r.get("paths") or [])
        skipped += ["%s %s" % (r["group"], s[:300]) for s in (r.get("skipped_paths") or [])]
        retried += ["%s %s" % (r["group"], s) for s in (r.get("recover_open_retries") or [])]
        for d in r.get("divergences") or []:
            nkeys[d["key"]] += 1
            viol.setdefault(d["key"], d)
        for m in r.get("entry_mismatches") or []:
            viol.setdefault("replica:entry-mismatch", {"key": "replica:entry-mismatch", "sample": [m], "group": r["group"], "case": "", "path": "", "prog": None})
        for pr in r["programs"]:
            if pr.get("http_errors"):
                ctx.cov.setdefault("refused_or_failed_statements", [])
                if len(ctx.cov["refused_or_failed_statements"]) < 8:
                    ctx.cov["refused_or_failed_statements"].append({"case": pr["id"], "errors": pr["http_errors"][:3]})
    if len(skipped) > max(2, tot["paths_built"] // 20):
        raise vlib.Undecided("%d apply paths could not be built, e.g. %s" % (len(skipped), skipped[:3]))

    # every ordered pair of site kinds must have been sent (and its databases compared), in two clauses and in one
    missing = ["%s+%s:%s" % (a, b, cl) for a in KINDS8 for b in KINDS8 for cl in ("same", "other") if not kind_pairs.get("%s+%s:%s" % (a, b, cl))]
    if missing:
        raise vlib.Undecided("ordered pairs of site kinds that were not replayed: %s" % missing[:8])
    ctx.cov["two_site_statements"] = {"statements": tot["two_site_statements"], "ordered_kind_pairs_x_clause": len(kind_pairs),
                                      "least_covered": sorted(kind_pairs.items(), key=lambda kv: kv[1])[:3]}

    # a divergence that is not a recorded finding is re-run from scratch, alone, before it is reported
    new = {k: d for k, d in viol.items() if not vlib.match_known(ctx.pid, k)}
    if new:
        regroups, order = [], []
        origin = {c["id"]: (c, g) for g in groups for c in g["cases"]}
        for k, d in list(new.items())[:12]:
            if d.get("case") not in origin:
                continue
            c, g = origin[d["case"]]
            order.append(k)
            regroups.append({"id": "confirm%d" % len(regroups), "cases": [dict(c, id="confirm")], "norw": g["norw"], "fk": g.get("fk", False), "snap_half": False})
        if regroups:
            inp2, out2 = os.path.join(ctx.scratch, "confirm.ndjson"), os.path.join(ctx.scratch, "confirm.out.ndjson")
            vlib.write_nd(inp2, regroups)
            ctx.run_harness(["replica-replay", "-in", inp2, "-out", out2, "-dir", ctx.sub("confirm"), "-shim", shim, "-par", "4"], timeout=1500)
            again = {r["group"]: r for r in vlib.read_nd(out2)}
            for i, k in enumerate(order):
                r = again.get("confirm%d" % i) or {}
                keys2 = {d["key"] for d in (r.get("divergences") or [])}
                cls = lambda key: key.rsplit(":paths=", 1)[0]
                if r.get("err") or not any(cls(k2) == cls(k) for k2 in keys2):
                    raise vlib.Undecided("divergence %s of program %s did not reproduce when the program was run alone (%s)"
                                         % (k, new[k].get("case"), r.get("err") or sorted(keys2)))
            ctx.cov["violations_reproduced_alone"] = len(order)
    for k, d in viol.items():
        ctx.violation(k, "databases differ between the live node and path %s for program %s: %s" % (d.get("path"), d.get("case"), "; ".join((d.get("sample") or [])[:2])),
                      {"key": k, "path": d.get("path"), "objects": d.get("objects"), "sample": d.get("sample"), "blamed_statements": d.get("blamed"),
                       "requests": d.get("program"), "replicated": d.get("replicated"), "program": d.get("prog"), "occurrences": nkeys[k]})

    ctx.cov["driver"] = dict(tot, groups=len(good), groups_failed=len(bad), replay_wall_s=st.get("wall_s"), skipped_paths=skipped[:10])
    ctx.cov["divergence_keys"] = dict(nkeys)
    if retried:
        # not what C01 judges (the node's database after the second start is compared like any other): the first open after
        # RecoverNode can fail with "failed to load any existing snapshots" (fsmRestore lists the snapshot store while the reaper holds its lock)
        ctx.cov["recovery_first_open_failed_then_restarted"] = {"count": len(retried), "examples": retried[:3]}
    ctx.add("traces_validated_against_impl", tot["comparisons"])
    ctx.add("evaluations", tot["statements"])
    ctx.add("distinct_nontrivial", tot["rewritten"])
    ctx.cov["rule"] = ("programs = complete behaviours of Replica.tla from TLC -simulate (seeded), plus hand-written extension programs; evaluations = "
                       "statements sent through the HTTP layer; non-trivial = statements whose replicated text differs from the submitted text "
                       "(rewritten); traces_validated = (program, apply path) pairs whose databases were compared with the live node's")
    for r in good:
        if r["group"].startswith("g"):
            for pr in r["programs"][:2]:
                ctx.sample({"program": pr["id"], "requests": pr["requests"], "paths": r["paths"], "path_notes": r.get("path_notes")}, limit=3)
    ctx.assumptions += [
        "SQLite's clock in the child processes is moved with an LD_PRELOAD shim over gettimeofday/clock_gettime/time (harness/timeshim); the offset is read back from SQLite in every child",
        "several programs share one cluster and one raft log, each on its own tables (prefix k<i>_): statements of one program never read another program's tables",
        "the leader is the only voter (two read-only replicas), so that it can be restarted alone and replay its whole log",
        "user snapshots are honoured in the first half of a group only, so that the later programs are replayed (not restored) by the restart paths",
        "a statement is counted as rewritten iff its replicated text (cp.decoded hook) differs from the submitted text; per-site fidelity of the rewrite is C14's subject",
        "divergences caused by the client disabling the rewrite, db_timeout, CURRENT_*, DEFAULT expressions, RANDOM() in ORDER BY and 'localtime' are excluded by the property and not generated"]
