"""C25 CDC delivers every committed change at least once with its log index.
(A) CDC.tla: per node applied / in-channel / batcher / FIFO (key -> groups) / highest key / cursor /
    taken / hwm / snapshot index, cluster leader set, endpoint, delivered set; actions shaped like the
    code (Apply, Ingest with the hwm filter, Flush keyed by the highest label and dropped at or below the
    highest key ever, leadership signals queued for the main loop (Signal, MainHandle), the leader loop as a process of its own
    (LoopExit = stop check, TakeParked, Take, SendOK), Broadcast, LeaderPrune, FollowerRecv, SnapshotSync,
    Restart, endpoint down/up).  Invariants Labelled, NoSkip (the high-water mark never passes an
    undelivered change), TenureOrder, structural ones; liveness under fairness on small configurations.
    Eleven mechanism switches, each with a negative control TLC must refute (plus a liveness one).
(C) N real cdc.Service instances (real batcher, bbolt FIFO, HTTP sink) over a scripted cdc.Cluster, fed
    by real databases through the real db.CDCStreamer hooks reset per log entry, a recording endpoint
    that can refuse: directed witnesses of every negative control and seeded random histories
    (single / multi-statement requests with and without transactions, explicit BEGIN..COMMIT, failing
    statements, filtered tables, leadership flips during retries, bursts of 1..20 back-to-back leadership signals in every state
    (leader loops held at a gate before their first stop check), outages, delayed HWM updates,
    snapshots, restarts).  Every hook event is consumed by TraceCDC.tla, which follows what the code did
    and evaluates Labelled / TenureOrder at every accepted payload, NoSkip at every hwm change,
    completeness at quiescence (with the reason a group left the pipeline), and the mechanism rules.
    Independently the harness resolves every accepted payload to (entry, commit, label) through unique
    row tokens and compares with the row changes of the committed log (reference database diff).
    One scenario runs on the shared live 3-node cluster with the real wiring (cdc-live)."""
import json, os, re, threading
from concurrent.futures import ThreadPoolExecutor
import vlib
LEVEL = "model_checking"
TECHNIQUE = "TLA+ spec of the CDC pipeline (FIFO / high-water mark / leadership / restart), TLC exhaustive + 11 negative controls + liveness; real services over a scripted cluster validated by a TLA+ trace spec and a payload oracle"

NEG = (("OneGroupPerEntry", "NoSkip"), ("LabelEveryGroup", "Labelled"), ("KeyByHighest", "NoSkip"),
       ("SyncFlushBeforeSnapshot", "NoSkip"), ("DrainInBeforeSync", "NoSkip"), ("HWMAfterSendOK", "NoSkip"),
       ("PruneToHWMOnly", "NoSkip"), ("RewindCursor", "NoSkip"), ("ParkedKeptUntilSent", "NoSkip"),
       ("RestartHWMBelowLowest", "NoSkip"),
       ("DropReapplied", "TenureOrder"))


ACTIONS = ("Apply", "Ingest", "Flush", "Take", "TakeParked", "SendOK", "Signal", "MainHandle", "LoopExit", "Broadcast", "LeaderPrune", "FollowerRecv",
           "SnapshotSync", "Restart", "EndpointDown", "EndpointUp")


def design(ctx):
    """exhaustive model checking, negative controls, liveness - several TLC processes side by side (<= 4 workers in all)"""
    lock = threading.Lock()
    add0 = ctx.add

    def add(key, n=1):
        with lock:
            add0(key, n)
    ctx.add = add
    jobs = []
    mc = [("CDC_mc.cfg", 2), ("CDC_mc_restart.cfg", 1), ("CDC_mc_chan.cfg", 1), ("CDC_mc_1n.cfg", 1)]
    if ctx.thorough:
        mc += [("CDC_mc_unl.cfg", 2), ("CDC_mc_full.cfg", 2), ("CDC_mc_async.cfg", 2), ("CDC_mc_restart2.cfg", 2), ("CDC_mc_4e.cfg", 2), ("CDC_mc_3n.cfg", 2)]
    with ThreadPoolExecutor(max_workers=ctx.pick(4, 2)) as ex:
        for cfg, w in mc:
            # a configuration leaves out some features (restart, separate in-channel, asynchronous HWM updates); vacuity is
            # judged over all configurations of the tier together, below
            jobs.append(ex.submit(vlib.tlc_mc, ctx, "CDC", cfg, workers=w, timeout=3000, heap="6g", vacuity_ok=ACTIONS))
        for sw, inv in NEG:
            jobs.append(ex.submit(vlib.tlc_neg, ctx, "CDC", "CDC_neg_%s.cfg" % sw, expect=inv, workers=1, heap="2g"))
        nlive = ex.submit(vlib.tlc, ctx, "CDC", "CDC_neg_live_RewindCursor.cfg", workers=1, coverage=False, heap="2g", expect_violation=True)
        live = [ex.submit(vlib.tlc, ctx, "CDC", c, workers=1, coverage=False, timeout=3000, heap="4g")
                for c in (["CDC_live1.cfg"] + (["CDC_live.cfg"] if ctx.thorough else []))]
        for j in jobs:
            j.result()
        r = nlive.result()
        if "Temporal property Live was violated" not in r["out"]:
            raise vlib.Undecided("negative control CDC_neg_live_RewindCursor.cfg: liveness not refuted\n%s" % r["out"][-2000:])
        ctx.cov.setdefault("negative_controls", []).append({"cfg": "CDC_neg_live_RewindCursor.cfg", "violated": "Live", "wall_s": r["wall_s"]})
        for j in live:
            r = j.result()
            if not r["ok"]:
                raise vlib.Undecided("liveness %s: %s\n%s" % (r["cfg"], r["violated"], r["out"][-3000:]))
            ctx.cov.setdefault("liveness", []).append({"cfg": r["cfg"], "distinct": r["distinct"], "wall_s": r["wall_s"]})
    ctx.add = add0
    taken = {}
    for m in ctx.cov.get("tlc_models", []):
        for a, c in m["actions"].items():
            taken[a] = taken.get(a, 0) + c
    dead = [a for a in ACTIONS if taken.get(a, 0) == 0]
    if dead:
        raise vlib.Undecided("vacuous actions in CDC over all exhaustive configurations: %s" % dead)


def run_of(rows, i):
    """(name of the run, rows of the run up to and including row i)"""
    lo = i
    while lo > 0 and rows[lo].get("ev") != "reset":
        lo -= 1
    return rows[lo].get("name", "?"), rows[lo:i + 1]


def make_key(rows):
    def key(bad, name):
        name = name or "rejected"
        i = bad.get("ln", 0) - 1
        _, ctxrows = run_of(rows, i) if 0 <= i < len(rows) else ("?", [])
        ev = bad.get("ev", "?")
        # TLC wraps long PrintT lines, so the spec's names are short; the keys spell them out
        name = name.replace(":later-commit", ":later-commit-of-entry")
        name = {"lost:batch-key-reused": "lost:batch-key-already-used-ignored-by-fifo",
                "lost:batch-key-reused:later-commit-of-entry": "lost:batch-key-already-used-ignored-by-fifo:later-commit-of-entry",
                "lost:batch-key-0": "lost:batch-key-0-ignored-by-fifo",
                "lost:batch-key-0:later-commit-of-entry": "lost:batch-key-0-ignored-by-fifo:later-commit-of-entry",
                "lost:unsent-batch-skipped": "lost:unsent-batch-skipped-after-leadership-change"}.get(name, name)
        if name == "label-index0-second-commit-of-entry":
            return "cdc:label:index0:second-commit-of-entry"
        if name == "label-not-the-entry-index":
            return "cdc:label:wrong-index"
        if name == "tenure-order-decreasing":
            labels = [g[2] for g in bad.get("groups", [])]
            if 0 in labels:
                return "cdc:order:index0-label-in-payload"
            if any(r.get("ev") == "c.restart" and r.get("node") == bad.get("from") for r in ctxrows):
                return "cdc:order:replayed-entry-behind-newer-ones-after-restart"
            return "cdc:order:decreasing-within-tenure"
        if name.startswith("hwm-passed-undelivered"):
            where = "at-restart" if ev == "cdc.open" else str(bad.get("role", "?"))
            return "cdc:%s:%s" % (name, where)
        # a batch parked by a stopped leader loop that is never sent: name the history class
        if name in ("unsent-batch-skipped-after-leadership-change", "lost:unsent-batch-skipped-after-leadership-change"):
            node = bad.get("inst") if ev == "cdc.take" else None
            flaps = [r for r in ctxrows if r.get("ev") == "c.flap" and r.get("parked") and (node is None or r.get("node") == node)]
            after = ":after=flap-burst-while-parked" if flaps else ""
            return "cdc:%s%s%s" % (name, ":at=cdc.take" if ev == "cdc.take" else "", after)
        if name.startswith("lost:"):
            return "cdc:" + name
        return "cdc:%s:at=%s" % (name, ev)
    return key


def run(ctx):
    tr = os.path.join(ctx.scratch, "cdc.ndjson")
    res = os.path.join(ctx.scratch, "cdc-results.json")
    ctx.harness()
    with ThreadPoolExecutor(max_workers=1) as hx:       # the driver runs while TLC checks the design
        fut = hx.submit(ctx.run_harness, ["cdc-trace", "-out", tr, "-results", res, "-runs", str(ctx.pick(14, 220)), "-dir", ctx.sub("cdc")], timeout=3000)
        design(ctx)
        p = fut.result()
    st = json.loads(p.stdout.strip().splitlines()[-1])
    ctx.cov["driver"] = st
    results = json.load(open(res))
    rows = vlib.read_nd(tr)
    if st.get("accepted", 0) < 20 or st.get("refused", 0) < 3 or st.get("kind:multi-notx", 0) < 1 or st.get("live", 0) < 1:
        raise vlib.Undecided("driver did not exercise the pipeline: %s" % st)

    # binding self-test on the first (fault-free, single-statement) run: accepted as is, rejected when one label is changed
    first_end = next(i for i, r in enumerate(rows) if i > 0 and r.get("ev") == "reset")
    clean = os.path.join(ctx.scratch, "cdc-clean.ndjson")
    vlib.write_nd(clean, rows[:first_end])

    def corrupt(rs):
        for r in rs:
            if r.get("ev") == "ep.rx" and r.get("ok") and r.get("groups"):
                r["groups"][0][2] += 1
                return rs
        raise vlib.Undecided("no accepted payload to corrupt")
    r0 = vlib.trace_check(ctx, "TraceCDC", "TraceCDC.cfg", clean, "cdc pipeline (fault-free run)", key_fn=make_key(rows), selftest=corrupt, timeout=900)
    if r0["accepted"]:
        # second self-test: an accepted payload the endpoint never saw (the line is removed)
        rs = [dict(x) for x in rows[:first_end]]
        k = next(i for i, r in enumerate(rs) if r.get("ev") == "ep.rx" and r.get("ok"))
        p2 = clean + ".removed"
        vlib.write_nd(p2, rs[:k] + rs[k + 1:])
        r2 = vlib.tlc_trace(ctx, "TraceCDC", "TraceCDC.cfg", p2, timeout=900)
        if r2["accepted"]:
            raise vlib.Undecided("binding self-test failed: TraceCDC accepted a trace with a delivery removed")
        ctx.cov.setdefault("binding_selftests", []).append({"module": "TraceCDC", "rejected_trace_with_removed_delivery": True})

    r = vlib.trace_check(ctx, "TraceCDC", "TraceCDC.cfg", tr, "cdc pipeline", key_fn=make_key(rows), timeout=ctx.pick(900, 3000), heap="12g")
    allbad = {(int(a), b) for a, b in re.findall(r'<<\s*"@@BAD",\s*(\d+),\s*"([^"]+)"\s*>>', r["out"])}
    if allbad != set(r["bads"]):
        raise vlib.Undecided("TLC wrapped a flag line the library did not parse: %s" % sorted(allbad - set(r["bads"]))[:5])
    flagged = {}
    for line, name in r["bads"]:
        nm, _ = run_of(rows, line - 1)
        flagged.setdefault(nm, set()).add(name)

    # the harness's own oracle: payloads accepted by the endpoint vs. the row changes of the committed log
    for sc in results:
        names = flagged.get(sc["name"], set())
        for b in sc.get("payload_bad") or []:
            ctx.violation("cdc:%s" % b["class"], "a payload accepted by the endpoint does not carry the row changes of one commit of the log",
                          {"scenario": sc["name"], "detail": b})
        if sc.get("lost") and not any(n.startswith("lost:") for n in names):
            raise vlib.Undecided("judges disagree in %s: payload oracle misses %s, trace spec reports no loss" % (sc["name"], sc["lost"]))
        if not sc.get("lost") and any(n.startswith("lost:") for n in names):
            raise vlib.Undecided("judges disagree in %s: trace spec reports a loss, payload oracle none" % sc["name"])
        if sc.get("mislabelled") and not any(n.startswith("label-") for n in names):
            raise vlib.Undecided("judges disagree in %s: payload oracle saw labels %s, trace spec none" % (sc["name"], sc["mislabelled"]))
    ctx.add("traces_validated_against_impl", len(results))
    ctx.cov["scenarios"] = [{"name": s["name"], "nodes": s["nodes"], "entries": s["entries"], "groups": s["groups"],
                             "accepted": s["accepted"], "refused": s["refused"], "lost": s["lost"], "mislabelled": s["mislabelled"],
                             "flags": sorted(flagged.get(s["name"], []))} for s in results][:40]
    ctx.sample([x for x in rows if x.get("ev") in ("cdcs.commit", "cdc.batch", "fifo.enq", "cdc.take", "ep.rx", "cdc.hwm")][:14])
    ctx.cov["exhaustive"] = False
    ctx.assumptions += [
        "the hand-off channel between the commit hook and the service never fills (excluded by the property); the harness fails if it does",
        "no finite retry limit is configured",
        "a restart is Service.Stop + NewService on the same directory: batcher and hand-off channel contents are lost, the bbolt FIFO survives (process kills inside bbolt transactions are C26)",
        "the scripted runs apply the log through the real database and streamer hooks with harness-assigned indexes; store.fsmApply's Reset(index) is exercised by the live-cluster scenario",
        "hook events of one goroutine are in program order; across goroutines only orders the code's own hand-offs imply are relied on (in-channel, batcher, FIFO manager, leader loop)",
    ]
