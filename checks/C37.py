"""C37 Automatic backups upload every change.
(A) Uploader.tla (database: write = SQLite commit then publication of dbAppliedIdx, non-changing log
    entries; uploader round: read index, skip | provide (copy taken at one instant), first-round
    CurrentID check, upload ok / fail / fail-after-store, record only on success; provide failure;
    restart of the uploader) exhaustive with small bounds: LabelCovered (the stored backup holds every
    change up to its label), FailedNotRecorded, NoMissedChange, NoUploadWithoutChange, QuiescentEqual,
    and liveness Converges under fairness; negative controls IndexBeforeProvide, SkipIfUnchanged,
    RecordOnlyOnSuccess, PublishAfterApply, IndexIsDBApplied, CheckCurrentID.
(C) the REAL backup.Uploader with the REAL store.Provider (all four vacuum x compress settings) on a
    real single-node store, an in-memory StorageClient double (fails, fails after storing, cannot tell
    its id, is slow) and the versioned-pages workload.  Scripted runs: the witnesses of the negative
    controls plus all / a sample of the step sequences over {write, non-changing entry, round ok /
    fail / fail-after-store / id-check-fails, round with a write between index read and provide /
    after provide / racing with provide, uploader restart}, rounds by manual ticks; concurrent runs:
    the uploader's own ticker loop against concurrent writers, random storage faults and restarts.
    Every uploaded object is restored (gunzip), integrity-checked and projected to the write index it
    holds; calls/returns of LastIndex / Provide / CurrentID / Upload, the hooks up.round / up.skip /
    up.skipid / up.ok / up.fail / up.provfail and the writes form one ordered trace validated by
    TraceUploader.tla (TLC infers the commit / index-load / copy instants between call and return;
    every invariant at every step), ending each run with quiescence + one healthy round and the
    comparison restored remote == live database."""
import hashlib, json, os, re, vlib
from concurrent.futures import ThreadPoolExecutor
LEVEL = "model_checking"
TECHNIQUE = "TLA+ spec of uploader rounds over a changing database, TLC exhaustive + trace validation of the real Uploader/Provider/store with fault-injecting storage"

NEGS = (("IndexBeforeProvide", "LabelCovered"), ("SkipIfUnchanged", "NoUploadWithoutChange"),
        ("RecordOnlyOnSuccess", "FailedNotRecorded"), ("RecordOnlyOnSuccess_missed", "NoMissedChange"),
        ("PublishAfterApply", "LabelCovered"), ("IndexIsDBApplied", "NoUploadWithoutChange"),
        ("CheckCurrentID", "NoUploadWithoutChange"))
INVCLASS = {"LabelCovered": "uploaded-stale:stored-object-lacks-a-change-up-to-its-label",
            "FailedNotRecorded": "recorded-without-successful-upload",
            "NoMissedChange": "missed-change:round-ended-without-upload-although-storage-lacks-changes",
            "NoUploadWithoutChange": "upload-without-change",
            "QuiescentEqual": "end-state:remote-behind-database"}
ENDS = {"up.skip": "skip", "up.skipid": "skip-by-id", "up.ok": "ok-upload", "up.fail": "failed-upload",
        "up.provfail": "failed-provide", "restart": "restart"}


def run_slice(rows, i):
    """rows of the run that contains line index i (from its reset line), and that reset line."""
    lo = i
    while lo > 0 and rows[lo].get("ev") != "reset":
        lo -= 1
    return lo


def classify(rows, i, cls):
    """Violation key: class from the spec (`bad`, or the violated invariant) + the shape of the history
    around line index i -- never the concrete indexes."""
    lo = run_slice(rows, i)
    mode = str(rows[lo].get("mode", "?")).split(":")[0]
    # the current round starts after the previous round-end / restart / reset line; that line is the previous outcome
    prev, k = "none", i - 1
    while k > lo and rows[k].get("ev") not in ENDS and rows[k].get("ev") != "quiesce":
        k -= 1
    if k > lo:
        prev = ENDS.get(rows[k]["ev"], "none")
    rs = k + 1
    # writes relative to the phases of the current round
    phase, where = "read", set()
    for r in rows[rs:i + 1]:
        ev = r.get("ev")
        if ev == "prov.begin":
            phase = "provide"
        elif ev == "prov.end":
            phase = "after-provide"
        elif ev in ("w.call", "w.ret"):
            where.add(phase)
    names = (("read", "between-index-read-and-provide"), ("provide", "during-provide"), ("after-provide", "after-provide"))
    conc = "write-" + "+".join(n for x, n in names if x in where) if where else "no-concurrent-write"
    if cls.startswith("uploaded-stale") or cls.startswith("LabelCovered") or cls.startswith("label-mismatch"):
        return "uploader:%s:%s" % (cls, conc)
    if cls.startswith(("missed-change", "upload-without-change", "NoMissedChange", "NoUploadWithoutChange",
                       "end-state", "QuiescentEqual", "bookkeeping", "recorded-failed-upload", "recorded-without", "FailedNotRecorded")):
        return "uploader:%s:after=%s" % (cls, prev)
    return "uploader:%s:mode=%s" % (cls, mode)


def validate(ctx, trace, what, timeout, save=True):
    """TLC on one trace.  Returns None when accepted, else (key, description, artefact)."""
    r = vlib.tlc_trace(ctx, "TraceUploader", "TraceUploader.cfg", trace, timeout=timeout, heap="8g", extra=["-difftrace"])
    rows = vlib.read_nd(trace)
    if r["accepted"]:
        return None, r, rows
    out = r["out"]
    inv = r.get("violated")
    if inv:                                            # an invariant is false on the real trace
        ls = re.findall(r"^/\\ l = (\d+)", out, re.M)
        line = int(ls[-1]) - 1 if ls else 1           # the violating state has consumed line l-1
        cls = INVCLASS.get(inv, inv)
        if inv == "NoBad":
            m = re.findall(r'^/\\ bad = "([^"]+)"', out, re.M)
            cls = m[-1] if m else "NoBad"
        desc = "condition %s is false on the real trace at line %d" % (cls, line)
    else:                                              # no behaviour of the spec explains the next line
        hw = r["hw"] if r["hw"] is not None else 0
        line = hw + 1
        ev = rows[hw].get("ev", "?") if hw < len(rows) else "end"
        cls = "trace-rejected:%s" % ev
        if ev == "up.round":      # the index handed to the uploader is not a value dbAppliedIdx had between call and return
            cls = "index-read:not-a-possible-db-applied-index"
        elif ev == "sc.upload":   # the object is not the database at any instant inside Provide
            cls = "uploaded-content-not-a-copy-taken-during-provide"
        desc = "no behaviour of Uploader.tla explains line %d (%s)" % (line, ev)
    i = max(0, min(line - 1, len(rows) - 1))
    key = classify(rows, i, cls)
    lo = run_slice(rows, i)
    dst = None
    if save:
        keep = os.path.join(vlib.ROOT, "replays", ctx.pid)
        os.makedirs(keep, exist_ok=True)
        dst = os.path.join(keep, "%s-trace-%s.ndjson" % (ctx.tier, hashlib.sha1(key.encode()).hexdigest()[:8]))
        vlib.write_nd(dst, rows[lo:i + 1])
    art = {"trace": dst, "line": line, "event": rows[i], "class": cls, "run": rows[lo],
           "history": rows[max(lo, i - 40):i + 1], "tlc_tail": out[-1200:]}
    return (key, "%s: %s" % (what, desc), art), r, rows


def direct_oracle(ctx, rows):
    """Model-independent pass over the recorded objects: what was uploaded vs. what it is labelled with, and the
    end-state comparison.  (TLC stops at the first rejected line; this pass names every stale object.)"""
    n = 0
    for i, x in enumerate(rows):
        cls = None
        if x.get("ev") == "sc.upload":
            n += 1
            if not x.get("readable"):
                cls = "uploaded-unreadable"
            elif x["j"] < x["idn"]:
                cls = "uploaded-stale"
        elif x.get("ev") == "quiesce" and not x.get("eq"):
            cls = "end-state:remote-differs-from-database"
        if cls:
            lo = run_slice(rows, i)
            ctx.violation(classify(rows, i, cls), "automatic backup uploader: %s (uploaded object %s labelled %s holds the writes up to %s)"
                          % (cls, x.get("un"), x.get("idn"), x.get("j")) if x.get("ev") == "sc.upload" else
                          "automatic backup uploader: after quiescence and a healthy round the restored remote object differs from the database: %s" % x.get("detail"),
                          {"event": x, "run": rows[lo], "history": rows[max(lo, i - 40):i + 1]})
    return n


def run(ctx):
    vlib.tlc_mc(ctx, "Uploader", "Uploader_mc.cfg", workers=4)          # MaxIdx=3, MaxFail=2, MaxRestart=1
    if ctx.thorough:
        vlib.tlc_mc(ctx, "Uploader", "Uploader_mc5.cfg", workers=6)     # MaxIdx=5, MaxFail=3, MaxRestart=2
    # liveness and the negative controls are independent small runs: three at a time, two workers each
    with ThreadPoolExecutor(max_workers=3) as ex:
        live = ex.submit(vlib.tlc, ctx, "Uploader", "Uploader_live.cfg", workers=2, coverage=False)
        negs = [ex.submit(vlib.tlc_neg, ctx, "Uploader", "Uploader_neg_%s.cfg" % sw, expect=inv, workers=2) for sw, inv in NEGS]
        r = live.result()
        for f in negs:
            f.result()
    if r["violated"]:
        raise vlib.Undecided("design model Uploader_live.cfg violates %s\n%s" % (r["violated"], r["out"][-3000:]))
    ctx.cov["liveness"] = {"cfg": "Uploader_live.cfg", "property": "Converges", "distinct": r["distinct"], "holds": True}

    tr = os.path.join(ctx.scratch, "uploader.ndjson")
    if ctx.thorough:
        args = ["-len", "3", "-sample", "110", "-crounds", "120", "-cruns", "2", "-writers", "3"]
    else:
        args = ["-len", "2", "-sample", "16", "-crounds", "32", "-cruns", "1", "-writers", "3"]
    p = ctx.run_harness(["uploader-trace", "-out", tr] + args, timeout=ctx.pick(600, 2400))
    st = json.loads(p.stdout.strip().splitlines()[-1])
    ctx.cov["driver"] = st
    for k in ("up.ok", "up.fail", "up.skip", "up.skipid", "sc.curid", "restart", "quiesce"):
        if not st["events"].get(k):
            raise vlib.Undecided("driver produced no %s event: the property was not exercised" % k)
    if not st.get("provide_retried"):
        raise vlib.Undecided("no round made store.Provider retry its backup: the retry path was not exercised")

    res, r, rows = validate(ctx, tr, "automatic backup uploader", ctx.pick(900, 3000))
    ctx.add("trace_events", len(rows))
    ctx.cov["trace_validation"] = {"lines": len(rows), "states": r["distinct"], "accepted": res is None}
    ctx.cov["objects_checked_directly"] = direct_oracle(ctx, rows)
    if res is not None:
        key, desc, art = res
        # a scripted run is deterministic up to scheduling: run its sequence again on a fresh store
        mode = str(art["run"].get("mode", ""))
        if mode.startswith("scripted:"):
            tr2 = os.path.join(ctx.scratch, "uploader-again.ndjson")
            ctx.run_harness(["uploader-trace", "-out", tr2, "-only", mode.split(":", 1)[1],
                             "-vacuum=%s" % str(bool(art["run"].get("vacuum"))).lower(),
                             "-compress=%s" % str(bool(art["run"].get("compress"))).lower()], timeout=300)
            res2, _, _ = validate(ctx, tr2, "automatic backup uploader (re-run)", 600, save=False)
            art["reproduced_on_fresh_store"] = res2 is not None
            if res2 is None and "Rd" not in mode:
                raise vlib.Undecided("violation %s in scripted run %s did not reproduce on a fresh store" % (key, mode))
        ctx.violation(key, desc, art)
    else:
        # binding self-tests on a prefix of the real trace: TLC must reject each corruption
        cut = next((i for i in range(min(len(rows), 160), len(rows)) if rows[i].get("ev") == "reset"), len(rows))

        def corrupt_fail(rs):          # a failed upload recorded as done
            for x in rs:
                if x.get("ev") == "up.fail":
                    x["last"] = x["li"]
                    return "recorded-failed-upload"
            raise vlib.Undecided("no up.fail to corrupt")

        def corrupt_stale(rs):         # an uploaded object that lacks the change it is labelled with
            for a, x in enumerate(rs):
                if x.get("ev") == "sc.upload" and x.get("ok") and x["j"] == x["idn"]:
                    prev = [y["idx"] for y in rs[:a] if y.get("ev") == "w.ret" and y["idx"] < x["j"]]
                    if prev:
                        x["j"] = max(prev)
                        return "stale"
            raise vlib.Undecided("no upload to corrupt")

        def corrupt_skip(rs):          # a round that skipped although the index had advanced
            for a in range(len(rs) - 1):
                if rs[a].get("ev") == "up.round" and rs[a]["li"] > rs[a]["last"] and rs[a + 1].get("ev") == "prov.begin":
                    b = a + 1
                    while rs[b].get("ev") not in ENDS:
                        b += 1
                    rs[a + 1:b + 1] = [{"ev": "up.skip", "li": rs[a]["li"], "last": rs[a]["last"]}]
                    return "skip"
            raise vlib.Undecided("no round to corrupt")

        def selftest(fn):
            rs = [dict(x) for x in rows[:cut]]
            fn(rs)
            p2 = tr + "." + fn.__name__
            vlib.write_nd(p2, rs)
            res2, r2, _ = validate(ctx, p2, "self-test", 900, save=False)
            if res2 is None:
                raise vlib.Undecided("binding self-test failed: TraceUploader accepted a trace corrupted by %s" % fn.__name__)
            return {"corruption": fn.__name__, "rejected_as": res2[0]}
        with ThreadPoolExecutor(max_workers=3) as ex:
            tests = list(ex.map(selftest, (corrupt_fail, corrupt_stale, corrupt_skip)))
        ctx.cov["binding_selftests"] = tests

    ctx.add("traces_validated_against_impl", st["runs"])
    lo = next((i for i, x in enumerate(rows) if str(x.get("mode", "")).startswith("scripted:W,F,R,R")), 1)
    ctx.sample(rows[lo:lo + 24])
    lo = next((i for i, x in enumerate(rows) if x.get("mode") == "concurrent"), 1)
    ctx.sample(rows[lo:lo + 40])
    ctx.cov["exhaustive"] = False
    ctx.cov["exhaustive_part"] = ("design model exhaustive (%s); scripted step sequences: " % ("MaxIdx=5, MaxFail=3, MaxRestart=2" if ctx.thorough else "MaxIdx=3, MaxFail=2, MaxRestart=1") +
                                  "%d of the %d sequences of length %d per provider setting plus 8 witnesses"
                                  % (min(int(args[3]), st["scripted_sequences_of_len"]), st["scripted_sequences_of_len"], st["scripted_len"]))
    ctx.assumptions += [
        "a change = a write request applied through the log (dbAppliedIdx advances); every write of the workload really changes rows; "
        "a no-effect write would be uploaded again by design (change detection by applied index) and is not exercised",
        "an upload made because CurrentID failed in the uploader's first rounds is not counted as an upload without change",
        "uploader restart = a new Uploader object on the same store and storage (bookkeeping lost); node restarts and membership changes are outside the property's quantifier and not driven",
        "the copy taken by Provide is atomic at some instant between its call and return (checkpoint + file copy under the snapshot CAS, or VACUUM INTO); "
        "an uploaded image that is a superset of State(label) but not exactly one State(j) would be counted (uploads_superset_not_exact) but is C21's concern",
        "storage double: Upload stores the object atomically or not at all; CurrentID answers truthfully or fails",
    ]
