"""C38 Linearizable reads complete on a healthy leader without further writes.
(A) Cluster.tla (abstract Raft + rqlite node layer; entry kinds N/W/Q/C/B where only commands reach
    FSM.Apply) with configuration and barrier entries: invariant NoStuckRead (a read waiting on a node
    whose FSM goroutine has processed everything up to the read index can proceed), with ReadLin and
    StateMachineSafety; negative controls SignalConfig / SignalBarrier (= the code before the fix:
    progress signalled for command entries only) give the witness "config or barrier entry is the
    read index".
(B/C) histories of writes, strong and linearizable reads, joins (voter and non-voter), removals,
    stepdowns, barriers, user snapshots, no-ops and follower restarts on a live cluster; after EVERY
    operation a linearizable read is issued on the leader with no intervening write.  The hook events
    of the read protocol and of every fsmTarget signal are validated by TraceCluster.tla, whose
    LrGone action evaluates NoStuckRead on the real values (wait timed out although Raft's applied
    index had reached the read index), and which also checks every protocol step of every read."""
import json, os, re, vlib
LEVEL = "model_checking"
TECHNIQUE = "TLA+ cluster spec, TLC exhaustive + negative controls; live-cluster histories validated against the spec by trace validation"

def run(ctx):
    vlib.tlc_mc(ctx, "MCCluster", "Cluster_c38_mc.cfg", coverage=ctx.thorough, heap="16g", timeout=3000, vacuity_ok=("Restart", "TakeSnapshot", "InstallSnapshot"))
    vlib.tlc_neg(ctx, "MCCluster", "Cluster_neg_SignalConfig.cfg", expect="NoStuckRead", heap="8g")
    vlib.tlc_neg(ctx, "MCCluster", "Cluster_neg_SignalBarrier.cfg", expect="NoStuckRead", heap="8g")
    if ctx.thorough:
        # a read waiting on a node that lost leadership and is caught up by InstallSnapshot: fsmRestore must signal
        vlib.tlc_neg(ctx, "MCCluster", "Cluster_neg_SignalRestore.cfg", expect="NoStuckRead", heap="12g", timeout=3000)
    tr = os.path.join(ctx.scratch, "lrlive.ndjson")
    rows_all = []
    stats = []
    nruns = ctx.pick(2, 10)
    for i in range(nruns):
        t = os.path.join(ctx.scratch, "lrlive%d.ndjson" % i)
        # a run takes about a minute; one run in ~80 was seen to hang in an operation that is not a read (reads carry a
        # 1.5 s limit): the goroutine dump is kept by run_harness and the run is repeated once -- a hang is no verdict
        for attempt in (0, 1):
            try:
                p = ctx.run_harness(["lr-live", "-out", t, "-ops", str(ctx.pick(33, 120)), "-nodes", "3" if i % 3 != 2 else "1",
                                     "-dir", ctx.sub("lr%d_%d" % (i, attempt))], timeout=ctx.pick(420, 900),
                                    env={"VERIF_SEED": str(ctx.seed * 100 + i)})
                break
            except vlib.Undecided as e:
                if attempt == 1 or "timed out" not in str(e):
                    raise
                ctx.cov.setdefault("harness_hangs_retried", []).append(str(e)[-200:])
        stats.append(json.loads(p.stdout.strip().splitlines()[-1]))
        rows_all += vlib.read_nd(t)
    vlib.write_nd(tr, rows_all)
    ctx.cov["driver"] = stats
    nreads = sum(s["Reads"] for s in stats)
    if nreads == 0 or sum(s["ReadsOK"] + s["Stuck"] for s in stats) == 0:
        raise vlib.Undecided("driver issued no linearizable reads")

    def corrupt(rows):
        # make one served read look served before the FSM reached its read index
        for r in rows:
            if r.get("ev") == "lr.wait":
                r["target"] += 7
                return rows
        raise vlib.Undecided("no lr.wait to corrupt")

    # rid -> operation kind that preceded the read (from the note lines)
    after, last = {}, "?"
    for r in rows_all:
        if r.get("ev") == "note" and "op" in r:
            last = r["op"]
        elif r.get("ev") == "lr.begin":
            after[r["rid"]] = last

    def key(bad, name):
        if name and name.startswith("lin-read-stuck"):
            return "lrlive:stuck:after=%s" % after.get(bad.get("rid"), "?")
        return "lrlive:%s" % (name or "rejected")
    vlib.trace_check(ctx, "TraceCluster", "TraceCluster.cfg", tr, "linearizable reads on a live cluster",
                     key_fn=key, selftest=corrupt, timeout=1500)
    ctx.add("traces_validated_against_impl", nruns)
    ctx.cov["linearizable_reads_after_each_op"] = nreads
    ctx.cov["ops_by_kind"] = {k: sum(s["ByOp"].get(k, 0) for s in stats) for s0 in stats for k in s0["ByOp"]}
    ctx.sample([r for r in rows_all if r.get("ev", "").startswith(("note", "lr."))][:16])
    ctx.cov["exhaustive"] = False
    ctx.assumptions += ["healthy cluster: no partitions; reads are given a 1.5 s linearizable timeout and only the FSM-wait timeout counts as stuck",
                        "hashicorp/raft hands entries to the FSM goroutine in order; AppliedIndex >= read index means they were handed over"]
