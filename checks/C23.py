"""C23 Queued writes are applied in order and none are dropped.
(A) QueuedWrites.tla on top of Queue.tla (the batching queue of C24, reused unchanged): clients Post
    (queue.Write under seqMu: the sequence number returned to the client is the acceptance order)
    with 1..2 statements, with and without wait (WaitOk / WaitTimeout); the queue's run loop;
    runQueue as written: Take, TryOk, TryFail (leader not found: nothing sent, the same request is
    executed again), TryLost (error with unknown outcome: the batch may be applied, the same request
    is executed again -> whole-batch duplicates), Done (flush channels of exactly that batch closed);
    leader loss / return as environment.  Exhaustive: InOrder, RequestsContiguous,
    DupsOnlyAfterUnknown, NoneDropped, WaitAfterApply, ClosedAreTaken; liveness under fairness
    without state constraint: EventuallyApplied (every accepted request is applied once a leader
    stays reachable), WaitAnswered.  Negative controls SeqUnderLock, SingleConsumer, RetrySameBatch,
    CloseAfterApply.
(C) live 3-node clusters, concurrent HTTP clients posting sequence-tagged INSERTs to any node
    (?queue, ?queue&wait, ?noleader, 0..3 statements, bursts across the batch size, pauses across
    the queue timeout, waits that time out) while the leader is stepped down / leadership
    transferred / the leader or a follower isolated.  Per accepting node the hook events of
    queue.Write, the queue's run loop and runQueue, the client responses and -- after the cluster is
    healthy again and the queues had time to drain -- the table content in apply order are validated
    by TraceQueuedWrites.tla: returned sequence number = acceptance order, batches are the next
    accepted requests, one batch at a time in order, a batch is released only after a successful
    try, a wait returns only after its batch was applied and released, table rows = acceptance order
    with requests contiguous, whole-batch repeats only after a try with unknown outcome, nothing
    accepted is missing.  Permanent-error probes: a batch whose execution can never succeed must not
    block later accepted requests for ever."""
import json, os, threading, vlib
LEVEL = "model_checking"
TECHNIQUE = "TLA+ spec of the queued-write path over the queue spec, TLC exhaustive + liveness + negative controls; live-cluster traces under leader faults validated by a TLA+ trace spec"

NEG = (("SeqUnderLock", "InOrder"), ("SingleConsumer", "InOrder"), ("RetrySameBatch", "NoneDropped"), ("CloseAfterApply", "WaitAfterApply"))


def run(ctx):
    ctx.harness()                   # build before the threads start
    # the design checks (independent TLC runs) go through a small pool while the live cluster runs
    tasks = [lambda: vlib.tlc_mc(ctx, "QueuedWrites", ctx.pick("QueuedWrites_mc.cfg", "QueuedWrites_mc_thorough.cfg"), workers=ctx.pick(2, 4), timeout=2400),
             lambda: vlib.tlc_mc(ctx, "QueuedWrites", ctx.pick("QueuedWrites_live.cfg", "QueuedWrites_live_thorough.cfg"), coverage=False, workers=2, timeout=2400)]
    for sw, inv in NEG:
        tasks.append(lambda sw=sw, inv=inv: vlib.tlc_neg(ctx, "QueuedWrites", "QueuedWrites_neg_%s.cfg" % sw, expect=inv, workers=1))
    errs, lock = [], threading.Lock()

    def worker():
        while True:
            with lock:
                if not tasks or errs:
                    return
                t = tasks.pop(0)
            try:
                t()
            except BaseException as e:      # re-raised in the main thread
                errs.append(e)
    ths = [threading.Thread(target=worker) for _ in range(3)]
    for t in ths:
        t.start()
    try:
        live(ctx)
    finally:
        for t in ths:
            t.join()
    if errs:
        raise errs[0]


def live(ctx):
    tr = os.path.join(ctx.scratch, "queued.ndjson")
    ptr = os.path.join(ctx.scratch, "queued-probes.ndjson")
    p = ctx.run_harness(["queued-trace", "-out", tr, "-probes", ptr, "-runs", str(ctx.pick(2, 24)), "-clients", str(ctx.pick(5, 6)),
                         "-reqs", str(ctx.pick(15, 25)), "-faults", str(ctx.pick(4, 6)), "-dir", ctx.sub("qw")], timeout=3000)
    st = json.loads(p.stdout.strip().splitlines()[-1])
    ctx.cov["driver"] = st
    failed = sum(v for k, v in st["Tries"].items() if k != "ok")
    if st["Accepted"] < 100 or st["WaitRet"] < 10 or st["MultiRequestBatches"] < 5 or failed < 1 or st["ToFollower"] < 10:
        raise vlib.Undecided("the driver did not exercise the queued-write path: %s" % st)
    if set(st.get("Probes") or {}) != {"pragma", "auth"}:
        raise vlib.Undecided("the permanent-error probes did not run: %s" % st)
    rows = vlib.read_nd(tr)

    def corrupt(rows):
        # first projection only: a wait response moved to before its batch was applied
        end = next(i for i, r in enumerate(rows) if r.get("ev") == "final")
        rows = rows[:end + 1]
        for i, r in enumerate(rows):
            if r.get("ev") == "c.waitret" and r.get("req"):
                j = max(k for k in range(i) if rows[k].get("ev") == "hq.try" and rows[k].get("cls") == "ok")
                rows.insert(j, rows.pop(i))
                return rows
        raise vlib.Undecided("no wait response to corrupt")

    def key(bad, name):
        return "queued:%s" % (name or ("rejected:" + str(bad.get("ev", "?"))))
    # the probes' projections are validated on their own (in parallel), so that a known finding there does not
    # take the binding self-test away from the main trace
    perr = []

    def probes():
        try:
            vlib.trace_check(ctx, "TraceQueuedWrites", "TraceQueuedWrites.cfg", ptr, "queued writes (permanent-error probes)", key_fn=key, timeout=1200)
        except BaseException as e:
            perr.append(e)
    pt = threading.Thread(target=probes)
    pt.start()
    try:
        vlib.trace_check(ctx, "TraceQueuedWrites", "TraceQueuedWrites.cfg", tr, "queued writes", key_fn=key, selftest=corrupt,
                         timeout=ctx.pick(1200, 3000))
    finally:
        pt.join()
    if perr:
        raise perr[0]
    ctx.add("traces_validated_against_impl", st["Projections"])
    ctx.cov["requests"] = st["Requests"]
    ctx.sample([r for r in rows if r.get("ev") in ("q.write", "q.sending", "hq.take", "hq.try", "hq.done", "c.waitret")][40:54])
    ctx.cov["exhaustive"] = False
    ctx.assumptions += [
        "acceptance order of a node = order of the q.write hook events under the queue's seqMu = sequence numbers returned to clients",
        "rowid order of the AUTOINCREMENT table is the apply order; only INSERTs that cannot fail are queued",
        "a failed try other than 'leader not found' (nothing was sent) has an unknown outcome: the batch may be applied once more per such try",
        "nodes are not restarted (the property speaks of a node that keeps running); faults are healed before the final read",
    ]
