"""C16 Read consistency levels behave as documented.
(A) ReadLevels.tla: level resolution ('auto' = weak on voters, none on non-voters) and the dispatch
    of a read-only request in Store.Query and in the read-only branch of Store.Request, and
    store.IsStaleRead transcribed test by test (StaleCode) against the documented rule (StaleDoc);
    TLC checks DispatchOK over every (path, level, role, stale) and StaleOK over the whole time
    lattice (contact / FSM update / appended-at in 0..3 units, appended-at unset, index equal or not,
    freshness unset / 0.5 / 1.5 / 2.5 units, strict on/off); one negative control per mechanism.
    The 'linearizable' clause (quorum confirmation in an unchanged term, wait for everything
    committed at the start) is RqRead.tla's protocol, model-checked in Cluster.tla and checked on
    every served read by TraceCluster.tla (C02's runs; a sample is re-run here).
(B) every generated case is replayed on the real code: the 4 096 lattice points through
    store.IsStaleRead (times built relative to now in 10 s units), the 60 dispatch cases through
    Store.Query / Store.Request on a live cluster of 3 voters + 1 non-voter, the outcome (served
    locally / not-leader / stale / through the log / linearizable protocol) observed from the
    returned error, the returned Raft index and the read-protocol hook."""
import json, os, vlib
LEVEL = "model_checking"
TECHNIQUE = "TLA+ decision-table spec, TLC exhaustive; every spec-generated case replayed on store.IsStaleRead and on a live cluster; read-protocol traces validated by TraceCluster"

def run(ctx):
    vlib.tlc_mc(ctx, "ReadLevels", "ReadLevels_mc.cfg", coverage=False, workers=1)
    for sw in ("WeakNeedsLeader", "AutoOnQuery", "AutoOnUnified", "StaleByContact", "StrictByAppendLag"):
        vlib.tlc_neg(ctx, "ReadLevels", "ReadLevels_neg_%s.cfg" % sw, expect="Inv", workers=1)
    cases, r = vlib.tlc_cases(ctx, "ReadLevels", "ReadLevels_gen.cfg")
    inp = os.path.join(ctx.scratch, "rl.ndjson")
    outp = os.path.join(ctx.scratch, "rl.out.ndjson")
    vlib.write_nd(inp, cases)
    p = ctx.run_harness(["readlevels-replay", "-in", inp, "-out", outp, "-dir", ctx.sub("rl")], timeout=900)
    st = json.loads(p.stdout.strip().splitlines()[-1])
    rows = vlib.read_nd(outp)
    if st["stale_cases"] < 4000 or st["dispatch_cases"] < 50:
        raise vlib.Undecided("replay covered too little: %s" % st)
    for r in rows:
        if r["ok"]:
            continue
        c = r["c"]
        if c["k"] == "dispatch":
            key = "readlevel:dispatch:path=%s:asked=%s:role=%s:want=%s:got=%s" % (c["path"], c["asked"], c["role"], c["want"], r["got"].split(":")[0])
            ctx.violation(key, "a %s read at level %s on a %s was %s, documented: %s" % (c["path"], c["asked"], c["role"], r["got"], c["want"]), r)
        else:
            key = "readlevel:stale:strict=%s:want=%s" % (c["st"], c["want"])
            ctx.violation(key, "IsStaleRead disagrees with the documented rule on %s" % c, r)
    # self-test of the comparison: a perturbed expectation must be noticed
    pert = sum(1 for r in rows if r["c"]["k"] == "stale" and (not r["c"]["want"]) != r["got"])
    if pert < 4000:
        raise vlib.Undecided("replay self-test: perturbed expectations not detected")
    ctx.cov["binding_selftests"] = [{"perturbed_expectations_detected": pert}]
    ctx.add("evaluations", len(rows))
    ctx.add("traces_validated_against_impl", len(rows))
    # the linearizable clause: protocol events of live reads against RqRead (same machinery as C02)
    tr = os.path.join(ctx.scratch, "cluster.ndjson")
    p = ctx.run_harness(["cluster-trace", "-out", tr, "-runs", str(ctx.pick(1, 6)), "-clients", "4", "-ops", "120", "-faults", "4",
                         "-dir", ctx.sub("cl")], timeout=1500)
    ctx.cov["lin_driver"] = json.loads(p.stdout.strip().splitlines()[-1])
    vlib.trace_check(ctx, "TraceCluster", "TraceCluster.cfg", tr, "linearizable read protocol",
                     key_fn=lambda bad, name: "readlevel:lin:%s" % (name or "rejected"), timeout=1500)
    ctx.cov["rule"] = "all (path, level, role, stale) and the full staleness lattice of ReadLevels.tla"
    ctx.sample(rows[5000 % len(rows)])
    ctx.sample([r for r in rows if r["c"]["k"] == "dispatch"][:3])
    ctx.cov["exhaustive"] = True
    ctx.assumptions += ["time lattice in 10 s units so that the harness's own few ms cannot flip a comparison",
                        "stale=true is realised with a 1 ns freshness bound, stale=false with one hour"]
