------------------------------ MODULE Uploader ------------------------------
(* rqlite automatic backups: auto/backup/uploader.go (Uploader.upload, one call per ticker round)     *)
(* on top of store/provider.go (LastIndex = Store.DBAppliedIndex, Provide = Store.Backup with         *)
(* retries) and a StorageClient (Upload(id) / CurrentID).                                              *)
(*                                                                                                     *)
(* Database side (store/store.go fsmApply): a log entry that mutates the database first commits in    *)
(* SQLite (content changes) and only then stores its index in dbAppliedIdx (WriteBegin / WriteEnd);    *)
(* entries that do not mutate (queries through the log, no-ops) advance the FSM index only.            *)
(* Content is abstracted, as in the versioned-pages workload, by the index of the last write whose    *)
(* effects it holds: State(k) = all writes with index <= k, totally ordered by inclusion.              *)
(*                                                                                                     *)
(* One round = RoundStart; ReadIndex (li); li <= lastIndex -> Skip | ProvideBegin; TakeCopy (the       *)
(* consistent copy is taken at one instant inside Provide); ProvideEnd | ProvideFail; when the         *)
(* uploader has recorded nothing yet (lastIndex = 0, i.e. since it started): CurrentID -> SkipID when  *)
(* the storage already holds label li; Upload ok / fail (fail may or may not have reached the          *)
(* storage); Record only on success.  RestartUploader loses lastIndex.                                 *)
(*                                                                                                     *)
(* Switches (TRUE = the design): IndexBeforeProvide, SkipIfUnchanged, RecordOnlyOnSuccess,             *)
(* PublishAfterApply (dbAppliedIdx stored after the SQLite commit), IndexIsDBApplied (the provider     *)
(* reports the last database-changing index, not the FSM index), CheckCurrentID (first-round check).   *)
EXTENDS Naturals, FiniteSets, TLC

CONSTANTS MaxIdx, MaxFail, MaxRestart,
          IndexBeforeProvide, SkipIfUnchanged, RecordOnlyOnSuccess,
          PublishAfterApply, IndexIsDBApplied, CheckCurrentID

VARIABLES
  logIdx,     \* index of the last log entry applied by the FSM
  writes,     \* indexes of the entries that changed the database
  cIdx,       \* content of the database = State(cIdx)
  dbIdx,      \* dbAppliedIdx as published
  wpc,        \* 0, or the index of the write between its two steps
  lastIndex,  \* uploader bookkeeping: label of the last upload it recorded as done (0 = none)
  pc,         \* round program counter
  li,         \* index read in this round
  copy,       \* content of the copy taken in this round
  idres,      \* result of the first-round CurrentID check: "none" | "match" | "nomatch" | "err"
  remote,     \* what the storage holds: [has, id, c]
  ackHas, ackL, \* history: label of the last upload acknowledged as successful
  missed,     \* history: a round ended without upload although the storage lacked State(li)
  vain,       \* history: a round uploaded although no write lay behind the last acknowledged upload
  nfail, nrestart
dbvars == <<logIdx, writes, cIdx, dbIdx, wpc>>
upvars == <<lastIndex, pc, li, copy, idres>>
hist   == <<ackHas, ackL, missed, vain>>
vars   == <<logIdx, writes, cIdx, dbIdx, wpc, lastIndex, pc, li, copy, idres, remote,
            ackHas, ackL, missed, vain, nfail, nrestart>>

(* content c holds every change up to label *)
Contains(c, label) == \A w \in writes : w <= label => w <= c
ProviderIndex == IF IndexIsDBApplied THEN dbIdx ELSE logIdx
NoRemote == [has |-> FALSE, id |-> 0, c |-> 0]

Init == /\ logIdx = 0 /\ writes = {} /\ cIdx = 0 /\ dbIdx = 0 /\ wpc = 0
        /\ lastIndex = 0 /\ pc = "idle" /\ li = 0 /\ copy = 0 /\ idres = "none"
        /\ remote = NoRemote /\ ackHas = FALSE /\ ackL = 0 /\ missed = FALSE /\ vain = FALSE
        /\ nfail = 0 /\ nrestart = 0

-----------------------------------------------------------------------------
(* database *)
WriteBegin(i) ==
  /\ wpc = 0 /\ i > logIdx
  /\ logIdx' = i /\ writes' = writes \cup {i} /\ wpc' = i
  /\ IF PublishAfterApply THEN cIdx' = i /\ UNCHANGED dbIdx
                          ELSE dbIdx' = i /\ UNCHANGED cIdx
  /\ UNCHANGED <<upvars, remote, hist, nfail, nrestart>>
WriteEnd ==
  /\ wpc # 0 /\ wpc' = 0
  /\ IF PublishAfterApply THEN dbIdx' = wpc /\ UNCHANGED cIdx
                          ELSE cIdx' = wpc /\ UNCHANGED dbIdx
  /\ UNCHANGED <<logIdx, writes, upvars, remote, hist, nfail, nrestart>>
NonChangingEntry(i) ==
  /\ wpc = 0 /\ i > logIdx /\ logIdx' = i
  /\ UNCHANGED <<writes, cIdx, dbIdx, wpc, upvars, remote, hist, nfail, nrestart>>

-----------------------------------------------------------------------------
(* uploader round *)
Quiet == UNCHANGED <<dbvars, nrestart>>
RoundStart == /\ pc = "idle" /\ pc' = "start" /\ li' = 0 /\ copy' = 0 /\ idres' = "none"
              /\ UNCHANGED <<lastIndex, remote, hist, nfail>> /\ Quiet
ReadIndex ==  /\ pc = (IF IndexBeforeProvide THEN "start" ELSE "provided")
              /\ li' = ProviderIndex /\ pc' = "read"
              /\ UNCHANGED <<lastIndex, copy, idres, remote, hist, nfail>> /\ Quiet
Unchanged == li <= lastIndex
Skip ==       /\ pc = "read" /\ SkipIfUnchanged /\ Unchanged
              /\ pc' = "idle" /\ missed' = (missed \/ ~Contains(remote.c, li))
              /\ UNCHANGED <<lastIndex, li, copy, idres, remote, ackHas, ackL, vain, nfail>> /\ Quiet
ProvideBegin == /\ pc = (IF IndexBeforeProvide THEN "read" ELSE "start")
                /\ (IndexBeforeProvide => (~SkipIfUnchanged \/ ~Unchanged))
                /\ pc' = "providing"
                /\ UNCHANGED <<lastIndex, li, copy, idres, remote, hist, nfail>> /\ Quiet
TakeCopy ==   /\ pc = "providing" /\ copy' = cIdx /\ pc' = "copied"
              /\ UNCHANGED <<lastIndex, li, idres, remote, hist, nfail>> /\ Quiet
ProvideEnd == /\ pc = "copied" /\ pc' = "provided"
              /\ UNCHANGED <<lastIndex, li, copy, idres, remote, hist, nfail>> /\ Quiet
(* Provide gives up after its retries: the round ends, nothing is uploaded or recorded *)
ProvideFail == /\ pc \in {"providing", "copied"} /\ nfail < MaxFail /\ nfail' = nfail + 1
               /\ pc' = "idle"
               /\ UNCHANGED <<lastIndex, li, copy, idres, remote, hist>> /\ Quiet
(* both the index and the copy are in hand *)
Ready == pc = (IF IndexBeforeProvide THEN "provided" ELSE "read") /\ (IndexBeforeProvide \/ ~SkipIfUnchanged \/ ~Unchanged)
NeedCheck == CheckCurrentID /\ lastIndex = 0
CurrentID(ok) == /\ Ready /\ NeedCheck /\ idres = "none"
                 /\ IF ok THEN idres' = (IF remote.has /\ remote.id = li THEN "match" ELSE "nomatch") /\ UNCHANGED nfail
                          ELSE nfail < MaxFail /\ nfail' = nfail + 1 /\ idres' = "err"
                 /\ pc' = "checked"
                 /\ UNCHANGED <<lastIndex, li, copy, remote, hist>> /\ Quiet
SkipID ==     /\ pc = "checked" /\ idres = "match"
              /\ pc' = "idle" /\ missed' = (missed \/ ~Contains(remote.c, li))
              /\ UNCHANGED <<lastIndex, li, copy, idres, remote, ackHas, ackL, vain, nfail>> /\ Quiet
CanUpload == \/ pc = "checked" /\ idres \in {"nomatch", "err"}
             \/ Ready /\ ~NeedCheck
(* an upload although no write lies between the label of the last acknowledged upload and the index *)
(* read in this round is an upload without change -- unless the uploader has just started and the   *)
(* storage could not tell it what it holds (it then uploads to be safe)                             *)
Vain == ackHas /\ idres # "err" /\ ~\E w \in writes : w > ackL /\ w <= li
DoUploadOK == /\ pc' = "sent_ok"
              /\ remote' = [has |-> TRUE, id |-> li, c |-> copy]
              /\ vain' = (vain \/ Vain) /\ ackHas' = TRUE /\ ackL' = li
              /\ UNCHANGED <<lastIndex, li, copy, idres, missed>> /\ Quiet
DoUploadFail(applied) ==
              /\ pc' = "sent_fail"
              /\ remote' = (IF applied THEN [has |-> TRUE, id |-> li, c |-> copy] ELSE remote)
              /\ vain' = (vain \/ Vain)
              /\ UNCHANGED <<lastIndex, li, copy, idres, ackHas, ackL, missed>> /\ Quiet
UploadOK ==   CanUpload /\ DoUploadOK /\ UNCHANGED nfail
UploadFail(applied) == CanUpload /\ nfail < MaxFail /\ nfail' = nfail + 1 /\ DoUploadFail(applied)
Record ==     /\ pc = "sent_ok" /\ lastIndex' = li /\ pc' = "idle"
              /\ UNCHANGED <<li, copy, idres, remote, hist, nfail>> /\ Quiet
NoRecord ==   /\ pc = "sent_fail" /\ pc' = "idle"
              /\ lastIndex' = (IF RecordOnlyOnSuccess THEN lastIndex ELSE li)
              /\ UNCHANGED <<li, copy, idres, remote, hist, nfail>> /\ Quiet
RestartUploader ==
              /\ nrestart < MaxRestart /\ nrestart' = nrestart + 1
              /\ lastIndex' = 0 /\ pc' = "idle" /\ li' = 0 /\ copy' = 0 /\ idres' = "none"
              /\ UNCHANGED <<dbvars, remote, hist, nfail>>

UploaderStep == \/ RoundStart \/ ReadIndex \/ Skip \/ ProvideBegin \/ TakeCopy \/ ProvideEnd
                \/ CurrentID(TRUE) \/ SkipID \/ UploadOK \/ Record \/ NoRecord
Write == logIdx < MaxIdx /\ WriteBegin(logIdx + 1)
Other == logIdx < MaxIdx /\ NonChangingEntry(logIdx + 1)
Next == \/ Write \/ Other \/ WriteEnd
        \/ UploaderStep
        \/ ProvideFail \/ CurrentID(FALSE) \/ UploadFail(TRUE) \/ UploadFail(FALSE)
        \/ RestartUploader
Spec == Init /\ [][Next]_vars
FairSpec == Spec /\ WF_vars(UploaderStep) /\ WF_vars(WriteEnd)

-----------------------------------------------------------------------------
TypeOK == /\ pc \in {"idle", "start", "read", "providing", "copied", "provided", "checked", "sent_ok", "sent_fail"}
          /\ idres \in {"none", "match", "nomatch", "err"}
          /\ cIdx <= logIdx /\ dbIdx <= logIdx /\ lastIndex <= logIdx /\ remote.c <= cIdx
(* the backup held by the storage contains every change up to the index it is labelled with *)
LabelCovered == remote.has => Contains(remote.c, remote.id)
(* what the uploader has recorded as done really is in the storage; a failed upload is not recorded *)
FailedNotRecorded == lastIndex > 0 => remote.has /\ remote.id >= lastIndex /\ Contains(remote.c, lastIndex)
(* a round ends without an upload only when the storage already holds every change up to the index read *)
NoMissedChange == ~missed
(* rounds with no change upload nothing *)
NoUploadWithoutChange == ~vain
(* uploader idle and up to date with a quiescent database: the storage holds exactly the database *)
QuiescentEqual == (pc = "idle" /\ wpc = 0 /\ lastIndex > 0 /\ lastIndex >= ProviderIndex) => remote.c = cIdx
(* with finitely many writes, failures and restarts the storage converges to the database *)
Converges == <>[](remote.c = cIdx)
=============================================================================
