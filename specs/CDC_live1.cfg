\* quick liveness: 1 node, 2 entries, <=2 tenures (3 signals), 1 outage, 1 restart
SPECIFICATION LiveSpec
CONSTANTS
  Node = {n1}
  MaxIdx = 2
  Multi = {2}
  BatchSz = 2
  InCap = 0
  AsyncHWM = FALSE
  SigCap = 2
  MaxFlips = 3
  MaxLeaders = 1
  MaxRestarts = 1
  MaxSnaps = 1
  MaxDowns = 1
  OneGroupPerEntry = TRUE
  LabelEveryGroup = TRUE
  KeyByHighest = TRUE
  SyncFlushBeforeSnapshot = TRUE
  DrainInBeforeSync = TRUE
  HWMAfterSendOK = TRUE
  PruneToHWMOnly = TRUE
  RewindCursor = TRUE
  ParkedKeptUntilSent = TRUE
  RestartHWMBelowLowest = TRUE
  DropReapplied = TRUE
PROPERTIES Live
