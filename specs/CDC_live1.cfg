\* quick liveness: 1 node, 2 entries, <=2 tenures, 1 outage, 1 restart
SPECIFICATION LiveSpec
CONSTANTS
  Node = {n1}
  MaxIdx = 2
  Multi = {2}
  BatchSz = 2
  InCap = 0
  AsyncHWM = FALSE
  MaxFlips = 2
  MaxLeaders = 1
  MaxRestarts = 1
  MaxSnaps = 1
  MaxDowns = 1
  OneGroupPerEntry = TRUE
  LabelEveryGroup = TRUE
  KeyByHighest = TRUE
  SyncFlushBeforeSnapshot = TRUE
  DrainInBeforeSync = TRUE
  HWMAfterSendOK = TRUE
  PruneToHWMOnly = TRUE
  RewindCursor = TRUE
  RestartHWMBelowLowest = TRUE
  DropReapplied = TRUE
PROPERTIES Live
