\* reaping of an unresponsive node interleaved with joins / removals, 2 ids x 3 addresses
SPECIFICATION Spec
CONSTANTS
  a = a  b = b  c = c  d = d
  a1 = a1  a2 = a2  a3 = a3  a4 = a4
  Id = {a, b}
  Addr = {a1, a2, a3}
  Self = a
  SelfAddr = a1
  OpIds = {a, b}
  OpAddrs = {a1, a2, a3}
  Expect = 0
  ReapV = 2
  ReapN = 1
  MaxSince = 3
  MaxDownNodes = 1
  MaxJoins = 1
  MaxOps = 0
  GenLen = 0
  IgnoreOnlyIfIdenticalInclRole = TRUE
  RemoveConflictingEntry = TRUE
  BootstrapOnce = TRUE
  ReapAfterRoleTimeout = TRUE
  RaftRejectsDuplicates = TRUE
INVARIANTS InvUniqueIds InvUniqueAddrs RoleAsRequested JoinTakesEffect StepsMatchClosedForm BootstrapAtMostOnce ReapOnlyAfterRoleTimeout
