SPECIFICATION Spec
CONSTANTS
  AfterTrivia = TRUE
  EveryStatement = FALSE
  CallSyntax = TRUE
  SchemaPrefix = TRUE
  QuotedName = TRUE
INVARIANTS NoBypass
