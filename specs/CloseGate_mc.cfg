SPECIFICATION Spec
CONSTANTS
  H0 = {0, 3}
  Dur = {0, 5, 50, 200, 500, 999, 1000, 1001, 1100}
  T0 = {0, 1, 2, 3, 4, 30, 100, 600, 1099, 1100, 1101}
  Limit = 1000
  Short = 1
  SnapDur = {0, 2}
  Eps = 2
  ShortRetryInterval = TRUE
  TenSecondLimit = TRUE
INVARIANTS ClosePrompt FailOnlyIfOutlasts GateExclusive
