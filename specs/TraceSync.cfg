SPECIFICATION TSpec
CONSTANTS
  Proc = {"A", "B", "anon"}
  MaxIdx = 6
  MaxHolds = 1000000
  CASExclusive = TRUE
  WriterExcludesReaders = TRUE
  BlockingWakes = TRUE
  WakeAtTarget = TRUE
INVARIANTS CasMutex MrswExclusion NeverBefore WokenWhenReached
CONSTRAINT HW
POSTCONDITION Accepted
CHECK_DEADLOCK FALSE
