SPECIFICATION TSpec
CONSTANTS
  Proc = {"g1", "g2", "g3", "anon"}
  MaxIdx = 6
  MaxHolds = 1000000
  CASExclusive = TRUE
  WriterExcludesReaders = TRUE
  BlockingWakes = TRUE
  WakeAtTarget = TRUE
INVARIANTS CasMutex MrswExclusion NeverBefore WokenWhenReached
CONSTRAINT HW
POSTCONDITION Accepted
CHECK_DEADLOCK FALSE
