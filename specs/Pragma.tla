------------------------------- MODULE Pragma -------------------------------
(* rqlite db/state.go + store/state.go: the guard that keeps requests from changing the   *)
(* journal mode, WAL auto-checkpoint, synchronous, query-only settings or running a WAL     *)
(* checkpoint.  A submitted SQL text is a sequence of statements; a PRAGMA statement is     *)
(*   lead* PRAGMA sep [schema .] name (ε | = value | ( value ))                             *)
(* Dangerous(t): SQLite semantics (what the text does).  Guard(t): what the design requires *)
(* of the guard: judge every statement, after leading trivia, whatever the case, schema     *)
(* prefix, quoting and value syntax.  Switches model the weaker guards.                     *)
EXTENDS Naturals, Sequences, FiniteSets, TLC, Json

CONSTANTS AfterTrivia, EveryStatement, CallSyntax, SchemaPrefix, QuotedName   \* TRUE = design

Leads   == {"none", "space", "tab", "newline", "crlf", "formfeed", "linecomment", "blockcomment"}
Cases   == {"upper", "lower", "mixed"}
Seps    == {"space", "newline", "blockcomment"}
Schemas == {"none", "main", "quotedmain"}
Critical == {"journal_mode", "wal_autocheckpoint", "synchronous", "query_only"}
Names   == Critical \cup {"wal_checkpoint", "cache_size", "foreign_keys"}
Quotes  == {"plain", "dquote", "bracket", "backtick"}
Forms   == {"query", "eq", "eqspaced", "call"}
Poses   == {"only", "second", "firstoftwo"}

Stmt == [lead : Leads, kw : Cases, sep : Seps, schema : Schemas, name : Names, quote : Quotes, form : Forms, pos : Poses]

VARIABLE s
vars == <<s>>
Init == s \in Stmt
Next == UNCHANGED s
Spec == Init /\ [][Next]_vars

Writes(x) == x.form \in {"eq", "eqspaced", "call"}
(* what SQLite does with the text *)
Dangerous(x) == \/ (x.name \in Critical /\ Writes(x))
                \/ x.name = "wal_checkpoint"
(* what the guard recognises *)
Guard(x) == /\ x.name \in Critical \cup {"wal_checkpoint"}
            /\ (x.name \in Critical => Writes(x))
            /\ (~AfterTrivia => x.lead \in {"none", "space", "tab", "newline", "crlf", "formfeed"} /\ x.sep \in {"space", "newline"})
            /\ (~EveryStatement => x.pos # "second")
            /\ (~CallSyntax => x.form # "call" \/ x.name = "wal_checkpoint")
            /\ (~SchemaPrefix => (x.schema = "none" \/ (x.schema = "main" /\ x.name # "wal_autocheckpoint")))
            /\ (~QuotedName => x.quote = "plain" /\ x.schema # "quotedmain")
NoBypass == Dangerous(s) => Guard(s)
NoOverblock == (s.name \notin Critical \cup {"wal_checkpoint"}) => ~Guard(s)

Features(x) == (IF x.lead \in {"none", "space"} THEN {} ELSE {"lead=" \o x.lead})
          \cup (IF x.sep = "space" THEN {} ELSE {"sep=" \o x.sep})
          \cup (IF x.schema = "none" THEN {} ELSE {"schema=" \o x.schema})
          \cup (IF x.quote = "plain" THEN {} ELSE {"quote=" \o x.quote})
          \cup (IF x.form = "call" THEN {"form=call"} ELSE {})
          \cup (IF x.pos = "second" THEN {"pos=second"} ELSE {})
Emit == PrintT(<<"@@", ToJson([s |-> s, dangerous |-> Dangerous(s), features |-> Features(s)])>>)
=============================================================================
