-------------------------- MODULE TraceSnapshotting --------------------------
(* Trace validation of real single-node stores (one or more process lives on one data         *)
(* directory, ended by graceful close, by a kill, or by a kill at a gate inside a snapshot)    *)
(* against the logical content Snapshotting.tla requires: at every `open` and every `state`    *)
(* line the database must be exactly the acknowledged operations applied once, in order       *)
(* (Snapshotting!ExpectedL); an operation in flight when the process was killed may or may not *)
(* have taken effect; a load of invalid data must fail and change nothing; a node must start.  *)
(* Lines: reset | inv{k,pages,n} | ack{ok} | state{pages,rows,sum} | open{pages,rows,sum,...}  *)
(*        | openfail | snap | reap | closed | killed | end | note                              *)
(* A failed condition is recorded as <<line, name>> and validation continues (register 2).     *)
EXTENDS Snapshotting, Json, Integers

Trace == ndJsonDeserialize("trace.ndjson")
VARIABLES l, inflight, conf, bad
tvars == <<vars, l, inflight, conf, bad>>
NoOp == [on |-> FALSE]
Ev == Trace[l]
Is(e) == l <= Len(Trace) /\ Trace[l].ev = e
Step == l' = l + 1
Flag(b, cond, name) == IF cond THEN b ELSE b \cup {<<l, name>>}
Others == UNCHANGED <<logLo, up, dbfile, wal, modS, staging, snaps, fullNeeded, fp, pend, nsnap, ncrash>>

PageIdx(p) == CHOOSE i \in 1..Cardinality(Page) : ToString(i) = p
OpOf(e) == IF e.k = "w" THEN [k |-> "w", pages |-> {ToString(e.pages[i]) : i \in 1..Len(e.pages)}, v |-> e.n]
           ELSE [k |-> "load", pages |-> {}, v |-> 10 * e.n]
(* rows of table t: one per write since the last load, tagged with the op number *)
LastLoad(lg) == IF \E i \in 1..Len(lg) : lg[i].k = "load"
                THEN CHOOSE i \in 1..Len(lg) : lg[i].k = "load" /\ \A j \in (i+1)..Len(lg) : lg[j].k # "load" ELSE 0
RowsIn(lg) == {i \in (LastLoad(lg)+1)..Len(lg) : lg[i].k = "w"}
RECURSIVE SumV(_, _)
SumV(lg, S) == IF S = {} THEN 0 ELSE LET i == CHOOSE x \in S : TRUE IN lg[i].v + SumV(lg, S \ {i})
Matches(e, lg) == /\ \A p \in Page : e.pages[PageIdx(p)] = ExpectedL(lg, Len(lg))[p]
                  /\ e.rows = Cardinality(RowsIn(lg)) /\ e.sum = SumV(lg, RowsIn(lg))

TInit == Init /\ l = 1 /\ inflight = NoOp /\ conf = <<"n1:true">> /\ bad = {} /\ TLCSet(1, 0) /\ TLCSet(2, {})

TReset == /\ Is("reset") /\ Step /\ log' = <<>> /\ inflight' = NoOp /\ conf' = <<"n1:true">> /\ UNCHANGED bad /\ Others
Skip == /\ l <= Len(Trace) /\ Trace[l].ev \in {"snap", "reap", "closed", "killed", "end", "note"} /\ Step
        /\ UNCHANGED <<log, inflight, conf, bad>> /\ Others

Inv == /\ Is("inv") /\ Step /\ inflight' = [on |-> TRUE, op |-> OpOf(Ev), k |-> Ev.k] /\ UNCHANGED <<log, conf, bad>> /\ Others

(* an acknowledged operation is part of the history; a refused load of invalid data is not *)
Ack == /\ Is("ack") /\ Step
       /\ IF Ev.k = "LB"
          THEN /\ bad' = Flag(bad, ~Ev.ok, "invalid-load-accepted") /\ log' = log /\ inflight' = NoOp
          ELSE IF Ev.ok THEN /\ log' = Append(log, inflight.op) /\ inflight' = NoOp /\ UNCHANGED bad
               ELSE UNCHANGED <<log, inflight, bad>>                  \* outcome unknown: stays in flight until observed
       /\ UNCHANGED conf /\ Others

(* the live database equals the history; an operation of unknown outcome is resolved by what is seen *)
Observe(name) ==
  IF Matches(Ev, log) THEN /\ log' = log /\ inflight' = NoOp /\ UNCHANGED bad
  ELSE IF inflight.on /\ Matches(Ev, Append(log, inflight.op)) THEN /\ log' = Append(log, inflight.op) /\ inflight' = NoOp /\ UNCHANGED bad
  ELSE /\ bad' = Flag(bad, FALSE, name) /\ UNCHANGED <<log, inflight>>
State == /\ Is("state") /\ Step /\ Observe("live-database-is-not-the-acknowledged-history") /\ UNCHANGED conf /\ Others
(* C33: a node recovered from a peers file starts with exactly that configuration, and keeps it *)
Open1 == /\ Is("open") /\ Step /\ Others
         /\ conf' = IF Ev.recover THEN Ev.peers ELSE conf
         /\ IF Matches(Ev, log) THEN /\ log' = log /\ inflight' = NoOp
                                      /\ bad' = Flag(bad, ~("nodes" \in DOMAIN Ev) \/ Ev.nodes = conf', "configuration-is-not-the-peers-file")
            ELSE IF inflight.on /\ Matches(Ev, Append(log, inflight.op))
                 THEN /\ log' = Append(log, inflight.op) /\ inflight' = NoOp
                      /\ bad' = Flag(bad, ~("nodes" \in DOMAIN Ev) \/ Ev.nodes = conf', "configuration-is-not-the-peers-file")
            ELSE /\ bad' = Flag(bad, FALSE, "database-after-restart-is-not-the-acknowledged-history") /\ UNCHANGED <<log, inflight>>
OpenFail == /\ Is("openfail") /\ Step /\ bad' = Flag(bad, FALSE, "node-does-not-start") /\ UNCHANGED <<log, inflight, conf>> /\ Others

TNext == TReset \/ Skip \/ Inv \/ Ack \/ State \/ Open1 \/ OpenFail
TSpec == TInit /\ [][TNext]_tvars

HW == /\ TLCSet(1, IF l > TLCGet(1) THEN l ELSE TLCGet(1))
      /\ TLCSet(2, IF Cardinality(bad) >= Cardinality(TLCGet(2)) THEN bad ELSE TLCGet(2))
Accepted == /\ \A b \in TLCGet(2) : PrintT(<<"@@BAD", b[1], b[2]>>)
            /\ IF TLCGet(1) >= Len(Trace) + 1 THEN TRUE ELSE PrintT(<<"@@HW", TLCGet(1) - 1>>) /\ FALSE
            /\ TLCGet(2) = {}
=============================================================================
