SPECIFICATION SpecMrswLive
CONSTANTS
  Proc = {p1, p2}
  MaxIdx = 3
  MaxHolds = 1
  CASExclusive = TRUE
  WriterExcludesReaders = TRUE
  BlockingWakes = TRUE
  WakeAtTarget = TRUE
PROPERTY Proceeds
