SPECIFICATION TSpec
CONSTANTS
  NPages = 4
  Readers = {1, 2, 3}
  MaxWrites = 1000000
  MaxCkpt = 1000000
  ReaderPoints = {"idle", "check", "compact", "sqlite", "classify", "finish"}
  CanonicalPages = FALSE
  DisarmOnTruncate = TRUE
  ArmOnAllMoved = TRUE
  ResumeFromArmed = TRUE
  ResetBySalt = TRUE
  CancelOnError = TRUE
  BusyKeepsState = TRUE
CONSTRAINT HW
POSTCONDITION Accepted
CHECK_DEADLOCK FALSE
