SPECIFICATION Spec
CONSTANTS
  MaxLevel = 3
  ReleaseRate = 2
  HasIdle = TRUE
  ClampHigh = TRUE
  ClampLow = TRUE
  UseReleaseRate = TRUE
  IdleReset = FALSE
INVARIANTS InRange IdleCovers
PROPERTY StepSizes
CONSTRAINT Bound
