----------------------------- MODULE TraceSync -----------------------------
(* Trace validation of internal/rsync against Sync.tla.  Each ndjson line is one    *)
(* hook event emitted under the object's mutex (see /repo/internal/rsync, tag verif) *)
(* or one harness-side observation.  Read holds are anonymous in the code, so they   *)
(* are attributed to the pseudo-process "anon"; write owners are the owner strings.  *)
EXTENDS Sync, Json, Integers

Trace == ndJsonDeserialize("trace.ndjson")
VARIABLES l, pend,      \* pend: bag (target -> count) of wake events still owed by the last Signal
          claims        \* bag of hook events <<op, owner, ok>> not yet claimed by the caller's return
tvars == <<vars, l, pend, claims>>
ClaimOps == {"cas.begin", "mrsw.bread", "mrsw.breadb", "mrsw.bwrite", "mrsw.bwriteb", "mrsw.upgrade"}
Sigs == ClaimOps \X Proc \X BOOLEAN
NoClaims == [s \in Sigs |-> 0]
Claim(op, owner, ok) == claims' = [claims EXCEPT ![<<op, owner, ok>>] = @ + 1]
Ev == Trace[l]
Is(e) == l <= Len(Trace) /\ Trace[l].ev = e
Step == l' = l + 1
Max(a, b) == IF a > b THEN a ELSE b
NoPend == \A t \in DOMAIN pend : pend[t] = 0
EmptyPend == [t \in 1..MaxIdx |-> 0]

TInit == Init /\ l = 1 /\ pend = EmptyPend /\ claims = NoClaims /\ TLCSet(1, 0)

TReset == /\ Is("reset") /\ Step /\ NoPend
          /\ casHeld' = {} /\ rd' = [p \in Proc |-> 0] /\ wr' = {} /\ wt' = [p \in Proc |-> None]
          /\ cur' = 0 /\ subs' = {} /\ nsub' = 0 /\ pend' = EmptyPend /\ claims' = NoClaims

(* ---- CheckAndSet ---- *)
TCasBegin == /\ Is("cas.begin") /\ Step /\ Claim("cas.begin", Ev.owner, Ev.ok) /\ UNCHANGED pend
             /\ IF Ev.ok THEN CasBeginOK(Ev.owner) ELSE CasBeginFail(Ev.owner)
TCasEnd == /\ Is("cas.end") /\ Step /\ UNCHANGED claims /\ UNCHANGED pend
           /\ casHeld' = {} /\ UNCHANGED <<rd, wr, wt, cur, subs, nsub>>   \* End is unconditional in the code

(* ---- MultiRSW ---- *)
TBeginRead == /\ Is("mrsw.bread") /\ Step /\ Claim("mrsw.bread", "anon", Ev.ok) /\ UNCHANGED pend
              /\ IF Ev.ok THEN /\ CanRead /\ rd' = [rd EXCEPT !["anon"] = @ + 1] /\ Ev.readers = NReaders + 1
                               /\ UNCHANGED <<casHeld, wr, wt, cur, subs, nsub>>
                 ELSE BeginReadFail("anon")
TBeginReadB == /\ Is("mrsw.breadb") /\ Step /\ Claim("mrsw.breadb", "anon", TRUE) /\ UNCHANGED pend
               /\ CanRead /\ rd' = [rd EXCEPT !["anon"] = @ + 1] /\ Ev.readers = NReaders + 1
               /\ UNCHANGED <<casHeld, wr, wt, cur, subs, nsub>>
TEndRead == /\ Is("mrsw.eread") /\ Step /\ UNCHANGED claims /\ UNCHANGED pend
            /\ rd["anon"] > 0 /\ rd' = [rd EXCEPT !["anon"] = @ - 1] /\ Ev.readers = NReaders - 1
            /\ UNCHANGED <<casHeld, wr, wt, cur, subs, nsub>>
TBeginWrite == /\ Is("mrsw.bwrite") /\ Step /\ Claim("mrsw.bwrite", Ev.owner, Ev.ok) /\ UNCHANGED pend
               /\ IF Ev.ok THEN BeginWriteOK(Ev.owner) ELSE BeginWriteFail(Ev.owner)
TBeginWriteB == /\ Is("mrsw.bwriteb") /\ Step /\ Claim("mrsw.bwriteb", Ev.owner, TRUE) /\ UNCHANGED pend
                /\ CanWrite /\ wr' = wr \cup {Ev.owner} /\ UNCHANGED <<casHeld, rd, wt, cur, subs, nsub>>
TEndWrite == /\ Is("mrsw.ewrite") /\ Step /\ UNCHANGED claims /\ UNCHANGED pend
             /\ wr # {} /\ wr' = {} /\ UNCHANGED <<casHeld, rd, wt, cur, subs, nsub>>
TUpgrade == /\ Is("mrsw.upgrade") /\ Step /\ Claim("mrsw.upgrade", Ev.owner, Ev.ok) /\ UNCHANGED pend
            /\ IF Ev.ok THEN /\ NReaders = 1 /\ wr = {} /\ rd' = [p \in Proc |-> 0] /\ wr' = {Ev.owner}
                             /\ UNCHANGED <<casHeld, wt, cur, subs, nsub>>
               ELSE (wr # {} \/ NReaders > 1) /\ UNCHANGED vars
(* a goroutine found blocked in a blocking acquire long after everybody else finished *)
TStuck == /\ Is("stuck") /\ Step /\ UNCHANGED claims /\ UNCHANGED pend /\ UNCHANGED vars
          /\ IF Ev.kind = "r" THEN ~CanRead ELSE ~CanWrite

(* ---- ReadyTarget ---- *)
TSub == /\ Is("rt.sub") /\ Step /\ UNCHANGED claims /\ NoPend /\ UNCHANGED pend
        /\ Ev.cur = cur /\ Ev.closed = (Ev.target <= cur) /\ Subscribe(Ev.target)
TSignal == /\ Is("rt.signal") /\ Step /\ UNCHANGED claims /\ NoPend
           /\ Ev.ignored = (Ev.index <= cur) /\ Signal(Ev.index) /\ Ev.cur = cur'
           /\ pend' = [t \in 1..MaxIdx |-> IF Ev.index <= cur THEN 0 ELSE Cardinality({s \in WakeSet(Ev.index) : s.target = t})]
TWake == /\ Is("rt.wake") /\ Step /\ UNCHANGED claims /\ Ev.target \in DOMAIN pend /\ pend[Ev.target] > 0
         /\ pend' = [pend EXCEPT ![Ev.target] = @ - 1] /\ UNCHANGED vars
TUnsub == /\ Is("rt.unsub") /\ Step /\ UNCHANGED claims /\ NoPend /\ UNCHANGED pend
          /\ \E s \in subs : s.live /\ s.target = Ev.target /\ Unsubscribe(s)
TRtReset == /\ Is("rt.reset") /\ Step /\ UNCHANGED claims /\ NoPend /\ UNCHANGED pend /\ RtReset
(* harness observation of subscription #id's channel at a quiescent point *)
TObs == /\ Is("obs.chan") /\ Step /\ UNCHANGED claims /\ NoPend /\ UNCHANGED pend /\ UNCHANGED vars
        /\ \E s \in subs : s.id = Ev.id /\ s.target = Ev.target /\ Ev.closed = ~s.open

(* the caller observed this result: some hook event must explain it *)
TRet == /\ Is("ret") /\ Step /\ UNCHANGED pend /\ UNCHANGED vars
        /\ claims[<<Ev.op, Ev.owner, Ev.ok>>] > 0
        /\ claims' = [claims EXCEPT ![<<Ev.op, Ev.owner, Ev.ok>>] = @ - 1]

TNext == \/ TRet \/ TReset \/ TCasBegin \/ TCasEnd \/ TBeginRead \/ TBeginReadB \/ TEndRead \/ TBeginWrite
         \/ TBeginWriteB \/ TEndWrite \/ TUpgrade \/ TStuck \/ TSub \/ TSignal \/ TWake \/ TUnsub
         \/ TRtReset \/ TObs
TSpec == TInit /\ [][TNext]_tvars

HW == TLCSet(1, Max(l, TLCGet(1)))
Accepted == IF TLCGet(1) >= Len(Trace) + 1 THEN TRUE
            ELSE PrintT(<<"@@HW", TLCGet(1) - 1>>) /\ FALSE
=============================================================================
