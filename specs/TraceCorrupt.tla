---------------------------- MODULE TraceCorrupt ----------------------------
(* Observations of the real snapshot store judged by Corrupt.tla.  Each line is one class of   *)
(* runs of the harness: the corruption (file, place, when), the consumer, and what the real    *)
(* code did - was an integrity error raised, was anything restored / installed, and does it    *)
(* equal what the uncorrupted store yields.                                                    *)
(*   Good      the property: an uncorrupted store is used without complaint; altered data is   *)
(*             never restored or installed; corruption present at start in a file the consumer *)
(*             uses is reported before use.  A line that is not Good is flagged @@BAD.         *)
(*   Conforms  the real code raised an error exactly when the design (every mechanism on) does.*)
(*             A Good line that does not conform is flagged @@DEV (a deviation from the design *)
(*             without altered data being used - reported, not a violation).                   *)
(* Lines are independent, so validation continues after a flag.                                *)
EXTENDS Corrupt

Trace == ndJsonDeserialize("trace.ndjson")
VARIABLE l
tvars == <<vars, l>>
Ev == Trace[l]
Max2(a, b) == IF a > b THEN a ELSE b
TInit == st = InitSt /\ cor = NoCorruption /\ plan = "open-restore" /\ step = 0 /\ l = 1
         /\ TLCSet(1, 0) /\ TLCSet(2, 0)
Corrupting(e) == e.place \notin {"-", "sidecar-equivalent"}
Good(e) ==
  /\ e.consumer \in Consumers /\ ~(e.detected /\ e.used)
  /\ IF ~Corrupting(e) THEN ~e.detected /\ e.used /\ e.altered = "no"
     ELSE /\ e.file \in Files /\ e.place \in Places /\ e.when \in Whens
          /\ (e.used => e.altered = "no")
          /\ (e.when = "before-open" /\ e.file \in Chain => e.detected)
Design(e) == IF Corrupting(e) THEN Outcome(e.file, e.place, e.when, e.consumer)
             ELSE Outcome("-", "-", "-", e.consumer)
Conforms(e) == e.detected = Design(e).detected
TCase == /\ l <= Len(Trace) /\ l' = l + 1 /\ UNCHANGED vars
         /\ IF ~Good(Ev) THEN PrintT(<<"@@BAD", l>>) /\ TLCSet(2, TLCGet(2) + 1)
            ELSE IF ~Conforms(Ev) THEN PrintT(<<"@@DEV", l>>) ELSE TRUE
TSpec == TInit /\ [][TCase]_tvars
HW == TLCSet(1, Max2(l, TLCGet(1)))
Accepted == IF TLCGet(1) >= Len(Trace) + 1 /\ TLCGet(2) = 0 THEN TRUE
            ELSE PrintT(<<"@@HW", TLCGet(1) - 1>>) /\ PrintT(<<"@@NBAD", TLCGet(2)>>) /\ FALSE
=============================================================================
