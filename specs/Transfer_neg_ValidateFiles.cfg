SPECIFICATION Spec
CONSTANTS
  MaxWals = 2
  MaxChunk = 12
  CheckSizes = TRUE
  CRCOnInstall = TRUE
  CRCOnRestore = TRUE
  RejectTrailing = TRUE
  ValidateFiles = FALSE
  CompressionTransparent = TRUE
  ZeroCRCCompared = TRUE
INVARIANTS SinkAcceptedIsSource
