SPECIFICATION Spec
CONSTANTS
  NWals = 2
  VerifyBeforeFirstUse = TRUE
  VerifyAtStartRestore = TRUE
  HeaderCarriesRecordedCRC = TRUE
  ReceiverRecomputes = TRUE
  VerifyBeforeConsolidate = TRUE
INVARIANTS TypeOK StartCorruptionNeverUsed RunCorruptionNeverServed EarlyStartDetection NoFalseDetection OutcomeAgrees
