SPECIFICATION TSpec
CONSTANTS
  UpgradeStrong = TRUE
  VerifyQuorum = TRUE
  RecheckTerm = TRUE
CONSTRAINT HW
POSTCONDITION Accepted
CHECK_DEADLOCK FALSE
