SPECIFICATION Spec
CONSTANTS
  BoundedRead = TRUE
  NilRequestChecked = TRUE
  UnknownHeaderClosed = TRUE
  AuthBeforeEffect = TRUE
  MaxFrames = 2
  Muxes = {"cluster", "raft", "unknown"}
INVARIANTS Alive MemBounded StateChangeAuthorized MalformedRejected RespAsExpected
