SPECIFICATION Spec
CONSTANTS
  Node = {n1, n2, n3}
  Voter = {n1, n2, n3}
  MaxTerm = 2
  MaxLog = 4
  NonCmdKinds = {}
  WarmStart = TRUE
  MaxRestarts = 1
  UpgradeStrong = TRUE
  VerifyQuorum = TRUE
  RecheckTerm = TRUE
  StrongThroughLog = TRUE
  SignalConfig = TRUE
  SignalBarrier = TRUE
  MaxSnaps = 1
  SnapAtApplied = TRUE
  InstallReplacesDb = TRUE
  SignalRestore = FALSE
SYMMETRY Sym
INVARIANTS StateMachineSafety OneLeaderPerTerm ReadLin NoStuckRead ServedAfterProtocol DbIsLogPrefix SnapshotIsLogPrefix ReadSeesAcked
