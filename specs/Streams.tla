------------------------------ MODULE Streams ------------------------------
(* rqlite snapshot.Store: open snapshot streams (LockingStreamer) vs. sinks vs. reaping.     *)
(* The store's MultiRSW lock is NOT re-modelled: the MRSW part of Sync.tla is reused          *)
(* (rd, wr, wt; BeginReadOK / EndRead / StartBlocking / BlockCheck / BeginWriteOK / EndWrite).*)
(* Read holds are anonymous in the code (a counter), so all of them belong to the pseudo      *)
(* process "anon"; "reap" is the auto-reaper goroutine (reapLoop, BeginWriteBlocking),        *)
(* "xreap" a caller of Store.Reap() (non-blocking BeginWrite).                                *)
(*                                                                                            *)
(* One action per critical section of snapshot/store.go as written:                           *)
(*   Open            BeginRead + open fds + NewLockingStreamer (timer armed)                  *)
(*   Read            LockingStreamer.Read (timedOut check, read fds, lastRead := now)          *)
(*   Pause           the consumer stops reading for longer than the idle timeout              *)
(*   CloseEnter/Exit LockingStreamer.Close under l.mu: closed-guard, closed := T, timer.Stop, *)
(*                   close fds | deferred EndRead, unlock                                      *)
(*   TimerFire       the runtime starts checkIdle (time.AfterFunc)                             *)
(*   IdleEnter/Exit  checkIdle under l.mu: closed-guard, re-arm if active, else timedOut,      *)
(*                   closed := T, close fds | EndRead, unlock                                   *)
(*   SinkCreate/SinkClose   tmp dir, then atomic rename + non-blocking signal (no lock)       *)
(*   ReapTake, ReapBeginBlocking, ReapCheck, ReapMutate, ReapEnd      reapLoop                *)
(*   XBegin, XMutate, XEnd                                             Store.Reap()            *)
(* Mechanism switches (TRUE = the design):                                                    *)
(*   StreamHoldsReadLock   the read lock taken by Open is kept until the streamer is closed   *)
(*   ReleaseOnce           Close / checkIdle return early when `closed` is already set        *)
(*   IdleForceClose        an idle timer exists and force-closes a stalled streamer           *)
(*   ReaperWaitsForReaders BeginWriteBlocking re-checks the reader count after every wake-up  *)
EXTENDS Sync

CONSTANTS Streamer, MaxOpens, MaxSinks, MaxX, Threshold, ReadLen,
          StreamHoldsReadLock, ReleaseOnce, IdleForceClose, ReaperWaitsForReaders

Anon == "anon"
RW   == "reap"
XW   == "xreap"
ASSUME {Anon, RW, XW} \subseteq Proc

VARIABLES ls,      \* Streamer -> [st, closed, ncl, rel, gen]   the LockingStreamer object
          cx,      \* Streamer -> [lmu, timer, idle, tout, left, opens, cons]  consumer / timer / l.mu
          snaps,   \* number of visible snapshot directories
          tmp,     \* a sink's temporary directory exists
          nsink,   \* sinks closed so far
          gen,     \* generation of the snapshot files on disk (every reap mutation rewrites/removes)
          sig,     \* reapCh holds a token
          rp,      \* reaper pc: "idle" | "want" | "acq" | "locked" | "mutated"
          rslept,  \* the reaper slept on readers at least once during this acquisition
          xp,      \* Store.Reap() caller pc: "idle" | "locked" | "mutated"
          nx,      \* Store.Reap() calls so far
          mut,     \* a reap is mutating the store (between plan execution start and EndWrite)
          flags    \* history: {"underflow", "stale"}

svars == <<ls, cx, snaps, tmp, nsink, gen, sig, rp, rslept, xp, nx, mut, flags>>
allvars == <<vars, svars>>
syncRest == <<casHeld, cur, subs, nsub>>

NoLS == [st |-> "none", closed |-> FALSE, ncl |-> 0, rel |-> 0, gen |-> 0]
NewLS(g) == [st |-> "open", closed |-> FALSE, ncl |-> 0, rel |-> 0, gen |-> g]
NoCX == [lmu |-> "free", timer |-> "off", idle |-> FALSE, tout |-> FALSE, left |-> 0, opens |-> 0, cons |-> "none"]

SInit == /\ Init
         /\ ls = [s \in Streamer |-> NoLS] /\ cx = [s \in Streamer |-> NoCX]
         /\ snaps = 1 /\ tmp = FALSE /\ nsink = 0 /\ gen = 0 /\ sig = FALSE
         /\ rp = "idle" /\ rslept = FALSE /\ xp = "idle" /\ nx = 0 /\ mut = FALSE /\ flags = {}

Live(s) == ls[s].st = "open" /\ ~ls[s].closed       \* the streamer's file descriptors are open

----------------------------------------------------------------------------
(* streams *)
Open(s) ==
  /\ \/ cx[s].cons = "none"
     \/ cx[s].cons = "gone" /\ cx[s].timer # "fired" /\ cx[s].lmu = "free"
  /\ cx[s].opens < MaxOpens
  /\ wr = {}                                   \* BeginRead fails while a writer is active (OpenFail)
  /\ IF StreamHoldsReadLock THEN BeginReadOK(Anon) ELSE UNCHANGED vars
  /\ ls' = [ls EXCEPT ![s] = NewLS(gen)]
  /\ cx' = [cx EXCEPT ![s] = [lmu |-> "free", timer |-> IF IdleForceClose THEN "armed" ELSE "off", idle |-> FALSE,
                              tout |-> FALSE, left |-> ReadLen, opens |-> @.opens + 1, cons |-> "active"]]
  /\ UNCHANGED <<snaps, tmp, nsink, gen, sig, rp, rslept, xp, nx, mut, flags>>

OpenFail(s) == /\ cx[s].cons \in {"none", "gone"} /\ cx[s].opens < MaxOpens /\ wr # {} /\ UNCHANGED allvars

Read(s) ==
  /\ cx[s].cons = "active" /\ cx[s].left > 0
  /\ IF cx[s].tout \/ ls[s].closed
     THEN /\ cx' = [cx EXCEPT ![s].left = 0]                     \* ErrSnapshotReaderTimeout / file already closed
          /\ flags' = flags
     ELSE /\ cx' = [cx EXCEPT ![s].left = @ - 1, ![s].idle = FALSE]
          /\ flags' = IF gen # ls[s].gen THEN flags \cup {"stale"} ELSE flags
  /\ UNCHANGED <<vars, ls, snaps, tmp, nsink, gen, sig, rp, rslept, xp, nx, mut>>

Pause(s) == /\ cx[s].cons = "active" /\ ~cx[s].idle /\ cx' = [cx EXCEPT ![s].idle = TRUE]
            /\ UNCHANGED <<vars, ls, snaps, tmp, nsink, gen, sig, rp, rslept, xp, nx, mut, flags>>

(* the EndRead made on behalf of streamer s *)
Release(s) ==
  /\ ls' = [ls EXCEPT ![s].rel = @ + 1]
  /\ IF StreamHoldsReadLock
     THEN IF rd[Anon] > 0 THEN EndRead(Anon) /\ flags' = flags
                          ELSE UNCHANGED vars /\ flags' = flags \cup {"underflow"}   \* "reader count went negative"
     ELSE UNCHANGED vars /\ flags' = flags

CloseEnter(s) ==
  /\ cx[s].cons = "active" /\ cx[s].lmu = "free"
  /\ IF ReleaseOnce /\ ls[s].closed
     THEN cx' = [cx EXCEPT ![s].cons = "gone"] /\ ls' = ls
     ELSE /\ ls' = [ls EXCEPT ![s].closed = TRUE, ![s].ncl = @ + 1]
          /\ cx' = [cx EXCEPT ![s].lmu = "close", ![s].timer = IF @ = "armed" THEN "off" ELSE @]
  /\ UNCHANGED <<vars, snaps, tmp, nsink, gen, sig, rp, rslept, xp, nx, mut, flags>>
CloseExit(s) ==
  /\ cx[s].lmu = "close" /\ Release(s)
  /\ cx' = [cx EXCEPT ![s].lmu = "free", ![s].cons = "gone"]
  /\ UNCHANGED <<snaps, tmp, nsink, gen, sig, rp, rslept, xp, nx, mut>>

TimerFire(s) == /\ cx[s].timer = "armed" /\ cx' = [cx EXCEPT ![s].timer = "fired"]
                /\ UNCHANGED <<vars, ls, snaps, tmp, nsink, gen, sig, rp, rslept, xp, nx, mut, flags>>
IdleEnter(s) ==
  /\ cx[s].timer = "fired" /\ cx[s].lmu = "free"
  /\ IF ReleaseOnce /\ ls[s].closed
     THEN cx' = [cx EXCEPT ![s].timer = "off"] /\ ls' = ls
     ELSE IF ~cx[s].idle
          THEN cx' = [cx EXCEPT ![s].timer = "armed"] /\ ls' = ls                 \* timer.Reset(remaining)
          ELSE /\ ls' = [ls EXCEPT ![s].closed = TRUE, ![s].ncl = @ + 1]
               /\ cx' = [cx EXCEPT ![s].lmu = "idle", ![s].timer = "off", ![s].tout = TRUE]
  /\ UNCHANGED <<vars, snaps, tmp, nsink, gen, sig, rp, rslept, xp, nx, mut, flags>>
IdleExit(s) ==
  /\ cx[s].lmu = "idle" /\ Release(s)
  /\ cx' = [cx EXCEPT ![s].lmu = "free"]
  /\ UNCHANGED <<snaps, tmp, nsink, gen, sig, rp, rslept, xp, nx, mut>>

----------------------------------------------------------------------------
(* sinks: no lock; the snapshot becomes visible by one atomic rename, then the reaper is signalled *)
SinkCreate == /\ ~tmp /\ nsink < MaxSinks /\ tmp' = TRUE
              /\ UNCHANGED <<vars, ls, cx, snaps, nsink, gen, sig, rp, rslept, xp, nx, mut, flags>>
SinkClose  == /\ tmp /\ tmp' = FALSE /\ snaps' = snaps + 1 /\ nsink' = nsink + 1 /\ sig' = TRUE
              /\ UNCHANGED <<vars, ls, cx, gen, rp, rslept, xp, nx, mut, flags>>

----------------------------------------------------------------------------
(* reaping *)
Mutation == IF snaps > 1 THEN gen' = gen + 1 /\ snaps' = 1 ELSE UNCHANGED <<gen, snaps>>

ReapTake == /\ rp = "idle" /\ sig /\ sig' = FALSE
            /\ rp' = IF snaps >= Threshold THEN "want" ELSE "idle"
            /\ UNCHANGED <<vars, ls, cx, snaps, tmp, nsink, gen, rslept, xp, nx, mut, flags>>
ReapBeginBlocking == /\ rp = "want" /\ StartBlocking(RW, "w") /\ rp' = "acq" /\ rslept' = FALSE
                     /\ UNCHANGED <<ls, cx, snaps, tmp, nsink, gen, sig, xp, nx, mut, flags>>
ReapCheck ==
  /\ rp = "acq" /\ wt[RW].kind = "w" /\ wt[RW].st = "check"
  /\ IF ~ReaperWaitsForReaders /\ rslept /\ wr = {}
     THEN /\ wr' = {RW} /\ wt' = [wt EXCEPT ![RW] = None] /\ UNCHANGED <<rd, syncRest>>   \* no re-check of the readers
          /\ rp' = "locked" /\ rslept' = rslept
     ELSE /\ BlockCheck(RW)
          /\ rp' = IF CanWrite THEN "locked" ELSE "acq"
          /\ rslept' = (rslept \/ (wr = {} /\ NReaders > 0))
  /\ UNCHANGED <<ls, cx, snaps, tmp, nsink, gen, sig, xp, nx, mut, flags>>
ReapMutate == /\ rp = "locked" /\ rp' = "mutated" /\ mut' = TRUE /\ Mutation
              /\ UNCHANGED <<vars, ls, cx, tmp, nsink, sig, rslept, xp, nx, flags>>
ReapEnd == /\ rp = "mutated" /\ EndWrite(RW) /\ rp' = "idle" /\ mut' = FALSE
           /\ UNCHANGED <<ls, cx, snaps, tmp, nsink, gen, sig, rslept, xp, nx, flags>>

XBegin == /\ xp = "idle" /\ nx < MaxX /\ nx' = nx + 1
          /\ IF CanWrite THEN BeginWriteOK(XW) /\ xp' = "locked" ELSE UNCHANGED vars /\ xp' = xp   \* MRSW conflict returned
          /\ UNCHANGED <<ls, cx, snaps, tmp, nsink, gen, sig, rp, rslept, mut, flags>>
XMutate == /\ xp = "locked" /\ xp' = "mutated" /\ mut' = TRUE /\ Mutation
           /\ UNCHANGED <<vars, ls, cx, tmp, nsink, sig, rp, rslept, nx, flags>>
XEnd == /\ xp = "mutated" /\ EndWrite(XW) /\ xp' = "idle" /\ mut' = FALSE
        /\ UNCHANGED <<ls, cx, snaps, tmp, nsink, gen, sig, rp, rslept, nx, flags>>

SNext == \/ \E s \in Streamer : \/ Open(s) \/ OpenFail(s) \/ Read(s) \/ Pause(s) \/ CloseEnter(s) \/ CloseExit(s)
                                \/ TimerFire(s) \/ IdleEnter(s) \/ IdleExit(s)
         \/ SinkCreate \/ SinkClose
         \/ ReapTake \/ ReapBeginBlocking \/ ReapCheck \/ ReapMutate \/ ReapEnd
         \/ XBegin \/ XMutate \/ XEnd

----------------------------------------------------------------------------
(* the property *)
ReadersNonNegative == "underflow" \notin flags
WriterExcludes     == MrswExclusion                                   \* writer => readers = 0, at most one writer
LockCoversStreams  == NReaders >= Cardinality({s \in Streamer : Live(s)})
NoReapWhileOpen    == mut => (wr # {} /\ \A s \in Streamer : ~Live(s))
StreamsSeeOwnContent == "stale" \notin flags
ReleaseExactlyOnce == \A s \in Streamer : /\ ls[s].rel <= 1 /\ ls[s].ncl <= 1
                                          /\ (ls[s].rel = 1 => ls[s].closed)
                                          /\ (ls[s].closed /\ cx[s].lmu = "free" => ls[s].rel = 1)
ReaperSleepsOnlyWhenBusy == NoLostWake

(* liveness, under fairness, no state constraint: a waiting reaper gets the lock, although consumers *)
(* may stall for ever (Pause without a later Close): the idle timer force-closes them.               *)
(* One weak-fairness condition per process; the steps of one process are enabled one at a time. *)
ReaperStep   == ReapTake \/ ReapBeginBlocking \/ ReapCheck \/ ReapMutate \/ ReapEnd
XStep        == XMutate \/ XEnd
TimerStep(s) == TimerFire(s) \/ IdleEnter(s) \/ IdleExit(s)
ConsumerStep(s) == CloseExit(s) \/ (CloseEnter(s) /\ ~cx[s].idle)    \* an ACTIVE consumer finishes; a stalled one need not
SFair == /\ WF_allvars(ReaperStep) /\ WF_allvars(XStep)
         /\ \A s \in Streamer : WF_allvars(TimerStep(s)) /\ WF_allvars(ConsumerStep(s))
ReapProceeds  == (rp = "acq") ~> (rp = "locked")
StalledClosed == \A s \in Streamer : (Live(s) /\ cx[s].idle) ~> (~Live(s) \/ ~cx[s].idle)

SSpec     == SInit /\ [][SNext]_allvars
SSpecLive == SInit /\ [][SNext]_allvars /\ SFair
=============================================================================
