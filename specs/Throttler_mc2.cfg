SPECIFICATION Spec
CONSTANTS
  MaxLevel = 6
  ReleaseRate = 3
  HasIdle = TRUE
  ClampHigh = TRUE
  ClampLow = TRUE
  UseReleaseRate = TRUE
  IdleReset = TRUE
INVARIANTS InRange IdleCovers
PROPERTY StepSizes
CONSTRAINT Bound
