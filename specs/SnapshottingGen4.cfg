SPECIFICATION GSpec
CONSTANTS
  Page = {"1", "2"}
  MaxIdx = 4
  MaxSnapOps = 3
  MaxCrashes = 1
  AllowRecover = TRUE
  FingerprintGate = TRUE
  FPVouchesForVisible = TRUE
  CleanStagingOnNewBase = TRUE
  FullAfterLoad = TRUE
  RecoverDiscardsFile = TRUE
  ClearFlagOnlyIfCovers = TRUE
INVARIANTS LiveOK Rebuild
CONSTRAINT Emit
VIEW View
