SPECIFICATION TSpec
CONSTANTS
  MaxIdx = 1000000000
  MaxFail = 1000000000
  MaxRestart = 1000000000
  IndexBeforeProvide = TRUE
  SkipIfUnchanged = TRUE
  RecordOnlyOnSuccess = TRUE
  PublishAfterApply = TRUE
  IndexIsDBApplied = TRUE
  CheckCurrentID = TRUE
INVARIANTS NoBad TypeOK LabelCovered FailedNotRecorded NoMissedChange NoUploadWithoutChange QuiescentEqual
CONSTRAINT HW
POSTCONDITION Accepted
CHECK_DEADLOCK FALSE
