SPECIFICATION Spec
CONSTANTS
  RewriteAllSites = FALSE
  RewriteOnEndpoint <- AllEndpoints
  SingleApplyPath = TRUE
  SiteIndependent = TRUE
  Mode = "mc"
  MaxReq = 2
  MaxClock = 2
  MaxSnaps = 1
  MaxStmts = 3
  McAlphabet = "small"
  Reduced = FALSE
VIEW McView
INVARIANTS Converge
