SPECIFICATION Spec
CONSTANTS
  Node = {n1, n2, n3}
  MaxTerm = 2
  MaxLog = 3
  NonCmdKinds = {}
  WarmStart = FALSE
  UpgradeStrong = TRUE
  VerifyQuorum = TRUE
  RecheckTerm = TRUE
  StrongThroughLog = FALSE
  SignalConfig = TRUE
  SignalBarrier = TRUE
SYMMETRY Sym
INVARIANTS ReadLin
