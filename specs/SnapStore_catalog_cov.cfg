SPECIFICATION CatSpec
CONSTANTS
  IgnoreTmp = TRUE
  OrderTermIndexId = TRUE
  GateIncOnFullNeeded = TRUE
  GateAtClose = FALSE
  ClearOnSuccessOnly = TRUE
  PlanBeforeMutation = TRUE
  ResumeOnOpen = TRUE
  IdempotentOps = TRUE
  LeftoverWALFirst = TRUE
  LastOpDoneShortcut = TRUE
  TmpCleanAfterResume = TRUE
  Sinks = {"s1", "s2"}
  MaxId = 3
  MaxWal = 2
  MaxTerm = 2
  MaxIdx = 2
  GenDepth = 14
  AtomicClose = TRUE
  OlderSel = {0}
  MaxFullWals = 0
  MaxIncs = 0
  MaxIncWals = 1
  TmpSel = {FALSE}
  MaxCrashes = 0
INVARIANTS EmitHist
VIEW GenView
