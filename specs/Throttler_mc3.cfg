SPECIFICATION Spec
CONSTANTS
  MaxLevel = 0
  ReleaseRate = 1
  HasIdle = TRUE
  ClampHigh = TRUE
  ClampLow = TRUE
  UseReleaseRate = TRUE
  IdleReset = TRUE
INVARIANTS InRange IdleCovers
PROPERTY StepSizes
CONSTRAINT Bound
