SPECIFICATION TSpec
CONSTANTS
  MaxIdx = 1000000
  MaxOps = 1000000
  PersistHighest = TRUE
  IgnoreAtOrBelow = TRUE
  CursorMonotone = TRUE
  DeleteExactly = TRUE
INVARIANTS Increasing Durable HighestRemembered StoredIncreasing NoStranded HeadValid
CONSTRAINT HW
POSTCONDITION Accepted
CHECK_DEADLOCK FALSE
