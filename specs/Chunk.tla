-------------------------------- MODULE Chunk --------------------------------
(* rqlite command/chunking: Chunker.Next (sender) and Dechunker.WriteChunk (receiver).          *)
(* Data is abstracted to its length N (in units), the chunk size to S units.  The reader feeding *)
(* the chunker either reports EOF on a separate, empty read ("sep") or together with the last    *)
(* bytes ("with"), or dribbles one unit per read ("dribble").  Next is transcribed from the      *)
(* code: read until S units or EOF; EOF sets `finished`; zero units read => EOF if nothing was   *)
(* sent, else a final empty chunk flagged last.  Switch LastWhenFinished (TRUE = design): a      *)
(* chunk is flagged last when the reader has hit EOF, not only when it is short.                 *)
EXTENDS Naturals, Sequences, FiniteSets, TLC, Json

CONSTANTS MaxS, EofWithDataSeen, LastWhenFinished, StreamIdCheck, SeqCheck
(* EofWithDataSeen = FALSE is the code as written: `_, err = gw.Write(..)` overwrites the read    *)
(* error, so an EOF delivered together with data is only noticed on the next (empty) read.        *)
(* A chunker that does notice it (TRUE) must flag the chunk last when finished (LastWhenFinished).*)

Variants == {"sep", "with", "dribble"}
Tampers  == {"none", "dup", "skip", "foreign", "swap"}
Cases == [n : 0..(3 * MaxS + 1), s : 1..MaxS, rd : Variants, tamper : Tampers, at : 1..4]

VARIABLE c
vars == <<c>>
Init == c \in {x \in Cases : x.n <= 3 * x.s + 1}
Next == UNCHANGED c
Spec == Init /\ [][Next]_vars

(* ---- sender: the list of chunks produced until Next returns EOF ---- *)
(* st = [rem, seq, fin, out] *)
RECURSIVE Send(_, _)
Send(x, st) ==
  IF st.fin THEN st.out
  ELSE LET take == IF st.rem < x.s THEN st.rem ELSE x.s
           \* did the reader report EOF during this call?
           eof  == IF x.rd = "with" /\ EofWithDataSeen THEN (st.rem <= x.s)   \* EOF arrives with the last bytes
                   ELSE (st.rem < x.s)                                       \* a further, empty read is needed to see EOF
       IN IF take = 0
          THEN IF st.seq = 0 THEN st.out
               ELSE Append(st.out, [seq |-> st.seq + 1, len |-> 0, last |-> TRUE])
          ELSE Send(x, [rem |-> st.rem - take, seq |-> st.seq + 1, fin |-> eof,
                        out |-> Append(st.out, [seq |-> st.seq + 1, len |-> take,
                                                last |-> (take < x.s) \/ (LastWhenFinished /\ eof)])])
Chunks(x) == Send(x, [rem |-> x.n, seq |-> 0, fin |-> FALSE, out |-> <<>>])

(* ---- what the channel delivers ---- *)
Deliver(x) ==
  LET ch == Chunks(x)
      k  == IF x.at <= Len(ch) THEN x.at ELSE Len(ch) IN
  IF ch = <<>> \/ x.tamper = "none" THEN [i \in 1..Len(ch) |-> [ch[i] EXCEPT !.seq = ch[i].seq] @@ [sid |-> "a"]]
  ELSE LET tag == [i \in 1..Len(ch) |-> ch[i] @@ [sid |-> "a"]] IN
       CASE x.tamper = "dup"     -> SubSeq(tag, 1, k) \o <<tag[k]>> \o SubSeq(tag, k + 1, Len(tag))
         [] x.tamper = "skip"    -> SubSeq(tag, 1, k - 1) \o SubSeq(tag, k + 1, Len(tag))
         [] x.tamper = "foreign" -> SubSeq(tag, 1, k) \o <<[tag[k] EXCEPT !.sid = "b", !.seq = tag[k].seq + 1]>> \o SubSeq(tag, k + 1, Len(tag))
         [] x.tamper = "swap"    -> IF k < Len(tag) THEN SubSeq(tag, 1, k - 1) \o <<tag[k + 1], tag[k]>> \o SubSeq(tag, k + 2, Len(tag))
                                    ELSE tag

(* ---- receiver: st = [sid, seq, got, done, rej] ; a rejected chunk leaves the state unchanged ---- *)
RECURSIVE Recv(_, _, _)
Recv(d, i, st) ==
  IF i > Len(d) THEN st
  ELSE LET ck == d[i] IN
       IF st.done THEN Recv(d, i + 1, [st EXCEPT !.rej = @ + 1])     \* harness stops feeding after last; counted as rejected
       ELSE IF StreamIdCheck /\ st.sid # "" /\ st.sid # ck.sid THEN Recv(d, i + 1, [st EXCEPT !.rej = @ + 1])
       ELSE IF SeqCheck /\ ck.seq # st.seq + 1 THEN Recv(d, i + 1, [st EXCEPT !.rej = @ + 1])
       ELSE Recv(d, i + 1, [st EXCEPT !.sid = (IF st.sid = "" THEN ck.sid ELSE st.sid), !.seq = ck.seq, !.got = @ + ck.len, !.done = ck.last,
                                    !.foreign = @ \/ (st.sid # "" /\ st.sid # ck.sid)])
Received(x) == Recv(Deliver(x), 1, [sid |-> "", seq |-> 0, got |-> 0, done |-> FALSE, rej |-> 0, foreign |-> FALSE])

----------------------------------------------------------------------------
NLast(ch) == Cardinality({i \in 1..Len(ch) : ch[i].last})
SumLen(ch) == LET RECURSIVE S(_) S(i) == IF i = 0 THEN 0 ELSE ch[i].len + S(i - 1) IN S(Len(ch))
(* the sender's chunk sequence is well formed *)
SenderOK == LET ch == Chunks(c) IN
              /\ SumLen(ch) = c.n
              /\ \A i \in 1..Len(ch) : ch[i].seq = i /\ ch[i].len <= c.s
              /\ (c.n = 0 => ch = <<>>)
              /\ (c.n > 0 => NLast(ch) = 1 /\ ch[Len(ch)].last)
SenderOKOn(ch, n, sz) == /\ SumLen(ch) = n
                         /\ \A i \in 1..Len(ch) : ch[i].seq = i /\ ch[i].len <= sz
                         /\ (n = 0 => ch = <<>>)
                         /\ (n > 0 => NLast(ch) = 1 /\ ch[Len(ch)].last)
(* in-order delivery reassembles exactly the original and completes *)
Reassembled == c.tamper = "none" /\ c.n > 0 => Received(c).got = c.n /\ Received(c).done /\ Received(c).rej = 0
(* a tampered delivery never completes with the wrong content *)
NoWrongContent == (Received(c).done => Received(c).got = c.n) /\ ~Received(c).foreign

Emit == PrintT(<<"@@", ToJson([c |-> c, chunks |-> Chunks(c), deliver |-> Deliver(c),
                               got |-> Received(c).got, done |-> Received(c).done, rej |-> Received(c).rej])>>)
=============================================================================
