--------------------------- MODULE ReplicaRewriteEq ---------------------------
(* Replica.tla transcribes the site space, MustRewrite and the rewriter's design from Rewrite.tla  *)
(* (C14).  This module instantiates both and checks, as ASSUMEs over the whole one-site space      *)
(* (every write slot x every call site), that the two agree for both values of the switch.         *)
EXTENDS Naturals, Sequences, FiniteSets, TLC

RepOn  == INSTANCE Replica WITH RewriteAllSites <- TRUE, RewriteOnEndpoint <- [e \in {"execute", "queued", "request"} |-> TRUE],
                                SingleApplyPath <- TRUE, Mode <- "mc", MaxReq <- 1, MaxClock <- 1, MaxSnaps <- 1, MaxStmts <- 1,
                                McAlphabet <- "small", Reduced <- FALSE, log <- <<>>, clock <- 1, applied <- <<>>, db <- <<>>, started <- <<>>,
                                snaps <- <<>>, liveAt <- <<>>, prog <- <<>>, sched <- <<>>
RepOff == INSTANCE Replica WITH RewriteAllSites <- FALSE, RewriteOnEndpoint <- [e \in {"execute", "queued", "request"} |-> TRUE],
                                SingleApplyPath <- TRUE, Mode <- "mc", MaxReq <- 1, MaxClock <- 1, MaxSnaps <- 1, MaxStmts <- 1,
                                McAlphabet <- "small", Reduced <- FALSE, log <- <<>>, clock <- 1, applied <- <<>>, db <- <<>>, started <- <<>>,
                                snaps <- <<>>, liveAt <- <<>>, prog <- <<>>, sched <- <<>>
RwOn   == INSTANCE Rewrite WITH PrefilterComplete <- TRUE, ImplicitNow <- TRUE, FormatOnly <- TRUE, WalkEverywhere <- TRUE,
                                SkipOrderBy <- TRUE, LeaveStringsIdents <- TRUE, UntouchedIfNoSite <- TRUE, OnePin <- TRUE,
                                Tier <- "neg", c <- [tpl |-> "select", fill |-> "none", sites |-> <<>>]
RwOff  == INSTANCE Rewrite WITH PrefilterComplete <- FALSE, ImplicitNow <- FALSE, FormatOnly <- FALSE, WalkEverywhere <- FALSE,
                                SkipOrderBy <- TRUE, LeaveStringsIdents <- TRUE, UntouchedIfNoSite <- TRUE, OnePin <- TRUE,
                                Tier <- "neg", c <- [tpl |-> "select", fill |-> "none", sites |-> <<>>]

Sites == {RwOn!S(ffm, cs, gap, n) : ffm \in RwOn!FnForms, cs \in RwOn!Cases_, gap \in RwOn!Gaps, n \in RwOn!Nests}
Slots == {RepOn!WSlots[i] : i \in DOMAIN RepOn!WSlots}
One(ts, s) == [tpl |-> ts[1], fill |-> "none", sites |-> <<[slot |-> ts[2], s |-> s]>>]

ASSUME Slots \subseteq RwOn!AllSlots
ASSUME RepOn!FnForms = RwOn!FnForms /\ RepOn!Cases_ = RwOn!Cases_ /\ RepOn!Gaps = RwOn!Gaps /\ RepOn!Nests = RwOn!Nests
ASSUME \A ts \in Slots, s \in Sites :
         /\ RepOn!MustRewrite(ts[2], s) = RwOn!MustRewrite(ts[2], s)
         /\ RepOn!Excluded(ts[2], s) = RwOn!Excluded(ts[2], s)
         /\ RepOn!NonDetCall(s) = RwOn!NonDet(s)
         /\ RepOn!ReplacedSite(ts[2], s) = RwOn!Replaced(One(ts, s), 1)
         /\ RepOff!ReplacedSite(ts[2], s) = RwOff!Replaced(One(ts, s), 1)
ASSUME PrintT(<<"ReplicaRewriteEq", Cardinality(Slots), Cardinality(Sites)>>)

VARIABLE x
Spec == x = 0 /\ [][UNCHANGED x]_x
=============================================================================
