--------------------------- MODULE ReplicaRewriteEq ---------------------------
(* Replica.tla transcribes the site space, MustRewrite and the rewriter's design from Rewrite.tla  *)
(* (C14).  This module instantiates both and checks, as ASSUMEs over the whole one-site space      *)
(* (every write slot x every call site), that the two agree for both values of the switch; and    *)
(* the same for statements with TWO sites (every slot pair of Replica!WPairs x ordered pairs of a   *)
(* representative set: one call per kind, plus the gaps / nestings the switch is about).           *)
EXTENDS Naturals, Sequences, FiniteSets, TLC

RepOn  == INSTANCE Replica WITH RewriteAllSites <- TRUE, RewriteOnEndpoint <- [e \in {"execute", "queued", "request"} |-> TRUE],
                                SingleApplyPath <- TRUE, SiteIndependent <- TRUE, Mode <- "mc", MaxReq <- 1, MaxClock <- 1, MaxSnaps <- 1, MaxStmts <- 1,
                                McAlphabet <- "small", Reduced <- FALSE, log <- <<>>, clock <- 1, applied <- <<>>, db <- <<>>, started <- <<>>,
                                snaps <- <<>>, liveAt <- <<>>, prog <- <<>>, sched <- <<>>
RepOff == INSTANCE Replica WITH RewriteAllSites <- FALSE, RewriteOnEndpoint <- [e \in {"execute", "queued", "request"} |-> TRUE],
                                SingleApplyPath <- TRUE, SiteIndependent <- TRUE, Mode <- "mc", MaxReq <- 1, MaxClock <- 1, MaxSnaps <- 1, MaxStmts <- 1,
                                McAlphabet <- "small", Reduced <- FALSE, log <- <<>>, clock <- 1, applied <- <<>>, db <- <<>>, started <- <<>>,
                                snaps <- <<>>, liveAt <- <<>>, prog <- <<>>, sched <- <<>>
RwOn   == INSTANCE Rewrite WITH PrefilterComplete <- TRUE, ImplicitNow <- TRUE, FormatOnly <- TRUE, WalkEverywhere <- TRUE,
                                SkipOrderBy <- TRUE, LeaveStringsIdents <- TRUE, UntouchedIfNoSite <- TRUE, OnePin <- TRUE, SiteIndependent <- TRUE,
                                Tier <- "neg", c <- [tpl |-> "select", fill |-> "none", sites |-> <<>>]
RwOff  == INSTANCE Rewrite WITH PrefilterComplete <- FALSE, ImplicitNow <- FALSE, FormatOnly <- FALSE, WalkEverywhere <- FALSE,
                                SkipOrderBy <- TRUE, LeaveStringsIdents <- TRUE, UntouchedIfNoSite <- TRUE, OnePin <- TRUE, SiteIndependent <- TRUE,
                                Tier <- "neg", c <- [tpl |-> "select", fill |-> "none", sites |-> <<>>]

Sites == {RwOn!S(ffm, cs, gap, n) : ffm \in RwOn!FnForms, cs \in RwOn!Cases_, gap \in RwOn!Gaps, n \in RwOn!Nests}
Slots == {RepOn!WSlots[i] : i \in DOMAIN RepOn!WSlots}
One(ts, s) == [tpl |-> ts[1], fill |-> "none", sites |-> <<[slot |-> ts[2], s |-> s]>>]

ASSUME Slots \subseteq RwOn!AllSlots
ASSUME RepOn!FnForms = RwOn!FnForms /\ RepOn!Cases_ = RwOn!Cases_ /\ RepOn!Gaps = RwOn!Gaps /\ RepOn!Nests = RwOn!Nests
ASSUME \A ts \in Slots, s \in Sites :
         /\ RepOn!MustRewrite(ts[2], s) = RwOn!MustRewrite(ts[2], s)
         /\ RepOn!Excluded(ts[2], s) = RwOn!Excluded(ts[2], s)
         /\ RepOn!NonDetCall(s) = RwOn!NonDet(s)
         /\ RepOn!ReplacedSite(ts[2], s) = RwOn!Replaced(One(ts, s), 1)
         /\ RepOff!ReplacedSite(ts[2], s) = RwOff!Replaced(One(ts, s), 1)
SlotPairs == {RepOn!WPairs[i] : i \in DOMAIN RepOn!WPairs}
PairReps == RwOn!RepsK10 \cup {RwOn!S(<<"random", "call", "none">>, "lower", "comment", "bare"), RwOn!S(<<"datetime", "now", "none">>, "upper", "space", "isnull"),
                               RwOn!S(<<"date", "implicit", "none">>, "lower", "none", "subq"), RwOn!S(<<"julianday", "now", "none">>, "lower", "none", "string")}
Two(tp, a, b) == [tpl |-> tp[1], fill |-> "none", sites |-> <<[slot |-> tp[2], s |-> a], [slot |-> tp[3], s |-> b]>>]
ASSUME \A tp \in SlotPairs : <<tp[1], tp[2]>> \in Slots /\ <<tp[1], tp[3]>> \in Slots
ASSUME \A tp \in SlotPairs, a \in PairReps, b \in PairReps : \A i \in 1..2 :
         /\ RepOn!ReplacedAt(RepOn!W2(tp, a, b, "none"), i) = RwOn!Replaced(Two(tp, a, b), i)
         /\ RepOff!ReplacedAt(RepOff!W2(tp, a, b, "none"), i) = RwOff!Replaced(Two(tp, a, b), i)
         /\ RepOn!MustAt(RepOn!W2(tp, a, b, "none"), i) = RwOn!Must(Two(tp, a, b), i)
ASSUME \A tpl \in RwOn!Tpls : \A k \in DOMAIN RwOn!SlotsOf(tpl) : RepOn!ColScope(tpl, RwOn!SlotsOf(tpl)[k]) = RwOn!ColScope(tpl, RwOn!SlotsOf(tpl)[k])
ASSUME PrintT(<<"ReplicaRewriteEq", Cardinality(Slots), Cardinality(Sites), Cardinality(SlotPairs), Cardinality(PairReps)>>)

VARIABLE x
Spec == x = 0 /\ [][UNCHANGED x]_x
=============================================================================
