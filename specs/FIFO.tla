-------------------------------- MODULE FIFO --------------------------------
(* rqlite cdc/fifo.go: persistent queue managed by one goroutine (one request at a time). *)
(* Persistent: items (bbolt bucket), high (max_key, same transaction as the item).         *)
(* Volatile per open: nextFrom (read cursor, 0 after open), nextEv (loaded head, 0 = none). *)
(* Switches (TRUE = design): PersistHighest, IgnoreAtOrBelow, CursorMonotone, DeleteExactly *)
EXTENDS Naturals, FiniteSets, Sequences, TLC

CONSTANTS MaxIdx, MaxOps,
          PersistHighest, IgnoreAtOrBelow, CursorMonotone, DeleteExactly

VARIABLES items, high, nextFrom, nextEv,
          emitted,    \* history: indexes emitted since the last open, in order
          acked,      \* history: every index whose enqueue was stored and acknowledged, and not deleted since
          everHigh,   \* history: highest index ever stored
          stored,     \* history: indexes in the order they were stored
          nops
vars == <<items, high, nextFrom, nextEv, emitted, acked, everHigh, stored, nops>>

Min(S) == CHOOSE x \in S : \A y \in S : x <= y
Seek(it, from) == IF {k \in it : k >= from} = {} THEN 0 ELSE Min({k \in it : k >= from})

Init == /\ items = {} /\ high = 0 /\ nextFrom = 0 /\ nextEv = 0
        /\ emitted = <<>> /\ acked = {} /\ everHigh = 0 /\ stored = <<>> /\ nops = 0

Enqueue(i) ==
  /\ nops' = nops + 1
  /\ IF IgnoreAtOrBelow /\ i <= high
     THEN UNCHANGED <<items, high, nextFrom, nextEv, emitted, acked, everHigh, stored>>
     ELSE /\ items' = items \cup {i}
          /\ high' = IF i > high THEN i ELSE high
          /\ everHigh' = IF i > everHigh THEN i ELSE everHigh
          /\ acked' = acked \cup {i} /\ stored' = Append(stored, i)
          /\ nextEv' = IF nextEv = 0 THEN Seek(items', nextFrom) ELSE nextEv
          /\ UNCHANGED <<nextFrom, emitted>>
Emit ==
  /\ nextEv # 0 /\ nops' = nops + 1
  /\ emitted' = Append(emitted, nextEv)
  /\ nextFrom' = nextEv + 1
  /\ nextEv' = Seek(items, nextEv + 1)
  /\ UNCHANGED <<items, high, acked, everHigh, stored>>
DeleteRange(i) ==
  /\ nops' = nops + 1
  /\ items' = IF DeleteExactly THEN {k \in items : k > i} ELSE {k \in items : k > i + 1}
  /\ acked' = {k \in acked : k > i}
  /\ nextFrom' = IF CursorMonotone THEN (IF nextFrom # 0 /\ nextFrom <= i THEN i + 1 ELSE nextFrom)
                 ELSE (IF nextEv = 0 /\ nextFrom # 0 THEN i + 1 ELSE (IF nextFrom # 0 /\ nextFrom <= i THEN i + 1 ELSE nextFrom))
  /\ nextEv' = IF nextEv # 0 /\ nextEv > i THEN nextEv ELSE Seek(items', nextFrom')
  /\ UNCHANGED <<high, emitted, everHigh, stored>>
(* Close + NewQueue, or process kill + NewQueue: bbolt transactions are atomic, so both look the same *)
Reopen ==
  /\ nops' = nops + 1
  /\ nextFrom' = 0 /\ nextEv' = Seek(items, 0) /\ emitted' = <<>>
  /\ high' = IF PersistHighest THEN high ELSE (IF items = {} THEN 0 ELSE CHOOSE x \in items : \A y \in items : y <= x)
  /\ UNCHANGED <<items, acked, everHigh, stored>>

Next == \/ \E i \in 1..MaxIdx : Enqueue(i)
        \/ \E i \in 0..MaxIdx : DeleteRange(i)
        \/ Emit \/ Reopen
Spec == Init /\ [][Next]_vars
Bound == nops <= MaxOps

Increasing == \A a, b \in 1..Len(emitted) : a < b => emitted[a] < emitted[b]
Durable == acked \subseteq items
HighestRemembered == high = everHigh
StoredIncreasing == \A a, b \in 1..Len(stored) : a < b => stored[a] < stored[b]
NoStranded == nextEv = 0 => \A k \in items : k < nextFrom
HeadValid == nextEv # 0 => nextEv \in items /\ nextEv >= nextFrom
=============================================================================
