SPECIFICATION Spec
CONSTANTS
  MaxWals = 2
  MaxChunk = 12
  CheckSizes = FALSE
  CRCOnInstall = TRUE
  CRCOnRestore = TRUE
  RejectTrailing = TRUE
  ValidateFiles = TRUE
  CompressionTransparent = TRUE
  ZeroCRCCompared = TRUE
INVARIANTS SinkMutatedRejected
