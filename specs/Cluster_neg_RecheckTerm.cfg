SPECIFICATION Spec
CONSTANTS
  Node = {n1, n2, n3}
  Voter = {n1, n2, n3}
  MaxTerm = 3
  MaxLog = 3
  NonCmdKinds = {}
  WarmStart = FALSE
  MaxRestarts = 0
  UpgradeStrong = TRUE
  VerifyQuorum = TRUE
  RecheckTerm = FALSE
  StrongThroughLog = TRUE
  SignalConfig = TRUE
  SignalBarrier = TRUE
  MaxSnaps = 0
  SnapAtApplied = TRUE
  InstallReplacesDb = TRUE
  SignalRestore = TRUE
SYMMETRY Sym
INVARIANTS ReadLin
