SPECIFICATION TSpec
CONSTANTS
  IgnoreTmp = TRUE
  OrderTermIndexId = TRUE
  GateIncOnFullNeeded = TRUE
  GateAtClose = FALSE
  ClearOnSuccessOnly = TRUE
  PlanBeforeMutation = TRUE
  ResumeOnOpen = TRUE
  IdempotentOps = TRUE
  LeftoverWALFirst = TRUE
  LastOpDoneShortcut = TRUE
  TmpCleanAfterResume = TRUE
  Sinks = {"s1", "s2"}
  MaxId = 1000000
  MaxWal = 1000000
  MaxTerm = 1000000
  MaxIdx = 1000000
  GenDepth = 14
  AtomicClose = TRUE
  OlderSel = {0}
  MaxFullWals = 0
  MaxIncs = 0
  MaxIncWals = 1
  TmpSel = {FALSE}
  MaxCrashes = 0
CONSTRAINT HW
POSTCONDITION Accepted
CHECK_DEADLOCK FALSE
