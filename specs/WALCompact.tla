----------------------------- MODULE WALCompact -----------------------------
(* rqlite db/wal: CompactingFrameScanner.scan (+ Writer) against SQLite's own reading of a WAL.   *)
(*                                                                                                  *)
(* A WAL is a sequence of frames [pg, commit, salt, ck]: page number, commit marker (= database     *)
(* size in pages after the commit, 0 for a non-commit frame), "salt equals the header's salt" and    *)
(* "cumulative checksum is right".  A frame with salt = FALSE is a stale frame of an earlier WAL      *)
(* generation (or garbage); a frame with ck = FALSE is a corrupted frame.  Everything from the        *)
(* first bad frame on is outside the valid prefix, whatever its own flags say.                        *)
(*                                                                                                  *)
(* Two independent descriptions are compared:                                                       *)
(*  - the REFERENCE (SQLite's rules, no switches): ValidPrefix = longest prefix of good frames;       *)
(*    Committed = up to its last commit marker; Checkpoint(db, frames) = for every page <= final      *)
(*    database size the latest frame at or before the last commit marker, file truncated/extended     *)
(*    to the final size;                                                                             *)
(*  - the CODE (Scan/Compact, transcribed from compacting_section_scanner.go scan(), one switch per  *)
(*    mechanism): seek to the start frame, read frames while ReadFrame accepts them, stage the        *)
(*    frames of the running transaction per page (txFrames), fold them into `frames` at a commit      *)
(*    frame, ErrOpenTransaction when the last accepted frame is not a commit frame, output sorted     *)
(*    by file offset.  `full` is the scanner mode that verifies checksums (only legal with start 0); *)
(*    the fast mode trusts the WAL and checks salts only, so it is judged on WALs whose valid prefix *)
(*    does not depend on a checksum.                                                                 *)
(*                                                                                                  *)
(* Frame content is abstracted to the frame's index in the WAL (`id`); base database pages are 0,   *)
(* pages created by extending the file are -1.                                                       *)
EXTENDS Naturals, Integers, Sequences, FiniteSets, TLC, Json

CONSTANTS MaxFrames, Pages, Sizes, BaseSizes, MaxSaltBreaks, MaxCkBreaks, MaxBreaks,
          LatestPerPage,        \* a later frame of a page replaces an earlier one (in the txn and across txns)
          TxnBoundary,          \* frames become visible only at their transaction's commit frame
          OffsetOrder,          \* output in file-offset order (so the last frame is the last commit frame)
          StopAtSaltBreak,      \* scanning stops at the first frame whose salt differs from the header
          StopAtChecksumBreak,  \* (full mode) scanning stops at the first frame whose checksum is wrong
          ErrorOnOpenTxn,       \* uncommitted frames at the end of the valid prefix are an error
          RespectStart          \* frames before the resume position are not read

VARIABLE w
vars == <<w>>

Max(S) == CHOOSE x \in S : \A y \in S : y <= x
Min(S) == CHOOSE x \in S : \A y \in S : x <= y
NBadSalt(ws) == Cardinality({i \in 1..Len(ws) : ~ws[i].salt})
NBadCk(ws)   == Cardinality({i \in 1..Len(ws) : ~ws[i].ck})

Init == w = <<>>
Room == Len(w) < MaxFrames
MayBreak == NBadSalt(w) + NBadCk(w) < MaxBreaks
AppendPlain   == Room /\ \E p \in Pages : w' = Append(w, [pg |-> p, commit |-> 0, salt |-> TRUE, ck |-> TRUE])
AppendCommit  == Room /\ \E p \in Pages, c \in Sizes : w' = Append(w, [pg |-> p, commit |-> c, salt |-> TRUE, ck |-> TRUE])
AppendStale   == Room /\ MayBreak /\ NBadSalt(w) < MaxSaltBreaks
                 /\ \E p \in Pages, c \in {0} \cup Sizes : w' = Append(w, [pg |-> p, commit |-> c, salt |-> FALSE, ck |-> TRUE])
AppendCorrupt == Room /\ MayBreak /\ NBadCk(w) < MaxCkBreaks
                 /\ \E p \in Pages, c \in {0} \cup Sizes : w' = Append(w, [pg |-> p, commit |-> c, salt |-> TRUE, ck |-> FALSE])
Next == AppendPlain \/ AppendCommit \/ AppendStale \/ AppendCorrupt
Spec == Init /\ [][Next]_vars

----------------------------------------------------------------------------
(* REFERENCE: what SQLite makes of the file *)
Good(f, full) == f.salt /\ (full => f.ck)
RECURSIVE VPFrom(_, _, _)
VPFrom(ws, i, full) == IF i > Len(ws) THEN Len(ws)
                       ELSE IF Good(ws[i], full) THEN VPFrom(ws, i + 1, full) ELSE i - 1
VPLen(ws, full) == VPFrom(ws, 1, full)                       \* length of the valid prefix
CLen(ws, full) == LET S == {i \in 1..VPLen(ws, full) : ws[i].commit # 0}
                  IN IF S = {} THEN 0 ELSE Max(S)             \* length of its committed part
OpenTxn(ws, full) == CLen(ws, full) < VPLen(ws, full)
(* the fast mode is judged only where the valid prefix is decided by salts *)
Judged(ws, full) == full \/ VPLen(ws, TRUE) = VPLen(ws, FALSE)
(* resume positions: 0 and every commit boundary of the committed valid prefix; the checksum mode *)
(* only supports 0 (NewCompactingFrameScanner refuses fullScan with startFrame # 0)                 *)
Starts(ws, full) == IF full THEN {0} ELSE {0} \cup {i \in 1..CLen(ws, FALSE) : ws[i].commit # 0}
Tag(ws, i) == [id |-> i, pg |-> ws[i].pg, commit |-> ws[i].commit]
RefFrames(ws, start, full) == [k \in 1..(CLen(ws, full) - start) |-> Tag(ws, start + k)]

LastCommit(fs) == LET S == {i \in 1..Len(fs) : fs[i].commit # 0} IN IF S = {} THEN 0 ELSE Max(S)
Checkpoint(db, fs) ==
  LET m == LastCommit(fs) IN
  IF m = 0 THEN db
  ELSE LET sz == fs[m].commit
           Latest(p) == LET S == {i \in 1..m : fs[i].pg = p} IN IF S = {} THEN 0 ELSE Max(S)
       IN [size |-> sz,
           pages |-> [p \in 1..sz |-> IF Latest(p) # 0 THEN fs[Latest(p)].id
                                      ELSE IF p <= db.size THEN db.pages[p] ELSE 0 - 1]]
BaseDb(b) == [size |-> b, pages |-> [p \in 1..b |-> 0]]

----------------------------------------------------------------------------
(* CODE: scan() *)
Nil == [x \in {} |-> 0]
Put(m, p, i) == IF LatestPerPage THEN (p :> i) @@ m ELSE m @@ (p :> i)
Fold(fr, tx) == IF LatestPerPage THEN tx @@ fr ELSE fr @@ tx
Accept(f, full) == (StopAtSaltBreak => f.salt) /\ ((full /\ StopAtChecksumBreak) => f.ck)

RECURSIVE Scan(_, _, _, _, _, _)
Scan(ws, i, full, tx, fr, waiting) ==
  IF i > Len(ws) THEN [fr |-> fr, waiting |-> waiting]
  ELSE IF ~Accept(ws[i], full) THEN [fr |-> fr, waiting |-> waiting]          \* ReadFrame returns io.EOF
  ELSE IF TxnBoundary
       THEN LET tx2 == Put(tx, ws[i].pg, i) IN
            IF ws[i].commit = 0 THEN Scan(ws, i + 1, full, tx2, fr, TRUE)
            ELSE Scan(ws, i + 1, full, Nil, Fold(fr, tx2), FALSE)
       ELSE Scan(ws, i + 1, full, Nil, Put(fr, ws[i].pg, i), ws[i].commit = 0)

RECURSIVE SortedSeq(_)
SortedSeq(S) == IF S = {} THEN <<>> ELSE LET m == Min(S) IN <<m>> \o SortedSeq(S \ {m})

Compact(ws, start, full) ==
  LET r   == Scan(ws, (IF RespectStart THEN start ELSE 0) + 1, full, Nil, Nil, FALSE)
      ids == IF OffsetOrder THEN SortedSeq({r.fr[p] : p \in DOMAIN r.fr})
             ELSE LET ps == SortedSeq(DOMAIN r.fr) IN [k \in 1..Len(ps) |-> r.fr[ps[k]]]
  IN IF r.waiting /\ ErrorOnOpenTxn THEN [err |-> TRUE, out |-> <<>>]
     ELSE [err |-> FALSE, out |-> [k \in 1..Len(ids) |-> Tag(ws, ids[k])]]

(* the design sentence of the scanner's doc comment, stated without an algorithm *)
CompactDecl(ws, start, full) ==
  LET e == CLen(ws, full) IN
  {i \in (start + 1)..e : \A j \in (i + 1)..e : ws[j].pg # ws[i].pg}

----------------------------------------------------------------------------
Cases(ws) == {<<full, s>> : full \in BOOLEAN, s \in 0..Len(ws)}
Jud(ws) == {c \in Cases(ws) : Judged(ws, c[1]) /\ c[2] \in Starts(ws, c[1])}

(* everything the property and the scanner's contract say about one (mode, start), computed once *)
Verdict(ws, full, s) ==
  LET r   == Compact(ws, s, full)
      o   == r.out
      vp  == VPLen(ws, full)
      cl  == CLen(ws, full)
      ref == RefFrames(ws, s, full)
  IN [ \* the property: checkpointing the compacted WAL = checkpointing the committed frames from start
       equiv  |-> r.err \/ \A b \in BaseSizes : Checkpoint(BaseDb(b), o) = Checkpoint(BaseDb(b), ref),
       \* frames beyond the valid prefix (or before the resume position) are never included
       beyond |-> \A k \in 1..Len(o) : o[k].id <= vp /\ o[k].id > s,
       \* an unterminated trailing transaction is an error; nothing else is
       open   |-> r.err <=> (cl < vp),
       \* shape of the output: offset order, one frame per page, last frame is the last commit frame
       shape  |-> /\ \A k \in 1..(Len(o) - 1) : o[k].id < o[k + 1].id
                  /\ \A k, l \in 1..Len(o) : k # l => o[k].pg # o[l].pg
                  /\ (Len(o) > 0 => o[Len(o)].id = cl /\ o[Len(o)].commit # 0)
                  /\ (Len(o) = 0 => cl = s \/ r.err),
       \* the transcription agrees with the design sentence
       design |-> r.err \/ {o[k].id : k \in 1..Len(o)} = CompactDecl(ws, s, full) ]

Equiv             == \A c \in Jud(w) : Verdict(w, c[1], c[2]).equiv
NeverBeyondPrefix == \A c \in Jud(w) : Verdict(w, c[1], c[2]).beyond
OpenTxnIsError    == \A c \in Jud(w) : Verdict(w, c[1], c[2]).open
Shape             == \A c \in Jud(w) : Verdict(w, c[1], c[2]).shape
IsDesign          == \A c \in Jud(w) : Verdict(w, c[1], c[2]).design
(* all of them in one pass (the exhaustive configurations use this; the negative controls name one) *)
Design == \A c \in Jud(w) : LET v == Verdict(w, c[1], c[2]) IN v.equiv /\ v.beyond /\ v.open /\ v.shape /\ v.design

----------------------------------------------------------------------------
(* generator: one line per WAL, nested integer tuples only (ToJson is two orders of magnitude slower):  *)
(* <<frames <<pg, commit, salt, ck>>, |valid prefix|, |committed|, expected <<full, start, err, ids>> for  *)
(* every judged (mode, start), <<base size, database after SQLite checkpoints the whole WAL>>>>           *)
B2N(b) == IF b THEN 1 ELSE 0
Ids(o) == [k \in 1..Len(o) |-> o[k].id]
ExpOf(ws) == LET ord == SortedSeq({B2N(c[1]) * 100 + c[2] : c \in Jud(ws)})
             IN [k \in 1..Len(ord) |->
                   LET r == Compact(ws, ord[k] % 100, ord[k] >= 100)
                   IN <<B2N(ord[k] >= 100), ord[k] % 100, B2N(r.err), Ids(r.out)>>]
DbOf(ws) == LET bs == SortedSeq(BaseSizes)
            IN [k \in 1..Len(bs) |-> LET d == Checkpoint(BaseDb(bs[k]), RefFrames(ws, 0, TRUE))
                                     IN <<bs[k], [p \in 1..d.size |-> d.pages[p]]>>]
Emit == PrintT(<<"@@", ToString(<<[i \in 1..Len(w) |-> <<w[i].pg, w[i].commit, B2N(w[i].salt), B2N(w[i].ck)>>],
                                  VPLen(w, TRUE), CLen(w, TRUE), ExpOf(w), DbOf(w)>>)>>)
=============================================================================
