---------------------------- MODULE CDCEventsEval ----------------------------
(* Evaluates CDCEvents.tla on sessions given from outside (progs.ndjson: [trig, sess]): prints  *)
(* for each the groups delivered under the design and with db/cdc.go as written.                *)
EXTENDS CDCEvents, Integers

Progs == ndJsonDeserialize("progs.ndjson")
VARIABLE k
EInit == /\ st = St0 /\ sa = St0 /\ sess = <<>> /\ phase = "idle"
         /\ cfg = [trig |-> FALSE, filter |-> FALSE, ids |-> FALSE] /\ k = 1
ENext == k < Len(Progs) /\ k' = k + 1 /\ UNCHANGED vars
ESpec == EInit /\ [][ENext]_<<vars, k>>
PCfg(p) == [trig |-> p.trig, filter |-> FALSE, ids |-> FALSE]
EmitEval == k <= Len(Progs) =>
  LET p == Progs[k]
      d == RunSess(Ctx(TRUE, TRUE, TRUE, TRUE, TRUE, TRUE, PCfg(p)), p.sess)
      w == RunSess(Ctx(AsIsStmt, AsIsTxn, AsIsSp, TRUE, TRUE, TRUE, PCfg(p)), p.sess)
  IN PrintT(<<"@@", ToJson([trig |-> p.trig, sess |-> p.sess, want |-> d.out, asis |-> w.out, stale |-> w.stale, sk |-> d.sk])>>)
=============================================================================
