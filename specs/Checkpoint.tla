----------------------------- MODULE Checkpoint -----------------------------
(* C06  Incremental WAL segments under busy / partial checkpoints.                              *)
(*                                                                                              *)
(* SQLite side, in versioned-page terms (DESIGN 4.1): the main database file `dbf`, the WAL as  *)
(* a sequence of committed frames [pg, ver, commit], nBackfill, the WAL file header (present /  *)
(* salt), and reader marks.  A reader that starts while the WAL is completely backfilled (or    *)
(* empty) takes read-lock 0 and reads the database file only (mark 0); any other reader pins    *)
(* the WAL at mxFrame (mark >= 1).  Write appends, or RESTARTS the WAL with a new salt iff the  *)
(* WAL is non-empty, fully backfilled and no reader holds a WAL mark (wal.c walRestartLog).     *)
(* A TRUNCATE checkpoint (wal.c walCheckpoint): mxSafeFrame = min(mxFrame, marks); backfill up  *)
(* to it unless a db-only reader holds lock 0; then                                             *)
(*     nBackfill < mxFrame                 -> busy, some frames moved          ("busy")         *)
(*     all moved, a WAL reader still there -> busy, all moved, not truncated   ("allmoved")     *)
(*     all moved, no WAL reader            -> WAL truncated to 0 bytes         ("truncated")    *)
(*                                                                                              *)
(* rqlite side: db.CheckpointManager.Checkpoint(w) as its steps (db/checkpoint_manager.go):     *)
(*   CkBegin    store: WAL has data? -> CreateWAL (staging file);  manager: stat                *)
(*   CkCheck    read header salt; resetWatch.Check -> start frame, reset detected (disarms)     *)
(*   CkCompact  compacted copy of the frames from `start` is written to the staging file        *)
(*   CkSqlite   PRAGMA wal_checkpoint(TRUNCATE)                                                 *)
(*   CkClassify truncated -> Disarm | moved < pages -> busy error, state kept |                 *)
(*              moved = pages -> Arm(salt, moved), success                                      *)
(*   StoreFinish store/store.go fsmSnapshot: error -> walWriter.Cancel, success -> Close        *)
(* Writes never overlap an attempt (raft serialises Apply and Snapshot); readers come and go at *)
(* every step.                                                                                  *)
(*                                                                                              *)
(* Switches (TRUE = the design): DisarmOnTruncate, ArmOnAllMoved, ResumeFromArmed, ResetBySalt, *)
(* CancelOnError, BusyKeepsState.                                                               *)
EXTENDS Integers, Sequences, FiniteSets, TLC

CONSTANTS NPages, Readers, MaxWrites, MaxCkpt,
          ReaderPoints,       \* the attempt steps (values of pc) at which readers may start / stop
          CanonicalPages,     \* TRUE: pages are first written in the order 1, 2, 3, ... (see below)
          DisarmOnTruncate, ArmOnAllMoved, ResumeFromArmed, ResetBySalt, CancelOnError, BusyKeepsState

Page == 1..NPages
ReaderSym == Permutations(Readers)
AllPoints == {"idle", "check", "compact", "sqlite", "classify", "finish"}
(* Reader steps touch only rd (and read nBackfill, Len(wal)); of the attempt steps only CkSqlite reads rd *)
(* or writes nBackfill / wal.  Reader steps therefore commute with every other attempt step: a reader    *)
(* step taken at pc = "sqlite" (or anywhere else inside an attempt) leads to a state that is also reached *)
(* by taking it at pc = "idle" first.  ReaderPoints = {"idle"} therefore reaches exactly the same set of  *)
(* states as AllPoints (measured: identical state counts); Checkpoint_mc_allpoints.cfg explores all       *)
(* positions explicitly on a smaller bound.                                                               *)

VARIABLES
  \* ---- SQLite
  dbf,        \* [Page -> version]  main database file
  wal,        \* Seq([pg, ver, commit])  frames of the current WAL generation (all committed)
  nBackfill,  \* frames already copied into dbf
  hdr,        \* the WAL file is non-empty (has a header)
  salt,       \* salt in the WAL file header (counts headers written)
  rd,         \* [Readers -> -1 (not running) | 0 (db-only, read-lock 0) | m >= 1 (WAL mark)]
  \* ---- CheckpointManager.resetWatch
  armed, aSalt, aIdx,
  \* ---- attempt in progress
  pc,         \* "idle" | "check" | "compact" | "sqlite" | "classify" | "finish"
  att,        \* [start, reset, wasReset, seg, code, pages, moved, out, err]
  \* ---- store
  rebuilt,    \* previous snapshot's database with every closed segment applied, in order
  nstaged,    \* number of closed segment files
  tmp,        \* an unclosed staging file exists
  \* ---- history / bounds
  nw, nck,
  fresh,      \* the last attempt succeeded and nothing was written since
  leftover,   \* a failed attempt left its segment file behind
  resetSince, \* SQLite restarted the WAL (in a write) since the watch was armed
  capUpTo     \* frames of the current generation already captured by successful segments

svars == <<dbf, wal, nBackfill, hdr, salt, rd>>
mvars == <<armed, aSalt, aIdx>>
stvars == <<rebuilt, nstaged, tmp>>
hvars == <<nw, nck, fresh, leftover, resetSince, capUpTo>>
vars == <<dbf, wal, nBackfill, hdr, salt, rd, armed, aSalt, aIdx, pc, att, rebuilt, nstaged, tmp,
          nw, nck, fresh, leftover, resetSince, capUpTo>>
(* model checking view: the number of closed segment files influences nothing *)
MCView == <<dbf, wal, nBackfill, hdr, salt, rd, armed, aSalt, aIdx, pc, att, rebuilt, tmp,
            nw, nck, fresh, leftover, resetSince, capUpTo>>

Att0 == [start |-> 0, reset |-> FALSE, wasReset |-> FALSE, seg |-> <<>>, code |-> 0, pages |-> 0,
         moved |-> 0, out |-> "none", err |-> FALSE]

SetMin(S) == CHOOSE x \in S : \A y \in S : x <= y
SetMax(S) == CHOOSE x \in S : \A y \in S : x >= y

(* ------------------------------------------------------------------ versioned pages *)
(* frames of a sequence applied to a database: the latest frame of a page wins *)
ApplyFrames(db, fs) ==
  [p \in Page |-> LET I == {i \in 1..Len(fs) : fs[i].pg = p}
                  IN IF I = {} THEN db[p] ELSE fs[SetMax(I)].ver]
Live == ApplyFrames(dbf, wal)

(* frames of one write transaction: dirty pages in page order, the last one commits *)
RECURSIVE TxFrames(_, _)
TxFrames(S, v) == IF S = {} THEN <<>>
                  ELSE LET p == SetMin(S) IN
                       <<[pg |-> p, ver |-> v, commit |-> (S = {p})]>> \o TxFrames(S \ {p}, v)

(* wal.CompactingFrameScanner(start): latest frame of every page among frames start+1.., in offset order *)
Compact(w, start) ==
  LET keep(i) == i > start /\ \A j \in (i + 1)..Len(w) : w[j].pg # w[i].pg
      F[i \in 0..Len(w)] == IF i = 0 THEN <<>> ELSE IF keep(i) THEN Append(F[i - 1], w[i]) ELSE F[i - 1]
  IN F[Len(w)]

(* ------------------------------------------------------------------ SQLite *)
WalReaders == {r \in Readers : rd[r] >= 1}
DbReaders == {r \in Readers : rd[r] = 0}
FullyBackfilled == nBackfill = Len(wal)

ReaderStart(r) ==
  /\ rd[r] = -1 /\ pc \in ReaderPoints
  /\ rd' = [rd EXCEPT ![r] = IF FullyBackfilled THEN 0 ELSE Len(wal)]
  /\ UNCHANGED <<dbf, wal, nBackfill, hdr, salt, mvars, pc, att, stvars, hvars>>
ReaderStop(r) ==
  /\ rd[r] # -1 /\ pc \in ReaderPoints
  /\ rd' = [rd EXCEPT ![r] = -1]
  /\ UNCHANGED <<dbf, wal, nBackfill, hdr, salt, mvars, pc, att, stvars, hvars>>

CanRestart == Len(wal) > 0 /\ FullyBackfilled /\ WalReaders = {}
(* a write transaction over the page set S; `restart` is SQLite's choice (= CanRestart) *)
SqWrite(S, restart) ==
  /\ pc = "idle" /\ nw < MaxWrites /\ S # {}
  /\ nw' = nw + 1 /\ fresh' = FALSE
  /\ IF restart
     THEN /\ wal' = TxFrames(S, nw + 1) /\ nBackfill' = 0
          /\ salt' = salt + 1 /\ hdr' = TRUE
          /\ resetSince' = TRUE /\ capUpTo' = 0
     ELSE /\ wal' = wal \o TxFrames(S, nw + 1) /\ UNCHANGED nBackfill
          /\ salt' = IF hdr THEN salt ELSE salt + 1      \* first frame of an empty file writes a header
          /\ hdr' = TRUE
          /\ UNCHANGED <<resetSince, capUpTo>>
  /\ UNCHANGED <<dbf, rd, mvars, pc, att, stvars, nck, leftover>>
(* Page symmetry.  Renaming pages maps behaviours to behaviours except for the order of the frames  *)
(* inside one transaction (ascending page number), and no guard or invariant depends on that order *)
(* (every page occurs at most once in a transaction; marks, nBackfill, start and resume indexes are *)
(* always transaction boundaries; the commit flag sits on the last frame whichever page it holds).  *)
(* With CanonicalPages only the representative of each renaming class is explored: a write may      *)
(* touch page p for the first time only if all pages below p were touched before or are touched now. *)
Touched == {p \in Page : Live[p] # 0}
Canonical(S) == \A p \in S : \A q \in 1..(p - 1) : q \in Touched \cup S
Write(S) == (CanonicalPages => Canonical(S)) /\ SqWrite(S, CanRestart)

(* walCheckpoint *)
MxSafe == SetMin({Len(wal)} \cup {rd[r] : r \in WalReaders})
NewBackfill == IF nBackfill < MxSafe /\ DbReaders = {} THEN MxSafe ELSE nBackfill
WillTruncate == NewBackfill = Len(wal) /\ WalReaders = {}
(* the checkpoint with SQLite's choices bf (new nBackfill) and trunc made explicit *)
SqCkpt(bf, trunc) ==
  /\ pc = "sqlite"
  /\ dbf' = ApplyFrames(dbf, SubSeq(wal, 1, bf))
  /\ IF trunc
     THEN /\ wal' = <<>> /\ nBackfill' = 0 /\ hdr' = FALSE
          /\ att' = [att EXCEPT !.code = 0, !.pages = 0, !.moved = 0]
     ELSE /\ nBackfill' = bf /\ UNCHANGED <<wal, hdr>>
          /\ att' = [att EXCEPT !.code = 1, !.pages = Len(wal), !.moved = bf]
  /\ pc' = "classify"
  /\ UNCHANGED <<salt, rd, mvars, stvars, hvars>>
CkSqlite == SqCkpt(NewBackfill, WillTruncate)

(* ------------------------------------------------------------------ rqlite *)
(* store.fsmSnapshot, incremental branch, up to the call of the manager; manager: stat.            *)
(* `has` = fsutil.PathExistsWithData(walPath)                                                      *)
CkBeginWith(has) ==
  /\ pc = "idle" /\ nck < MaxCkpt
  /\ nck' = nck + 1
  /\ IF ~has
     THEN UNCHANGED <<pc, att, tmp>>      \* store: ErrNoWALToSnapshot, the manager is not called
     ELSE pc' = "check" /\ att' = Att0 /\ tmp' = TRUE     \* StagingDir.CreateWAL
  /\ UNCHANGED <<svars, mvars, rebuilt, nstaged, nw, fresh, leftover, resetSince, capUpTo>>
CkBegin == CkBeginWith(hdr)

Arm(s, i) == armed' = TRUE /\ aSalt' = s /\ aIdx' = i
Disarm == armed' = FALSE /\ aSalt' = 0 /\ aIdx' = 0
(* wal.ReadSaltAt + WALResetWatch.Check(current salt): the design's answer ... *)
WatchReset == armed /\ ~(ResetBySalt => aSalt = salt)
WatchStart == IF armed /\ ~WatchReset /\ ResumeFromArmed THEN aIdx ELSE 0
(* ... and the step with the answer (start, reset) made explicit *)
CkCheckWith(start, reset) ==
  /\ pc = "check"
  /\ att' = [att EXCEPT !.wasReset = armed /\ resetSince, !.start = start, !.reset = reset]
  /\ IF reset THEN Disarm /\ resetSince' = FALSE ELSE UNCHANGED <<mvars, resetSince>>
  /\ pc' = "compact"
  /\ UNCHANGED <<svars, stvars, nw, nck, fresh, leftover, capUpTo>>
CkCheck == CkCheckWith(WatchStart, WatchReset)

(* NewCompactingFrameScanner(walFD, start) + Writer.WriteTo(w) *)
CkCompact ==
  /\ pc = "compact"
  /\ att' = [att EXCEPT !.seg = Compact(wal, att.start)]
  /\ pc' = "sqlite"
  /\ UNCHANGED <<svars, mvars, stvars, hvars>>

(* the three-outcome bookkeeping *)
CkClassify ==
  /\ pc = "classify"
  /\ IF att.code = 0
     THEN /\ att' = [att EXCEPT !.out = "truncated", !.err = FALSE]
          /\ IF DisarmOnTruncate THEN Disarm /\ resetSince' = FALSE ELSE UNCHANGED <<mvars, resetSince>>
     ELSE IF att.moved < att.pages \/ ~ArmOnAllMoved
          THEN /\ att' = [att EXCEPT !.out = IF att.moved < att.pages THEN "busy" ELSE "allmoved", !.err = TRUE]
               /\ IF BusyKeepsState THEN UNCHANGED <<mvars, resetSince>>
                  ELSE Arm(salt, att.moved) /\ resetSince' = FALSE
          ELSE /\ att' = [att EXCEPT !.out = "allmoved", !.err = FALSE]
               /\ Arm(salt, att.moved) /\ resetSince' = FALSE
  /\ pc' = "finish"
  /\ UNCHANGED <<svars, stvars, nw, nck, fresh, leftover, capUpTo>>

(* store.fsmSnapshot after the manager returned: error -> walWriter.Cancel, success -> walWriter.Close *)
StoreFinish ==
  /\ pc = "finish"
  /\ IF att.err
     THEN IF CancelOnError
          THEN UNCHANGED <<rebuilt, nstaged, leftover, fresh, capUpTo>>
          ELSE /\ rebuilt' = ApplyFrames(rebuilt, att.seg) /\ nstaged' = nstaged + 1 /\ leftover' = TRUE
               /\ UNCHANGED <<fresh, capUpTo>>
     ELSE /\ rebuilt' = ApplyFrames(rebuilt, att.seg) /\ nstaged' = nstaged + 1 /\ fresh' = TRUE
          /\ capUpTo' = Len(wal)
          /\ UNCHANGED leftover
  /\ tmp' = FALSE /\ pc' = "idle" /\ att' = Att0
  /\ UNCHANGED <<svars, mvars, nw, nck, resetSince>>

(* ------------------------------------------------------------------ *)
Zero == [p \in Page |-> 0]
(* a fresh database after its first (full) snapshot; used between concatenated traces *)
ResetAll ==
  /\ dbf' = Zero /\ wal' = <<>> /\ nBackfill' = 0 /\ hdr' = FALSE /\ salt' = 0
  /\ rd' = [r \in Readers |-> -1]
  /\ armed' = FALSE /\ aSalt' = 0 /\ aIdx' = 0
  /\ pc' = "idle" /\ att' = Att0
  /\ rebuilt' = Zero /\ nstaged' = 0 /\ tmp' = FALSE
  /\ nw' = 0 /\ nck' = 0 /\ fresh' = FALSE /\ leftover' = FALSE /\ resetSince' = FALSE
  /\ capUpTo' = 0
Init ==
  /\ dbf = Zero /\ wal = <<>> /\ nBackfill = 0 /\ hdr = FALSE /\ salt = 0
  /\ rd = [r \in Readers |-> -1]
  /\ armed = FALSE /\ aSalt = 0 /\ aIdx = 0
  /\ pc = "idle" /\ att = Att0
  /\ rebuilt = Zero /\ nstaged = 0 /\ tmp = FALSE
  /\ nw = 0 /\ nck = 0 /\ fresh = FALSE /\ leftover = FALSE /\ resetSince = FALSE
  /\ capUpTo = 0

Next ==
  \/ \E r \in Readers : ReaderStart(r) \/ ReaderStop(r)
  \/ \E S \in SUBSET Page : Write(S)
  \/ CkBegin \/ CkCheck \/ CkCompact \/ CkSqlite \/ CkClassify \/ StoreFinish
Spec == Init /\ [][Next]_vars

(* ------------------------------------------------------------------ properties *)
InAttempt == pc \in {"compact", "sqlite", "classify", "finish"}
(* at every successful incremental snapshot the previous snapshot plus the captured segments is the live database *)
RebuildOK == fresh => rebuilt = Live
(* a failed checkpoint never leaves a captured segment behind; no staging file outlives its attempt *)
NoSegmentAfterFailure == ~leftover /\ (pc = "idle" => ~tmp)
(* a WAL reset between attempts is always detected ... *)
ResetDetected == (InAttempt /\ att.wasReset) => (att.start = 0 /\ att.reset)
(* ... and only a WAL reset is reported as one *)
NoSpuriousReset == (InAttempt /\ att.reset) => att.wasReset
(* a successful segment never captures a frame that an earlier successful segment already holds *)
NoRecapture == (pc = "finish" /\ ~att.err) => att.start >= capUpTo
(* the watch is armed for a WAL whose first aIdx frames are in the database file and captured *)
ArmedSane == (armed /\ aSalt = salt /\ pc = "idle") => (hdr /\ aIdx <= nBackfill /\ aIdx <= capUpTo)
SegWellFormed == (pc = "finish" /\ att.seg # <<>>) => att.seg[Len(att.seg)].commit
TypeOK == /\ nBackfill \in 0..Len(wal)
          /\ \A r \in Readers : rd[r] \in -1..Len(wal)
          /\ (~hdr => wal = <<>>)
=============================================================================
