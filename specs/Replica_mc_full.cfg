SPECIFICATION Spec
CONSTANTS
  RewriteAllSites = TRUE
  RewriteOnEndpoint <- AllEndpoints
  SingleApplyPath = TRUE
  SiteIndependent = TRUE
  Mode = "mc"
  MaxReq = 2
  MaxClock = 3
  MaxSnaps = 2
  MaxStmts = 3
  McAlphabet = "full"
  Reduced = FALSE
VIEW McView
INVARIANTS Converge LogDeterministic RewrittenIffMust
