----------------------------- MODULE ReadLevels -----------------------------
(* C16: read consistency levels.  (1) level resolution and dispatch of Store.Query and of the   *)
(* read-only branch of Store.Request (store/store.go), (2) the staleness decision              *)
(* store/state.go IsStaleRead, transcribed step by step (StaleCode) and compared with the      *)
(* documented rule (StaleDoc) on a discretised time lattice.                                   *)
(* Switches (TRUE = the documented design): WeakNeedsLeader, AutoOnQuery, AutoOnUnified,        *)
(* StaleByContact, StrictByAppendLag.                                                           *)
EXTENDS Naturals, Integers, Sequences, FiniteSets, TLC, Json

CONSTANTS WeakNeedsLeader, AutoOnQuery, AutoOnUnified, StaleByContact, StrictByAppendLag,
          MaxT          \* time lattice 0..MaxT (units); freshness bounds are half-units 2*f+1 so that no comparison ties

Levels == {"none", "weak", "auto", "strong", "linearizable"}
Roles == {"leader", "follower", "nonvoter"}
Paths == {"query", "request"}

(* ---- resolution: 'auto' is weak on voters and none on non-voters ---- *)
Resolve(path, asked, role) ==
  IF asked # "auto" THEN asked
  ELSE IF (path = "query" /\ ~AutoOnQuery) \/ (path = "request" /\ ~AutoOnUnified) THEN "auto"   \* left unresolved
  ELSE IF role = "nonvoter" THEN "none" ELSE "weak"

(* ---- dispatch of a read-only request with resolved level lv on a node ---- *)
(* outcomes: local (served from the node's database), notleader (ErrNotLeader, forwarded by the *)
(* proxy), stale (ErrStaleRead), vialog (through Raft), lin (linearizable protocol, which on a  *)
(* non-leader ends in notleader after the upgrade)                                              *)
Dispatch(lv, role, stale) ==
  CASE lv = "strong" -> IF role = "leader" THEN "vialog" ELSE "notleader"
    [] lv = "linearizable" -> IF role = "leader" THEN "lin" ELSE "notleader"
    [] lv = "weak" -> IF role = "leader" \/ ~WeakNeedsLeader THEN "local" ELSE "notleader"
    [] lv = "none" -> IF stale /\ role # "leader" THEN "stale" ELSE "local"
    [] OTHER -> "local"            \* an unresolved level falls through every test of the code

Outcome(path, asked, role, stale) == Dispatch(Resolve(path, asked, role), role, stale)

(* what the documentation promises, independent of the switches *)
DocOutcome(asked, role, stale) ==
  LET lv == IF asked # "auto" THEN asked ELSE IF role = "nonvoter" THEN "none" ELSE "weak" IN
  CASE lv = "strong" -> IF role = "leader" THEN "vialog" ELSE "notleader"
    [] lv = "linearizable" -> IF role = "leader" THEN "lin" ELSE "notleader"
    [] lv = "weak" -> IF role = "leader" THEN "local" ELSE "notleader"
    [] OTHER -> IF stale /\ role # "leader" THEN "stale" ELSE "local"

DispatchOK(u) == \A p \in Paths, a \in Levels, r \in Roles, s \in BOOLEAN :
                 Outcome(p, a, r, s) = DocOutcome(a, r, s)

(* ---- staleness: all times are "units ago" relative to now, appendedKnown = !IsZero() ---- *)
(* code, in its order of tests *)
StaleCode(sinceContact, fsmUpdateAgo, appendedAgo, appendedKnown, fsmIdx, cci, fresh, strict) ==
  IF fresh = 0 THEN FALSE
  ELSE IF StaleByContact /\ 2 * sinceContact > fresh THEN TRUE
  ELSE IF ~strict THEN FALSE
  ELSE IF ~appendedKnown THEN FALSE
  ELSE IF fsmIdx = cci THEN FALSE
  ELSE StrictByAppendLag /\ 2 * (appendedAgo - fsmUpdateAgo) > fresh     \* fsmUpdate - appendedAt

(* documented: refused when the leader has not been heard from within the bound, or in strict  *)
(* mode when the node is behind and its last applied entry was appended more than the bound     *)
(* before it was applied                                                                        *)
StaleDoc(sinceContact, fsmUpdateAgo, appendedAgo, appendedKnown, fsmIdx, cci, fresh, strict) ==
  /\ fresh > 0
  /\ \/ 2 * sinceContact > fresh
     \/ /\ strict /\ appendedKnown /\ fsmIdx # cci
        /\ 2 * (appendedAgo - fsmUpdateAgo) > fresh

T == 0..MaxT
Fresh == {0} \cup {2 * f + 1 : f \in 0..(MaxT - 1)}      \* 0 = unset; odd half-units: never equal to an even 2*t
StaleOK(u) == \A sc \in T, fu \in T, aa \in T, ak \in BOOLEAN, fi \in 0..1, ci \in 0..1, fr \in Fresh, st \in BOOLEAN :
              StaleCode(sc, fu, aa, ak, fi, ci, fr, st) = StaleDoc(sc, fu, aa, ak, fi, ci, fr, st)

(* (the dummy parameter keeps TLC from evaluating these as constants at start-up) *)
(* ---- generators: every case with the expected result, for replay on the real code ---- *)
GenStale(u) == \A sc \in T, fu \in T, aa \in T, ak \in BOOLEAN, fi \in 0..1, ci \in 0..1, fr \in Fresh, st \in BOOLEAN :
              PrintT(<<"@@", ToJson([k |-> "stale", sc |-> sc, fu |-> fu, aa |-> aa, ak |-> ak, fi |-> fi, ci |-> ci, fr |-> fr, st |-> st,
                                      want |-> StaleDoc(sc, fu, aa, ak, fi, ci, fr, st)])>>)
GenDispatch(u) == \A p \in Paths, a \in Levels, r \in Roles, s \in BOOLEAN :
              PrintT(<<"@@", ToJson([k |-> "dispatch", path |-> p, asked |-> a, role |-> r, stale |-> s, want |-> DocOutcome(a, r, s)])>>)

VARIABLE x
Init == x = 0
Next == UNCHANGED x
Spec == Init /\ [][Next]_x
Inv == DispatchOK(x) /\ StaleOK(x)
GenInv == GenStale(x) /\ GenDispatch(x)
=============================================================================
