SPECIFICATION SSpecLive
CONSTANTS
  Proc = {"anon", "reap", "xreap"}
  MaxIdx = 1
  MaxHolds = 4
  CASExclusive = TRUE
  WriterExcludesReaders = TRUE
  BlockingWakes = TRUE
  WakeAtTarget = TRUE
  Streamer = {s1, s2}
  MaxOpens = 1
  MaxSinks = 1
  MaxX = 0
  Threshold = 2
  ReadLen = 1
  StreamHoldsReadLock = TRUE
  ReleaseOnce = TRUE
  IdleForceClose = FALSE
  ReaperWaitsForReaders = TRUE
PROPERTIES ReapProceeds
