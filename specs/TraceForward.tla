---------------------------- MODULE TraceForward ----------------------------
(* Trace validation for C20 against Forward.tla's rules: the harness sends one request at a    *)
(* time over HTTP to a node of a live 3-node cluster (c.req / c.resp); the hooks in             *)
(* proxy/proxy.go (px.local, px.fwd, px.fwdret), cluster/service.go (cl.rx, cl.perm) and the    *)
(* FSM (fsm.apply) show which steps the real code took.  At c.resp every rule that applies to  *)
(* the request's class is evaluated; a failed rule is recorded as <<line, name>> (register 2).  *)
(* In `churn` requests leadership is being transferred while the request runs: only the rules  *)
(* that hold under any schedule are evaluated (at most one execution, caller's credentials,     *)
(* index returned = index applied).                                                             *)
EXTENDS Naturals, Sequences, FiniteSets, TLC, Json

Trace == ndJsonDeserialize("trace.ndjson")
VARIABLES l, cur, loc, fwd, fwdret, rx, perm, applied, hi, bad
tvars == <<l, cur, loc, fwd, fwdret, rx, perm, applied, hi, bad>>

Ev == Trace[l]
Is(e) == l <= Len(Trace) /\ Trace[l].ev = e
Step == l' = l + 1
Flag(b, cond, name) == IF cond THEN b ELSE b \cup {<<l, name>>}
None == [on |-> FALSE]

TInit == /\ l = 1 /\ TLCSet(1, 0) /\ TLCSet(2, {}) /\ cur = None /\ loc = <<>> /\ fwd = <<>> /\ fwdret = <<>>
         /\ rx = <<>> /\ perm = <<>> /\ applied = {} /\ hi = 0 /\ bad = {}

Clear == loc' = <<>> /\ fwd' = <<>> /\ fwdret' = <<>> /\ rx' = <<>> /\ perm' = <<>> /\ applied' = {}

TReset == /\ Is("reset") /\ Step /\ cur' = None /\ Clear /\ hi' = 0 /\ UNCHANGED bad
Note == /\ Is("note") /\ Step /\ UNCHANGED <<cur, loc, fwd, fwdret, rx, perm, applied, hi, bad>>

CReq == /\ Is("c.req") /\ Step /\ cur' = [on |-> TRUE, r |-> Ev, base |-> hi] /\ Clear /\ UNCHANGED <<hi, bad>>

PxLocal == /\ Is("px.local") /\ Step /\ loc' = Append(loc, Ev) /\ UNCHANGED <<cur, fwd, fwdret, rx, perm, applied, hi, bad>>
PxFwd == /\ Is("px.fwd") /\ Step /\ fwd' = Append(fwd, Ev) /\ UNCHANGED <<cur, loc, fwdret, rx, perm, applied, hi, bad>>
PxFwdRet == /\ Is("px.fwdret") /\ Step /\ fwdret' = Append(fwdret, Ev) /\ UNCHANGED <<cur, loc, fwd, rx, perm, applied, hi, bad>>
ClRx == /\ Is("cl.rx") /\ Step
        /\ rx' = IF Ev.type \in {"COMMAND_TYPE_EXECUTE", "COMMAND_TYPE_QUERY", "COMMAND_TYPE_REQUEST"} THEN Append(rx, Ev) ELSE rx
        /\ UNCHANGED <<cur, loc, fwd, fwdret, perm, applied, hi, bad>>
ClPerm == /\ Is("cl.perm") /\ Step /\ perm' = Append(perm, Ev) /\ UNCHANGED <<cur, loc, fwd, fwdret, rx, applied, hi, bad>>
(* distinct NEW log indexes applied while the request was in flight (every node applies the same entry;   *)
(* a follower may apply an earlier request's entry late)                                                  *)
FsmApply == /\ Is("fsm.apply") /\ Step /\ hi' = IF Ev.idx > hi THEN Ev.idx ELSE hi
            /\ applied' = IF cur.on /\ Ev.idx > cur.base THEN applied \cup {Ev.idx} ELSE applied    \* entries new since the request was sent
            /\ UNCHANGED <<cur, loc, fwd, fwdret, rx, perm, bad>>

ViaLog(k) == k \in {"execute", "qstrong", "request"}
NeedLeader(k) == k # "qnone"

CResp ==
  /\ Is("c.resp") /\ cur.on /\ Step
  /\ LET r == cur.r
         atLeader == r.atapi = r.leaderapi
         authd == r.allowed                      \* the credential store grants this user the permission the kind needs
         b0 == bad
         \* ---- rules that hold under any schedule ----
         b1 == Flag(b0, Len(fwd) <= 1 /\ Cardinality(applied) <= 1, "executed-or-forwarded-more-than-once")
         b2 == Flag(b1, \A i \in 1..Len(fwd) : fwd[i].user = r.user /\ fwd[i].pw = r.pw, "forwarded-without-callers-credentials")
         b3 == Flag(b2, \A i \in 1..Len(rx) : rx[i].user = r.user /\ rx[i].pw = r.pw, "leader-received-other-credentials")
         b4 == Flag(b3, (Ev.status = 200 /\ Ev.resok /\ ViaLog(r.kind)) =>
                          (Cardinality(applied) = 1 /\ Ev.raftidx \in applied), "returned-index-is-not-the-applied-index")
         b5 == Flag(b4, (Len(fwdret) = 1 /\ fwdret[1].err = "" /\ Ev.status = 200) => Ev.raftidx = fwdret[1].idx, "leader-index-changed-on-the-way-back")
         b6 == Flag(b5, ~authd => (Ev.status = 401 /\ Cardinality(applied) = 0), "unauthorized-request-not-refused")
         b6a == Flag(b6, Ev.status = 200 => Ev.bodyvalid, "answered-200-with-neither-results-nor-error")
         b6b == Flag(b6a, (Ev.status = 200 /\ Ev.bodyvalid /\ Ev.bodyerr = "" /\ authd) => Ev.resok, "results-are-not-the-leaders-results")
         b7 == Flag(b6b, \A i \in 1..Len(loc) : (NeedLeader(r.kind) /\ loc[i].err = "" /\ ~r.churn /\ ~Ev.moved) => loc[i].inst = r.leaderapi, "served-locally-by-a-follower")
         \* ---- rules for a stable leader ----
         s1 == IF r.churn \/ Ev.moved \/ ~authd THEN b7
               ELSE IF atLeader \/ ~NeedLeader(r.kind)
               THEN Flag(b7, Len(loc) = 1 /\ loc[1].err = "" /\ Len(fwd) = 0 /\ Ev.status = 200 /\ Ev.resok /\ Ev.servedby = r.atapi, "local-request-not-served-locally")
               ELSE IF r.redirect
               THEN Flag(b7, Len(fwd) = 0 /\ Cardinality(applied) = 0 /\ Ev.status = 301 /\ Ev.location = r.leaderapi, "redirect-not-honoured")
               ELSE Flag(b7, /\ Len(loc) = 1 /\ loc[1].err # "" /\ Len(fwd) = 1 /\ fwd[1].addr = r.leaderraft
                             /\ Len(rx) = 1 /\ rx[1].inst = r.leaderraft
                             /\ Ev.status = 200 /\ Ev.resok /\ Ev.servedby = r.leaderraft
                             /\ (ViaLog(r.kind) => Cardinality(applied) = 1), "forwarding-not-transparent")
     IN bad' = s1
  /\ cur' = None /\ UNCHANGED <<loc, fwd, fwdret, rx, perm, applied, hi>>

(* at the end: every unique value written is in the database at most once, and once if acknowledged *)
CFinal == /\ Is("c.final") /\ Step
          /\ bad' = Flag(Flag(bad, Ev.count <= 1, "write-applied-twice"), Ev.acked => Ev.count = 1, "acknowledged-write-missing")
          /\ UNCHANGED <<cur, loc, fwd, fwdret, rx, perm, applied, hi>>

TNext == TReset \/ Note \/ CReq \/ PxLocal \/ PxFwd \/ PxFwdRet \/ ClRx \/ ClPerm \/ FsmApply \/ CResp \/ CFinal
TSpec == TInit /\ [][TNext]_tvars

HW == /\ TLCSet(1, IF l > TLCGet(1) THEN l ELSE TLCGet(1))
      /\ TLCSet(2, IF Cardinality(bad) >= Cardinality(TLCGet(2)) THEN bad ELSE TLCGet(2))
Accepted == /\ \A b \in TLCGet(2) : PrintT(<<"@@BAD", b[1], b[2]>>)
            /\ IF TLCGet(1) >= Len(Trace) + 1 THEN TRUE ELSE PrintT(<<"@@HW", TLCGet(1) - 1>>) /\ FALSE
            /\ TLCGet(2) = {}
=============================================================================
