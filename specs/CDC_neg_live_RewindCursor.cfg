SPECIFICATION LiveSpec
CONSTANTS
  Node = {n1}
  MaxIdx = 2
  Multi = {2}
  BatchSz = 2
  InCap = 0
  AsyncHWM = FALSE
  SigCap = 2
  MaxFlips = 3
  MaxLeaders = 1
  MaxRestarts = 0
  MaxSnaps = 0
  MaxDowns = 0
  OneGroupPerEntry = TRUE
  LabelEveryGroup = TRUE
  KeyByHighest = TRUE
  SyncFlushBeforeSnapshot = TRUE
  DrainInBeforeSync = TRUE
  HWMAfterSendOK = TRUE
  PruneToHWMOnly = TRUE
  RewindCursor = FALSE
  ParkedKeptUntilSent = TRUE
  RestartHWMBelowLowest = TRUE
  DropReapplied = TRUE
PROPERTIES Live
