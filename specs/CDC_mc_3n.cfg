\* thorough: 3 nodes, 2 entries, two simultaneous leader loops, no restart
SPECIFICATION Spec
CONSTANTS
  Node = {n1, n2, n3}
  MaxIdx = 2
  Multi = {2}
  BatchSz = 2
  InCap = 0
  AsyncHWM = FALSE
  MaxFlips = 99
  MaxLeaders = 2
  MaxRestarts = 0
  MaxSnaps = 0
  MaxDowns = 99
  OneGroupPerEntry = TRUE
  LabelEveryGroup = TRUE
  KeyByHighest = TRUE
  SyncFlushBeforeSnapshot = TRUE
  DrainInBeforeSync = TRUE
  HWMAfterSendOK = TRUE
  PruneToHWMOnly = TRUE
  RewindCursor = TRUE
  RestartHWMBelowLowest = TRUE
  DropReapplied = TRUE
SYMMETRY Sym
INVARIANTS TypeOK Labelled NoSkip TenureOrder TakenStored KeysBounded
