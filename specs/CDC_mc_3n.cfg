\* thorough: 3 nodes, 2 entries, two simultaneous leader loops, no restart
SPECIFICATION Spec
CONSTANTS
  Node = {n1, n2, n3}
  MaxIdx = 2
  Multi = {2}
  BatchSz = 2
  InCap = 0
  AsyncHWM = FALSE
  SigCap = 2
  MaxFlips = 4
  MaxLeaders = 2
  MaxRestarts = 0
  MaxSnaps = 0
  MaxDowns = 1
  OneGroupPerEntry = TRUE
  LabelEveryGroup = TRUE
  KeyByHighest = TRUE
  SyncFlushBeforeSnapshot = TRUE
  DrainInBeforeSync = TRUE
  HWMAfterSendOK = TRUE
  PruneToHWMOnly = TRUE
  RewindCursor = TRUE
  ParkedKeptUntilSent = TRUE
  RestartHWMBelowLowest = TRUE
  DropReapplied = TRUE
SYMMETRY Sym
INVARIANTS TypeOK Labelled NoSkip TenureOrder TakenStored KeysBounded LoopShape
