SPECIFICATION Spec
CONSTANTS
  Users = {"a", "b", "*"}
  Pws = {"p", "q"}
  Perms = {"x", "all"}
  QPerms = {"x", "y"}
  MaxLen = 2
  FreshEntry = TRUE
  LastWins = TRUE
  AllUsersFirst = TRUE
  NeedUsername = FALSE
  ExactPassword = TRUE
  PermOrAll = TRUE
INVARIANT RuleHolds
