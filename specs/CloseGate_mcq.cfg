SPECIFICATION Spec
CONSTANTS
  H0 = {0, 3}
  Dur = {0, 1, 5, 20, 50, 99, 100, 101, 110}
  T0 = {0, 1, 2, 3, 4, 30, 60, 109, 110, 111}
  Limit = 100
  Short = 1
  SnapDur = {0, 2, 30}
  Eps = 2
  ShortRetryInterval = TRUE
  TenSecondLimit = TRUE
INVARIANTS ClosePrompt FailOnlyIfOutlasts GateExclusive
