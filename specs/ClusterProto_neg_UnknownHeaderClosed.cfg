SPECIFICATION Spec
CONSTANTS
  BoundedRead = TRUE
  NilRequestChecked = TRUE
  UnknownHeaderClosed = FALSE
  AuthBeforeEffect = TRUE
  MaxFrames = 2
  Muxes = {"cluster", "raft", "unknown"}
INVARIANTS MalformedRejected
