SPECIFICATION GenSpec
CONSTANTS
  ROPool = TRUE
  ClassifyWholeText = TRUE
  GuardEveryROStmt = TRUE
  LocalReadsOnROPool = TRUE
  StrongQueryOnROPool = TRUE
  Nodes = {n1, n2, n3}
  SeqClasses = {"select", "write", "ro-head-rw-tail", "ro-head-ddl-tail", "rw-head-ro-tail", "explain-write", "explain-ro-head-rw-tail", "explain-rw-head-rw-tail", "pragma-optimize", "insert-returning"}
  MaxLen = 3
INVARIANT GenInv
