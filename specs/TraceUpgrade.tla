---------------------------- MODULE TraceUpgrade ----------------------------
(* Trace validation of the real upgrade sequence (Upgrade7To8; Upgrade8To10; snapshot.NewStore, *)
(* restore) against Upgrade.tla.  One line per step event of the instrumented code (hooks in    *)
(* snapshot/upgrader.go, snapshot/plan), recorded in child processes that are killed at crash   *)
(* points; the driver adds                                                                        *)
(*   reset  a new case: original store (kind, shape)                                              *)
(*   run    a child process starts the upgrade sequence                                           *)
(*   exit   how it ended: 0 = both upgraders returned nil, 86 = killed at a crash point           *)
(*          (partial: the driver then removed part of the old directory = crash inside            *)
(*          RemoveAll), 3 = an upgrader returned an error                                         *)
(*   fs     the directories and the plan file as found on disk (projection of the model state)    *)
(*   open   snapshot.NewStore + restore of the newest snapshot, compared with the original        *)
(* Every step must be the action the model takes in its current state, every observation must    *)
(* equal the model state; the property's invariants are evaluated on the real trace.             *)
EXTENDS Upgrade, Integers

Trace == ndJsonDeserialize("trace.ndjson")
VARIABLE l
tvars == <<vars, l>>
Ln == Trace[l]
Is(e) == l <= Len(Trace) /\ Ln.ev = e
Step == l' = l + 1
Max2(a, b) == IF a > b THEN a ELSE b

Shape0 == [k \in Snaps |-> IF k = 1 THEN "full" ELSE "none"]
TInit == /\ l = 1 /\ TLCSet(1, 0)
         /\ kind = "v8" /\ shape = Shape0 /\ n = 1 /\ fs = InitFs("v8", Shape0) /\ plan = NoPlan
         /\ pc = "idle" /\ opi = 0 /\ sel = 0 /\ lastev = Evt("init", 0)
         /\ crashes = 0 /\ okruns = 0 /\ res = "none" /\ sched = <<>>
TReset == /\ Is("reset") /\ Step
          /\ Ln.shape \in Shapes /\ Ln.kind \in {"v7", "v8"}
          /\ kind' = Ln.kind /\ shape' = Ln.shape /\ n' = NOf(Ln.shape)
          /\ fs' = InitFs(Ln.kind, Ln.shape) /\ plan' = NoPlan
          /\ pc' = "idle" /\ opi' = 0 /\ sel' = 0 /\ lastev' = Evt("init", 0)
          /\ crashes' = 0 /\ okruns' = 0 /\ res' = "none" /\ sched' = <<>>
T(e, A) == Is(e) /\ Step /\ A
TStep == \/ T("run", StartRun)
         \/ T("up78.start", U78Start) \/ T("up78.noold", U78NoOld) \/ T("up78.oldempty", U78OldEmpty)
         \/ T("up78.newexists", U78NewExists) \/ T("up78.tmp", U78Tmp)
         \/ (Is("up78.meta") /\ Step /\ U78Meta /\ sel' = Ln.id)
         \/ T("up78.dbcreated", U78DbCreate) \/ T("up78.copied", U78Copy) \/ T("up78.wal", U78Wal)
         \/ T("up78.renamed", U78Rename) \/ T("up78.removed", U78Remove)
         \/ T("up810.start", U810Start) \/ T("up810.resume", U810Resume) \/ T("up810.noold", U810NoOld)
         \/ T("up810.oldempty", U810OldEmpty) \/ T("up810.newexists", U810NewExists) \/ T("up810.nosnap", U810NoSnap)
         \/ T("plan.write.tmp", U810PlanTmp)
         \/ (Is("up810.plan") /\ Step /\ U810Plan /\ Ln.id = sel)
         \/ T("plan.copy.created", Op4Create)
         \/ (/\ Is("plan.op") /\ Step /\ Ln.err = "" /\ Ln.k \in 1..NOps
             /\ Ln.type = OpTypes[Ln.k] /\ Ln.k = (IF pc = "opcopy" THEN 4 ELSE opi)
             /\ (Op1 \/ Op2 \/ Op3 \/ Op4Skip \/ Op4Finish \/ Op5 \/ Op6 \/ Op7))
         \/ (Is("plan.op") /\ Step /\ Ln.err # "" /\ Ln.k = opi /\ OpErr)
         \/ T("up810.cleanup", U810Cleanup) \/ T("up810.planremoved", U810PlanRemove)
TExit == /\ Is("exit") /\ Step
         /\ \/ Ln.code = 0 /\ Return
            \/ Ln.code = 86 /\ ~Ln.partial /\ Crash
            \/ /\ Ln.code = 86 /\ Ln.partial /\ RemovePoint = Ln.pdir
               /\ LET D2 == [ex |-> TRUE, s |-> Ln.ps] IN D2 \in Partials(RemovePoint, fs[RemovePoint]) /\ CrashRm(D2)
            \/ Ln.code = 3 /\ U78Err
            \/ Ln.code = 3 /\ pc = "idle" /\ res = "err" /\ UNCHANGED vars      \* reported by the failing plan.op
ProjRec(r) == [r EXCEPT !.crc = IF r.crc = "none" THEN "none"
                                 ELSE IF (r.crc = "offull" /\ r.data = "full") \/ (r.crc = "ofpartial" /\ r.data = "partial")
                                      THEN "ok" ELSE "stale"]
ProjFs == [dn \in DirNames |-> [ex |-> fs[dn].ex, s |-> [k \in Snaps |-> ProjRec(fs[dn].s[k])]]]
TObs == Is("fs") /\ Step /\ UNCHANGED vars /\ pc = "idle" /\ Ln.fs = ProjFs /\ Ln.plan = plan
TOpen == /\ Is("open") /\ Step /\ UNCHANGED vars /\ Completed
         /\ Ln.ok /\ Ln.nsnaps = 1 /\ Ln.newest = n /\ Ln.meta_ok /\ Ln.db_ok
TNext == TReset \/ TStep \/ TExit \/ TObs \/ TOpen
TSpec == TInit /\ [][TNext]_tvars
HW == TLCSet(1, Max2(l, TLCGet(1)))
Accepted == IF TLCGet(1) >= Len(Trace) + 1 THEN TRUE
            ELSE PrintT(<<"@@HW", TLCGet(1) - 1>>) /\ FALSE
=============================================================================
