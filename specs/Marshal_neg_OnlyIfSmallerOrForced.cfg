SPECIFICATION Spec
CONSTANTS
  BatchThreshold = TRUE
  SizeThreshold = TRUE
  OnlyIfSmallerOrForced = FALSE
  DecompressOnFlag = TRUE
  CountFlagOverhead = FALSE
  ParamKinds = {"p", "badutf8"}
  InvalidKinds = {"badutf8"}
  OtherKinds = {"d", "badutf8"}
  MaxReqs = 1
INVARIANTS UsefulOnly
