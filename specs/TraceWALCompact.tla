--------------------------- MODULE TraceWALCompact ---------------------------
(* Observations of the real CompactingFrameScanner on WALs written by real SQLite, judged by      *)
(* WALCompact.tla.  One line per WAL: `w` = the file parsed into abstract frames [pg, commit, salt, *)
(* ck] (all complete frames of the file, stale ones included), `obs` = for the checksum-verifying   *)
(* mode at start 0 and for the fast mode at several commit-boundary resume positions what the real   *)
(* scanner did: ErrOpenTransaction or the emitted frame list [id (source frame), pg, commit].        *)
(* Every observation must be a judged case of the spec, equal Compact(w, start, mode), and satisfy  *)
(* the whole Verdict (checkpoint equivalence against the committed frames from start, nothing beyond *)
(* the valid prefix, error iff open transaction, shape, design sentence) on that real WAL.           *)
EXTENDS WALCompact

Trace == ndJsonDeserialize("trace.ndjson")
VARIABLE l
tvars == <<vars, l>>
Ev == Trace[l]
Max2(a, b) == IF a > b THEN a ELSE b
TInit == w = <<>> /\ l = 1 /\ TLCSet(1, 0)
ObsOK(ws, o) ==
  /\ Judged(ws, o.full)
  /\ o.start \in Starts(ws, o.full)
  /\ LET r == Compact(ws, o.start, o.full)
         v == Verdict(ws, o.full, o.start)
     IN /\ r.err = o.err
        /\ (~o.err => o.out = r.out)
        /\ v.equiv /\ v.beyond /\ v.open /\ v.shape /\ v.design
TCase == /\ l <= Len(Trace) /\ l' = l + 1 /\ w' = Ev.w
         /\ Len(Ev.obs) > 0
         /\ \A k \in 1..Len(Ev.obs) : ObsOK(Ev.w, Ev.obs[k])
TSpec == TInit /\ [][TCase]_tvars
HW == TLCSet(1, Max2(l, TLCGet(1)))
Accepted == IF TLCGet(1) >= Len(Trace) + 1 THEN TRUE
            ELSE PrintT(<<"@@HW", TLCGet(1) - 1>>) /\ FALSE
=============================================================================
