SPECIFICATION Spec
CONSTANTS
  Unchecked = {}
  FullStar = TRUE
  MutEach = FALSE
  NoBodyAfterError = TRUE
  Roles = {"leader", "follower"}
INVARIANTS Emit
CONSTRAINT GenStop
