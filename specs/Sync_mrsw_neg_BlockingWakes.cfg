SPECIFICATION SpecMrsw
CONSTANTS
  Proc = {p1, p2, p3}
  MaxIdx = 3
  MaxHolds = 2
  CASExclusive = TRUE
  WriterExcludesReaders = TRUE
  BlockingWakes = FALSE
  WakeAtTarget = TRUE
INVARIANTS NoLostWake
