\* quick: 2 nodes, 2 entries, separate in-channel, asynchronous HWM updates, <=2 leadership changes, no restart
SPECIFICATION Spec
CONSTANTS
  Node = {n1, n2}
  MaxIdx = 2
  Multi = {2}
  BatchSz = 2
  InCap = 2
  AsyncHWM = TRUE
  MaxFlips = 2
  MaxLeaders = 1
  MaxRestarts = 0
  MaxSnaps = 0
  MaxDowns = 0
  OneGroupPerEntry = TRUE
  LabelEveryGroup = TRUE
  KeyByHighest = TRUE
  SyncFlushBeforeSnapshot = TRUE
  DrainInBeforeSync = TRUE
  HWMAfterSendOK = TRUE
  PruneToHWMOnly = TRUE
  RewindCursor = TRUE
  RestartHWMBelowLowest = TRUE
  DropReapplied = TRUE
SYMMETRY Sym
INVARIANTS TypeOK Labelled NoSkip TenureOrder TakenStored KeysBounded
