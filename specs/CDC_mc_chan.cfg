\* quick: 2 nodes, 2 entries, separate in-channel, asynchronous HWM updates, <=3 leadership signals, no restart
SPECIFICATION Spec
CONSTANTS
  Node = {n1, n2}
  MaxIdx = 2
  Multi = {2}
  BatchSz = 2
  InCap = 2
  AsyncHWM = TRUE
  SigCap = 2
  MaxFlips = 3
  MaxLeaders = 1
  MaxRestarts = 0
  MaxSnaps = 0
  MaxDowns = 0
  OneGroupPerEntry = TRUE
  LabelEveryGroup = TRUE
  KeyByHighest = TRUE
  SyncFlushBeforeSnapshot = TRUE
  DrainInBeforeSync = TRUE
  HWMAfterSendOK = TRUE
  PruneToHWMOnly = TRUE
  RewindCursor = TRUE
  ParkedKeptUntilSent = TRUE
  RestartHWMBelowLowest = TRUE
  DropReapplied = TRUE
SYMMETRY Sym
INVARIANTS TypeOK Labelled NoSkip TenureOrder TakenStored KeysBounded LoopShape
