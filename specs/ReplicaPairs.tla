----------------------------- MODULE ReplicaPairs -----------------------------
(* C01, systematic part of the replay: programs whose statements carry TWO call sites, one for    *)
(* every ORDERED pair of site kinds (Replica!KindSeq: random, randomblob, time function at 'now' /  *)
(* without a time value / on a fixed value / on a column, strftime at 'now' / on a fixed value,     *)
(* timediff with / without 'now'), in the same clause and in two different clauses of a write      *)
(* template.  Program pg has one request per second kind; its first kind and its variant           *)
(* (different clauses / same clause) follow from pg.  The remaining dimensions of a request         *)
(* (function and form within the kind, modifiers, template and clause contexts, nesting, case,     *)
(* gap, endpoint, transaction flag, parameter style) are drawn by a hash of (Seed, pg, request).   *)
(* The path schedule of a program is a fixed function of pg (follower lagging every other request, *)
(* one snapshot + late joiner, restart and recovery from a snapshot or from nothing), so TLC        *)
(* enumerates exactly one behaviour per program -- built from Replica's own actions, and checked     *)
(* against Replica's invariants.                                                                   *)
EXTENDS Replica

CONSTANTS Seed,        \* VERIF_SEED
          Variants     \* programs per first kind: variant v uses different clauses when v is even, the same clause when odd

VARIABLE pg
pvars == <<vars, pg>>

NK == Len(KindSeq)
ASSUME Mode = "gen" /\ MaxReq = NK /\ ~Reduced /\ Variants \in 1..200

Mix(x) == (((x % 40009) * 48271) + 12345) % 1000003
H(a, b, c) == Mix(Mix(Mix((Seed % 40009) + a) + b) + c)

\* functions and forms of a kind; modifiers that leave the value dependent on the time value ('unixepoch' turns 'now' into NULL,
\* 'start of month', '+12 hours' makes time() a constant)
KindFfs == [k \in {KindSeq[i] : i \in 1..NK} |-> SetToSeq({x \in FnForms : KindOfFf(x[1], x[2]) = k /\ x[3] \in {"none", "plus"}})]
\* plain call sites: the expression forms and gaps every version of the walker / pre-filter handles (the others are drawn by Replica_gen)
\* and that keep the value of the call observable in what is stored
PNests == <<"bare", "bare", "bare", "paren", "call", "arith", "cast", "case">>
PGaps  == <<"none", "none", "none", "space", "newline">>
\* clause contexts: one clause whose value is stored, or two clauses at least one of which is
PCtx(same, col1, col2) ==
  SelectSeq(WPairs, LAMBDA tp : /\ (tp[2] = tp[3]) = same
                                /\ tp[2] # "ctebody"
                                /\ Stored(tp[1], tp[2]) \/ (~same /\ Stored(tp[1], tp[3]))
                                /\ col1 => ColScope(tp[1], tp[2])
                                /\ col2 => ColScope(tp[1], tp[3]))
ASSUME \A same, c1, c2 \in BOOLEAN : PCtx(same, c1, c2) # <<>>

FirstKind(p) == KindSeq[((p - 1) % NK) + 1]
Variant(p)   == (p - 1) \div NK
SameClause(p) == Variant(p) % 2 = 1
PairReq(p, r) ==
  LET f1 == Pick(KindFfs[FirstKind(p)], H(p, r, 1))
      f2 == Pick(KindFfs[KindSeq[r]], H(p, r, 2))
      tp == Pick(PCtx(SameClause(p), f1[2] = "col", f2[2] = "col"), H(p, r, 3))
      s1 == MkSite(f1, Pick(CaseW, H(p, r, 4)), Pick(PGaps, H(p, r, 5)), Pick(PNests, H(p, r, 6)))
      s2 == MkSite(f2, Pick(CaseW, H(p, r, 7)), Pick(PGaps, H(p, r, 8)), Pick(PNests, H(p, r, 9)))
      ep == Pick(<<"execute", "execute", "queued", "request">>, H(p, r, 10))
      tx == ep # "queued" /\ H(p, r, 11) % 3 = 0 IN
  [ep |-> ep, tx |-> tx, stmts |-> <<W2(tp, s1, s2, Pick(ParKinds, H(p, r, 12)))>>]

SnapPoint == 3 + (pg % 4)
PInit == Init /\ pg \in 1..(NK * Variants)
PStep ==
  IF applied["live"] < Len(log) THEN ApplyLive("live")
  ELSE IF applied["follower"] < Len(log) /\ Len(log) % 2 = pg % 2 THEN ApplyLive("follower")
  ELSE IF Len(log) = SnapPoint /\ snaps = <<>> THEN SnapshotAt(Len(log))
  ELSE IF Len(log) = SnapPoint /\ ~started["install"] THEN Install(snaps[1])
  ELSE IF Len(log) < MaxReq THEN LET r == PairReq(pg, Len(log) + 1) IN Submit(r, Entry(r))
  ELSE IF applied["follower"] < Len(log) THEN ApplyLive("follower")
  ELSE IF applied["install"] < Len(log) THEN ApplyLive("install")
  ELSE IF clock < MaxClock THEN AdvanceClock                      \* the restarted / recovered node applies later
  ELSE IF ~started["restart"] THEN RestartReplay(IF pg % 3 = 0 THEN NoSnap ELSE snaps[1])
  ELSE IF applied["restart"] < Len(log) THEN ApplyLive("restart")
  ELSE IF ~started["recover"] THEN Recover(IF pg % 2 = 0 THEN NoSnap ELSE snaps[1])
  ELSE FALSE
PNext == PStep /\ UNCHANGED pg
PSpec == PInit /\ [][PNext]_pvars

\* every ordered pair of kinds occurs in a generated program: first kind from pg, second kind from the request number
PairsComplete == \A i, j \in 1..NK : \E p \in 1..(NK * Variants) :
                    LET st == PairReq(p, j).stmts[1] IN KindOf(st.site) = KindSeq[i] /\ KindOf(st.site2) = KindSeq[j]
ASSUME PairsComplete
=============================================================================
