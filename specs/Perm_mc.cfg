SPECIFICATION Spec
CONSTANTS
  Unchecked = {}
  MutEach = FALSE
  NoBodyAfterError = TRUE
  Roles = {"leader"}
INVARIANTS OnlyIfAuthorized NoEffectUnlessAuth NoContentUnlessAuth DeniedClean AllowedPerforms Decided
