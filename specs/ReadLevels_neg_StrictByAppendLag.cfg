SPECIFICATION Spec
CONSTANTS
  WeakNeedsLeader = TRUE
  AutoOnQuery = TRUE
  AutoOnUnified = TRUE
  StaleByContact = TRUE
  StrictByAppendLag = FALSE
  MaxT = 3
INVARIANT Inv
