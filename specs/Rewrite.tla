------------------------------- MODULE Rewrite -------------------------------
(* rqlite command/sql/processor.go: before a write is replicated, calls whose value would    *)
(* differ between nodes are replaced by a concrete value.                                    *)
(*                                                                                           *)
(* A case is one submitted statement: a template (SELECT / INSERT VALUES / INSERT SELECT /   *)
(* UPDATE / DELETE / UPSERT / RETURNING / CTE / sub-query / window / multi-row forms), an     *)
(* unrelated "filler" expression whose meaning must survive, and 0..3 call sites, each in a  *)
(* named slot (= clause context) of the template; two sites may share a slot (the calls then *)
(* stand side by side in one expression of that clause).  A site is                          *)
(*   [fn, form (argument / time-value form), mod (modifiers), cs (case of the name),          *)
(*    gap (what separates the name from the parenthesis), nest (expression it is nested in)] *)
(* nest = "string" / "ident" put the call text inside a string literal / a quoted identifier.*)
(* form = "col": the time value is a column of the table in scope (deterministic).           *)
(*                                                                                           *)
(* MustRewrite(site)  = what the property text demands.                                      *)
(* Replaced(case, i)  = what the DESIGN of the rewriter does: substring pre-filter on the    *)
(* statement, parse, walk every node, recognise the call.  Every mechanism is a switch       *)
(* (TRUE = the design).  Invariants: Complete, Minimal, Unchanged, OnePinPerStatement,       *)
(* ExclusionsExact.  The same case sets are printed as JSON and replayed on the real         *)
(* sql.Process and on real SQLite (harness/main/rewrite.go).                                 *)
EXTENDS Naturals, Sequences, FiniteSets, TLC, Json

CONSTANTS PrefilterComplete,    \* the pre-filter recognises a call whatever separates name and "("
          ImplicitNow,          \* date()/time()/datetime()/julianday()/unixepoch() without arguments are pinned
          FormatOnly,           \* strftime(format) without a time value is pinned
          SkipOrderBy,          \* random() inside an ORDER BY term is left alone
          LeaveStringsIdents,   \* the rewrite works on the syntax tree: strings and identifiers are not touched
          UntouchedIfNoSite,    \* a statement in which nothing was replaced is replicated byte for byte
          WalkEverywhere,       \* every clause and every expression form is visited
          OnePin,               \* one clock reading per statement
          SiteIndependent,      \* whether a call is replaced does not depend on the other calls of the statement: the statement
                                \* is re-rendered iff ANY call was replaced (FALSE: the verdict of the last call visited decides)
          Tier                  \* "neg" | "quick" | "full": which case sets are enumerated

-----------------------------------------------------------------------------
(* grammar *)
T1      == {"date", "time", "datetime", "julianday", "unixepoch"}
TimeFns == T1 \cup {"strftime", "timediff"}
Fns     == {"random", "randomblob"} \cup TimeFns

FormsOf(fn) == CASE fn = "random"     -> {"call"}
                 [] fn = "randomblob" -> {"lit", "zero", "expr"}
                 [] fn \in T1         -> {"now", "nowuc", "implicit", "other", "expr", "col"}
                 [] fn = "strftime"   -> {"now", "implicit", "other", "col"}
                 [] fn = "timediff"   -> {"now_other", "other_now", "now_now", "other_other"}
ModsOf(fn, form) == IF fn \in T1 \cup {"strftime"} /\ form \in {"now", "other"}
                    THEN {"none", "plus", "som2", "rawunix"} ELSE {"none"}
Cases_  == {"lower", "upper", "mixed"}
Gaps    == {"none", "space", "newline", "comment"}
Nests   == {"bare", "paren", "call", "arith", "cast", "case", "isnull", "between", "subq", "string", "ident"}
ExprNests == Nests \ {"string", "ident"}

FnForms == UNION {{<<fn, fo, mo>> : mo \in ModsOf(fn, fo)} : <<fn, fo>> \in UNION {{<<f, g>> : g \in FormsOf(f)} : f \in Fns}}
S(ffm, cs, gap, nest) == [fn |-> ffm[1], form |-> ffm[2], mod |-> ffm[3], cs |-> cs, gap |-> gap, nest |-> nest]
Plain(ffm) == S(ffm, "lower", "none", "bare")

(* templates and their slots, in textual order *)
TplSlots == <<
  <<"select",   <<"proj", "where", "orderby", "offset">> >>,
  <<"group",    <<"groupby", "having">> >>,
  <<"join",     <<"joinon">> >>,
  <<"compound", <<"proj", "proj2">> >>,
  <<"fromsub",  <<"subproj", "suborderby">> >>,
  <<"exists",   <<"existswhere">> >>,
  <<"insel",    <<"inselect">> >>,
  <<"window",   <<"filter", "partition", "winorder">> >>,
  <<"values",   <<"values">> >>,
  <<"insval",   <<"values">> >>,
  <<"insval2",  <<"values2">> >>,
  <<"inssel",   <<"proj", "where", "orderby">> >>,
  <<"replace",  <<"values">> >>,
  <<"update",   <<"set", "where">> >>,
  <<"updtuple", <<"set">> >>,
  <<"updfrom",  <<"subproj", "where">> >>,
  <<"delete",   <<"where">> >>,
  <<"upsert",   <<"values", "upsertset", "upsertwhere">> >>,
  <<"insret",   <<"values", "returning">> >>,
  <<"updret",   <<"set", "returning">> >>,
  <<"delret",   <<"where", "returning">> >>,
  <<"ctesel",   <<"ctebody", "proj">> >>,
  <<"cteins",   <<"ctebody", "proj">> >>,
  <<"cteupd",   <<"ctebody", "set">> >>,
  <<"ctedel",   <<"ctebody", "where">> >>,
  <<"multi",    <<"values">> >> >>
Tpls == {TplSlots[i][1] : i \in DOMAIN TplSlots}
SlotF == [t \in Tpls |-> LET i == CHOOSE j \in DOMAIN TplSlots : TplSlots[j][1] = t IN TplSlots[i][2]]
SlotsOf(t) == SlotF[t]
AllSlots == UNION {{<<TplSlots[i][1], TplSlots[i][2][k]>> : k \in DOMAIN TplSlots[i][2]} : i \in DOMAIN TplSlots}
InOrderBy(slot) == slot \in {"orderby", "suborderby", "winorder"}
\* a time value read from a COLUMN needs a table in scope: not in a VALUES list, a FROM-less (sub-)select, LIMIT / OFFSET
NoColumn == {<<"select", "offset">>, <<"compound", "proj">>, <<"compound", "proj2">>, <<"values", "values">>, <<"insval", "values">>,
             <<"insval2", "values2">>, <<"replace", "values">>, <<"updfrom", "subproj">>, <<"upsert", "values">>, <<"insret", "values">>,
             <<"ctesel", "ctebody">>, <<"cteins", "ctebody">>, <<"cteupd", "ctebody">>, <<"ctedel", "ctebody">>, <<"multi", "values">>}
ColScope(tpl, slot) == <<tpl, slot>> \in AllSlots \ NoColumn
WellScoped(tpl, slot, s) == s.form = "col" => ColScope(tpl, slot)

Fills == {"none", "str", "blob", "num", "null", "curts", "collate", "cast", "caseexpr", "like", "likeesc", "glob",
          "isnot", "notnull", "isnull", "between", "notin", "concat", "json", "bitops", "arith", "neg", "hexint",
          "bool", "ne", "eqeq", "exists", "scalar", "rowvalue", "qident"}
FillNonDet(f) == f = "curts"       \* CURRENT_TIMESTAMP: not in the property's list, legitimately time dependent

-----------------------------------------------------------------------------
(* the property *)
CallSite(s) == s.nest \notin {"string", "ident"}
NowArg(s) == \/ s.fn \in T1 /\ s.form \in {"now", "nowuc", "implicit"}
             \/ s.fn = "strftime" /\ s.form \in {"now", "implicit"}
             \/ s.fn = "timediff" /\ s.form # "other_other"
NonDet(s) == s.fn \in {"random", "randomblob"} \/ NowArg(s)
Excluded(slot, s) == \/ s.fn = "random" /\ InOrderBy(slot)          \* "every RANDOM() outside ORDER BY"
                     \/ s.fn = "randomblob" /\ s.form = "expr"       \* "every RANDOMBLOB(n) with a literal n"
MustRewrite(slot, s) == /\ CallSite(s)
                        /\ \/ s.fn = "random" /\ ~InOrderBy(slot)
                           \/ s.fn = "randomblob" /\ s.form \in {"lit", "zero"}
                           \/ NowArg(s)

(* the design of the rewriter *)
TextHit(s) == s.gap = "none" \/ PrefilterComplete      \* also hit by the text inside strings / identifiers (harmless)
Parsed(c) == \E i \in DOMAIN c.sites : TextHit(c.sites[i].s)
Reached(slot, s) == /\ CallSite(s) \/ ~LeaveStringsIdents
                    /\ WalkEverywhere \/ (slot # "ctebody" /\ slot # "inselect" /\ s.nest \notin {"isnull", "subq"})
Recognised(slot, s) == CASE s.fn = "random"     -> ~(SkipOrderBy /\ InOrderBy(slot))
                         [] s.fn = "randomblob" -> s.form \in {"lit", "zero"}
                         [] s.fn \in T1         -> s.form \in {"now", "nowuc"} \/ (s.form = "implicit" /\ ImplicitNow)
                         [] s.fn = "strftime"   -> s.form = "now" \/ (s.form = "implicit" /\ FormatOnly)
                         [] s.fn = "timediff"   -> s.form # "other_other"
NodeReplaced(c, i) == Parsed(c) /\ Reached(c.sites[i].slot, c.sites[i].s) /\ Recognised(c.sites[i].slot, c.sites[i].s)
Replaced(c, i) == NodeReplaced(c, i) /\ (SiteIndependent \/ NodeReplaced(c, Len(c.sites)))      \* sites are visited in textual order
TimeCallWithArgs(s) == CallSite(s) /\ s.fn \in TimeFns /\ s.form # "implicit"
Rerendered(c) == /\ Parsed(c)
                 /\ \/ \E i \in DOMAIN c.sites : Replaced(c, i)
                    \/ ~UntouchedIfNoSite /\ \E i \in DOMAIN c.sites : TimeCallWithArgs(c.sites[i].s)
Pin(c, i) == IF OnePin THEN 1 ELSE i          \* which clock reading site i gets

Must(c, i) == MustRewrite(c.sites[i].slot, c.sites[i].s)
AnyMust(c) == \E i \in DOMAIN c.sites : Must(c, i)

-----------------------------------------------------------------------------
(* case sets *)
Mk(t, f, ss) == [tpl |-> t, fill |-> f, sites |-> ss]
At(slot, s) == [slot |-> slot, s |-> s]
Idx(t, slot) == CHOOSE k \in DOMAIN SlotsOf(t) : SlotsOf(t)[k] = slot

Rep(fn, form) == Plain(<<fn, form, "none">>)
Reps6 == {Rep("random", "call"), Rep("randomblob", "lit"), Rep("datetime", "now"), Rep("date", "implicit"),
          Rep("strftime", "now"), Rep("timediff", "other_now")}
Reps8 == {Rep("random", "call"), Rep("randomblob", "lit"), Rep("datetime", "now"), Rep("date", "implicit"),
          Rep("strftime", "implicit"), Rep("datetime", "other"),
          S(<<"date", "now", "none">>, "lower", "none", "string"), S(<<"datetime", "now", "none">>, "lower", "space", "bare")}
Reps12 == Reps8 \cup {Rep("julianday", "now"), Rep("randomblob", "expr"), S(<<"random", "call", "none">>, "upper", "none", "ident"),
                      S(<<"random", "call", "none">>, "lower", "comment", "call")}
\* one representative per kind of call (what the walker's branch for it looks at): non-deterministic ones and the time calls
\* on a fixed value / a column, which the walker visits and must leave alone
RepsK8  == {Rep("random", "call"), Rep("randomblob", "lit"), Rep("julianday", "now"), Rep("date", "implicit"), Rep("datetime", "other"),
            Rep("date", "col"), Rep("strftime", "now"), Rep("strftime", "other")}
RepsK10 == RepsK8 \cup {Rep("timediff", "other_now"), Rep("timediff", "other_other"), Rep("strftime", "col"), Rep("unixepoch", "expr")}
BaseSlots == {<<"select", "proj">>, <<"insval", "values">>, <<"update", "set">>}

\* G1: every function form in every clause context
G1(SS) == {Mk(ts[1], "none", <<At(ts[2], Plain(ffm))>>) : ts \in SS, ffm \in FnForms}
\* G2: class representatives x expression nesting x every clause context
G2(SS) == {Mk(ts[1], "none", <<At(ts[2], [r EXCEPT !.nest = n])>>) : ts \in SS, r \in Reps6, n \in Nests}
\* G3: every function form x case x gap (pre-filter, name comparison)
G3(SS) == {Mk(ts[1], "none", <<At(ts[2], S(ffm, cs, gap, "bare"))>>) : ts \in SS, ffm \in FnForms, cs \in Cases_, gap \in Gaps}
\* G4: filler expressions x templates, without a site and next to a rewritten site
G4 == {Mk(t, f, <<>>) : t \in Tpls, f \in Fills}
      \cup {Mk(t, f, <<At(SlotsOf(t)[1], r)>>) : t \in Tpls, f \in Fills, r \in {Rep("random", "call"), Rep("datetime", "now"), Rep("datetime", "other")}}
\* G5 / G6: two and three sites in one statement
Pairs(t, R) == {Mk(t, "none", <<At(SlotsOf(t)[i], a), At(SlotsOf(t)[j], b)>>) :
                  <<i, j>> \in {p \in (DOMAIN SlotsOf(t)) \X (DOMAIN SlotsOf(t)) : p[1] < p[2]}, a \in R, b \in R}
Triples(t, R) == {Mk(t, "none", <<At(SlotsOf(t)[i], a), At(SlotsOf(t)[j], b), At(SlotsOf(t)[k], d)>>) :
                    <<i, j, k>> \in {p \in (DOMAIN SlotsOf(t)) \X (DOMAIN SlotsOf(t)) \X (DOMAIN SlotsOf(t)) : p[1] < p[2] /\ p[2] < p[3]},
                    a \in R, b \in R, d \in R}
G5(R) == UNION {Pairs(t, R) : t \in Tpls}
\* two sites side by side in ONE clause, in either order
G5s(SS, R) == {Mk(ts[1], "none", <<At(ts[2], a), At(ts[2], b)>>) : ts \in SS, a \in R, b \in R}
G6(R) == UNION {Triples(t, R) : t \in Tpls}
\* thorough only: the whole site space in three base contexts, and every form x nesting x context
G7 == {Mk(ts[1], "none", <<At(ts[2], S(ffm, cs, gap, n))>>) : ts \in BaseSlots, ffm \in FnForms, cs \in Cases_, gap \in Gaps, n \in Nests}
G8 == {Mk(ts[1], "none", <<At(ts[2], S(ffm, "lower", "none", n))>>) : ts \in AllSlots, ffm \in FnForms, n \in Nests}

Sel == {<<"select", "proj">>}
NegSlots == {<<"select", "proj">>, <<"select", "orderby">>, <<"ctesel", "ctebody">>}
Scoped(X) == {x \in X : \A i \in DOMAIN x.sites : WellScoped(x.tpl, x.sites[i].slot, x.sites[i].s)}
CaseSet == Scoped(
           CASE Tier = "neg"   -> G1(NegSlots) \cup G2(Sel) \cup {x \in G3(Sel) : x.sites[1].s.cs = "lower"} \cup Pairs("select", Reps6)
                                  \cup G5s(Sel, Reps6)
             [] Tier = "quick" -> G1(AllSlots) \cup G2(AllSlots) \cup G3(Sel \cup {<<"insval", "values">>}) \cup G4
                                  \cup G5(Reps8 \cup {Rep("date", "col")}) \cup G5s(AllSlots, RepsK8) \cup G6(Reps6)
             [] Tier = "full"  -> G1(AllSlots) \cup G2(AllSlots) \cup G3(Sel \cup {<<"insval", "values">>}) \cup G4
                                  \cup G5(Reps12 \cup {Rep("date", "col"), Rep("strftime", "other")}) \cup G5s(AllSlots, RepsK10)
                                  \cup G6(Reps8) \cup G7 \cup G8)

-----------------------------------------------------------------------------
VARIABLE c
vars == <<c>>
Init == c \in CaseSet
Next == UNCHANGED c
Spec == Init /\ [][Next]_vars

(* the property, on the design *)
Complete  == \A i \in DOMAIN c.sites : Must(c, i) => Replaced(c, i)
Minimal   == \A i \in DOMAIN c.sites : Replaced(c, i) => Must(c, i)
Unchanged == ~AnyMust(c) => ~Rerendered(c)
OnePinPerStatement == \A i, j \in DOMAIN c.sites : (Replaced(c, i) /\ Replaced(c, j)) => Pin(c, i) = Pin(c, j)
\* cross-check of MustRewrite against the wording: non-deterministic calls minus the two stated exclusions
ExclusionsExact == \A i \in DOMAIN c.sites :
                     LET x == c.sites[i] IN
                     Must(c, i) <=> (CallSite(x.s) /\ NonDet(x.s) /\ ~Excluded(x.slot, x.s))
\* after the rewrite nothing non-deterministic is left except what the property excludes
ResidualOnlyExcluded == \A i \in DOMAIN c.sites :
                     LET x == c.sites[i] IN
                     (CallSite(x.s) /\ NonDet(x.s) /\ ~Replaced(c, i)) => Excluded(x.slot, x.s)

(* generator: one JSON object per case, with the verdicts the replay compares against *)
SkipFaith(cc) == \E i \in DOMAIN cc.sites : CallSite(cc.sites[i].s) /\ NonDet(cc.sites[i].s) /\ Excluded(cc.sites[i].slot, cc.sites[i].s)
Emit == PrintT(<<"@@", ToJson([tpl |-> c.tpl, fill |-> c.fill,
                               sites |-> [i \in DOMAIN c.sites |->
                                  [slot |-> c.sites[i].slot, fn |-> c.sites[i].s.fn, form |-> c.sites[i].s.form,
                                   mod |-> c.sites[i].s.mod, cs |-> c.sites[i].s.cs, gap |-> c.sites[i].s.gap,
                                   nest |-> c.sites[i].s.nest, must |-> Must(c, i)]],
                               skipfaith |-> SkipFaith(c),
                               skipdet |-> SkipFaith(c) \/ FillNonDet(c.fill),
                               untouched |-> ~AnyMust(c)])>>)
=============================================================================
