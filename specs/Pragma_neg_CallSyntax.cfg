SPECIFICATION Spec
CONSTANTS
  AfterTrivia = TRUE
  EveryStatement = TRUE
  CallSyntax = FALSE
  SchemaPrefix = TRUE
  QuotedName = TRUE
INVARIANTS NoBypass
