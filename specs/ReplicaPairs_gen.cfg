SPECIFICATION PSpec
CONSTANTS
  RewriteAllSites = TRUE
  RewriteOnEndpoint <- AllEndpoints
  SingleApplyPath = TRUE
  SiteIndependent = TRUE
  Mode = "gen"
  MaxReq = 10
  MaxClock = 2
  MaxSnaps = 1
  MaxStmts = 1
  McAlphabet = "small"
  Reduced = FALSE
  Seed = 1
  Variants = 2
INVARIANTS Converge LogDeterministic RewrittenIffMust Emit
