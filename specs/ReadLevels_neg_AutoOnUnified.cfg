SPECIFICATION Spec
CONSTANTS
  WeakNeedsLeader = TRUE
  AutoOnQuery = TRUE
  AutoOnUnified = FALSE
  StaleByContact = TRUE
  StrictByAppendLag = TRUE
  MaxT = 3
INVARIANT Inv
