SPECIFICATION Spec
CONSTANTS
  PrefilterComplete = TRUE
  ImplicitNow = TRUE
  FormatOnly = TRUE
  SkipOrderBy = TRUE
  LeaveStringsIdents = TRUE
  UntouchedIfNoSite = FALSE
  WalkEverywhere = TRUE
  OnePin = TRUE
  Tier = "neg"
INVARIANTS Unchanged
