SPECIFICATION Spec
CONSTANTS
  PrefilterComplete = TRUE
  ImplicitNow = TRUE
  FormatOnly = TRUE
  SkipOrderBy = TRUE
  LeaveStringsIdents = TRUE
  UntouchedIfNoSite = FALSE
  WalkEverywhere = TRUE
  OnePin = TRUE
  SiteIndependent = TRUE
  Tier = "neg"
INVARIANTS Unchanged
