---------------------------- MODULE TraceStreams ----------------------------
(* Trace validation of snapshot.Store (LockingStreamer / sinks / reaping) against Streams.tla. *)
(* Each ndjson line is one hook event of internal/rsync (emitted under the lock's mutex), one   *)
(* hook event of snapshot/store.go (ls.open in NewLockingStreamer, ls.close right after         *)
(* `closed` is set under l.mu, ls.released after the EndRead made for that streamer, reap.mutate *)
(* before the reap plan is executed, reap.done after it) or one harness observation (h.NAME).        *)
(* Every event is consumed deterministically (nothing is guessed); what the property forbids is  *)
(* expressed by the invariants of Streams.tla, evaluated after EVERY event; a condition that     *)
(* becomes false is recorded in `bad` as <<line, name>> and reported by the postcondition (the   *)
(* rest of the trace is still consumed, so several violations of one run are all seen).  The     *)
(* model-only variables (consumer, timer, reaper pc) stay put.                                   *)
EXTENDS Streams, Json, Integers

Trace == ndJsonDeserialize("trace.ndjson")
AllConds == {"ReadersNonNegative", "WriterExcludes", "LockCoversStreams", "NoReapWhileOpen", "StreamsSeeOwnContent",
             "ReleasedOnTrace", "CountMatches", "Quiescent", "NothingStuck"}
TStreamers == 1..40
VARIABLES l,       \* next line
          quiet,   \* the harness declared quiescence (all consumers done, timers expired, lock seen free)
          obs,     \* reader count reported by the last lock event
          bad,     \* {<<line, condition>>}: conditions that became false, with the line of the event
          okc      \* the conditions that hold in the current state
tvars == <<allvars, l, quiet, obs, bad, okc>>
Ev == Trace[l]
Is(e) == l <= Len(Trace) /\ Trace[l].ev = e
Step == l' = l + 1
Max2(a, b) == IF a > b THEN a ELSE b
model == <<cx, snaps, tmp, nsink, gen, sig, rp, rslept, xp, nx>>      \* not observable through the hooks
lockRest == <<casHeld, wt, cur, subs, nsub>>

TInit == SInit /\ l = 1 /\ quiet = FALSE /\ obs = 0 /\ bad = {} /\ okc = AllConds /\ TLCSet(1, 0) /\ TLCSet(2, {})

TReset == /\ Is("reset") /\ Step
          /\ rd' = [p \in Proc |-> 0] /\ wr' = {} /\ UNCHANGED lockRest
          /\ ls' = [s \in Streamer |-> NoLS] /\ mut' = FALSE /\ flags' = {} /\ quiet' = FALSE /\ obs' = 0
          /\ UNCHANGED model

(* ---- the lock (anonymous read holds; "reap" = auto-reaper, blocking; Store.Reap() = non-blocking) ---- *)
TBeginRead == /\ (Is("mrsw.bread") \/ Is("mrsw.breadb")) /\ Step
              /\ IF Ev.ev = "mrsw.breadb" \/ Ev.ok
                 THEN rd' = [rd EXCEPT ![Anon] = @ + 1] /\ obs' = Ev.readers
                 ELSE UNCHANGED <<rd, obs>>
              /\ UNCHANGED <<wr, lockRest, svars, quiet>>
TEndRead == /\ Is("mrsw.eread") /\ Step /\ obs' = Ev.readers
            /\ IF rd[Anon] > 0 THEN rd' = [rd EXCEPT ![Anon] = @ - 1] /\ flags' = flags
                               ELSE rd' = rd /\ flags' = flags \cup {"underflow"}
            /\ UNCHANGED <<wr, lockRest, ls, model, mut, quiet>>
TBeginWrite == /\ Is("mrsw.bwrite") /\ Step
               /\ wr' = IF Ev.ok THEN wr \cup {XW} ELSE wr
               /\ UNCHANGED <<rd, lockRest, svars, quiet, obs>>
TBeginWriteB == /\ Is("mrsw.bwriteb") /\ Step /\ wr' = wr \cup {RW}
                /\ UNCHANGED <<rd, lockRest, svars, quiet, obs>>
TEndWrite == /\ Is("mrsw.ewrite") /\ Step /\ wr' = {} /\ mut' = FALSE
             /\ UNCHANGED <<rd, lockRest, ls, model, flags, quiet, obs>>

(* ---- streamers ---- *)
TLsOpen == /\ Is("ls.open") /\ Step /\ Ev.ls \in Streamer /\ ls[Ev.ls].st = "none"
           /\ ls' = [ls EXCEPT ![Ev.ls] = NewLS(0)]
           /\ UNCHANGED <<vars, model, mut, flags, quiet, obs>>
TLsClose == /\ Is("ls.close") /\ Step /\ Ev.ls \in Streamer
            /\ ls' = [ls EXCEPT ![Ev.ls].closed = TRUE, ![Ev.ls].ncl = @ + 1]
            /\ UNCHANGED <<vars, model, mut, flags, quiet, obs>>
TLsReleased == /\ Is("ls.released") /\ Step /\ Ev.ls \in Streamer
               /\ ls' = [ls EXCEPT ![Ev.ls].rel = @ + 1]
               /\ UNCHANGED <<vars, model, mut, flags, quiet, obs>>
TLsOther == /\ (Is("ls.noop") \/ Is("ls.rearm")) /\ Step /\ UNCHANGED <<allvars, quiet, obs>>

(* ---- reaping ---- *)
TReapMutate == /\ Is("reap.mutate") /\ Step /\ mut' = TRUE
               /\ UNCHANGED <<vars, ls, model, flags, quiet, obs>>
TReapDone == /\ Is("reap.done") /\ Step /\ mut' = FALSE
             /\ UNCHANGED <<vars, ls, model, flags, quiet, obs>>

(* ---- harness observations ---- *)
THStream == /\ Is("h.stream") /\ Step
            /\ flags' = IF Ev.content = "ok" THEN flags ELSE flags \cup {"stale"}
            /\ UNCHANGED <<vars, ls, model, mut, quiet, obs>>
THStuck == /\ Is("h.stuck") /\ Step /\ flags' = flags \cup {"stuck"}
           /\ UNCHANGED <<vars, ls, model, mut, quiet, obs>>
THQuiesce == /\ Is("h.quiesce") /\ Step /\ quiet' = TRUE /\ UNCHANGED <<allvars, obs>>
THOther == /\ (Is("h.sink") \/ Is("h.openfail") \/ Is("h.reaperr") \/ Is("h.note")) /\ Step
           /\ UNCHANGED <<allvars, quiet, obs>>

TNext == \/ TReset \/ TBeginRead \/ TEndRead \/ TBeginWrite \/ TBeginWriteB \/ TEndWrite
         \/ TLsOpen \/ TLsClose \/ TLsReleased \/ TLsOther \/ TReapMutate \/ TReapDone
         \/ THStream \/ THStuck \/ THQuiesce \/ THOther
(* trace-only conditions *)
CountMatches  == obs = NReaders \/ "underflow" \in flags
ReleasedOnTrace == \A s \in Streamer : ls[s].rel <= 1 /\ ls[s].ncl <= 1 /\ (ls[s].rel = 1 => ls[s].closed)
Quiescent     == quiet => (NReaders = 0 /\ \A s \in Streamer : ls[s].st = "open" => (ls[s].closed /\ ls[s].rel = 1))
NothingStuck  == "stuck" \notin flags

Conds == AllConds
Holds(n) == CASE n = "ReadersNonNegative" -> ReadersNonNegative
              [] n = "WriterExcludes" -> WriterExcludes
              [] n = "LockCoversStreams" -> LockCoversStreams
              [] n = "NoReapWhileOpen" -> NoReapWhileOpen
              [] n = "StreamsSeeOwnContent" -> StreamsSeeOwnContent
              [] n = "ReleasedOnTrace" -> ReleasedOnTrace
              [] n = "CountMatches" -> CountMatches
              [] n = "Quiescent" -> Quiescent
              [] n = "NothingStuck" -> NothingStuck
(* every condition is evaluated in the state after the event; it is recorded when it turns false *)
Record == /\ okc' = {c \in Conds : Holds(c)'}
          /\ bad' = bad \cup {<<l, n>> : n \in okc \ okc'}

TSpec == TInit /\ [][TNext /\ Record]_tvars

HW == /\ TLCSet(1, Max2(l, TLCGet(1)))
      /\ TLCSet(2, IF Cardinality(bad) >= Cardinality(TLCGet(2)) THEN bad ELSE TLCGet(2))
Accepted == /\ \A b \in TLCGet(2) : PrintT(<<"@@BAD", b[1], b[2]>>)
            /\ IF TLCGet(1) >= Len(Trace) + 1 THEN TRUE ELSE PrintT(<<"@@HW", TLCGet(1) - 1>>) /\ FALSE
            /\ TLCGet(2) = {}
=============================================================================
