SPECIFICATION Spec
CONSTANTS
  BoundedRead = TRUE
  NilRequestChecked = TRUE
  UnknownHeaderClosed = TRUE
  AuthBeforeEffect = FALSE
  MaxFrames = 2
  Muxes = {"cluster", "raft", "unknown"}
INVARIANTS StateChangeAuthorized
