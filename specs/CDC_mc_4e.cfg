\* thorough: 2 nodes, 4 entries, <=3 leadership changes, 1 endpoint outage, no restart
SPECIFICATION Spec
CONSTANTS
  Node = {n1, n2}
  MaxIdx = 4
  Multi = {2}
  BatchSz = 2
  InCap = 0
  AsyncHWM = FALSE
  SigCap = 2
  MaxFlips = 3
  MaxLeaders = 1
  MaxRestarts = 0
  MaxSnaps = 0
  MaxDowns = 1
  OneGroupPerEntry = TRUE
  LabelEveryGroup = TRUE
  KeyByHighest = TRUE
  SyncFlushBeforeSnapshot = TRUE
  DrainInBeforeSync = TRUE
  HWMAfterSendOK = TRUE
  PruneToHWMOnly = TRUE
  RewindCursor = TRUE
  ParkedKeptUntilSent = TRUE
  RestartHWMBelowLowest = TRUE
  DropReapplied = TRUE
SYMMETRY Sym
INVARIANTS TypeOK Labelled NoSkip TenureOrder TakenStored KeysBounded LoopShape
