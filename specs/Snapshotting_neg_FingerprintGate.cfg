SPECIFICATION Spec
CONSTANTS
  Page = {p1, p2}
  MaxIdx = 4
  MaxSnapOps = 3
  MaxCrashes = 2
  AllowRecover = FALSE
  FingerprintGate = FALSE
  FPVouchesForVisible = TRUE
  CleanStagingOnNewBase = TRUE
  FullAfterLoad = TRUE
  RecoverDiscardsFile = TRUE
  ClearFlagOnlyIfCovers = TRUE
INVARIANTS LiveOK Rebuild
