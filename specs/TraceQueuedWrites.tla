------------------------- MODULE TraceQueuedWrites -------------------------
(* Trace validation for C23 against QueuedWrites.tla.  One projection per accepting node of a   *)
(* live 3-node cluster (harness/main/queued.go); projections are concatenated, `reset` between.  *)
(*   q.write{seq,req,n,wait}   hook under seqMu in queue.Write: request `req` (n statements)     *)
(*                             accepted with sequence number seq (rebased to 1,2,..)              *)
(*   q.sending{seq,n,nw}       hook in the queue's run loop: next batch = the next nw requests    *)
(*   hq.take{seq,n}            runQueue received the batch                                        *)
(*   hq.try{seq,cls}           proxy.Execute returned (cls = "ok" | "leader-not-found" | ...)     *)
(*   hq.done{seq}              runQueue is about to close the batch's flush channels              *)
(*   c.accept{req,seq}         a client got 200 + sequence_number for a request without wait      *)
(*   c.waitret{req,seq}        a client's wait request returned 200                               *)
(*   row{req,k}                final table content in rowid (= apply) order, this node's rows     *)
(*   final{stuck,lasterr}      cluster healthy again, queue drained (or not: stuck)               *)
(* The variables and invariants are those of QueuedWrites.tla; `applied` is what the consumer     *)
(* believes it applied (successful tries), the rows are what was applied.  Every rule of the      *)
(* property that fails is recorded as <<line, name>>; the postcondition prints them.              *)
EXTENDS QueuedWrites, Json, Integers

Trace == ndJsonDeserialize("trace.ndjson")
VARIABLES l, reqOf, seqOf, okTry, lastErr, ri, dup, dupc, seen, bad
tvars == <<allvars, l, reqOf, seqOf, okTry, lastErr, ri, dup, dupc, seen, bad>>

Ev == Trace[l]
Is(e) == l <= Len(Trace) /\ Trace[l].ev = e
Step == l' = l + 1
Flag(b, cond, name) == IF cond THEN b ELSE b \cup {<<l, name>>}
C == "c1"
QuietQ == UNCHANGED <<mu, wpc, wseq, qobjs, timer, pending, nflush, leader, losses>>
Fresh == /\ seqNum = 0 /\ acc = <<>> /\ chan = <<>> /\ sendCh = <<>> /\ out = <<>>
         /\ shape = <<>> /\ wst = <<>> /\ cur = [c \in Consumers |-> <<>>] /\ cst = [c \in Consumers |-> "idle"]
         /\ applied = <<>> /\ unk = <<>> /\ closed = {}
         /\ reqOf = <<>> /\ seqOf = <<>> /\ okTry = FALSE /\ lastErr = "none" /\ ri = 0 /\ dup = <<>> /\ dupc = <<>> /\ seen = {}

TInit == /\ l = 1 /\ TLCSet(1, 0) /\ TLCSet(2, {}) /\ bad = {}
         /\ mu = "none" /\ wpc = [w \in Writers |-> "idle"] /\ wseq = [w \in Writers |-> 0] /\ qobjs = <<>> /\ timer = FALSE
         /\ pending = <<>> /\ nflush = 0 /\ leader = "up" /\ losses = 0
         /\ Fresh

TReset == /\ Is("reset") /\ Step /\ QuietQ /\ UNCHANGED bad
          /\ seqNum' = 0 /\ acc' = <<>> /\ chan' = <<>> /\ sendCh' = <<>> /\ out' = <<>>
          /\ shape' = <<>> /\ wst' = <<>> /\ cur' = [c \in Consumers |-> <<>>] /\ cst' = [c \in Consumers |-> "idle"]
          /\ applied' = <<>> /\ unk' = <<>> /\ closed' = {}
          /\ reqOf' = <<>> /\ seqOf' = <<>> /\ okTry' = FALSE /\ lastErr' = "none" /\ ri' = 0 /\ dup' = <<>> /\ dupc' = <<>> /\ seen' = {}

Note == /\ (Is("note") \/ Is("c.waittimeout") \/ Is("c.reject") \/ Is("c.fail")) /\ Step
        /\ UNCHANGED <<allvars, reqOf, seqOf, okTry, lastErr, ri, dup, dupc, seen, bad>>

(* ---- acceptance: queue.Write under seqMu ---- *)
TWrite == /\ Is("q.write") /\ Step /\ QuietQ
          /\ Ev.seq = seqNum + 1                    \* the sequence number is the acceptance order
          /\ seqNum' = Ev.seq /\ acc' = Append(acc, Ev.seq) /\ chan' = Append(chan, Item(Ev.seq))
          /\ shape' = Append(shape, [n |-> Ev.n, wait |-> Ev.wait])
          /\ wst' = Append(wst, IF Ev.wait THEN "waiting" ELSE "none")
          /\ reqOf' = Append(reqOf, Ev.req)
          /\ seqOf' = IF Ev.req = 0 THEN seqOf ELSE (Ev.req :> Ev.seq) @@ seqOf
          /\ UNCHANGED <<sendCh, out, cur, cst, applied, unk, closed, okTry, lastErr, ri, dup, dupc, seen, bad>>

(* ---- the queue forms the next batch: the next nw accepted requests, whole and in order ---- *)
NStmts(q) == Len(FlattenSeq([j \in 1..Len(q) |-> ReqStmts(q[j].seq)]))
TSending == /\ Is("q.sending") /\ Step /\ QuietQ
            /\ LET k == IF Ev.nw <= Len(chan) THEN Ev.nw ELSE Len(chan)
                   items == SubSeq(chan, 1, k)
               IN /\ sendCh' = Append(sendCh, [seq |-> Ev.seq, items |-> items])
                  /\ chan' = SubSeq(chan, k + 1, Len(chan))
                  /\ bad' = Flag(bad, Ev.nw >= 1 /\ Ev.nw <= Len(chan) /\ items[k].seq = Ev.seq /\ NStmts(items) = Ev.n,
                                 "batch-is-not-the-next-accepted-requests")
            /\ UNCHANGED <<seqNum, acc, out, shape, wst, cur, cst, applied, unk, closed, reqOf, seqOf, okTry, lastErr, ri, dup, dupc, seen>>

(* ---- runQueue ---- *)
IdxIn(q, s) == CHOOSE i \in 1..Len(q) : q[i].seq = s
TTake == /\ Is("hq.take") /\ Step /\ QuietQ
         /\ \E i \in 1..Len(sendCh) : sendCh[i].seq = Ev.seq
         /\ LET i == IdxIn(sendCh, Ev.seq)
                b == sendCh[i]
            IN /\ cur' = [cur EXCEPT ![C] = b] /\ cst' = [cst EXCEPT ![C] = "have"]
               /\ out' = Append(out, b)
               /\ sendCh' = SubSeq(sendCh, 1, i - 1) \o SubSeq(sendCh, i + 1, Len(sendCh))
               /\ bad' = Flag(Flag(bad, cst[C] = "idle", "second-consumer:batch-taken-while-another-is-in-progress"),
                              i = 1, "reordered:batch-taken-out-of-order")
         /\ okTry' = FALSE /\ lastErr' = "none"
         /\ UNCHANGED <<seqNum, acc, chan, shape, wst, applied, unk, closed, reqOf, seqOf, ri, dup, dupc, seen>>

UnkOf(s) == IF s \in DOMAIN unk THEN unk[s] ELSE 0
TTry == /\ Is("hq.try") /\ Step /\ QuietQ
        /\ cur[C] # <<>> /\ cur[C].seq = Ev.seq
        /\ IF Ev.cls = "ok"
           THEN /\ applied' = applied \o Stmts(cur[C]) /\ okTry' = TRUE /\ cst' = [cst EXCEPT ![C] = "applied"]
                /\ bad' = Flag(bad, ~okTry, "duplicated:batch-executed-again-after-success")
                /\ UNCHANGED <<unk, lastErr>>
           ELSE /\ lastErr' = Ev.cls
                /\ unk' = IF Ev.cls = "leader-not-found" THEN unk ELSE (Ev.seq :> (UnkOf(Ev.seq) + 1)) @@ unk
                /\ UNCHANGED <<applied, okTry, cst, bad>>
        /\ UNCHANGED <<seqNum, acc, chan, sendCh, out, shape, wst, cur, closed, reqOf, seqOf, ri, dup, dupc, seen>>

TDone == /\ Is("hq.done") /\ Step /\ QuietQ
         /\ cur[C] # <<>> /\ cur[C].seq = Ev.seq
         /\ bad' = Flag(bad, okTry \/ Stmts(cur[C]) = <<>>, "dropped:after=" \o lastErr)
         /\ closed' = closed \cup {Ev.seq}
         /\ cur' = [cur EXCEPT ![C] = <<>>] /\ cst' = [cst EXCEPT ![C] = "idle"]
         /\ UNCHANGED <<seqNum, acc, chan, sendCh, out, shape, wst, applied, unk, reqOf, seqOf, okTry, lastErr, ri, dup, dupc, seen>>

(* ---- clients ---- *)
KnownSeq(s, r) == s \in 1..Len(reqOf) /\ reqOf[s] = r
TAccept == /\ Is("c.accept") /\ Step /\ QuietQ
           /\ bad' = Flag(bad, KnownSeq(Ev.seq, Ev.req), "returned-sequence-number-is-not-the-acceptance-order")
           /\ UNCHANGED <<seqNum, acc, chan, sendCh, out, shape, wst, cur, cst, applied, unk, closed, reqOf, seqOf, okTry, lastErr, ri, dup, dupc, seen>>
TWaitRet == /\ Is("c.waitret") /\ Step /\ QuietQ
            /\ IF KnownSeq(Ev.seq, Ev.req)
               THEN /\ bad' = Flag(Flag(bad, FcClosed(Ev.seq), "wait-returned-early:batch-not-done"),
                                   Range(ReqStmts(Ev.seq)) \subseteq Range(applied), "wait-returned-early:not-applied")
                    /\ wst' = [wst EXCEPT ![Ev.seq] = "ok"]
               ELSE /\ bad' = Flag(bad, FALSE, "returned-sequence-number-is-not-the-acceptance-order") /\ UNCHANGED wst
            /\ UNCHANGED <<seqNum, acc, chan, sendCh, out, shape, cur, cst, applied, unk, closed, reqOf, seqOf, okTry, lastErr, ri, dup, dupc, seen>>

(* ---- the table at the end: rows of this node in apply order ---- *)
BatchOfSeq(s) == CHOOSE i \in 1..Len(out) : s \in Range(ItemSeqs(out[i]))
HasBatch(s) == \E i \in 1..Len(out) : s \in Range(ItemSeqs(out[i]))
DupcOf(i) == IF i \in DOMAIN dupc THEN dupc[i] ELSE 0
PosIn(a, x) == CHOOSE i \in 1..Len(a) : a[i] = x
AtBoundary == ri = 0 \/ ri = Len(applied) \/ ~HasBatch(applied[ri][1]) \/ ~HasBatch(applied[ri + 1][1]) \/ BatchOfSeq(applied[ri][1]) # BatchOfSeq(applied[ri + 1][1])
TRow == /\ Is("row") /\ Step /\ QuietQ
        /\ IF Ev.req \notin DOMAIN seqOf
           THEN bad' = Flag(bad, FALSE, "row-of-a-request-that-was-not-accepted") /\ UNCHANGED <<ri, dup, dupc, seen>>
           ELSE LET x == <<seqOf[Ev.req], Ev.k>> IN
             /\ seen' = seen \cup {x}
             /\ IF dup # <<>>
                THEN \* inside a repeated application of a whole batch
                     LET st == Stmts(out[dup.b]) IN
                     IF st[dup.j] = x
                     THEN dup' = (IF dup.j = Len(st) THEN <<>> ELSE [b |-> dup.b, j |-> dup.j + 1]) /\ UNCHANGED <<ri, dupc, bad>>
                     ELSE dup' = <<>> /\ bad' = Flag(bad, FALSE, "duplicated:repeated-batch-incomplete") /\ UNCHANGED <<ri, dupc>>
                ELSE IF ri < Len(applied) /\ applied[ri + 1] = x
                THEN ri' = ri + 1 /\ UNCHANGED <<dup, dupc, bad>>
                ELSE IF x \in seen
                THEN \* a statement applied again: allowed as a whole batch, after an unknown outcome of that batch
                     IF HasBatch(x[1]) /\ AtBoundary /\ Stmts(out[BatchOfSeq(x[1])])[1] = x
                        /\ DupcOf(BatchOfSeq(x[1])) < UnkOf(out[BatchOfSeq(x[1])].seq)
                     THEN LET b == BatchOfSeq(x[1]) IN
                          /\ dup' = (IF Len(Stmts(out[b])) = 1 THEN <<>> ELSE [b |-> b, j |-> 2])
                          /\ dupc' = (b :> (DupcOf(b) + 1)) @@ dupc /\ UNCHANGED <<ri, bad>>
                     ELSE bad' = Flag(bad, FALSE, "duplicated:without-unknown-outcome") /\ UNCHANGED <<ri, dup, dupc>>
                ELSE IF \E i \in (ri + 2)..Len(applied) : applied[i] = x
                THEN \* rows of earlier statements are missing here: dropped (reported at `final`) or applied later (reported there)
                     ri' = PosIn(applied, x) /\ UNCHANGED <<dup, dupc, bad>>
                ELSE IF \E i \in 1..ri : applied[i] = x
                THEN bad' = Flag(bad, FALSE, "reordered:applied-after-later-accepted-statements") /\ UNCHANGED <<ri, dup, dupc>>
                ELSE UNCHANGED <<ri, dup, dupc, bad>>   \* applied by a try whose failure the consumer took for final: reported at hq.done
        /\ UNCHANGED <<seqNum, acc, chan, sendCh, out, shape, wst, cur, cst, applied, unk, closed, reqOf, seqOf, okTry, lastErr>>

AllStmts == UNION {Range(ReqStmts(s)) : s \in 1..Len(shape)}
TFinal == /\ Is("final") /\ Step /\ QuietQ
          /\ IF Ev.stuck
             THEN bad' = Flag(bad, FALSE, "stuck:after=" \o Ev.lasterr)
             ELSE bad' = Flag(Flag(Flag(bad, AllStmts \subseteq seen, "dropped:accepted-statement-never-applied"),
                                        dup = <<>>, "duplicated:repeated-batch-incomplete"),
                                   chan = <<>> /\ sendCh = <<>> /\ cst[C] = "idle", "dropped:left-in-the-queue")
          /\ UNCHANGED <<seqNum, acc, chan, sendCh, out, shape, wst, cur, cst, applied, unk, closed, reqOf, seqOf, okTry, lastErr, ri, dup, dupc, seen>>

TNext == TReset \/ Note \/ TWrite \/ TSending \/ TTake \/ TTry \/ TDone \/ TAccept \/ TWaitRet \/ TRow \/ TFinal
TSpec == TInit /\ [][TNext]_tvars

----------------------------------------------------------------------------
(* the consumer's own account of what it applied follows the acceptance order, nothing twice (a gap is a   *)
(* dropped batch and reported as such); with `applied` free of repeats this is InOrder of QueuedWrites.tla *)
Before(x, y) == x[1] < y[1] \/ (x[1] = y[1] /\ x[2] < y[2])
TInOrder == \A i \in 1..(Len(applied) - 1) : Before(applied[i], applied[i + 1])
InvFail(name, holds) == IF holds \/ \E b \in TLCGet(2) : b[2] = name THEN {} ELSE {<<l - 1, name>>}
(* the invariants of QueuedWrites.tla are evaluated in every state reached by a consumer or wait event (the other   *)
(* events cannot falsify them: they only extend the accepted requests or consume final rows)                         *)
Chk == l > 1 /\ Trace[l - 1].ev \in {"hq.take", "hq.try", "hq.done", "c.waitret", "final"}
HW == /\ TLCSet(1, IF l > TLCGet(1) THEN l ELSE TLCGet(1))
      /\ TLCSet(2, TLCGet(2) \cup bad \cup
                   (IF Chk THEN InvFail("reordered:believed-applied-order-is-not-acceptance-order", TInOrder)
                                \cup InvFail("dropped:batch-released-without-being-applied", NoneDropped)
                                \cup InvFail("wait-returned-early:not-applied", WaitAfterApply)
                                \cup InvFail("flush-channels-closed-for-a-batch-not-taken", ClosedAreTaken)
                    ELSE {}))
Accepted == /\ \A b \in TLCGet(2) : PrintT(<<"@@BAD", b[1], b[2]>>)
            /\ IF TLCGet(1) >= Len(Trace) + 1 THEN TRUE ELSE PrintT(<<"@@HW", TLCGet(1) - 1>>) /\ FALSE
            /\ TLCGet(2) = {}
=============================================================================
