--------------------------- MODULE TraceCheckpoint ---------------------------
(* Trace validation of the real checkpoint path (db.SwappableDB / db.CheckpointManager / the   *)
(* store's segment handling, on a real SQLite database in WAL mode with real read transactions) *)
(* against Checkpoint.tla.  One line per schedule step or manager step:                         *)
(*   reset | rs r | re r | w pages | att.begin | ckpt.begin | ckpt.check | ckpt.compact |       *)
(*   ckpt.sqlite | ckpt.classify | att.end                                                      *)
(* The actions are those of Checkpoint.tla.  What SQLITE chose (restart or append; how many     *)
(* frames the checkpoint moved; truncated or not) is bound from the logged values, and so is    *)
(* what the manager answered at its check step (start frame, reset flag) and the state it was   *)
(* left in, so that the model follows the real run; every place where the observation differs   *)
(* from what the design (all switches on) does is recorded in `bad` as <<line, name>>:          *)
(*   ckpt:...     the real rqlite code departs from the design / the property is false          *)
(*   inv:...      an invariant of Checkpoint.tla is false in the state reached by the real run  *)
(*   sqlite:...   the SQLite part of the model mispredicted real SQLite (defect of the model)   *)
(*   harness:...  the replayer and the model disagree about the workload (defect of the check)  *)
EXTENDS Checkpoint, Json

Trace == ndJsonDeserialize("trace.ndjson")
VARIABLES l, bad
tvars == <<vars, l, bad>>
Ev == Trace[l]
Is(e) == l <= Len(Trace) /\ Trace[l].ev = e
Has(f) == f \in DOMAIN Ev
Step == l' = l + 1

SeqToSet(s) == {s[i] : i \in 1..Len(s)}
PagesOf(fs) == [i \in 1..Len(fs) |-> fs[i].pg]
DbSeq(db) == [p \in 1..NPages |-> db[p]]
ObsDb(s) == [p \in Page |-> s[p]]
F(cond, name) == IF cond THEN {} ELSE {name}
(* invariants of the design, evaluated in the state the real run reached *)
InvFlags == F(RebuildOK', "inv:RebuildOK") \cup F(NoSegmentAfterFailure', "inv:NoSegmentAfterFailure")
            \cup F(ResetDetected', "inv:ResetDetected") \cup F(NoSpuriousReset', "inv:NoSpuriousReset")
            \cup F(NoRecapture', "inv:NoRecapture") \cup F(ArmedSane', "inv:ArmedSane")
            \cup F(SegWellFormed', "inv:SegWellFormed") \cup F(TypeOK', "harness:TypeOK")
Flags(S) == bad' = bad \cup {<<l, n>> : n \in S \cup InvFlags}

TInit == Init /\ l = 1 /\ bad = {} /\ TLCSet(1, 0) /\ TLCSet(2, {})
TReset == Is("reset") /\ Step /\ ResetAll /\ bad' = bad

TReaderStart == /\ Is("rs") /\ Step /\ ReaderStart(Ev.r)
                /\ Flags(F(Ev.view = DbSeq(Live), "sqlite:reader-view"))
TReaderStop == /\ Is("re") /\ Step /\ ReaderStop(Ev.r)
               /\ Flags(F(Ev.same, "sqlite:reader-not-a-snapshot"))

TWrite == /\ Is("w") /\ Step
          /\ LET S == SeqToSet(Ev.pages) IN
             /\ SqWrite(S, Ev.restart)
             /\ Flags(F(Ev.restart = CanRestart, "sqlite:write-restart")
                      \cup F(Ev.salt = salt', "sqlite:write-salt")
                      \cup F(Ev.nframes = Len(wal'), "sqlite:write-nframes")
                      \cup F(Ev.frames = PagesOf(TxFrames(S, Ev.ver)), "sqlite:write-frames")
                      \cup F(Ev.ver = nw', "harness:version"))

TAttBegin == /\ Is("att.begin") /\ Step /\ CkBeginWith(Ev.haswal)
             /\ Flags(F(Ev.haswal = hdr, "sqlite:wal-has-data"))
TNoWal == /\ Is("att.end") /\ Has("out") /\ pc = "idle" /\ Step /\ UNCHANGED vars
          /\ Flags(F(Ev.nstaged = nstaged, "ckpt:staged-files-changed-without-attempt"))
TMgrBegin == /\ Is("ckpt.begin") /\ pc = "check" /\ Step /\ UNCHANGED vars
             /\ Flags(F(Ev.armed = armed, "ckpt:armed-state-changed-between-attempts")
                      \cup F(Ev.walsz > 0 /\ Ev.w, "harness:manager-begin"))

After == IF WatchReset THEN "reset" ELSE IF armed THEN "armed" ELSE "unarmed"
TCkCheck == /\ Is("ckpt.check") /\ Step /\ CkCheckWith(Ev.start, Ev.reset)
            /\ Flags(F(Ev.salt = salt, "sqlite:salt-at-check")
                     \cup F(WatchReset => Ev.reset, "ckpt:wal-reset-not-detected")
                     \cup F(Ev.reset => WatchReset, "ckpt:wal-reset-spurious")
                     \cup F(Ev.start = WatchStart, "ckpt:start-frame-mismatch:after=" \o After))

TCkCompact == /\ Is("ckpt.compact") /\ Step /\ CkCompact
              /\ Flags(F(Ev.nfr = Len(att'.seg) /\ Ev.empty = (att'.seg = <<>>),
                         "ckpt:compacted-frames-mismatch:start=" \o (IF att.start = 0 THEN "0" ELSE "resume")))

Clamp(n) == IF n < nBackfill THEN nBackfill ELSE IF n > Len(wal) THEN Len(wal) ELSE n
TCkSqlite == /\ Is("ckpt.sqlite") /\ Step
             /\ LET tr == Ev.code = 0
                    bf == IF tr THEN Len(wal) ELSE Clamp(Ev.moved) IN
                /\ SqCkpt(bf, tr)
                /\ Flags(F(WillTruncate = tr /\ (~tr => NewBackfill = Ev.moved), "sqlite:checkpoint-outcome")
                         \cup F(IF tr THEN Ev.pages = 0 /\ Ev.moved = 0 ELSE Ev.pages = Len(wal), "sqlite:checkpoint-counts"))

TCkClassify == /\ Is("ckpt.classify") /\ Step /\ CkClassify
               /\ Flags(F(Ev.outcome = att'.out, "ckpt:classification-mismatch:sqlite=" \o att'.out))

(* the manager has returned; the store cancelled or closed the segment; the harness observed the result. *)
(* The model is re-synchronised with the observation (watch state, staged files, rebuilt database).      *)
TAttEnd ==
  /\ Is("att.end") /\ ~Has("out") /\ pc = "finish" /\ Step
  /\ LET sfx == ":outcome=" \o att.out \o ":after=" \o (IF att.reset THEN "reset" ELSE IF att.start > 0 THEN "resume" ELSE "start0")
         okout == ":outcome=" \o att.out
         obsM == <<Ev.armed, Ev.asalt, Ev.aidx>>
         desM == <<armed, aSalt, aIdx>>
         segOK == Has("seg") /\ Ev.seg = PagesOf(att.seg)
         gotRb == Ev.ok /\ Has("rebuilt") IN
     /\ armed' = Ev.armed /\ aSalt' = Ev.asalt /\ aIdx' = Ev.aidx
     /\ resetSince' = IF Ev.armed /\ obsM # desM THEN FALSE ELSE resetSince
     /\ nstaged' = Ev.nstaged
     /\ rebuilt' = IF gotRb THEN ObsDb(Ev.rebuilt) ELSE rebuilt
     /\ fresh' = IF Ev.ok THEN TRUE ELSE fresh
     /\ capUpTo' = IF Ev.ok THEN Len(wal) ELSE capUpTo
     /\ tmp' = FALSE /\ pc' = "idle" /\ att' = Att0
     /\ UNCHANGED <<svars, nw, nck, leftover>>
     /\ Flags(F(Ev.ok = ~att.err, "ckpt:error-mismatch" \o sfx)
              \cup F(Ev.ok \/ Ev.errc = "busy", "ckpt:unexpected-error" \o okout)
              \cup F(<<Ev.code, Ev.pages, Ev.moved>> = <<att.code, att.pages, att.moved>>, "ckpt:meta-mismatch" \o okout)
              \cup F(Ev.reset = att.reset, "ckpt:meta-reset-flag-mismatch" \o okout)
              \cup F(obsM = desM, "ckpt:armed-state-mismatch" \o okout)
              \cup F(~Ev.ok => (Ev.nstaged = nstaged /\ Ev.nfiles = 2 * nstaged), "ckpt:segment-left-after-failure" \o okout)
              \cup F(Ev.ok => (Ev.nstaged = nstaged + 1 /\ Ev.nfiles = 2 * (nstaged + 1) /\ ~Has("segmissing")),
                     "ckpt:segment-missing-after-success" \o okout)
              \cup F(Ev.ok /\ Has("seg") => segOK, "ckpt:segment-content-mismatch" \o sfx)
              \cup F(Has("seglast") => Ev.seglast, "ckpt:segment-ends-without-commit" \o sfx)
              \cup F(~Has("replayerr"), "ckpt:segment-replay-failed" \o sfx)
              \cup F(gotRb => Ev.rebuilt = Ev.live, "ckpt:rebuild-mismatch" \o sfx)
              \cup F(Ev.live = DbSeq(Live), "sqlite:live-mismatch")
              \cup F(Ev.walhas = hdr, "sqlite:wal-has-data-after")
              \cup F((gotRb /\ segOK) => ObsDb(Ev.rebuilt) = ApplyFrames(rebuilt, att.seg), "harness:model-rebuild-differs"))

TNext == TReset \/ TReaderStart \/ TReaderStop \/ TWrite \/ TAttBegin \/ TNoWal \/ TMgrBegin
         \/ TCkCheck \/ TCkCompact \/ TCkSqlite \/ TCkClassify \/ TAttEnd
TSpec == TInit /\ [][TNext]_tvars

HW == /\ TLCSet(1, IF l > TLCGet(1) THEN l ELSE TLCGet(1))
      /\ TLCSet(2, IF Cardinality(bad) >= Cardinality(TLCGet(2)) THEN bad ELSE TLCGet(2))
Accepted == /\ \A b \in TLCGet(2) : PrintT(<<"@@BAD", b[1], b[2]>>)
            /\ IF TLCGet(1) >= Len(Trace) + 1 THEN TRUE ELSE PrintT(<<"@@HW", TLCGet(1) - 1>>) /\ FALSE
            /\ TLCGet(2) = {}
=============================================================================
