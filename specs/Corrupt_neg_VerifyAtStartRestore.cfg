SPECIFICATION Spec
CONSTANTS
  NWals = 2
  VerifyBeforeFirstUse = TRUE
  VerifyAtStartRestore = FALSE
  HeaderCarriesRecordedCRC = TRUE
  ReceiverRecomputes = TRUE
  VerifyBeforeConsolidate = TRUE
INVARIANTS EarlyStartDetection
