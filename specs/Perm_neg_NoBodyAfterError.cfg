SPECIFICATION Spec
CONSTANTS
  Unchecked = {}
  FullStar = FALSE
  MutEach = FALSE
  NoBodyAfterError = FALSE
  Roles = {"leader"}
INVARIANTS NoContentUnlessAuth
