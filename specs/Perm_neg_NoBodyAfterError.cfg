SPECIFICATION Spec
CONSTANTS
  Unchecked = {}
  MutEach = FALSE
  NoBodyAfterError = FALSE
  Roles = {"leader"}
INVARIANTS NoContentUnlessAuth
