SPECIFICATION Spec
CONSTANTS
  MaxWals = 2
  MaxChunk = 12
  CheckSizes = TRUE
  CRCOnInstall = FALSE
  CRCOnRestore = TRUE
  RejectTrailing = TRUE
  ValidateFiles = TRUE
  CompressionTransparent = TRUE
  ZeroCRCCompared = TRUE
INVARIANTS SinkAcceptedIsSource
