SPECIFICATION Spec
CONSTANTS
  Int64Exact = FALSE
  HexLiteralToBlob = TRUE
  ByteArrayToBlob = TRUE
  BlobStaysBlob = TRUE
  TextStaysText = TRUE
INVARIANTS ValueExact
