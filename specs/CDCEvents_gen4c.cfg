SPECIFICATION Spec
CONSTANTS
  MaxLen = 4
  MaxReq = 1
  MaxRow = 2
  AOps = {"ins", "insm"}
  BOps = {}
  CtlOps = {"begin", "commit", "rollback", "savepoint", "release", "rollbackto"}
  TxModes = {TRUE, FALSE}
  Trigs = {FALSE}
  Filters = {FALSE}
  Idss = {FALSE}
  DropRolledBack = TRUE
  GroupPerCommit = TRUE
  FilterTables = TRUE
  IdsOnly = TRUE
INVARIANTS EmitCase
