SPECIFICATION Spec
CONSTANTS
  Node = {n1}
  MaxIdx = 1
  Multi = {2}
  BatchSz = 2
  InCap = 0
  AsyncHWM = FALSE
  SigCap = 2
  MaxFlips = 99
  MaxLeaders = 1
  MaxRestarts = 0
  MaxSnaps = 0
  MaxDowns = 99
  OneGroupPerEntry = TRUE
  LabelEveryGroup = TRUE
  KeyByHighest = TRUE
  SyncFlushBeforeSnapshot = TRUE
  DrainInBeforeSync = TRUE
  HWMAfterSendOK = FALSE
  PruneToHWMOnly = TRUE
  RewindCursor = TRUE
  ParkedKeptUntilSent = TRUE
  RestartHWMBelowLowest = TRUE
  DropReapplied = TRUE
INVARIANTS TypeOK Labelled NoSkip TenureOrder TakenStored KeysBounded LoopShape
