SPECIFICATION Spec
CONSTANTS
  MaxWrites = 2
  MaxAuto = 1
  MaxBackups = 1
  Delta = {1}
  GateDuringFileCopy = TRUE
  SnapshotBeforeCopy = TRUE
  DumpInOneReadTxn = TRUE
  BackupSingleStep = FALSE
  StreamEndDetected = TRUE
  AbortAfterPartial = TRUE
  EndMarkerOnlyOnSuccess = TRUE
  CopyErrorReturned = TRUE
  DumpRowErrorsReturned = TRUE
INVARIANTS TypeOK Consistent Complete CutIsError GateReleased
