SPECIFICATION Spec
CONSTANTS
  MaxLevel = 3
  ReleaseRate = 2
  HasIdle = TRUE
  ClampHigh = TRUE
  ClampLow = TRUE
  UseReleaseRate = FALSE
  IdleReset = TRUE
INVARIANTS InRange IdleCovers
PROPERTY StepSizes
CONSTRAINT Bound
