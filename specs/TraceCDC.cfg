SPECIFICATION TSpec
CONSTANTS
  Node = {"n1", "n2", "n3"}
  MaxIdx = 1000000
  Multi = {}
  BatchSz = 2
  InCap = 2
  AsyncHWM = TRUE
  SigCap = 5
  MaxFlips = 99
  MaxLeaders = 3
  MaxRestarts = 99
  MaxSnaps = 99
  MaxDowns = 99
  OneGroupPerEntry = TRUE
  LabelEveryGroup = TRUE
  KeyByHighest = TRUE
  SyncFlushBeforeSnapshot = TRUE
  DrainInBeforeSync = TRUE
  HWMAfterSendOK = TRUE
  PruneToHWMOnly = TRUE
  RewindCursor = TRUE
  ParkedKeptUntilSent = TRUE
  RestartHWMBelowLowest = TRUE
  DropReapplied = TRUE
CONSTRAINT HW
POSTCONDITION Accepted
CHECK_DEADLOCK FALSE
