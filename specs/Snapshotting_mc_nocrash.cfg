SPECIFICATION Spec
CONSTANTS
  Page = {p1, p2}
  MaxIdx = 4
  MaxSnapOps = 4
  MaxCrashes = 0
  AllowRecover = FALSE
  FingerprintGate = TRUE
  FPVouchesForVisible = TRUE
  CleanStagingOnNewBase = TRUE
  FullAfterLoad = TRUE
  RecoverDiscardsFile = TRUE
  ClearFlagOnlyIfCovers = TRUE
INVARIANTS LiveOK Rebuild
