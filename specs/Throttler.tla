------------------------------ MODULE Throttler ------------------------------
(* rqlite store/throttler: delay level in 0..MaxLevel (index into the delay table),         *)
(* Signal +1 (clamped), Release -ReleaseRate (clamped at 0), Reset, idle timer re-armed by   *)
(* every Signal/Release and firing Reset.  Switches (TRUE = design): ClampHigh, ClampLow,    *)
(* UseReleaseRate, IdleReset.                                                                *)
EXTENDS Integers, TLC

CONSTANTS MaxLevel, ReleaseRate, HasIdle,
          ClampHigh, ClampLow, UseReleaseRate, IdleReset

VARIABLES level, armed
vars == <<level, armed>>

Init == level = 0 /\ armed = FALSE
Touch == armed' = (HasIdle /\ IdleReset)
Signal == /\ level' = IF ClampHigh THEN (IF level < MaxLevel THEN level + 1 ELSE level) ELSE level + 1
          /\ Touch
Release == /\ LET d == IF UseReleaseRate THEN ReleaseRate ELSE 1
                  n == level - d
              IN level' = IF ClampLow /\ n < 0 THEN 0 ELSE n
           /\ Touch
Reset == level' = 0 /\ armed' = FALSE
IdleFire == armed /\ Reset
Next == Signal \/ Release \/ Reset \/ IdleFire
Spec == Init /\ [][Next]_vars
Bound == level \in -3..(MaxLevel + 3)

InRange == level \in 0..MaxLevel
(* a non-zero level always has the idle timer running, so it returns to zero when nothing else happens *)
IdleCovers == (HasIdle /\ level > 0) => armed
StepSizes == [][ \/ level' = level \/ level' = level + 1 \/ level' = 0
                 \/ level' = level - ReleaseRate ]_vars
=============================================================================
