SPECIFICATION Spec
CONSTANTS
  WeakNeedsLeader = TRUE
  AutoOnQuery = TRUE
  AutoOnUnified = TRUE
  StaleByContact = FALSE
  StrictByAppendLag = TRUE
  MaxT = 3
INVARIANT Inv
