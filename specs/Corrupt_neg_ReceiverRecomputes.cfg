SPECIFICATION Spec
CONSTANTS
  NWals = 2
  VerifyBeforeFirstUse = TRUE
  VerifyAtStartRestore = TRUE
  HeaderCarriesRecordedCRC = TRUE
  ReceiverRecomputes = FALSE
  VerifyBeforeConsolidate = TRUE
INVARIANTS RunCorruptionNeverServed
