SPECIFICATION Spec
CONSTANTS
  MaxSnaps = 3
  MaxCrashes = 2
  MaxOk = 2
  TmpThenRename = TRUE
  RemoveOldIfNewExists = TRUE
  PlanResume = TRUE
  ResumeToleratesDoneRename = TRUE
  Gen = FALSE
INVARIANTS TypeOK RunOK ResultExact CleanFinish NoDataLoss
