SPECIFICATION Spec
CONSTANTS
  MaxWrites = 2
  MaxAuto = 1
  MaxBackups = 1
  Delta = {1}
  GateDuringFileCopy = TRUE
  SnapshotBeforeCopy = TRUE
  DumpInOneReadTxn = TRUE
  BackupSingleStep = TRUE
  StreamEndDetected = FALSE
  AbortAfterPartial = TRUE
  EndMarkerOnlyOnSuccess = TRUE
  CopyErrorReturned = TRUE
  DumpRowErrorsReturned = TRUE
INVARIANTS TypeOK CutIsError Consistent Complete GateReleased
