----------------------------- MODULE MCCluster -----------------------------
EXTENDS Cluster
Sym == Permutations(Node)
SymV == Permutations(Voter)   \* configs with read replicas: only voters are interchangeable
=============================================================================
