SPECIFICATION Spec
CONSTANTS
  MaxS = 3
  EofWithDataSeen = TRUE
  LastWhenFinished = FALSE
  StreamIdCheck = TRUE
  SeqCheck = TRUE
INVARIANTS SenderOK
