SPECIFICATION Spec
CONSTANTS
  MaxS = 3
  EofWithDataSeen = FALSE
  LastWhenFinished = FALSE
  StreamIdCheck = FALSE
  SeqCheck = TRUE
INVARIANTS NoWrongContent
