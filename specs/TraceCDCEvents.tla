--------------------------- MODULE TraceCDCEvents ---------------------------
(* Observed outcomes of the real CDC hooks judged by CDCEvents.tla.  Every line is one session *)
(* run on a real database: the configuration (triggers, table filter, row-ids-only), the       *)
(* requests with their statements, and the event groups the real CDCStreamer delivered         *)
(* (operation, table, old/new rowid, old/new row token).  The line is accepted iff the groups  *)
(* are exactly what the specification's evaluator delivers for that session with all switches  *)
(* on, or - only when AcceptAsWritten - what it delivers with the streamer as written in       *)
(* db/cdc.go (AsIsStmt/AsIsTxn/AsIsSp of CDCEvents: the recorded finding; such lines are       *)
(* reported through `@@KNOWN`).                                                                *)
EXTENDS CDCEvents, Integers

CONSTANT AcceptAsWritten

Trace == ndJsonDeserialize("trace.ndjson")
VARIABLE l
tvars == <<vars, l>>
Ev == Trace[l]
Max2(a, b) == IF a > b THEN a ELSE b

LineCfg(e) == [trig |-> e.trig, filter |-> e.filter, ids |-> e.ids]
Design(e)  == RunSess(Ctx(TRUE, TRUE, TRUE, TRUE, TRUE, TRUE, LineCfg(e)), e.sess)
Written(e) == RunSess(Ctx(AsIsStmt, AsIsTxn, AsIsSp, TRUE, TRUE, TRUE, LineCfg(e)), e.sess)

TInit == /\ st = St0 /\ sa = St0 /\ sess = <<>> /\ phase = "idle"
         /\ cfg = [trig |-> FALSE, filter |-> FALSE, ids |-> FALSE]
         /\ l = 1 /\ TLCSet(1, 0)
TCase == /\ l <= Len(Trace) /\ l' = l + 1
         /\ LET d == Design(Ev) IN
            \/ Ev.groups = d.out
            \/ /\ AcceptAsWritten /\ Ev.groups # d.out
               /\ LET w == Written(Ev) IN w.stale # {} /\ Ev.groups = w.out
               /\ PrintT(<<"@@KNOWN", l>>)
         /\ UNCHANGED vars
TSpec == TInit /\ [][TCase]_tvars
HW == TLCSet(1, Max2(l, TLCGet(1)))
Accepted == IF TLCGet(1) >= Len(Trace) + 1 THEN TRUE
            ELSE PrintT(<<"@@HW", TLCGet(1) - 1>>) /\ FALSE
=============================================================================
