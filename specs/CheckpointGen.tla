---------------------------- MODULE CheckpointGen ----------------------------
(* Schedule generator for the C06 replay: the behaviours of Checkpoint.tla with every attempt    *)
(* atomic (ReaderPoints = {"idle"}), the schedule kept in the history variable `hist`, which is   *)
(* outside the VIEW: TLC keeps the first (breadth-first = a shortest) schedule that reaches each  *)
(* distinct state.  Every checkpoint attempt made from every distinct reachable state is emitted  *)
(* as one schedule  <shortest schedule to the state> + ck  (printed from the state constraint,    *)
(* which TLC evaluates for every generated successor, also those it has already seen).            *)
EXTENDS Checkpoint, Json

VARIABLE hist
gvars == <<vars, hist>>
GenView == vars
Op(o, r, S) == [op |-> o, r |-> r, pages |-> S]

GenInit == Init /\ hist = <<>>
GenNext ==
  \/ \E r \in Readers : ReaderStart(r) /\ hist' = Append(hist, Op("rs", r, {}))
  \/ \E r \in Readers : ReaderStop(r) /\ hist' = Append(hist, Op("re", r, {}))
  \/ \E S \in SUBSET Page : Write(S) /\ hist' = Append(hist, Op("w", 0, S))
  \/ CkBegin /\ hist' = Append(hist, Op("ck", 0, {}))
  \/ (CkCheck \/ CkCompact \/ CkSqlite \/ CkClassify \/ StoreFinish) /\ UNCHANGED hist
GenSpec == GenInit /\ [][GenNext]_gvars

(* negative controls run on this module too: when an invariant fails, the schedule that led there is  *)
(* printed, so that the witness can be replayed on the real code (where the mechanism is switched on) *)
Witness(I) == I \/ (PrintT(<<"@@W", ToJson([ops |-> hist])>>) /\ FALSE)
WRebuildOK == Witness(RebuildOK)
WNoSegmentAfterFailure == Witness(NoSegmentAfterFailure)
WResetDetected == Witness(ResetDetected)
WNoSpuriousReset == Witness(NoSpuriousReset)
WNoRecapture == Witness(NoRecapture)

Emit == (pc = "idle" /\ hist # <<>> /\ hist[Len(hist)].op = "ck") => PrintT(<<"@@", ToJson([ops |-> hist])>>)
=============================================================================
