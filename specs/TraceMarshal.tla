----------------------------- MODULE TraceMarshal -----------------------------
(* What the real encoder and decoders did, judged by Marshal.tla.  Each line is ONE concrete    *)
(* request (harness/main/marshal.go): its measured classes `o` (type; statement count against   *)
(* the batch threshold; longest SQL text against the size threshold; plain size u against gzip  *)
(* size g; ForceCompression), what the real marshaler returned (flag, whether the body really   *)
(* is gzip, sizes), how the statistics counters moved, and the verdict of every decoder that    *)
(* saw the entry (direct Unmarshal+UnmarshalSubCommand, the CommandProcessor, or the FSMs of     *)
(* the leader and the follower of a real store), compared with the submitted request in Go.      *)
(*                                                                                                *)
(* One step replays Submit;Encode;Wrap;Decode (or Submit;Refuse) of Marshal.tla on the measured  *)
(* request: the post-state carries the OBSERVED flag / body / decode outcome, so the invariants  *)
(* of Marshal.tla (RoundTrip, UsefulOnly, FlagOnlyForRequests, FlagMatchesBody, StatsPartition)  *)
(* are evaluated on what the code really did, and the step is enabled only if the observed flag,  *)
(* body and counter movements are the ones the transcribed encoder produces (threshold table and *)
(* statistics: the design; the property text itself does not fix them).                          *)
(*                                                                                                *)
(* TSpec is the judge: the trace is accepted iff every line is consumed and no invariant fails.  *)
(* TDSpec (used only after a rejection) consumes EVERY line and prints, per bad line, which of    *)
(* the same invariants fail on its post-state and whether the table / a refusal is the problem,  *)
(* so that one run names all failing classes.                                                     *)
EXTENDS Marshal

Trace == ndJsonDeserialize("trace.ndjson")
VARIABLE l
tvars == <<vars, l>>
Ev == Trace[l]
Max2(a, b) == IF a > b THEN a ELSE b

AllEqual(d) == \A k \in DOMAIN d : d[k] \in {"equal", "skip"}
ObsStats(e) == [k \in DOMAIN ZeroStats |-> e.stats[k]]
(* only the request counters are accumulated over the trace (StatsPartition); byte counters are checked per line *)
Counts(d) == [d EXCEPT !.pre = 0, !.compb = 0, !.uncompb = 0]

TInit == Init /\ l = 1 /\ TLCSet(1, 0)

(* the decision table and the counters, as transcribed from the code *)
TableOK == /\ Ev.flag = EncFlag(Ev.o)
           /\ Ev.enc = EncBody(Ev.o)
           /\ ObsStats(Ev) = StatsDelta(Ev.o, Ev.u, Ev.out)
           /\ (Ev.enc = "gz" /\ IsReq(Ev.o) => Ev.out = Ev.g)
           /\ (Ev.enc = "plain" => Ev.out = Ev.u)

TRefused == /\ l <= Len(Trace) /\ Ev.enc_err /\ l' = l + 1
            /\ ~Encodable(Ev.o)                                   \* only a request that cannot be marshalled may be refused
            /\ ObsStats(Ev) = StatsDelta(Ev.o, Ev.u, Ev.out)
            /\ pc' = "idle" /\ req' = Ev.o /\ wire' = NoWire /\ dec' = "none"
            /\ st' = AddStats(st, Counts(ObsStats(Ev))) /\ nreq' = nreq + 1
            /\ nerr' = nerr + (IF IsReq(Ev.o) THEN 1 ELSE 0)

TCase == /\ l <= Len(Trace) /\ ~Ev.enc_err /\ l' = l + 1
         /\ TableOK
         /\ pc' = "decoded" /\ req' = Ev.o
         /\ wire' = [type |-> Ev.o.type, flag |-> Ev.flag, body |-> Ev.enc, payload |-> Ev.o.param]
         /\ dec' = IF AllEqual(Ev.dec) THEN Ev.o.param ELSE "error"
         /\ st' = AddStats(st, Counts(ObsStats(Ev))) /\ nreq' = nreq + 1 /\ UNCHANGED nerr

TSpec == TInit /\ [][TRefused \/ TCase]_tvars

(* diagnosis: the same post-state, per line (counters not accumulated), never blocking *)
TDiag == /\ l <= Len(Trace) /\ l' = l + 1
         /\ req' = Ev.o /\ nreq' = 1
         /\ st' = ObsStats(Ev)
         /\ IF Ev.enc_err
            THEN pc' = "idle" /\ wire' = NoWire /\ dec' = "none" /\ nerr' = (IF IsReq(Ev.o) THEN 1 ELSE 0)
            ELSE /\ pc' = "decoded" /\ nerr' = 0
                 /\ wire' = [type |-> Ev.o.type, flag |-> Ev.flag, body |-> Ev.enc, payload |-> Ev.o.param]
                 /\ dec' = IF AllEqual(Ev.dec) THEN Ev.o.param ELSE "error"
         /\ LET bad == (IF RoundTrip' THEN {} ELSE {"RoundTrip"}) \cup (IF UsefulOnly' THEN {} ELSE {"UsefulOnly"})
                        \cup (IF FlagOnlyForRequests' THEN {} ELSE {"FlagOnlyForRequests"})
                        \cup (IF FlagMatchesBody' THEN {} ELSE {"FlagMatchesBody"})
                        \cup (IF StatsPartition' THEN {} ELSE {"StatsPartition"})
                        \cup (IF Ev.enc_err /\ Encodable(Ev.o) THEN {"refused"} ELSE {})
                        \cup (IF Ev.enc_err THEN (IF ObsStats(Ev) = StatsDelta(Ev.o, Ev.u, Ev.out) THEN {} ELSE {"table"})
                              ELSE (IF TableOK THEN {} ELSE {"table"}))
            IN bad # {} => PrintT(<<"@@BAD", Ev.id, bad>>)
TDSpec == TInit /\ [][TDiag]_tvars
HW == TLCSet(1, Max2(l, TLCGet(1)))
Accepted == IF TLCGet(1) >= Len(Trace) + 1 THEN TRUE
            ELSE PrintT(<<"@@HW", TLCGet(1) - 1>>) /\ FALSE
=============================================================================
