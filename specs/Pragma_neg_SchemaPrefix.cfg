SPECIFICATION Spec
CONSTANTS
  AfterTrivia = TRUE
  EveryStatement = TRUE
  CallSyntax = TRUE
  SchemaPrefix = FALSE
  QuotedName = TRUE
INVARIANTS NoBypass
