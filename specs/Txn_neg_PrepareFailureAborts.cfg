SPECIFICATION Spec
CONSTANTS
  MaxLen = 3
  TxAllOrNothing = TRUE
  StopAtFirstFailure = TRUE
  PrepareFailureAborts = FALSE
  RollbackOnError = TRUE
  ResultPerStatement = TRUE
INVARIANTS AllOrNothing ResultsMatch
