SPECIFICATION Spec
CONSTANTS
  Int64Exact = TRUE
  HexLiteralToBlob = TRUE
  ByteArrayToBlob = TRUE
  BlobStaysBlob = TRUE
  TextStaysText = TRUE
INVARIANT Emit
