SPECIFICATION TSpec
CONSTANTS
  H0 = {0}
  Dur = {0}
  T0 = {0}
  Limit = 850
  Short = 1
  SnapDur = {0}
  Eps = 150
  ShortRetryInterval = TRUE
  TenSecondLimit = TRUE
CONSTRAINT HW
POSTCONDITION Accepted
CHECK_DEADLOCK FALSE
