SPECIFICATION FairSpec
CONSTANTS
  Writers = {w1, w2, w3}
  MaxWrites = 3
  MaxSize = 2
  BatchSize = 2
  HasTimeout = TRUE
  MaxFlush = 1
  SeqUnderLock = TRUE
  BatchOnSize = TRUE
  BatchSeqIsMax = TRUE
PROPERTY Drained
