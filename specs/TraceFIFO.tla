----------------------------- MODULE TraceFIFO -----------------------------
(* Trace validation of cdc.Queue (public API) against FIFO.tla.  Every line is one harness *)
(* operation with its observed result; `state` lines carry the queue's own answers          *)
(* (Len, FirstKey, HighestKey, HasNext) and must equal the model after every operation.     *)
(* A `kill` line says the process was killed while operation op(idx) was in flight at a     *)
(* crash point: the operation is unacknowledged, so it may or may not have taken effect.    *)
EXTENDS FIFO, Json, Integers

Trace == ndJsonDeserialize("trace.ndjson")
VARIABLE l
tvars == <<vars, l>>
Ev == Trace[l]
Is(e) == l <= Len(Trace) /\ Trace[l].ev = e
Step == l' = l + 1
Max2(a, b) == IF a > b THEN a ELSE b

TInit == Init /\ l = 1 /\ TLCSet(1, 0)
TReset == /\ Is("reset") /\ Step /\ items' = {} /\ high' = 0 /\ nextFrom' = 0 /\ nextEv' = 0
          /\ emitted' = <<>> /\ acked' = {} /\ everHigh' = 0 /\ stored' = <<>> /\ nops' = 0
TEnq == Is("enq") /\ Step /\ Ev.ok /\ Enqueue(Ev.idx)
TDel == Is("del") /\ Step /\ Ev.ok /\ DeleteRange(Ev.idx)
TEmit == Is("emit") /\ Step /\ Ev.dataok /\ nextEv = Ev.idx /\ Emit
TReopen == Is("reopen") /\ Step /\ Reopen
(* kill = (in-flight operation applied or not) followed by Reopen, written out because TLC lacks \cdot *)
ReopenWith(it, hi, ak, st, eh) ==
  /\ items' = it /\ high' = hi /\ acked' = ak /\ stored' = st /\ everHigh' = eh
  /\ nextFrom' = 0 /\ nextEv' = Seek(it, 0) /\ emitted' = <<>> /\ nops' = nops + 1
TKill == /\ Is("kill") /\ Step
         /\ \/ ReopenWith(items, high, acked, stored, everHigh)
            \/ /\ Ev.op = "enq" /\ Ev.idx > high
               /\ ReopenWith(items \cup {Ev.idx}, Ev.idx, acked, Append(stored, Ev.idx), Max2(everHigh, Ev.idx))
            \/ /\ Ev.op = "del"
               /\ ReopenWith({k \in items : k > Ev.idx}, high, {k \in acked : k > Ev.idx}, stored, everHigh)
TState == /\ Is("state") /\ Step /\ UNCHANGED vars
          /\ Ev.len = Cardinality(items)
          /\ Ev.first = (IF items = {} THEN 0 ELSE Min(items))
          /\ Ev.high = high
          /\ Ev.hasnext = (nextEv # 0)
TNext == TReset \/ TEnq \/ TDel \/ TEmit \/ TReopen \/ TKill \/ TState
TSpec == TInit /\ [][TNext]_tvars
HW == TLCSet(1, Max2(l, TLCGet(1)))
Accepted == IF TLCGet(1) >= Len(Trace) + 1 THEN TRUE
            ELSE PrintT(<<"@@HW", TLCGet(1) - 1>>) /\ FALSE
=============================================================================
