SPECIFICATION GSpec
CONSTANTS
  Proc = {"anon", "reap", "xreap"}
  MaxIdx = 1
  MaxHolds = 4
  CASExclusive = TRUE
  WriterExcludesReaders = TRUE
  BlockingWakes = TRUE
  WakeAtTarget = TRUE
  Streamer = {"a", "b"}
  MaxOpens = 2
  MaxSinks = 2
  MaxX = 1
  Threshold = 2
  ReadLen = 2
  StreamHoldsReadLock = TRUE
  ReleaseOnce = TRUE
  IdleForceClose = TRUE
  ReaperWaitsForReaders = TRUE
  Depth = 45
CONSTRAINT Emit
