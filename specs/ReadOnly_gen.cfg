SPECIFICATION GenSpec
CONSTANTS
  ROPool = TRUE
  ClassifyWholeText = TRUE
  LocalReadsOnROPool = TRUE
  StrongQueryOnROPool = TRUE
  Nodes = {n1, n2, n3}
INVARIANT GenInv
