------------------------------- MODULE Backup -------------------------------
(* C21  Backups are complete, point-in-time consistent copies.                                   *)
(*                                                                                               *)
(* The database history is a sequence of states produced by transfers between two tables (t_a,   *)
(* t_z) that preserve the sum of the two, each transfer also inserting one row into a third      *)
(* table (t_m).  hist[n] is the state after n-1 transfers; it is current from the log index at   *)
(* which its transfer was applied until the next transfer is applied.  A backup has a window     *)
(* [start, end] of log indexes (what the source database certainly contained when the request    *)
(* was made, what it can possibly contain when the response has been received).                  *)
(*                                                                                               *)
(* The backup procedure is modelled by its real steps (store/store.go Backup, db/db.go Backup /  *)
(* Dump / copyDatabase, cluster/service.go BACKUP_STREAM, cluster/client.go Backup,              *)
(* http/service.go handleBackup):                                                                *)
(*   binary   : WAL not empty -> snapshot (checkpoint into the main file); take the snapshot     *)
(*              gate (snapshotCAS); copy the MAIN FILE unit by unit (the WAL is not copied);     *)
(*              release the gate.  Raft's own snapshots (AutoSnapshot) checkpoint under the      *)
(*              same gate; writes go to the WAL and never touch the main file.                   *)
(*   vacuum / delete : SQLite online backup API in ONE step (Step(-1)) = one read transaction    *)
(*              on main file + WAL.                                                              *)
(*   sql      : schema, then table by table, all inside one read transaction.  The rows of a     *)
(*              table are read with a query built from the table's and its columns' names; the   *)
(*              query can report an error (an identifier that was not escaped for the place it   *)
(*              is put in, a read error): every table's rows are read successfully or the dump   *)
(*              fails -- a table written with its schema but without its rows is not a backup.   *)
(*   through a follower: the leader answers with a header, then the (always compressed) stream   *)
(*              of units and an end marker (the gzip trailer).  The connection may be cut at any *)
(*              position, cleanly (FIN) or abruptly (RST).  The follower's client must notice a  *)
(*              missing end marker; the HTTP handler, which has already sent "200" with the      *)
(*              first byte, must abort the response when the transfer fails later.               *)
(*   failure of the PRODUCER after streaming began (read error of the file copy, failing dump    *)
(*              query): the units written so far are in the stream; the end marker (gzip trailer) *)
(*              may only be written when production was complete, and the failure must be the    *)
(*              result of the producing function -- otherwise the receiver cannot tell a short   *)
(*              stream from a complete backup.                                                   *)
(*                                                                                               *)
(* Every mechanism is a switch (TRUE = the design); one negative control each.                   *)
EXTENDS Integers, Sequences, FiniteSets, TLC

CONSTANTS MaxWrites,            \* bound on transfers
          MaxAuto,              \* bound on Raft-triggered snapshots
          MaxBackups,           \* backups per behaviour
          Delta,                \* transfer amounts
          GateDuringFileCopy,   \* the snapshot gate is held while the main file is copied
          SnapshotBeforeCopy,   \* a non-empty WAL is checkpointed before the main file is copied
          DumpInOneReadTxn,     \* the SQL dump reads schema and all tables in one read transaction
          BackupSingleStep,     \* the online backup copies all pages in one step (one read transaction)
          StreamEndDetected,    \* the follower's client recognises the end marker also when it passes the compressed stream through
          AbortAfterPartial,    \* an error after the first body byte aborts the HTTP response
          EndMarkerOnlyOnSuccess, \* the end marker (gzip trailer) of a compressed stream is written only after complete production
          CopyErrorReturned,    \* a failure of the copy into the stream is the result of the producing function
          DumpRowErrorsReturned \* an error reported by the query that reads a table's rows fails the SQL dump

VARIABLES hist,   \* sequence of database states
          ckpt,   \* number of transfers contained in the main database file (the rest is in the WAL)
          cas,    \* snapshot gate: "free" | "backup"
          nauto,  \* Raft-triggered snapshots so far
          nbk,    \* backups so far
          bk      \* the backup in progress
vars == <<hist, ckpt, cas, nauto, nbk, bk>>

-----------------------------------------------------------------------------
(* ---------- generic part, shared with TraceBackup.tla ---------- *)

TableSet == {"a", "m", "z"}
Units == <<"obj", "a", "m", "z">>          \* order of the schema / the tables in a dump and in the file
NUnits == Len(Units)
Missing == <<-1>>
NoContent == [obj |-> -1, tab |-> [t \in TableSet |-> Missing]]

(* a state: validity bounds of the log index at which it became current, schema objects, per table   *)
(* projection: a = <<rows, sum v>>, z = <<rows, sum v>>, m = <<rows, sum k, sum d>>                  *)
MkState(lo, hi, nobj, na, sa, nz, sz, nm, sk, sd) ==
  [lo |-> lo, hi |-> hi, obj |-> nobj, tab |-> [a |-> <<na, sa>>, z |-> <<nz, sz>>, m |-> <<nm, sk, sd>>]]

(* the transfer: d moves from t_a to t_z, row (k, d) is added to t_m -- one transaction, one log entry *)
Apply(st, lo, hi, k, d) ==
  [lo |-> lo, hi |-> hi, obj |-> st.obj,
   tab |-> [a |-> <<st.tab.a[1], st.tab.a[2] - d>>, z |-> <<st.tab.z[1], st.tab.z[2] + d>>,
            m |-> <<st.tab.m[1] + 1, st.tab.m[2] + k, st.tab.m[3] + d>>]]

Total(st) == st.tab.a[2] + st.tab.z[2]      \* the cross-table invariant of the workload

(* the tables a backup contains are those of state st *)
Matches(cont, st) == \A t \in TableSet : cont.tab[t] # Missing => cont.tab[t] = st.tab[t]
(* state n of history H (N states) was current at some log index of the window [s, e] *)
CurrentDuring(H(_), N, n, s, e) == H(n).lo <= e /\ (IF n = N THEN TRUE ELSE H(n + 1).hi > s)
SomeState(H(_), N, cont) == \E n \in 1..N : Matches(cont, H(n))
ConsistentP(H(_), N, s, e, cont) == \E n \in 1..N : Matches(cont, H(n)) /\ CurrentDuring(H, N, n, s, e)
(* every schema object, every table, and of every table at least the rows the first state of the history has  *)
(* (the workload never deletes a row)                                                                          *)
CompleteP(cont, st0) == /\ cont.obj = st0.obj
                        /\ \A t \in TableSet : IF cont.tab[t] = Missing THEN FALSE ELSE cont.tab[t][1] >= st0.tab[t][1]
(* what the requester takes the HTTP response for: a backup, unless the status or the transport says otherwise *)
Answer(status, clean) == IF status = 200 /\ clean THEN "ok" ELSE "error"
(* a backup whose production failed (or whose stream was cut) is never answered as a backup *)
FailedIsErrorP(failed, status, clean) == failed => Answer(status, clean) = "error"

-----------------------------------------------------------------------------
(* ---------- the model ---------- *)

NObj == 5
State0 == MkState(0, 0, NObj, 2, 10, 2, 0, 0, 0, 0)
Applied == Len(hist) - 1
HistAt(n) == hist[n]

Formats == {"binary", "vacuum", "delete", "sql"}
Idle == [pc |-> "idle"]
NoCut == [at |-> -1, kind |-> "none"]
(* at = 0: inside the response header; 1..NUnits: inside that unit; NUnits+1: inside the end marker *)
Cuts == {NoCut} \cup [at : 0..(NUnits + 1), kind : {"fin", "rst"}]

Init == /\ hist = <<State0>> /\ ckpt = 0 /\ cas = "free" /\ nauto = 0 /\ nbk = 0 /\ bk = Idle

Write(d) == /\ Applied < MaxWrites
            /\ hist' = Append(hist, Apply(hist[Len(hist)], Applied + 1, Applied + 1, Applied + 1, d))
            /\ UNCHANGED <<ckpt, cas, nauto, nbk, bk>>

(* Raft-triggered snapshot: checkpoints the WAL into the main file, under the gate *)
AutoSnapshot == /\ cas = "free" /\ ckpt < Applied /\ nauto < MaxAuto
                /\ ckpt' = Applied /\ nauto' = nauto + 1
                /\ UNCHANGED <<hist, cas, nbk, bk>>

Begin(f, z, v) ==
  /\ bk.pc = "idle" /\ nbk < MaxBackups
  /\ bk' = [pc |-> CASE f = "binary" -> "presnap" [] f = "sql" -> "dump" [] OTHER -> "online",
            fmt |-> f, compress |-> z, via |-> v, start |-> Applied, end |-> -1, snap |-> -1,
            cont |-> NoContent, todo |-> Units, cut |-> NoCut, pfail |-> -1, rowerr |-> FALSE, result |-> "none", status |-> 0, clean |-> FALSE]
  /\ nbk' = nbk + 1
  /\ UNCHANGED <<hist, ckpt, cas, nauto>>

(* unit u of the database as of `i` transfers *)
ReadUnit(cont, u, i) == IF u = "obj" THEN [cont EXCEPT !.obj = hist[i + 1].obj]
                        ELSE [cont EXCEPT !.tab[u] = hist[i + 1].tab[u]]
ReadAll(i) == [obj |-> hist[i + 1].obj, tab |-> hist[i + 1].tab]

(* ---- binary: file copy ---- *)
PreSnapshot == /\ bk.pc = "presnap"
               /\ IF SnapshotBeforeCopy /\ ckpt < Applied THEN cas = "free" /\ ckpt' = Applied ELSE UNCHANGED ckpt
               /\ bk' = [bk EXCEPT !.pc = "gate"]
               /\ UNCHANGED <<hist, cas, nauto, nbk>>
TakeGate == /\ bk.pc = "gate"
            /\ IF GateDuringFileCopy THEN cas = "free" /\ cas' = "backup" ELSE UNCHANGED cas
            /\ bk' = [bk EXCEPT !.pc = "copy"]
            /\ UNCHANGED <<hist, ckpt, nauto, nbk>>
CopyUnit == /\ bk.pc = "copy" /\ bk.todo # <<>>
            /\ bk' = [bk EXCEPT !.cont = ReadUnit(bk.cont, Head(bk.todo), ckpt), !.todo = Tail(bk.todo)]   \* the main file only
            /\ UNCHANGED <<hist, ckpt, cas, nauto, nbk>>
CopyDone == /\ bk.pc = "copy" /\ bk.todo = <<>>
            /\ cas' = "free"
            /\ bk' = [bk EXCEPT !.pc = "produced"]
            /\ UNCHANGED <<hist, ckpt, nauto, nbk>>

(* ---- vacuum / delete: online backup API ---- *)
Online == /\ bk.pc = "online"
          /\ IF BackupSingleStep
             THEN bk' = [bk EXCEPT !.cont = ReadAll(Applied), !.todo = <<>>, !.pc = "produced"]
             ELSE bk' = [bk EXCEPT !.cont = ReadUnit(bk.cont, Head(bk.todo), Applied), !.todo = Tail(bk.todo),
                                   !.pc = IF Len(bk.todo) = 1 THEN "produced" ELSE "online"]
          /\ UNCHANGED <<hist, ckpt, cas, nauto, nbk>>

(* ---- sql: schema, then table by table ---- *)
Dump == /\ bk.pc = "dump"
        /\ LET at == IF DumpInOneReadTxn /\ bk.snap >= 0 THEN bk.snap ELSE Applied
           IN bk' = [bk EXCEPT !.cont = ReadUnit(bk.cont, Head(bk.todo), at), !.todo = Tail(bk.todo), !.snap = at,
                               !.pc = IF Len(bk.todo) = 1 THEN "produced" ELSE "dump"]
        /\ UNCHANGED <<hist, ckpt, cas, nauto, nbk>>

(* ---- delivery ---- *)
Restrict(cont, k) ==      \* only the first k units arrived whole
  [obj |-> IF k >= 1 THEN cont.obj ELSE -1,
   tab |-> [t \in TableSet |-> IF \E j \in 2..k : j <= NUnits /\ Units[j] = t THEN cont.tab[t] ELSE Missing]]

(* ---- failure of the producer after streaming began ---- *)
(* Production fails when k units have been written into the stream: k = 0 before the first unit, 0 < k < NUnits  *)
(* between two units, k = NUnits after the last unit but before the end marker.  binary (file copy) and sql      *)
(* (dump) write the stream while they produce; vacuum / delete stream a temporary file that was produced in one  *)
(* step.  The deferred release of the gate runs (store.Backup: defer snapshotCAS.End()).                          *)
ProducerFail(k) ==
  /\ bk.pc \in {"copy", "dump", "produced"} /\ bk.pfail = -1
  /\ IF bk.pc = "produced" THEN (k = NUnits \/ bk.fmt \in {"vacuum", "delete"}) ELSE k = NUnits - Len(bk.todo)
  /\ bk' = [bk EXCEPT !.pc = "produced", !.pfail = k, !.todo = <<>>, !.cont = Restrict(bk.cont, k)]
  /\ cas' = IF bk.pc = "copy" THEN "free" ELSE cas
  /\ UNCHANGED <<hist, ckpt, nauto, nbk>>

(* ---- sql: the query that reads the rows of the next table reports an error ---- *)
(* The table's CREATE statement is already in the stream.  Either the dump fails there (a producer failure with  *)
(* the units written so far), or the error is ignored: the table goes out without rows and the dump goes on.     *)
EmptyTab(u) == IF u = "m" THEN <<0, 0, 0>> ELSE <<0, 0>>
DumpRowError ==
  /\ bk.pc = "dump" /\ bk.pfail = -1 /\ ~bk.rowerr
  /\ Head(bk.todo) \in TableSet
  /\ LET u == Head(bk.todo)
         k == NUnits - Len(bk.todo)
         at == IF DumpInOneReadTxn /\ bk.snap >= 0 THEN bk.snap ELSE Applied
     IN IF DumpRowErrorsReturned
        THEN bk' = [bk EXCEPT !.pc = "produced", !.pfail = k, !.rowerr = TRUE, !.todo = <<>>, !.cont = Restrict(bk.cont, k)]
        ELSE bk' = [bk EXCEPT !.cont.tab[u] = EmptyTab(u), !.todo = Tail(bk.todo), !.snap = at, !.rowerr = TRUE,
                              !.pc = IF Len(bk.todo) = 1 THEN "produced" ELSE "dump"]
  /\ UNCHANGED <<hist, ckpt, cas, nauto, nbk>>

(* served by the leader itself: the producing function writes straight into the HTTP response *)
Local == /\ bk.pc = "produced" /\ bk.via = "leader"
         /\ LET perr == bk.pfail # -1 /\ CopyErrorReturned         \* the producing function returns the failure
                \* body bytes handed to the HTTP response before the function returned: the units written so far, and
                \* the end marker if the compressed stream is closed regardless of the failure
                written == bk.pfail >= 1 \/ (bk.compress /\ ~EndMarkerOnlyOnSuccess)
                status == IF perr /\ ~written THEN 500 ELSE 200
                clean == ~perr \/ ~written \/ ~AbortAfterPartial
            IN bk' = [bk EXCEPT !.pc = "done", !.status = status, !.clean = clean, !.result = Answer(status, clean), !.end = Applied]
         /\ UNCHANGED <<hist, ckpt, cas, nauto, nbk>>

Remote(cut) ==
  /\ bk.pc = "produced" /\ bk.via = "follower"
  /\ bk.pfail # -1 => cut = NoCut                \* one fault per backup
  /\ LET whole == IF cut.at = -1 THEN NUnits ELSE IF cut.at = 0 THEN 0 ELSE IF cut.at > NUnits THEN NUnits ELSE cut.at - 1
         failed == bk.pfail # -1
         \* the leader ends the (always compressed) stream with the end marker; after a failed production only if it
         \* closes the compressed stream regardless, or if it never learned of the failure
         marker == ~failed \/ ~EndMarkerOnlyOnSuccess \/ ~CopyErrorReturned
         \* does the follower's cluster client return an error?
         \* an uncompressed request gunzips the stream and so checks the end marker anyway;
         \* a stream without end marker ends when the leader closes the connection (like a FIN cut)
         cerr == \/ cut.at # -1 /\ (cut.at = 0 \/ cut.kind = "rst" \/ StreamEndDetected \/ ~bk.compress)
                 \/ ~marker /\ (StreamEndDetected \/ ~bk.compress)
         \* body bytes may have reached the HTTP client before the failure
         written == IF failed THEN bk.pfail >= 1 ELSE (cut.at >= 1 \/ cut.at = -1)
         status == IF cerr /\ ~written THEN 500 ELSE 200
         clean == ~cerr \/ ~written \/ ~AbortAfterPartial
     IN bk' = [bk EXCEPT !.pc = "done", !.cut = cut, !.end = Applied, !.cont = Restrict(bk.cont, whole),
                         !.status = status, !.clean = clean, !.result = Answer(status, clean)]
  /\ UNCHANGED <<hist, ckpt, cas, nauto, nbk>>

Again == /\ bk.pc = "done" /\ bk' = Idle /\ UNCHANGED <<hist, ckpt, cas, nauto, nbk>>

Next == \/ \E d \in Delta : Write(d)
        \/ AutoSnapshot
        \/ \E f \in Formats, z \in BOOLEAN, v \in {"leader", "follower"} : Begin(f, z, v)
        \/ PreSnapshot \/ TakeGate \/ CopyUnit \/ CopyDone \/ Online \/ Dump
        \/ \E k \in 0..NUnits : ProducerFail(k)
        \/ DumpRowError
        \/ Local \/ \E c \in Cuts : Remote(c)
        \/ Again
Spec == Init /\ [][Next]_vars

-----------------------------------------------------------------------------
Done == bk.pc = "done"
Success == Done /\ bk.result = "ok"

TypeOK == /\ ckpt \in 0..MaxWrites /\ cas \in {"free", "backup"} /\ ckpt <= Applied
          /\ \A n \in 1..Len(hist) : Total(hist[n]) = Total(State0)

(* a successful backup is the database as of one log index of its window *)
Consistent == Success => ConsistentP(HistAt, Len(hist), bk.start, bk.end, bk.cont)
(* ... with every object, every table and the tables' rows *)
Complete == Success => CompleteP(bk.cont, State0)
(* a cut stream, or a stream whose production failed, is never reported as a successful backup *)
CutIsError == Done => /\ bk.result = Answer(bk.status, bk.clean)
                      /\ FailedIsErrorP(bk.cut.at # -1 \/ bk.pfail # -1, bk.status, bk.clean)
(* the gate is never left taken *)
GateReleased == Done => cas = "free"
=============================================================================
