SPECIFICATION Spec
CONSTANTS
  Unchecked = {"http:GET:/db/backup"}
  MutEach = FALSE
  NoBodyAfterError = TRUE
  Roles = {"leader"}
INVARIANTS NoContentUnlessAuth
