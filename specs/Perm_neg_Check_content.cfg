SPECIFICATION Spec
CONSTANTS
  Unchecked = {"http:GET:/db/backup"}
  FullStar = FALSE
  MutEach = FALSE
  NoBodyAfterError = TRUE
  Roles = {"leader"}
INVARIANTS NoContentUnlessAuth
