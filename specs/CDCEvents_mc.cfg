SPECIFICATION Spec
CONSTANTS
  MaxLen = 3
  MaxReq = 2
  MaxRow = 2
  AOps = {"ins", "insm", "upd", "updall", "updfail", "updkey", "del", "delall", "repl", "upsert"}
  BOps = {"ins", "del", "upd", "repl"}
  CtlOps = {"begin", "commit", "rollback", "savepoint", "release", "rollbackto", "failprep"}
  TxModes = {TRUE, FALSE}
  Trigs = {TRUE, FALSE}
  Filters = {TRUE}
  Idss = {TRUE}
  DropRolledBack = TRUE
  GroupPerCommit = TRUE
  FilterTables = TRUE
  IdsOnly = TRUE
VIEW View
INVARIANTS Exact NoStale DiffSound Quiescent SameShape
