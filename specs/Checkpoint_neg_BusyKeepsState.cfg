SPECIFICATION GenSpec
CONSTANTS
  NPages = 2
  Readers = {1}
  MaxWrites = 2
  MaxCkpt = 3
  ReaderPoints = {"idle"}
  CanonicalPages = TRUE
  DisarmOnTruncate = TRUE
  ArmOnAllMoved = TRUE
  ResumeFromArmed = TRUE
  ResetBySalt = TRUE
  CancelOnError = TRUE
  BusyKeepsState = FALSE
VIEW GenView
INVARIANTS WRebuildOK WNoSegmentAfterFailure WResetDetected WNoSpuriousReset WNoRecapture
