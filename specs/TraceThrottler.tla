--------------------------- MODULE TraceThrottler ---------------------------
(* Trace validation of the real Throttler (public API) against Throttler.tla.  Every line is *)
(* one call with the level and delay observed right after it.  `ub` is an upper bound (ms) of *)
(* the time since the idle timer was last re-armed: the timer may have fired silently before  *)
(* the call only if ub >= the idle timeout; after an explicit idle wait it must have fired.   *)
EXTENDS Throttler, Json, Sequences

Trace == ndJsonDeserialize("trace.ndjson")
CONSTANTS IdleMs                  \* idle timeout in ms
Delays == Trace[1].delays         \* delay table in ms, carried by the first (reset) line of the trace
VARIABLE l
tvars == <<vars, l>>
Ev == Trace[l]
Is(e) == l <= Len(Trace) /\ Trace[l].ev = e
Step == l' = l + 1
Max2(a, b) == IF a > b THEN a ELSE b

TInit == Init /\ l = 1 /\ TLCSet(1, 0)
Obs == Ev.level = level' /\ Ev.delay = Delays[level' + 1]
TReset0 == Is("reset") /\ Step /\ level' = 0 /\ armed' = FALSE
(* explicit forms: op applied to the current level, or to level 0 (timer fired first) *)
SignalFrom(lv) == IF lv < MaxLevel THEN lv + 1 ELSE lv
ReleaseFrom(lv) == IF lv - ReleaseRate < 0 THEN 0 ELSE lv - ReleaseRate
Fired == armed /\ Ev.ub >= IdleMs
TSignal == /\ Is("signal") /\ Step /\ armed' = TRUE
           /\ (level' = SignalFrom(level) \/ (Fired /\ level' = SignalFrom(0))) /\ Obs
TRelease == /\ Is("release") /\ Step /\ armed' = TRUE
            /\ (level' = ReleaseFrom(level) \/ (Fired /\ level' = ReleaseFrom(0))) /\ Obs
TResetOp == /\ Is("resetop") /\ Step /\ level' = 0 /\ armed' = FALSE /\ Obs
TIdle == /\ Is("idle") /\ Step /\ level' = 0 /\ armed' = FALSE /\ Obs      \* waited >> idle timeout
TLevel == /\ Is("level") /\ Step
          /\ \/ (UNCHANGED vars /\ Ev.level = level /\ Ev.delay = Delays[level + 1])
             \/ (Fired /\ level' = 0 /\ armed' = FALSE /\ Obs)
(* Delay(ctx): d is the table entry of the level at the call; took/ctx in ms *)
TDelay == /\ Is("delay") /\ Step
          /\ \/ UNCHANGED vars
             \/ (Fired /\ level' = 0 /\ armed' = FALSE)
          /\ \E lv \in {level, level'} : LET d == Delays[lv + 1] IN
               IF d = 0 THEN ~Ev.err /\ Ev.took <= Ev.slack
               ELSE IF Ev.ctx > 0 /\ Ev.ctx < d
                    THEN \/ Ev.err /\ Ev.took <= Ev.ctx + Ev.slack   \* returned with the context's error, when the context ended (one-sided)
                         \* both timers had expired when the goroutine ran (a select with two ready cases may take
                         \* either): legal, but it must stay the exception -- the check counts these
                         \/ ~Ev.err /\ Ev.took >= d - 1 /\ Ev.took <= d + Ev.slack
                    ELSE ~Ev.err /\ Ev.took >= d - 1 /\ Ev.took <= d + Ev.slack
TNext == TReset0 \/ TSignal \/ TRelease \/ TResetOp \/ TIdle \/ TLevel \/ TDelay
TSpec == TInit /\ [][TNext]_tvars
HW == TLCSet(1, Max2(l, TLCGet(1)))
Accepted == IF TLCGet(1) >= Len(Trace) + 1 THEN TRUE
            ELSE PrintT(<<"@@HW", TLCGet(1) - 1>>) /\ FALSE
=============================================================================
