SPECIFICATION ReapSpec
CONSTANTS
  IgnoreTmp = TRUE
  OrderTermIndexId = TRUE
  GateIncOnFullNeeded = TRUE
  GateAtClose = TRUE
  ClearOnSuccessOnly = TRUE
  PlanBeforeMutation = TRUE
  ResumeOnOpen = TRUE
  IdempotentOps = TRUE
  LeftoverWALFirst = TRUE
  LastOpDoneShortcut = TRUE
  TmpCleanAfterResume = TRUE
  Sinks = {s1}
  MaxId = 0
  MaxWal = 8
  MaxTerm = 2
  MaxIdx = 2
  GenDepth = 14
  AtomicClose = TRUE
  OlderSel = {0, 2}
  MaxFullWals = 1
  MaxIncs = 1
  MaxIncWals = 2
  TmpSel = {TRUE}
  MaxCrashes = 2
INVARIANTS NoFailure Recovered NoTmpLeft EmitCase
