SPECIFICATION Spec
CONSTANTS
  NPages = 3
  Readers = {r1, r2}
  MaxWrites = 4
  MaxCkpt = 4
  ReaderPoints = {"idle"}
  CanonicalPages = TRUE
  DisarmOnTruncate = TRUE
  ArmOnAllMoved = TRUE
  ResumeFromArmed = TRUE
  ResetBySalt = TRUE
  CancelOnError = TRUE
  BusyKeepsState = TRUE
SYMMETRY ReaderSym
VIEW MCView
INVARIANTS RebuildOK NoSegmentAfterFailure ResetDetected NoSpuriousReset NoRecapture ArmedSane SegWellFormed TypeOK
