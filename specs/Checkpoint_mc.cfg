SPECIFICATION Spec
CONSTANTS
  NPages = 3
  Readers = {r1, r2}
  MaxWrites = 4
  MaxCkpt = 4
  MaxReaderStarts = 4
  ReaderPoints = {"idle", "sqlite"}
  CanonicalPages = TRUE
  DisarmOnTruncate = TRUE
  ArmOnAllMoved = TRUE
  ResumeFromArmed = TRUE
  ResetBySalt = TRUE
  CancelOnError = TRUE
  BusyKeepsState = TRUE
SYMMETRY ReaderSym
INVARIANTS RebuildOK NoSegmentAfterFailure ResetDetected NoSpuriousReset NoRecapture ArmedSane SegWellFormed TypeOK
