SPECIFICATION TSpec
CONSTANTS
  NWals = 2
  VerifyBeforeFirstUse = TRUE
  VerifyAtStartRestore = TRUE
  HeaderCarriesRecordedCRC = TRUE
  ReceiverRecomputes = TRUE
  VerifyBeforeConsolidate = TRUE
CONSTRAINT HW
POSTCONDITION Accepted
CHECK_DEADLOCK FALSE
