SPECIFICATION Spec
CONSTANTS
  MaxLevel = 3
  ReleaseRate = 2
  HasIdle = TRUE
  ClampHigh = TRUE
  ClampLow = FALSE
  UseReleaseRate = TRUE
  IdleReset = TRUE
INVARIANTS InRange IdleCovers
PROPERTY StepSizes
CONSTRAINT Bound
