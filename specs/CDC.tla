-------------------------------- MODULE CDC --------------------------------
(* rqlite change-data-capture pipeline (cdc/service.go, cdc/fifo.go, db/cdc.go, store.fsmApply).   *)
(*                                                                                                  *)
(*   FSM apply of log entry i  --commit hook(s)-->  in-channel  --writeToBatcher (filter)-->        *)
(*   batcher  --mainLoop-->  FIFO (key = highest label, keys <= highest-ever silently dropped)      *)
(*   --leader loop (a goroutine started / stopped by mainLoop as it handles the QUEUED leadership    *)
(*   signals; parked batch first, FIFO cursor, retry until sent)-->  endpoint;  on success hwm := key *)
(*   leaderHWMLoop: broadcast hwm, prune own FIFO <= hwm;  followerLoop: prune <= received, adopt.  *)
(*   Snapshot sync: batcher flushed into the FIFO before the log is truncated.                      *)
(*   Restart: in-channel and batcher lost, log re-applied from the snapshot index, FIFO and its      *)
(*   highest-ever key persist, hwm recomputed from the first FIFO item.                             *)
(*                                                                                                  *)
(* One action per linearization point of the code.  A group is <<entry, ordinal, label>>.           *)
(* Switches (TRUE = the design the property needs):                                                 *)
(*   OneGroupPerEntry        a log entry yields ONE group (cdc/DESIGN.md); FALSE: one per commit     *)
(*   LabelEveryGroup         every group carries its entry's index; FALSE: 2nd.. commits carry 0     *)
(*   KeyByHighest            FIFO key of a batch = highest label in it; FALSE: lowest                *)
(*   SyncFlushBeforeSnapshot snapshot (log truncation) waits for the batcher to reach the FIFO       *)
(*   DrainInBeforeSync       ... and for the in-channel to be drained into the batcher first         *)
(*   HWMAfterSendOK          hwm advances only after the endpoint accepted the batch                 *)
(*   PruneToHWMOnly          leader prunes its FIFO up to hwm, never beyond                          *)
(*   RewindCursor            a batch taken but not sent when the leader loop is stopped is parked    *)
(*                           (Service.unsent) and goes first in the next leader loop                 *)
(*   ParkedKeptUntilSent     the parked batch is given up only by a leader loop that got past its    *)
(*                           stop check and goes on to send it; FALSE: taken and cleared BEFORE the  *)
(*                           stop check - a loop stopped before its first step returns without it    *)
(*   RestartHWMBelowLowest   after a restart hwm := (lowest index in first FIFO item) - 1;           *)
(*                           FALSE: (first FIFO key) - 1                                             *)
(*   DropReapplied           groups re-created by the log replay after a restart whose index is      *)
(*                           below the FIFO's highest key at start are dropped at the batcher        *)
(*                           (they were stored before the restart); FALSE: only label <= hwm is      *)
EXTENDS Naturals, Sequences, FiniteSets, TLC

CONSTANTS Node, MaxIdx, Multi, BatchSz, InCap, AsyncHWM, SigCap,
          MaxFlips, MaxLeaders, MaxRestarts, MaxSnaps, MaxDowns,
          OneGroupPerEntry, LabelEveryGroup, KeyByHighest, SyncFlushBeforeSnapshot, DrainInBeforeSync,
          HWMAfterSendOK, PruneToHWMOnly, RewindCursor, ParkedKeptUntilSent, RestartHWMBelowLowest, DropReapplied

VARIABLES applied,   \* [Node -> Nat]  index of the last log entry applied by the FSM
          inq,       \* [Node -> Seq(group)] the in-channel (commit hook -> writeToBatcher)
          batch,     \* [Node -> Seq(group)] the batcher's pending objects
          fifo,      \* [Node -> [keys -> Seq(group)]] persistent queue
          highKey,   \* [Node -> Nat]  highest key ever stored (persistent)
          startHigh, \* [Node -> Nat]  highKey as read when the service started
          cursor,    \* [Node -> Nat]  FIFO read cursor (nextFrom; volatile)
          taken,     \* [Node -> <<>> | <<key, batch>>] event held by the leader loop
          hwm,       \* [Node -> Nat]  high-water mark
          snapIdx,   \* [Node -> Nat]  log truncated up to here (restart re-applies from snapIdx+1)
          hch,       \* [Node -> Nat] HWM update received by the cluster service, not yet read by the follower loop (0 = none;
                     \* the real channel buffers 5 - a newer broadcast overwrites an unread one here)
          lead,      \* set of nodes whose leader loop goroutine exists (started by mainLoop, not yet returned)
          sig,       \* [Node -> Seq(BOOLEAN)] leadership signals queued on leaderObCh, not yet handled by mainLoop
          want,      \* [Node -> BOOLEAN] the last signal the store sent
          isl,       \* [Node -> BOOLEAN] mainLoop's isLeader flag
          stop,      \* [Node -> BOOLEAN] the stop channel of the node's leader loop is closed
          mwait,     \* [Node -> BOOLEAN] mainLoop sits in stopLeaderLoop waiting for the loop to return
          unsent,    \* [Node -> <<>> | <<key, batch>>] batch parked by a leader loop that was stopped before it sent it
          up,        \* endpoint accepts requests
          delivered, \* set of groups (with the label they were sent under) accepted by the endpoint
          lastIdx,   \* [Node -> Nat] history: last label delivered in the current tenure (0 = none yet)
          ordOK,     \* history: deliveries were in non-decreasing label order within every tenure
          flips, restarts, snaps, downs
mvars == <<sig, want, isl, stop, mwait, unsent>>
vars == <<applied, inq, batch, fifo, highKey, startHigh, cursor, taken, hwm, snapIdx, hch, lead, up, delivered,
          lastIdx, ordOK, flips, restarts, snaps, downs, sig, want, isl, stop, mwait, unsent>>

Sym == Permutations(Node)
Unl == 99                                   \* a bound of 99 = unlimited, the counter stays 0
Cnt(c, max) == IF max = Unl THEN c ELSE c + 1
MaxS(S) == IF S = {} THEN 0 ELSE CHOOSE x \in S : \A y \in S : y <= x
MinS(S) == IF S = {} THEN 0 ELSE CHOOSE x \in S : \A y \in S : x <= y
Range(s) == {s[x] : x \in 1..Len(s)}

G(i, j) == <<i, j, IF j = 1 \/ LabelEveryGroup THEN i ELSE 0>>
Groups(i) == IF OneGroupPerEntry \/ i \notin Multi THEN <<G(i, 1)>> ELSE <<G(i, 1), G(i, 2)>>
Labs(b) == {b[x][3] : x \in 1..Len(b)}
KeyOf(b) == IF KeyByHighest THEN MaxS(Labs(b)) ELSE MinS(Labs(b))
Keys(f) == DOMAIN f
Seek(ks, from) == MinS({k \in ks : k >= from})            \* 0 = nothing at or after `from`
PruneF(f, d) == [k \in {x \in DOMAIN f : x > d} |-> f[k]]
CursorAfterDel(c, d) == IF c # 0 /\ c <= d THEN d + 1 ELSE c     \* fifo.go DeleteRange
Filtered(g, h, sh) == g[3] # 0 /\ (g[3] <= h \/ (DropReapplied /\ g[3] < sh))   \* service.go writeToBatcher
RestartHWM(f) == IF Keys(f) = {} THEN 0
                 ELSE LET first == MinS(Keys(f))
                          low == IF RestartHWMBelowLowest THEN MinS(Labs(f[first])) ELSE first
                      IN IF low = 0 THEN 0 ELSE low - 1
NonDecr(s) == \A x \in 1..Len(s) - 1 : s[x] <= s[x + 1]
LabSeq(b) == [x \in 1..Len(b) |-> b[x][3]]

Init == /\ applied = [n \in Node |-> 0] /\ inq = [n \in Node |-> <<>>] /\ batch = [n \in Node |-> <<>>]
        /\ fifo = [n \in Node |-> <<>>] /\ highKey = [n \in Node |-> 0] /\ startHigh = [n \in Node |-> 0] /\ cursor = [n \in Node |-> 0]
        /\ taken = [n \in Node |-> <<>>] /\ hwm = [n \in Node |-> 0] /\ snapIdx = [n \in Node |-> 0]
        /\ hch = [n \in Node |-> 0] /\ lead = {} /\ up = TRUE /\ delivered = {}
        /\ lastIdx = [n \in Node |-> 0] /\ ordOK = TRUE
        /\ flips = 0 /\ restarts = 0 /\ snaps = 0 /\ downs = 0
        /\ sig = [n \in Node |-> <<>>] /\ want = [n \in Node |-> FALSE] /\ isl = [n \in Node |-> FALSE]
        /\ stop = [n \in Node |-> FALSE] /\ mwait = [n \in Node |-> FALSE] /\ unsent = [n \in Node |-> <<>>]

(* store.fsmApply: Reset(index), statements run, each commit with row changes hands one group to  *)
(* the in-channel (db/cdc.go CommitHook).  The channel is kept from filling (property text).       *)
Keep(gs, h, sh) == SelectSeq(gs, LAMBDA g : ~Filtered(g, h, sh))
Apply(n) ==
  /\ applied[n] < MaxIdx
  /\ LET gs == Groups(applied[n] + 1) IN
       IF InCap = 0                              \* small configurations: commit hook and writeToBatcher in one step
       THEN LET kept == Keep(gs, hwm[n], startHigh[n]) IN
              /\ Len(batch[n]) + Len(kept) <= BatchSz
              /\ batch' = [batch EXCEPT ![n] = @ \o kept] /\ UNCHANGED inq
       ELSE /\ Len(inq[n]) + Len(gs) <= InCap
            /\ inq' = [inq EXCEPT ![n] = @ \o gs] /\ UNCHANGED batch
  /\ applied' = [applied EXCEPT ![n] = @ + 1]
  /\ UNCHANGED <<fifo, highKey, startHigh, cursor, taken, hwm, snapIdx, hch, lead, up, delivered, lastIdx, ordOK, flips, restarts, snaps, downs, mvars>>

(* writeToBatcher: one group from the in-channel; dropped when label # 0 and label <= hwm *)
Ingest(n) ==
  /\ inq[n] # <<>> /\ Len(batch[n]) < BatchSz
  /\ LET g == Head(inq[n]) IN
       batch' = [batch EXCEPT ![n] = IF Filtered(g, hwm[n], startHigh[n]) THEN @ ELSE Append(@, g)]
  /\ inq' = [inq EXCEPT ![n] = Tail(@)]
  /\ UNCHANGED <<applied, fifo, highKey, startHigh, cursor, taken, hwm, snapIdx, hch, lead, up, delivered, lastIdx, ordOK, flips, restarts, snaps, downs, mvars>>

(* mainLoop, case req := <-batcher.C: the batch (size reached, timer, or flush) goes to the FIFO *)
FlushTo(n, b) ==
  LET key == KeyOf(b) IN
    IF key <= highKey[n] THEN UNCHANGED <<fifo, highKey>>                     \* fifo.go: silently ignored
    ELSE /\ fifo' = [fifo EXCEPT ![n] = (key :> b) @@ @]
         /\ highKey' = [highKey EXCEPT ![n] = key]
Flush(n) ==
  /\ batch[n] # <<>> /\ ~mwait[n]                     \* mainLoop is not sitting in stopLeaderLoop
  /\ FlushTo(n, batch[n])
  /\ batch' = [batch EXCEPT ![n] = <<>>]
  /\ UNCHANGED <<applied, inq, startHigh, cursor, taken, hwm, snapIdx, hch, lead, up, delivered, lastIdx, ordOK, flips, restarts, snaps, downs, mvars>>

(* leaderLoop: ev := <-fifo.C; skipped when ev.Index <= hwm *)
TakeKey(n, k) ==
  /\ cursor' = [cursor EXCEPT ![n] = k + 1]
  /\ taken' = [taken EXCEPT ![n] = IF k <= hwm[n] THEN <<>> ELSE <<k, fifo[n][k]>>]
  /\ hwm' = [hwm EXCEPT ![n] = IF ~HWMAfterSendOK /\ k > @ THEN k ELSE @]
Take(n) ==
  /\ n \in lead /\ taken[n] = <<>> /\ unsent[n] = <<>>   \* select {stop, fifo.C}: an item may be taken although stop is closed
  /\ LET k == Seek(Keys(fifo[n]), cursor[n]) IN k # 0 /\ TakeKey(n, k)
  /\ UNCHANGED <<applied, inq, batch, fifo, highKey, startHigh, snapIdx, hch, lead, up, delivered, lastIdx, ordOK, flips, restarts, snaps, downs, mvars>>

(* sink.Write returned nil: the endpoint has the batch; hwm := key.  (A failed attempt changes nothing: *)
(* the loop sleeps and retries; a finite retry limit is excluded by the property.)                      *)
Deliver(n, b) ==
  /\ delivered' = delivered \cup Range(b)
  /\ ordOK' = (ordOK /\ NonDecr(<<lastIdx[n]>> \o LabSeq(b)))
  /\ lastIdx' = [lastIdx EXCEPT ![n] = b[Len(b)][3]]
SendOK(n) ==
  /\ n \in lead /\ taken[n] # <<>> /\ up
  /\ Deliver(n, taken[n][2])
  /\ hwm' = [hwm EXCEPT ![n] = taken[n][1]]
  /\ taken' = [taken EXCEPT ![n] = <<>>]
  /\ UNCHANGED <<applied, inq, batch, fifo, highKey, startHigh, cursor, snapIdx, hch, lead, up, flips, restarts, snaps, downs, mvars>>

(* A leader loop is a goroutine of its own: mainLoop starts it when it handles a queued "leader" signal and *)
(* stops it (closes stop, waits for it to return) when it handles a queued "not leader" signal.  The signals *)
(* are queued on leaderObCh by the store; leadership can be won and lost again before mainLoop handles the  *)
(* first signal, and a loop can find stop closed at its very first step.                                    *)
Signal(n, b) ==
  /\ want[n] # b /\ flips < MaxFlips /\ Len(sig[n]) < SigCap
  /\ b => Cardinality({m \in Node : want[m]}) < MaxLeaders
  /\ sig' = [sig EXCEPT ![n] = Append(@, b)] /\ want' = [want EXCEPT ![n] = b]
  /\ flips' = Cnt(flips, MaxFlips)
  /\ UNCHANGED <<applied, inq, batch, fifo, highKey, startHigh, cursor, taken, hwm, snapIdx, hch, lead, up, delivered, lastIdx, ordOK, restarts, snaps, downs, isl, stop, mwait, unsent>>
MainHandle(n) ==
  /\ sig[n] # <<>> /\ ~mwait[n]
  /\ sig' = [sig EXCEPT ![n] = Tail(@)]
  /\ isl' = [isl EXCEPT ![n] = Head(sig[n])]
  /\ IF Head(sig[n])
     THEN /\ lead' = lead \cup {n} /\ stop' = [stop EXCEPT ![n] = FALSE]          \* go leaderLoop()
          /\ lastIdx' = [lastIdx EXCEPT ![n] = 0] /\ UNCHANGED mwait
     ELSE /\ stop' = [stop EXCEPT ![n] = TRUE] /\ mwait' = [mwait EXCEPT ![n] = TRUE]  \* close(stop); <-done
          /\ UNCHANGED <<lead, lastIdx>>
  /\ UNCHANGED <<applied, inq, batch, fifo, highKey, startHigh, cursor, taken, hwm, snapIdx, hch, up, delivered, ordOK, flips, restarts, snaps, downs, want, unsent>>
(* the loop's stop check: at the top of every iteration when a batch is parked (before it is taken), in the  *)
(* select with the FIFO channel otherwise, and in the retry sleep - there the batch in hand is parked        *)
LoopExit(n) ==
  /\ n \in lead /\ stop[n]
  /\ lead' = lead \ {n} /\ mwait' = [mwait EXCEPT ![n] = FALSE]
  /\ unsent' = [unsent EXCEPT ![n] = IF taken[n] # <<>> THEN (IF RewindCursor THEN taken[n] ELSE <<>>)
                                     ELSE IF ParkedKeptUntilSent THEN @ ELSE <<>>]
  /\ taken' = [taken EXCEPT ![n] = <<>>] /\ lastIdx' = [lastIdx EXCEPT ![n] = 0]
  /\ UNCHANGED <<applied, inq, batch, fifo, highKey, startHigh, cursor, hwm, snapIdx, hch, up, delivered, ordOK, flips, restarts, snaps, downs, sig, want, isl, stop>>
(* past the stop check: the parked batch goes first (skipped when the mark has passed it meanwhile) *)
TakeParked(n) ==
  /\ n \in lead /\ taken[n] = <<>> /\ unsent[n] # <<>> /\ ~stop[n]
  /\ taken' = [taken EXCEPT ![n] = IF unsent[n][1] <= hwm[n] THEN <<>> ELSE unsent[n]]
  /\ hwm' = [hwm EXCEPT ![n] = IF ~HWMAfterSendOK /\ unsent[n][1] > @ THEN unsent[n][1] ELSE @]
  /\ unsent' = [unsent EXCEPT ![n] = <<>>]
  /\ UNCHANGED <<applied, inq, batch, fifo, highKey, startHigh, cursor, snapIdx, hch, lead, up, delivered, lastIdx, ordOK, flips, restarts, snaps, downs, sig, want, isl, stop, mwait>>

(* leaderHWMLoop tick, first half: BroadcastHighWatermark reaches node m's cluster service (also the leader's own) *)
AdoptHWM(m, v) ==
  /\ fifo' = [fifo EXCEPT ![m] = PruneF(@, v)]
  /\ cursor' = [cursor EXCEPT ![m] = CursorAfterDel(@, v)]
  /\ hwm' = [hwm EXCEPT ![m] = v]
Broadcast(n, m) ==
  /\ n \in lead /\ hwm[n] > 0
  /\ IF AsyncHWM
     THEN /\ hwm[n] # hch[m] /\ hch' = [hch EXCEPT ![m] = hwm[n]]
          /\ UNCHANGED <<fifo, cursor, hwm>>
     ELSE /\ m \notin lead /\ ~isl[m] /\ hwm[m] # hwm[n]                \* small configurations: delivered and read in one step
          /\ AdoptHWM(m, hwm[n]) /\ UNCHANGED hch
  /\ UNCHANGED <<applied, inq, batch, highKey, startHigh, taken, snapIdx, lead, up, delivered, lastIdx, ordOK, flips, restarts, snaps, downs, mvars>>
(* second half: prune own FIFO *)
LeaderPrune(n) ==
  /\ n \in lead /\ hwm[n] > 0
  /\ LET d == IF PruneToHWMOnly THEN hwm[n] ELSE highKey[n] IN
       /\ (\E k \in Keys(fifo[n]) : k <= d) \/ CursorAfterDel(cursor[n], d) # cursor[n]
       /\ fifo' = [fifo EXCEPT ![n] = PruneF(@, d)]
       /\ cursor' = [cursor EXCEPT ![n] = CursorAfterDel(@, d)]
  /\ UNCHANGED <<applied, inq, batch, highKey, startHigh, taken, hwm, snapIdx, hch, lead, up, delivered, lastIdx, ordOK, flips, restarts, snaps, downs, mvars>>
(* followerLoop: hwm := <-hwmObCh; DeleteRange(hwm); highWatermark.Store(hwm).  The loop's own de-duplication *)
(* (hwm <= hwmPersisted) only removes behaviours; the value may be older than the node's current hwm.          *)
FollowerRecv(m) ==
  /\ m \notin lead /\ ~isl[m] /\ hch[m] # 0
  /\ hch' = [hch EXCEPT ![m] = 0]
  /\ AdoptHWM(m, hch[m])
  /\ UNCHANGED <<applied, inq, batch, highKey, startHigh, taken, snapIdx, lead, up, delivered, lastIdx, ordOK, flips, restarts, snaps, downs, mvars>>

(* store.fsmSnapshot: snapshotSync.Sync -> writeToBatcher flushes the batcher and waits for the FIFO write; *)
(* afterwards the log up to `applied` may be truncated.                                                      *)
SnapshotSync(n) ==
  /\ applied[n] > snapIdx[n] /\ snaps < MaxSnaps
  /\ SyncFlushBeforeSnapshot => (batch[n] = <<>> /\ (DrainInBeforeSync => inq[n] = <<>>))
  /\ snapIdx' = [snapIdx EXCEPT ![n] = applied[n]] /\ snaps' = Cnt(snaps, MaxSnaps)
  /\ UNCHANGED <<applied, inq, batch, fifo, highKey, startHigh, cursor, taken, hwm, hch, lead, up, delivered, lastIdx, ordOK, flips, restarts, downs, mvars>>

(* process restart: NewService + store.Open *)
Restart(n) ==
  /\ restarts < MaxRestarts /\ restarts' = Cnt(restarts, MaxRestarts)
  /\ applied' = [applied EXCEPT ![n] = snapIdx[n]]
  /\ inq' = [inq EXCEPT ![n] = <<>>] /\ batch' = [batch EXCEPT ![n] = <<>>]
  /\ cursor' = [cursor EXCEPT ![n] = 0] /\ taken' = [taken EXCEPT ![n] = <<>>]
  /\ hch' = [hch EXCEPT ![n] = 0] /\ lead' = lead \ {n}
  /\ hwm' = [hwm EXCEPT ![n] = RestartHWM(fifo[n])]
  /\ startHigh' = [startHigh EXCEPT ![n] = highKey[n]] /\ lastIdx' = [lastIdx EXCEPT ![n] = 0]
  /\ sig' = [sig EXCEPT ![n] = <<>>] /\ want' = [want EXCEPT ![n] = FALSE] /\ isl' = [isl EXCEPT ![n] = FALSE]
  /\ stop' = [stop EXCEPT ![n] = FALSE] /\ mwait' = [mwait EXCEPT ![n] = FALSE] /\ unsent' = [unsent EXCEPT ![n] = <<>>]
  /\ UNCHANGED <<fifo, highKey, snapIdx, up, delivered, ordOK, flips, snaps, downs>>

EndpointDown == /\ up /\ downs < MaxDowns /\ up' = FALSE /\ downs' = Cnt(downs, MaxDowns)
                /\ UNCHANGED <<applied, inq, batch, fifo, highKey, startHigh, cursor, taken, hwm, snapIdx, hch, lead, delivered, lastIdx, ordOK, flips, restarts, snaps, mvars>>
EndpointUp == /\ ~up /\ up' = TRUE
              /\ UNCHANGED <<applied, inq, batch, fifo, highKey, startHigh, cursor, taken, hwm, snapIdx, hch, lead, delivered, lastIdx, ordOK, flips, restarts, snaps, downs, mvars>>

Next == \/ \E n \in Node : Apply(n) \/ Ingest(n) \/ Flush(n) \/ Take(n) \/ TakeParked(n) \/ SendOK(n) \/ LoopExit(n)
                           \/ MainHandle(n) \/ Signal(n, TRUE) \/ Signal(n, FALSE)
                           \/ LeaderPrune(n) \/ SnapshotSync(n) \/ Restart(n)
        \/ \E n, m \in Node : Broadcast(n, m)
        \/ \E m \in Node : FollowerRecv(m)
        \/ EndpointDown \/ EndpointUp
Spec == Init /\ [][Next]_vars

(* ---- the property ---- *)
DeliveredIds == {<<g[1], g[2]>> : g \in delivered}
EntryDelivered(i) == \A x \in 1..Len(Groups(i)) : <<i, x>> \in DeliveredIds
Labelled == \A g \in delivered : g[3] = g[1]
NoSkip == \A n \in Node : \A i \in 1..MaxIdx : i <= hwm[n] => EntryDelivered(i)
TenureOrder == ordOK
TypeOK == /\ \A n \in Node : applied[n] \in 0..MaxIdx /\ hwm[n] \in 0..MaxIdx /\ highKey[n] \in 0..MaxIdx
                             /\ cursor[n] \in 0..MaxIdx + 1 /\ snapIdx[n] <= MaxIdx
          /\ lead \subseteq Node
(* structural: what the leader holds is still in its FIFO; keys never exceed the highest-ever key *)
TakenStored == \A n \in Node : taken[n] # <<>> => (PruneToHWMOnly => taken[n][1] \in Keys(fifo[n]))
LoopShape == \A n \in Node : /\ (mwait[n] => n \in lead /\ stop[n]) /\ (isl[n] => n \in lead)
                            /\ (unsent[n] # <<>> => taken[n] = <<>> \/ n \notin lead)
KeysBounded == \A n \in Node : \A k \in Keys(fifo[n]) : k <= highKey[n] /\ k >= 1

(* ---- liveness (small fair configuration): once the endpoint stays up and one node stays leader, *)
(* every change is delivered                                                                        *)
Fair == /\ \A n \in Node : WF_vars(Apply(n)) /\ WF_vars(Ingest(n)) /\ WF_vars(Flush(n)) /\ WF_vars(Take(n))
                           /\ WF_vars(SendOK(n)) /\ WF_vars(LeaderPrune(n)) /\ WF_vars(MainHandle(n)) /\ WF_vars(LoopExit(n))
                           /\ WF_vars(TakeParked(n))
        /\ \A m \in Node : WF_vars(FollowerRecv(m))
        /\ WF_vars(EndpointUp)
LiveSpec == Spec /\ Fair
AllDelivered == \A i \in 1..MaxIdx : EntryDelivered(i)
Live == (\E n \in Node : <>[](up /\ n \in lead /\ ~stop[n])) => <>AllDelivered
=============================================================================
