SPECIFICATION Spec
CONSTANTS
  MaxLen = 3
  TxAllOrNothing = TRUE
  StopAtFirstFailure = FALSE
  PrepareFailureAborts = TRUE
  RollbackOnError = TRUE
  ResultPerStatement = TRUE
INVARIANTS ResultsMatch
