\* template: checks/C18.py writes one copy per family with Unchecked = {"<family>"}
SPECIFICATION Spec
CONSTANTS
  Unchecked = {"cmd:BACKUP_STREAM"}
  FullStar = FALSE
  MutEach = FALSE
  NoBodyAfterError = TRUE
  Roles = {"leader"}
INVARIANTS OnlyIfAuthorized
