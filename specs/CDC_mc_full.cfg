\* thorough: 2 nodes, 3 entries, 1 restart, 1 snapshot sync
SPECIFICATION Spec
CONSTANTS
  Node = {n1, n2}
  MaxIdx = 3
  Multi = {2}
  BatchSz = 2
  InCap = 0
  AsyncHWM = FALSE
  MaxFlips = 99
  MaxLeaders = 1
  MaxRestarts = 1
  MaxSnaps = 1
  MaxDowns = 99
  OneGroupPerEntry = TRUE
  LabelEveryGroup = TRUE
  KeyByHighest = TRUE
  SyncFlushBeforeSnapshot = TRUE
  DrainInBeforeSync = TRUE
  HWMAfterSendOK = TRUE
  PruneToHWMOnly = TRUE
  RewindCursor = TRUE
  RestartHWMBelowLowest = TRUE
  DropReapplied = TRUE
SYMMETRY Sym
INVARIANTS TypeOK Labelled NoSkip TenureOrder TakenStored KeysBounded
