SPECIFICATION Spec
CONSTANTS
  Unchecked = {"http:POST:/snapshot"}
  MutEach = FALSE
  NoBodyAfterError = TRUE
  Roles = {"leader"}
INVARIANTS NoEffectUnlessAuth
