SPECIFICATION Spec
CONSTANTS
  Unchecked = {"http:POST:/snapshot"}
  FullStar = FALSE
  MutEach = FALSE
  NoBodyAfterError = TRUE
  Roles = {"leader"}
INVARIANTS NoEffectUnlessAuth
