SPECIFICATION TSpec
CONSTANTS
  MaxLen = 100
  MaxReq = 100
  MaxRow = 3
  AOps = {}
  BOps = {}
  CtlOps = {}
  TxModes = {}
  Trigs = {}
  Filters = {}
  Idss = {}
  DropRolledBack = TRUE
  GroupPerCommit = TRUE
  FilterTables = TRUE
  IdsOnly = TRUE
  AcceptAsWritten = TRUE
CONSTRAINT HW
POSTCONDITION Accepted
CHECK_DEADLOCK FALSE
