SPECIFICATION TSpec
CONSTANTS
  MaxLevel = 3
  ReleaseRate = 2
  HasIdle = TRUE
  ClampHigh = TRUE
  ClampLow = TRUE
  UseReleaseRate = TRUE
  IdleReset = TRUE
  IdleMs = 300
INVARIANTS InRange IdleCovers
CONSTRAINT HW
POSTCONDITION Accepted
CHECK_DEADLOCK FALSE
