SPECIFICATION Spec
CONSTANTS
  MaxSnaps = 2
  MaxCrashes = 2
  MaxOk = 2
  TmpThenRename = TRUE
  RemoveOldIfNewExists = TRUE
  PlanResume = TRUE
  ResumeToleratesDoneRename = TRUE
  Gen = TRUE
INVARIANTS TypeOK RunOK ResultExact CleanFinish NoDataLoss
