SPECIFICATION Spec
CONSTANTS
  MaxWals = 2
  MaxChunk = 12
  CheckSizes = TRUE
  CRCOnInstall = TRUE
  CRCOnRestore = TRUE
  RejectTrailing = TRUE
  ValidateFiles = TRUE
  CompressionTransparent = TRUE
  ZeroCRCCompared = FALSE
INVARIANTS SinkAcceptedIsSource
