\* liveness on a small fair configuration: 2 nodes, 2 entries, <=3 leadership signals, 1 outage, no restart
SPECIFICATION LiveSpec
CONSTANTS
  Node = {n1, n2}
  MaxIdx = 2
  Multi = {2}
  BatchSz = 2
  InCap = 0
  AsyncHWM = FALSE
  SigCap = 2
  MaxFlips = 3
  MaxLeaders = 1
  MaxRestarts = 0
  MaxSnaps = 0
  MaxDowns = 1
  OneGroupPerEntry = TRUE
  LabelEveryGroup = TRUE
  KeyByHighest = TRUE
  SyncFlushBeforeSnapshot = TRUE
  DrainInBeforeSync = TRUE
  HWMAfterSendOK = TRUE
  PruneToHWMOnly = TRUE
  RewindCursor = TRUE
  ParkedKeptUntilSent = TRUE
  RestartHWMBelowLowest = TRUE
  DropReapplied = TRUE
PROPERTIES Live
