SPECIFICATION Spec
CONSTANTS
  PrefilterComplete = TRUE
  ImplicitNow = TRUE
  FormatOnly = FALSE
  SkipOrderBy = TRUE
  LeaveStringsIdents = TRUE
  UntouchedIfNoSite = TRUE
  WalkEverywhere = TRUE
  OnePin = TRUE
  SiteIndependent = TRUE
  Tier = "neg"
INVARIANTS Complete
