SPECIFICATION Spec
CONSTANTS
  PrefilterComplete = TRUE
  ImplicitNow = TRUE
  FormatOnly = TRUE
  SkipOrderBy = TRUE
  LeaveStringsIdents = TRUE
  UntouchedIfNoSite = TRUE
  WalkEverywhere = TRUE
  OnePin = TRUE
  SiteIndependent = FALSE
  Tier = "neg"
INVARIANTS Complete
