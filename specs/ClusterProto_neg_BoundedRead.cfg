SPECIFICATION Spec
CONSTANTS
  BoundedRead = FALSE
  NilRequestChecked = TRUE
  UnknownHeaderClosed = TRUE
  AuthBeforeEffect = TRUE
  MaxFrames = 2
  Muxes = {"cluster", "raft", "unknown"}
INVARIANTS MemBounded
