SPECIFICATION TSpec
CONSTANTS
  Writers = {"w"}
  MaxWrites = 1000000
  MaxSize = 1000000
  BatchSize = 3
  HasTimeout = TRUE
  MaxFlush = 1000000
  SeqUnderLock = TRUE
  BatchOnSize = TRUE
  BatchSeqIsMax = TRUE
INVARIANTS TFIFO BatchBound SeqIncreasing
CONSTRAINT HW
POSTCONDITION Accepted
CHECK_DEADLOCK FALSE
