SPECIFICATION Spec
CONSTANTS
  ROPool = TRUE
  ClassifyWholeText = TRUE
  LocalReadsOnROPool = TRUE
  StrongQueryOnROPool = FALSE
  Nodes = {n1, n2, n3}
INVARIANT OnlyThroughLog
