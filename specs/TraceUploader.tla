---------------------------- MODULE TraceUploader ----------------------------
(* Trace validation of the real backup.Uploader + store.Provider on a real single-node store       *)
(* against Uploader.tla.  One line = one observation, in the order of the process-wide hook        *)
(* recorder:                                                                                        *)
(*   w.call{idx} / w.ret{idx}   a write (versioned pages) was submitted / acknowledged; idx is the  *)
(*                              raft index it got (annotated after the run)                         *)
(*   q.call{idx} / q.ret{idx}   an entry that does not change the database (query through the log)  *)
(*   prov.li.call               the uploader calls DataProvider.LastIndex   (round starts)          *)
(*   up.round{li,last}          hook after LastIndex returned: index read, uploader's lastIndex     *)
(*   up.skip{li,last}           hook: round ends, nothing to do                                     *)
(*   prov.begin / prov.end{ok}  DataProvider.Provide called / returned                              *)
(*   up.provfail                hook: Provide failed, round ends                                    *)
(*   sc.curid{idn,ok}           StorageClient.CurrentID returned idn (0 = nothing stored)           *)
(*   up.skipid{li}              hook: storage already holds label li, round ends                    *)
(*   sc.upload{idn,j,ok,applied,readable}  StorageClient.Upload returned; the object was restored   *)
(*                              and projected: it holds exactly the writes up to index j            *)
(*   up.ok{li,last} / up.fail{li,last}     hook: bookkeeping after the upload                       *)
(*   restart                    the uploader object was replaced (bookkeeping lost)                 *)
(*   quiesce{eq}                writers stopped, storage healthy, one more full round done: eq says *)
(*                              whether the restored remote object equals the live database         *)
(*                                                                                                  *)
(* Unlogged instants.  A write takes effect somewhere between w.call and w.ret, LastIndex loads the *)
(* index somewhere between prov.li.call and up.round, Provide takes its copy somewhere between      *)
(* prov.begin and prov.end; TLC infers them.  Only the index load and the copy observe the          *)
(* database, so (a reduction that loses no behaviour) pending entries are applied lazily: when      *)
(* their acknowledgement forces it (TWRet, TQRet) or right before a pending observation (Apply      *)
(* while pc is "start" or "providing"), always in index order; the two steps of a write are taken   *)
(* together (nothing can see the content ahead of the index except a copy, which a later Apply      *)
(* explains as well).                                                                               *)
(*                                                                                                  *)
(* Conditions over recorded values are not enabling conditions: when one fails its name goes to     *)
(* `bad`, so a rejected trace names the class of misbehaviour.  The uploader's lastIndex is         *)
(* *adopted* from the hooks (up.round / up.ok / up.fail carry it); whether what it records is       *)
(* justified is judged by the invariants of Uploader.tla (FailedNotRecorded, ...).                  *)
EXTENDS Uploader, Json, Integers, Sequences

Trace == ndJsonDeserialize("trace.ndjson")
VARIABLES l, pend, qpend, bad
tvars == <<vars, l, pend, qpend, bad>>
Ev == Trace[l]
Is(e) == l <= Len(Trace) /\ Trace[l].ev = e
Step == l' = l + 1
Max2(a, b) == IF a > b THEN a ELSE b
MaxOf(S, d) == IF S = {} THEN d ELSE CHOOSE x \in S : \A y \in S : y <= x
Keep == UNCHANGED <<pend, qpend>>
Good == bad' = bad
Same == UNCHANGED vars
RoundRest == UNCHANGED <<dbvars, li, copy, idres, remote, hist, nfail, nrestart>>

TInit == Init /\ l = 1 /\ pend = {} /\ qpend = {} /\ bad = "" /\ TLCSet(1, 0)

(* a new run: fresh uploader and empty storage; with db = TRUE also a fresh store whose set-up     *)
(* (schema, initial rows) ended at index base: State(base) is the initial content                  *)
Base == IF Ev.base > 0 THEN {Ev.base} ELSE {}
TReset == /\ Is("reset") /\ Step /\ Good
          /\ lastIndex' = 0 /\ pc' = "idle" /\ li' = 0 /\ copy' = 0 /\ idres' = "none"
          /\ remote' = NoRemote /\ ackHas' = FALSE /\ ackL' = 0 /\ missed' = FALSE /\ vain' = FALSE
          /\ nfail' = 0 /\ nrestart' = 0
          /\ IF Ev.db THEN /\ logIdx' = Ev.base /\ writes' = Base /\ cIdx' = Ev.base /\ dbIdx' = Ev.base /\ wpc' = 0
                           /\ pend' = {} /\ qpend' = {}
                      ELSE /\ writes' = {w \in writes : w >= cIdx}     \* older writes are in every future copy: forget them
                           /\ UNCHANGED <<logIdx, cIdx, dbIdx, wpc, pend, qpend>>

(* ---- database side ---- *)
(* all submitted entries up to index m take effect, in index order: WriteBegin; WriteEnd for each   *)
(* write, NonChangingEntry for each other entry (the FSM applies the log sequentially)              *)
ApplyUpTo(m) ==
  LET ws == {i \in pend : i <= m}
      qs == {i \in qpend : i <= m} IN
  /\ \A i \in ws \cup qs : i > logIdx          \* an entry cannot be applied before it was submitted
  /\ writes' = writes \cup ws
  /\ logIdx' = MaxOf(ws \cup qs, logIdx)
  /\ cIdx' = MaxOf(ws, cIdx) /\ dbIdx' = MaxOf(ws, dbIdx) /\ wpc' = 0
  /\ pend' = pend \ ws /\ qpend' = qpend \ qs
  /\ UNCHANGED <<upvars, remote, hist, nfail, nrestart>>
TWCall == /\ Is("w.call") /\ Step /\ Good /\ pend' = pend \cup {Ev.idx} /\ UNCHANGED qpend /\ Same
TQCall == /\ Is("q.call") /\ Step /\ Good /\ qpend' = qpend \cup {Ev.idx} /\ UNCHANGED pend /\ Same
TWRet ==  /\ Is("w.ret") /\ Step /\ Good
          /\ IF Ev.idx \in pend THEN ApplyUpTo(Ev.idx) ELSE dbIdx >= Ev.idx /\ Keep /\ Same
TQRet ==  /\ Is("q.ret") /\ Step /\ Good
          /\ IF Ev.idx \in qpend THEN ApplyUpTo(Ev.idx) ELSE logIdx >= Ev.idx /\ Keep /\ Same
Apply ==  /\ pc \in {"start", "providing"} /\ \E m \in pend : ApplyUpTo(m)
          /\ UNCHANGED l /\ Good

(* ---- uploader round ---- *)
TStart == /\ Is("prov.li.call") /\ Step /\ Good /\ Keep /\ RoundStart
TRead ==  /\ ReadIndex /\ UNCHANGED <<l, pend, qpend>> /\ Good
TRound == /\ Is("up.round") /\ Step /\ Keep /\ Good /\ pc = "read" /\ li = Ev.li
          /\ lastIndex' = Ev.last /\ UNCHANGED pc /\ RoundRest
TSkip ==  /\ Is("up.skip") /\ Step /\ Keep /\ pc = "read"
          /\ IF Unchanged THEN Skip /\ Good
                          ELSE Same /\ bad' = "missed-change:skipped-although-index-advanced"
(* Provide before the index was read in this round: the label read afterwards may cover changes the *)
(* copy does not hold (the mechanism IndexBeforeProvide of the design)                              *)
TProvBegin == /\ Is("prov.begin") /\ Step /\ Keep /\ pc \in {"read", "idle"}
              /\ IF pc = "idle" THEN Same /\ bad' = "protocol:provide-before-index-read"
                 ELSE /\ Good
                      /\ IF Unchanged THEN pc' = "providing" /\ UNCHANGED lastIndex /\ RoundRest   \* wasteful, harmless unless an upload follows (TUpload judges)
                                      ELSE ProvideBegin
TCopy ==  /\ TakeCopy /\ UNCHANGED <<l, pend, qpend>> /\ Good
TProvEnd == /\ Is("prov.end") /\ Step /\ Keep /\ Good
            /\ IF Ev.ok THEN ProvideEnd
               ELSE /\ pc \in {"providing", "copied"} /\ pc' = "copied"      \* the copy, if any, is not used
                    /\ UNCHANGED lastIndex /\ RoundRest
TProvFail == /\ Is("up.provfail") /\ Step /\ Keep /\ Good /\ pc = "copied" /\ pc' = "idle"
             /\ UNCHANGED lastIndex /\ RoundRest
TCurID == /\ Is("sc.curid") /\ Step /\ Keep /\ pc = "provided"
          /\ IF lastIndex # 0 THEN Same /\ Good                               \* a superfluous question is harmless
             ELSE /\ Good /\ idres = "none" /\ pc' = "checked"
                  /\ idres' = (IF ~Ev.ok THEN "err" ELSE IF remote.has /\ remote.id = li THEN "match" ELSE "nomatch")
                  /\ (Ev.ok => Ev.idn = (IF remote.has THEN remote.id ELSE 0))   \* the storage double answers truthfully
                  /\ UNCHANGED <<dbvars, lastIndex, li, copy, remote, hist, nfail, nrestart>>
TSkipID == /\ Is("up.skipid") /\ Step /\ Keep
           /\ IF pc = "checked" /\ idres = "match" THEN SkipID /\ Good
              ELSE Same /\ bad' = "missed-change:skipped-by-id-without-matching-id"
(* the upload: label = the index read, content = the copy taken in this round.  What the object is  *)
(* labelled with and what it holds are recorded values, so they are judged first; only then must the *)
(* content be explained by a copy instant inside Provide                                             *)
UploadBad == IF Ev.idn # li THEN "label-mismatch:label-is-not-the-index-read"
             ELSE IF ~Ev.readable THEN "uploaded-unreadable"
             ELSE IF ~Contains(Ev.j, Ev.idn) THEN "uploaded-stale"
             ELSE IF Vain THEN "upload-without-change"
             ELSE ""
(* (a missing or ignored first-round check is judged by its consequence: an upload without change) *)
TUpload == /\ Is("sc.upload") /\ Step /\ Keep /\ pc \in {"provided", "checked"}
           /\ IF UploadBad # "" THEN Same /\ bad' = UploadBad
              ELSE /\ Ev.j = copy /\ Good /\ UNCHANGED nfail
                   /\ IF Ev.ok THEN DoUploadOK ELSE DoUploadFail(Ev.applied)
(* bookkeeping after the upload: whatever the uploader now holds in lastIndex is adopted *)
TOk ==    /\ Is("up.ok") /\ Step /\ Keep
          /\ IF pc # "sent_ok" THEN Same /\ bad' = "recorded-failed-upload:success-reported-after-failed-upload"
             ELSE Good /\ lastIndex' = Ev.last /\ pc' = "idle" /\ RoundRest
TFail ==  /\ Is("up.fail") /\ Step /\ Keep
          /\ IF pc # "sent_fail" THEN Same /\ bad' = "missed-change:failure-reported-after-successful-upload"
             ELSE Good /\ lastIndex' = Ev.last /\ pc' = "idle" /\ RoundRest
TRestart == /\ Is("restart") /\ Step /\ Keep /\ Good /\ pc = "idle"
            /\ lastIndex' = 0 /\ li' = 0 /\ copy' = 0 /\ idres' = "none"
            /\ UNCHANGED <<dbvars, pc, remote, hist, nfail, nrestart>>
(* quiescence: every write acknowledged, storage healthy, one more complete round has run *)
TQuiesce == /\ Is("quiesce") /\ Step /\ Keep /\ Same /\ pc = "idle" /\ pend = {} /\ wpc = 0
            /\ bad' = IF remote.c # cIdx \/ ~remote.has THEN "end-state:remote-behind-database"
                      ELSE IF ~Ev.eq THEN "end-state:remote-differs-from-database"
                      ELSE bad

TNext == \/ TReset \/ TWCall \/ TWRet \/ TQCall \/ TQRet \/ Apply
         \/ TStart \/ TRead \/ TRound \/ TSkip \/ TProvBegin \/ TCopy \/ TProvEnd \/ TProvFail
         \/ TCurID \/ TSkipID \/ TUpload \/ TOk \/ TFail \/ TRestart \/ TQuiesce
TSpec == TInit /\ [][TNext]_tvars

NoBad == bad = ""
HW == TLCSet(1, Max2(l, TLCGet(1)))
Accepted == IF TLCGet(1) >= Len(Trace) + 1 THEN TRUE
            ELSE PrintT(<<"@@HW", TLCGet(1) - 1>>) /\ FALSE
=============================================================================
