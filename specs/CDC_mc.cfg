\* quick: 2 nodes, 3 entries, batch size 2, endpoint down/up and leadership changes unlimited, no restart
SPECIFICATION Spec
CONSTANTS
  Node = {n1, n2}
  MaxIdx = 3
  Multi = {2}
  BatchSz = 2
  InCap = 0
  AsyncHWM = FALSE
  MaxFlips = 99
  MaxLeaders = 1
  MaxRestarts = 0
  MaxSnaps = 0
  MaxDowns = 99
  OneGroupPerEntry = TRUE
  LabelEveryGroup = TRUE
  KeyByHighest = TRUE
  SyncFlushBeforeSnapshot = TRUE
  DrainInBeforeSync = TRUE
  HWMAfterSendOK = TRUE
  PruneToHWMOnly = TRUE
  RewindCursor = TRUE
  RestartHWMBelowLowest = TRUE
  DropReapplied = TRUE
SYMMETRY Sym
INVARIANTS TypeOK Labelled NoSkip TenureOrder TakenStored KeysBounded
