------------------------------- MODULE Sync -------------------------------
(* rqlite internal/rsync: CheckAndSet (snapshot/backup/integrity gate), MultiRSW   *)
(* (snapshot-store lock) and ReadyTarget (index waiters).  One action per critical  *)
(* section of the Go code (each method body runs under the object's mutex).         *)
(* Blocking acquires are two-phase: the goroutine enters ("check"), sleeps on the   *)
(* condition variable when the condition is false ("asleep") and is moved back to   *)
(* "check" by a Broadcast.  Mechanism switches (all TRUE = the design):             *)
(*   CASExclusive, WriterExcludesReaders, BlockingWakes, WakeAtTarget               *)
EXTENDS Naturals, FiniteSets, Sequences, TLC

CONSTANTS Proc, MaxIdx, MaxHolds,
          CASExclusive, WriterExcludesReaders, BlockingWakes, WakeAtTarget

VARIABLES casHeld,   \* set of procs inside the CheckAndSet critical section
          rd,        \* Proc -> number of read holds
          wr,        \* set of procs holding the write lock
          wt,        \* Proc -> [kind: "none"|"r"|"w", st: "check"|"asleep"]
          cur,       \* ReadyTarget current value
          subs,      \* set of [id, target, open, reached]   (live subscriptions + closed ones)
          nsub       \* number of subscriptions created so far

vars == <<casHeld, rd, wr, wt, cur, subs, nsub>>
None == [kind |-> "none", st |-> "check"]

Init == /\ casHeld = {} /\ rd = [p \in Proc |-> 0] /\ wr = {}
        /\ wt = [p \in Proc |-> None] /\ cur = 0 /\ subs = {} /\ nsub = 0

NReaders == LET RECURSIVE S(_)
                S(Q) == IF Q = {} THEN 0 ELSE LET q == CHOOSE x \in Q : TRUE IN rd[q] + S(Q \ {q})
            IN S(Proc)

----------------------------------------------------------------------------
(* CheckAndSet *)
CasBeginOK(p)   == /\ (CASExclusive => casHeld = {}) /\ p \notin casHeld
                   /\ casHeld' = casHeld \cup {p}
                   /\ UNCHANGED <<rd, wr, wt, cur, subs, nsub>>
CasBeginFail(p) == /\ casHeld # {} /\ UNCHANGED vars
CasEnd(p)       == /\ p \in casHeld /\ casHeld' = casHeld \ {p}
                   /\ UNCHANGED <<rd, wr, wt, cur, subs, nsub>>
CasNext == \E p \in Proc : CasBeginOK(p) \/ CasBeginFail(p) \/ CasEnd(p)
CasMutex == Cardinality(casHeld) <= 1

----------------------------------------------------------------------------
(* MultiRSW *)
CanRead  == WriterExcludesReaders => wr = {}
CanWrite == WriterExcludesReaders => (wr = {} /\ NReaders = 0)
Idle(p)  == wt[p].kind = "none"
Wake(w)  == IF BlockingWakes THEN [p \in Proc |-> IF w[p].kind # "none" THEN [w[p] EXCEPT !.st = "check"] ELSE w[p]]
            ELSE w

BeginReadOK(p)   == /\ Idle(p) /\ CanRead /\ rd[p] < MaxHolds /\ rd' = [rd EXCEPT ![p] = @ + 1]
                    /\ UNCHANGED <<casHeld, wr, wt, cur, subs, nsub>>
BeginReadFail(p) == /\ Idle(p) /\ wr # {} /\ UNCHANGED vars
BeginWriteOK(p)  == /\ Idle(p) /\ CanWrite /\ p \notin wr /\ wr' = wr \cup {p}
                    /\ UNCHANGED <<casHeld, rd, wt, cur, subs, nsub>>
BeginWriteFail(p) == /\ Idle(p) /\ (wr # {} \/ NReaders > 0) /\ UNCHANGED vars
EndRead(p)  == /\ Idle(p) /\ rd[p] > 0 /\ rd' = [rd EXCEPT ![p] = @ - 1]
               /\ wt' = IF NReaders = 1 THEN Wake(wt) ELSE wt
               /\ UNCHANGED <<casHeld, wr, cur, subs, nsub>>
EndWrite(p) == /\ Idle(p) /\ p \in wr /\ wr' = wr \ {p} /\ wt' = Wake(wt)
               /\ UNCHANGED <<casHeld, rd, cur, subs, nsub>>
UpgradeOK(p) == /\ Idle(p) /\ rd[p] = 1 /\ NReaders = 1 /\ wr = {}
                /\ rd' = [rd EXCEPT ![p] = 0] /\ wr' = {p}
                /\ UNCHANGED <<casHeld, wt, cur, subs, nsub>>
UpgradeFail(p) == /\ Idle(p) /\ rd[p] >= 1 /\ (wr # {} \/ NReaders > 1) /\ UNCHANGED vars
(* blocking acquires *)
StartBlocking(p, k) == /\ Idle(p) /\ (k = "w" => (rd[p] = 0 /\ p \notin wr)) /\ (k = "r" => (p \notin wr /\ rd[p] < MaxHolds))
                       /\ wt' = [wt EXCEPT ![p] = [kind |-> k, st |-> "check"]]
                       /\ UNCHANGED <<casHeld, rd, wr, cur, subs, nsub>>
BlockCheck(p) == /\ wt[p].kind # "none" /\ wt[p].st = "check"
                 /\ IF wt[p].kind = "r"
                    THEN IF CanRead
                         THEN rd' = [rd EXCEPT ![p] = @ + 1] /\ wt' = [wt EXCEPT ![p] = None] /\ wr' = wr
                         ELSE wt' = [wt EXCEPT ![p].st = "asleep"] /\ UNCHANGED <<rd, wr>>
                    ELSE IF CanWrite
                         THEN wr' = wr \cup {p} /\ wt' = [wt EXCEPT ![p] = None] /\ rd' = rd
                         ELSE wt' = [wt EXCEPT ![p].st = "asleep"] /\ UNCHANGED <<rd, wr>>
                 /\ UNCHANGED <<casHeld, cur, subs, nsub>>
MrswNext == \E p \in Proc : \/ BeginReadOK(p) \/ BeginReadFail(p) \/ BeginWriteOK(p) \/ BeginWriteFail(p)
                            \/ EndRead(p) \/ EndWrite(p) \/ UpgradeOK(p) \/ UpgradeFail(p)
                            \/ StartBlocking(p, "r") \/ StartBlocking(p, "w") \/ BlockCheck(p)

MrswExclusion == /\ Cardinality(wr) <= 1 /\ (wr # {} => NReaders = 0)
NoLostWake == \A p \in Proc : (wt[p].kind # "none" /\ wt[p].st = "asleep") =>
                 IF wt[p].kind = "r" THEN wr # {} ELSE (wr # {} \/ NReaders > 0)
(* progress: a blocked acquirer proceeds once the lock is (and stays) free *)
MrswFair == /\ \A p \in Proc : WF_vars(BlockCheck(p))
            /\ \A p \in Proc : WF_vars(EndRead(p)) /\ WF_vars(EndWrite(p))
Free == wr = {} /\ NReaders = 0
Proceeds == \A p \in Proc : (wt[p].kind # "none" /\ [](wt[p].kind # "none" => Free)) ~> (wt[p].kind = "none")

----------------------------------------------------------------------------
(* ReadyTarget *)
Subscribe(t) == /\ nsub' = nsub + 1
                /\ subs' = subs \cup {[id |-> nsub + 1, target |-> t, open |-> ~(t <= cur), reached |-> (t <= cur), live |-> ~(t <= cur)]}
                /\ UNCHANGED <<casHeld, rd, wr, wt, cur>>
WakeSet(i) == IF WakeAtTarget THEN {s \in subs : s.live /\ s.target <= i}
              ELSE {s \in subs : s.live /\ s.target <= i + 1}
Signal(i) == /\ IF i <= cur THEN UNCHANGED <<cur, subs>>
                ELSE /\ cur' = i
                     /\ subs' = (subs \ WakeSet(i)) \cup
                                {[s EXCEPT !.open = FALSE, !.live = FALSE, !.reached = (s.target <= i)] : s \in WakeSet(i)}
             /\ UNCHANGED <<casHeld, rd, wr, wt, nsub>>
Unsubscribe(s) == /\ s \in subs /\ s.live /\ subs' = (subs \ {s}) \cup {[s EXCEPT !.live = FALSE]}
                  /\ UNCHANGED <<casHeld, rd, wr, wt, cur, nsub>>
RtReset == /\ cur' = 0 /\ subs' = {[s EXCEPT !.live = FALSE] : s \in subs}
           /\ UNCHANGED <<casHeld, rd, wr, wt, nsub>>
RtNext == \/ \E t \in 1..MaxIdx : Subscribe(t)
          \/ \E i \in 1..MaxIdx : Signal(i)
          \/ \E s \in subs : Unsubscribe(s)
          \/ RtReset
(* closed channel  =>  the target had been reached; live subscription => target not yet reached *)
NeverBefore == \A s \in subs : ~s.open => s.reached
WokenWhenReached == \A s \in subs : s.live => s.target > cur

----------------------------------------------------------------------------
SpecCas  == Init /\ [][CasNext]_vars
SpecMrsw == Init /\ [][MrswNext]_vars
SpecMrswLive == Init /\ [][MrswNext]_vars /\ MrswFair
SpecRt   == Init /\ [][RtNext]_vars
RtBound  == nsub <= 3
=============================================================================
