SPECIFICATION CatSpec
CONSTANTS
  IgnoreTmp = TRUE
  OrderTermIndexId = TRUE
  GateIncOnFullNeeded = TRUE
  GateAtClose = TRUE
  ClearOnSuccessOnly = TRUE
  PlanBeforeMutation = TRUE
  ResumeOnOpen = TRUE
  IdempotentOps = TRUE
  LeftoverWALFirst = TRUE
  LastOpDoneShortcut = TRUE
  TmpCleanAfterResume = TRUE
  Sinks = {s1, s2}
  MaxId = 4
  MaxWal = 3
  MaxTerm = 2
  MaxIdx = 1
  GenDepth = 14
  AtomicClose = FALSE
  OlderSel = {0}
  MaxFullWals = 0
  MaxIncs = 0
  MaxIncWals = 1
  TmpSel = {FALSE}
  MaxCrashes = 0
INVARIANTS ListedComplete NewestFirst Resolvable IncWhileFullNeeded IncHasBase ClearOnlyByInstall
VIEW CatView
SYMMETRY SinkSym
