\* thorough: 2 nodes, 2 entries, 1 restart, 1 snapshot sync, separate in-channel, asynchronous HWM updates, <=2 leadership signals, 1 outage
SPECIFICATION Spec
CONSTANTS
  Node = {n1, n2}
  MaxIdx = 2
  Multi = {2}
  BatchSz = 2
  InCap = 2
  AsyncHWM = TRUE
  SigCap = 2
  MaxFlips = 2
  MaxLeaders = 1
  MaxRestarts = 1
  MaxSnaps = 1
  MaxDowns = 1
  OneGroupPerEntry = TRUE
  LabelEveryGroup = TRUE
  KeyByHighest = TRUE
  SyncFlushBeforeSnapshot = TRUE
  DrainInBeforeSync = TRUE
  HWMAfterSendOK = TRUE
  PruneToHWMOnly = TRUE
  RewindCursor = TRUE
  ParkedKeptUntilSent = TRUE
  RestartHWMBelowLowest = TRUE
  DropReapplied = TRUE
SYMMETRY Sym
INVARIANTS TypeOK Labelled NoSkip TenureOrder TakenStored KeysBounded LoopShape
