SPECIFICATION TSpec
CONSTANTS
  MaxWrites = 0
  MaxAuto = 0
  MaxBackups = 0
  Delta = {1}
  GateDuringFileCopy = TRUE
  SnapshotBeforeCopy = TRUE
  DumpInOneReadTxn = TRUE
  BackupSingleStep = TRUE
  StreamEndDetected = TRUE
  AbortAfterPartial = TRUE
  EndMarkerOnlyOnSuccess = TRUE
  CopyErrorReturned = TRUE
  DumpRowErrorsReturned = TRUE
CONSTRAINT HW
POSTCONDITION Accepted
CHECK_DEADLOCK FALSE
