SPECIFICATION TSpec
CONSTANTS
  UpgradeStrong = TRUE
  VerifyQuorum = TRUE
  RecheckTerm = TRUE
  OneCluster = FALSE
CONSTRAINT HW
POSTCONDITION Accepted
CHECK_DEADLOCK FALSE
