SPECIFICATION TSpec
CONSTANTS
  MaxFrames = 0
  Pages = {}
  Sizes = {}
  BaseSizes = {1000}
  MaxSaltBreaks = 0
  MaxCkBreaks = 0
  MaxBreaks = 0
  LatestPerPage = TRUE
  TxnBoundary = TRUE
  OffsetOrder = TRUE
  StopAtSaltBreak = TRUE
  StopAtChecksumBreak = TRUE
  ErrorOnOpenTxn = TRUE
  RespectStart = TRUE
CONSTRAINT HW
POSTCONDITION Accepted
CHECK_DEADLOCK FALSE
