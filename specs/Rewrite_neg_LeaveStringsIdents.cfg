SPECIFICATION Spec
CONSTANTS
  PrefilterComplete = TRUE
  ImplicitNow = TRUE
  FormatOnly = TRUE
  SkipOrderBy = TRUE
  LeaveStringsIdents = FALSE
  UntouchedIfNoSite = TRUE
  WalkEverywhere = TRUE
  OnePin = TRUE
  SiteIndependent = TRUE
  Tier = "neg"
INVARIANTS Minimal
