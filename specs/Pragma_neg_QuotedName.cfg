SPECIFICATION Spec
CONSTANTS
  AfterTrivia = TRUE
  EveryStatement = TRUE
  CallSyntax = TRUE
  SchemaPrefix = TRUE
  QuotedName = FALSE
INVARIANTS NoBypass
