SPECIFICATION Spec
CONSTANTS
  MaxFrames = 2
  Pages = {1, 2, 3}
  Sizes = {1, 2, 3, 4}
  BaseSizes = {2, 4}
  MaxSaltBreaks = 1
  MaxCkBreaks = 1
  MaxBreaks = 2
  LatestPerPage = TRUE
  TxnBoundary = TRUE
  OffsetOrder = TRUE
  StopAtSaltBreak = TRUE
  StopAtChecksumBreak = TRUE
  ErrorOnOpenTxn = TRUE
  RespectStart = TRUE
INVARIANTS Design
