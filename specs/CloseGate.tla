----------------------------- MODULE CloseGate -----------------------------
(* rqlite store.Close vs. a holder of the snapshot gate (snapshotCAS, a CheckAndSet):          *)
(* a user snapshot, a backup copying the SQLite file, or the start-up integrity check.         *)
(*                                                                                              *)
(*   Close(wait) = [optional snapshot: Begin("snapshot") once, no retry]                        *)
(*                 BeginWithRetry("close", timeout, interval):                                  *)
(*                     deadline := now + timeout                                                *)
(*                     loop: Begin ok -> return nil                                             *)
(*                           now > deadline -> return ErrCASConflictTimeout                     *)
(*                           sleep(interval)                                                    *)
(*                 ... shut down, End() when Close returns.                                     *)
(* Time is discrete (one tick = 10 ms) and event driven: the clock jumps to the next instant at *)
(* which something can happen, so every placement of the close call relative to the holder is   *)
(* enumerated by the constants H0 (holder start), Dur (holder duration), T0 (close call).       *)
(* Mechanism switches (TRUE = the design):                                                      *)
(*   ShortRetryInterval   the retry interval is Short (10 ms), not Limit (10 s)                 *)
(*   TenSecondLimit       the give-up timeout is Limit (10 s), not Short (10 ms)                *)
(* rqlite as pinned passed (timeout, interval) = (10 ms, 10 s): both switches FALSE.            *)
EXTENDS Integers, FiniteSets, TLC

CONSTANTS H0, Dur, T0,        \* sets of ticks
          Limit, Short,       \* 1000 and 1 ticks
          SnapDur,            \* set of durations of the optional snapshot-on-close (0 = none / nothing to snapshot)
          Eps,                \* promptness bound in ticks (beyond the snapshot and one retry interval)
          ShortRetryInterval, TenSecondLimit

Timeout  == IF TenSecondLimit THEN Limit ELSE Short
Interval == IF ShortRetryInterval THEN Short ELSE Limit
Inf == 1000000

VARIABLES now,
          gate,     \* "free" | "holder" | "snapshot" | "close"
          h,        \* holder:  [pc: "wait"|"hold"|"done"|"refused", at, d, rel]
          c         \* closer:  [pc: "wait"|"snap"|"try"|"sleep"|"ok"|"fail", t0, s, deadline, wake, ret, tries]
vars == <<now, gate, h, c>>

Init == /\ now = 0 /\ gate = "free"
        /\ \E a \in H0, d \in Dur : h = [pc |-> "wait", at |-> a, d |-> d, rel |-> Inf]
        /\ \E t \in T0, s \in SnapDur : c = [pc |-> "wait", t0 |-> t, s |-> s, deadline |-> 0, wake |-> Inf, ret |-> Inf, tries |-> 0]

(* ---- holder ---- *)
HoldBegin == /\ h.pc = "wait" /\ now = h.at
             /\ IF gate = "free" /\ h.d > 0
                THEN gate' = "holder" /\ h' = [h EXCEPT !.pc = "hold", !.rel = now + h.d]
                ELSE gate' = gate /\ h' = [h EXCEPT !.pc = IF h.d = 0 THEN "done" ELSE "refused", !.rel = now]   \* CAS conflict: the operation fails at once
             /\ UNCHANGED <<now, c>>
HoldEnd == /\ h.pc = "hold" /\ now = h.rel /\ gate' = "free" /\ h' = [h EXCEPT !.pc = "done"]
           /\ UNCHANGED <<now, c>>

(* ---- Close ---- *)
CloseCall == /\ c.pc = "wait" /\ now = c.t0
             /\ IF c.s > 0 /\ gate = "free"
                THEN gate' = "snapshot" /\ c' = [c EXCEPT !.pc = "snap", !.wake = now + c.s]
                ELSE gate' = gate /\ c' = [c EXCEPT !.pc = "try", !.deadline = now + Timeout]   \* snapshot skipped or refused
             /\ UNCHANGED <<now, h>>
SnapDone == /\ c.pc = "snap" /\ now = c.wake /\ gate' = "free"
            /\ c' = [c EXCEPT !.pc = "try", !.deadline = now + Timeout, !.wake = Inf]
            /\ UNCHANGED <<now, h>>
Try == /\ c.pc = "try"
       /\ IF gate = "free"
          THEN gate' = "close" /\ c' = [c EXCEPT !.pc = "ok", !.ret = now, !.tries = @ + 1]
          ELSE /\ gate' = gate
               /\ IF now > c.deadline
                  THEN c' = [c EXCEPT !.pc = "fail", !.ret = now, !.tries = @ + 1]
                  ELSE c' = [c EXCEPT !.pc = "sleep", !.wake = now + Interval, !.tries = @ + 1]
       /\ UNCHANGED <<now, h>>
Wake == /\ c.pc = "sleep" /\ now = c.wake /\ c' = [c EXCEPT !.pc = "try", !.wake = Inf] /\ UNCHANGED <<now, gate, h>>

(* ---- time: nothing is enabled now, jump to the next instant ---- *)
Due == {IF h.pc = "wait" THEN h.at ELSE Inf, IF h.pc = "hold" THEN h.rel ELSE Inf,
        IF c.pc = "wait" THEN c.t0 ELSE Inf, IF c.pc \in {"snap", "sleep"} THEN c.wake ELSE Inf}
MinDue == CHOOSE m \in Due : \A x \in Due : m <= x
Busy == \/ (h.pc = "wait" /\ now = h.at) \/ (h.pc = "hold" /\ now = h.rel)
        \/ (c.pc = "wait" /\ now = c.t0) \/ (c.pc \in {"snap", "sleep"} /\ now = c.wake) \/ c.pc = "try"
Tick == /\ ~Busy /\ MinDue < Inf /\ MinDue > now /\ now' = MinDue /\ UNCHANGED <<gate, h, c>>

Next == HoldBegin \/ HoldEnd \/ CloseCall \/ SnapDone \/ Try \/ Wake \/ Tick
Spec == Init /\ [][Next]_vars /\ WF_vars(Next)

----------------------------------------------------------------------------
(* the property, as predicates over measured values so that the trace spec evaluates the same *)
Max2(a, b) == IF a > b THEN a ELSE b
(* Close got the gate at `ret`; the gate was held by somebody else until `rel` (0 if never), Close was called at t0, *)
(* its own snapshot took s: prompt means within Eps of the moment it could first have had it.                        *)
Prompt(ret, rel, t0, s) == ret <= Max2(rel, t0 + s) + Eps
(* Close gave up at `ret`: allowed only if the holder was still holding then, and not before the limit has passed.  *)
MayFail(ret, rel, t0, s) == rel >= ret /\ ret >= t0 + Limit
HolderRel == IF h.pc \in {"hold", "done"} /\ h.d > 0 /\ h.at <= c.ret THEN h.rel ELSE 0

ClosePrompt      == c.pc = "ok" => Prompt(c.ret, HolderRel, c.t0, c.s)
FailOnlyIfOutlasts == c.pc = "fail" => MayFail(c.ret, HolderRel, c.t0, c.s)
GateExclusive    == (gate = "close" => c.pc = "ok") /\ (gate = "holder" => h.pc = "hold") /\ (gate = "snapshot" => c.pc = "snap")
CloseReturns     == <>(c.pc \in {"ok", "fail"})
=============================================================================
