SPECIFICATION Spec
CONSTANTS
  Node = {n1}
  MaxIdx = 2
  Multi = {2}
  BatchSz = 2
  InCap = 0
  AsyncHWM = FALSE
  SigCap = 2
  MaxFlips = 99
  MaxLeaders = 1
  MaxRestarts = 1
  MaxSnaps = 1
  MaxDowns = 0
  OneGroupPerEntry = TRUE
  LabelEveryGroup = TRUE
  KeyByHighest = TRUE
  SyncFlushBeforeSnapshot = FALSE
  DrainInBeforeSync = TRUE
  HWMAfterSendOK = TRUE
  PruneToHWMOnly = TRUE
  RewindCursor = TRUE
  ParkedKeptUntilSent = TRUE
  RestartHWMBelowLowest = TRUE
  DropReapplied = TRUE
INVARIANTS TypeOK Labelled NoSkip TenureOrder TakenStored KeysBounded LoopShape
