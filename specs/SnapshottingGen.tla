--------------------------- MODULE SnapshottingGen ---------------------------
(* Behaviour generator for Snapshotting.tla: the same actions with a history variable; every   *)
(* state reached right after an Open is emitted as a case (the history that led to it plus the  *)
(* database the design expects), for replay on the real store (harness snap-replay).            *)
EXTENDS Snapshotting, Json

VARIABLE hist
gvars == <<vars, hist>>
H(e) == hist' = Append(hist, e)

GInit == Init /\ hist = <<>>
GNext == \/ \E S \in SUBSET Page : Write(S) /\ H([a |-> "w", pages |-> S])
         \/ Load /\ H([a |-> "L"])
         \/ SnapTake /\ H([a |-> "take"])
         \/ PersistData /\ H([a |-> "persist", ok |-> ~(pend.kind = "inc" /\ fullNeeded)])
         \/ Finalize /\ H([a |-> "final"])
         \/ SinkClose /\ H([a |-> "close"])
         \/ PersistNotInvoked /\ H([a |-> "notinv"])
         \/ Reap /\ H([a |-> "reap"])
         \/ Crash /\ H([a |-> "crash", ph |-> pend.ph])
         \/ Stop /\ H([a |-> "stop"])
         \/ \E r \in BOOLEAN : Open(r) /\ H([a |-> "open", recover |-> r])
GSpec == GInit /\ [][GNext]_gvars

JustOpened == Len(hist) > 0 /\ hist[Len(hist)].a = "open"
Emit == IF JustOpened THEN PrintT(<<"@@", ToJson([hist |-> hist, live |-> Live, nlog |-> Len(log)])>>) ELSE TRUE
View == vars
=============================================================================
