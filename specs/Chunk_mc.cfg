SPECIFICATION Spec
CONSTANTS
  MaxS = 3
  EofWithDataSeen = FALSE
  LastWhenFinished = FALSE
  StreamIdCheck = TRUE
  SeqCheck = TRUE
INVARIANTS SenderOK Reassembled NoWrongContent
