SPECIFICATION Spec
CONSTANTS
  Int64Exact = TRUE
  HexLiteralToBlob = TRUE
  ByteArrayToBlob = TRUE
  BlobStaysBlob = FALSE
  TextStaysText = TRUE
INVARIANTS OutFaithful
