SPECIFICATION Spec
CONSTANTS
  H0 = {0, 3}
  Dur = {0, 50, 1100}
  T0 = {0, 4, 30}
  Limit = 1000
  Short = 1
  SnapDur = {0, 2}
  Eps = 2
  ShortRetryInterval = TRUE
  TenSecondLimit = TRUE
PROPERTY CloseReturns
