SPECIFICATION Spec
CONSTANTS
  WeakNeedsLeader = FALSE
  AutoOnQuery = TRUE
  AutoOnUnified = TRUE
  StaleByContact = TRUE
  StrictByAppendLag = TRUE
  MaxT = 3
INVARIANT Inv
