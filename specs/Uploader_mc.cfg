SPECIFICATION Spec
CONSTANTS
  MaxIdx = 3
  MaxFail = 2
  MaxRestart = 1
  IndexBeforeProvide = TRUE
  SkipIfUnchanged = TRUE
  RecordOnlyOnSuccess = TRUE
  PublishAfterApply = TRUE
  IndexIsDBApplied = TRUE
  CheckCurrentID = TRUE
INVARIANTS TypeOK LabelCovered FailedNotRecorded NoMissedChange NoUploadWithoutChange QuiescentEqual
