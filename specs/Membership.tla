------------------------------ MODULE Membership ------------------------------
(* C32: cluster membership of rqlite.  The configuration is the set of (id, addr, suffrage)   *)
(* held by Raft; rqlite changes it through                                                    *)
(*   Store.Join   (store/store.go): scan the configuration; an entry with the same id AND     *)
(*                address (and role) => ignore; every entry with the same id OR address is     *)
(*                removed first (remove-before-add), then AddVoter / AddNonvoter;             *)
(*   Store.Remove / remove(id);                                                               *)
(*   Store.Notify (discovery bootstrap): count distinct notifying ids, at BootstrapExpect     *)
(*                call raft.BootstrapCluster once;                                            *)
(*   the reaper in Store.observe(): a failed-heartbeat observation for a node whose last      *)
(*                contact is older than the timeout of ITS role removes the node.             *)
(* Join is several Raft calls, so it is several actions here and other operations may         *)
(* interleave.  hashicorp/raft is the environment: every configuration change is atomic,      *)
(* nextConfiguration/checkConfiguration (raft/configuration.go) compute the next              *)
(* configuration and refuse duplicate ids, duplicate addresses and a voterless configuration. *)
(* Switches (TRUE = the design): IgnoreOnlyIfIdenticalInclRole, RemoveConflictingEntry,       *)
(* BootstrapOnce, ReapAfterRoleTimeout; RaftRejectsDuplicates is the environment assumption.  *)
EXTENDS Naturals, FiniteSets, Sequences, TLC, Json

CONSTANTS Id, Addr,              \* node ids, addresses
          Self, SelfAddr,        \* the node whose Store is modelled while there is no cluster yet
          OpIds, OpAddrs,        \* ids / addresses that join, remove and notify requests may name
          Expect,                \* BootstrapExpect (0 = the node was bootstrapped directly)
          ReapV, ReapN,          \* ReapTimeout / ReapReadOnlyTimeout in ticks, 0 = never reap that role
          MaxSince, MaxDownNodes,
          MaxJoins,              \* join requests in flight at the same time
          MaxOps,                \* bound on requests (0 = unbounded)
          GenLen,                \* > 0: record the request history (generator)
          IgnoreOnlyIfIdenticalInclRole, RemoveConflictingEntry, BootstrapOnce, ReapAfterRoleTimeout,
          RaftRejectsDuplicates

VARIABLES config,      \* Raft configuration: set of [id, addr, suff], suff \in {"V","N"}
          raftBoot,    \* Raft has state (a bootstrap succeeded)
          notified,    \* Store.notifyingNodes: set of [id, addr]
          bootFlag,    \* Store.bootstrapped
          bootCalls,   \* number of raft.BootstrapCluster calls made by Notify
          joins,       \* slot -> join request in flight
          down,        \* ids whose process does not answer
          since,       \* id -> ticks since the leader's last contact with that entry
          reaped,      \* TRUE once some node was reaped although the timeout of its role had not passed
          nops, hist
vars == <<config, raftBoot, notified, bootFlag, bootCalls, joins, down, since, reaped, nops, hist>>

(* ------------------------------------------------------------------ configurations *)
Srv(i, a, s) == [id |-> i, addr |-> a, suff |-> s]
Want(voter) == IF voter THEN "V" ELSE "N"
Ids(c) == {s.id : s \in c}
Addrs(c) == {s.addr : s \in c}
UniqueIds(c) == Cardinality(Ids(c)) = Cardinality(c)
UniqueAddrs(c) == Cardinality(Addrs(c)) = Cardinality(c)
HasVoter(c) == \E s \in c : s.suff = "V"
Entry(c, i) == {s \in c : s.id = i}

(* raft/configuration.go checkConfiguration *)
RaftOK(c) == HasVoter(c) /\ (RaftRejectsDuplicates => UniqueIds(c) /\ UniqueAddrs(c))
Why(c) == IF ~UniqueIds(c) THEN "dup-id" ELSE IF ~UniqueAddrs(c) THEN "dup-addr" ELSE "no-voter"

(* raft/configuration.go nextConfiguration.  AddVoter on an existing voter only updates the    *)
(* address, on an existing non-voter replaces it by a voter; AddNonvoter on an existing voter  *)
(* only updates the address (NO demotion), on a non-voter replaces it.                         *)
RaftNext(c, cmd, i, a) ==
  LET ex == Entry(c, i) IN
  CASE cmd = "addvoter"    -> (c \ ex) \cup {Srv(i, a, "V")}
    [] cmd = "addnonvoter" -> IF ex = {} THEN c \cup {Srv(i, a, "N")}
                              ELSE (c \ ex) \cup {Srv(i, a, (CHOOSE s \in ex : TRUE).suff)}
    [] cmd = "remove"      -> c \ ex

(* ------------------------------------------------------------------ Store.Join, closed form *)
Matches(c, i, a) == {s \in c : s.id = i \/ s.addr = a}
Identical(s, i, a, voter) == /\ s.id = i /\ s.addr = a
                             /\ (IgnoreOnlyIfIdenticalInclRole => s.suff = Want(voter))
(* which entry the remove-before-add step removes: the entry found by the scan (design), or    *)
(* whatever entry carries the JOINING id (which is none when only the address matched)         *)
RemoveTarget(s, i) == IF RemoveConflictingEntry THEN s.id ELSE i
AddCmd(voter) == IF voter THEN "addvoter" ELSE "addnonvoter"

AddStep(c, i, a, voter) ==
  LET nc == RaftNext(c, AddCmd(voter), i, a) IN
  IF RaftOK(nc) THEN {<<"ok", "added", nc>>} ELSE {<<"refused", Why(nc), c>>}

RECURSIVE ScanFrom(_, _, _, _, _)
ScanFrom(c, todo, i, a, voter) ==
  IF todo = {} THEN AddStep(c, i, a, voter)
  ELSE UNION { IF Identical(s, i, a, voter) THEN {<<"ok", "ignored", c>>}
               ELSE LET nc == RaftNext(c, "remove", RemoveTarget(s, i), a) IN
                    IF RaftOK(nc) THEN ScanFrom(nc, todo \ {s}, i, a, voter)
                    ELSE {<<"refused", Why(nc), c>>} : s \in todo }
(* every <<result, why, configuration>> an undisturbed Join(i, a, voter) can end with *)
JoinOutcomes(c, i, a, voter) == ScanFrom(c, Matches(c, i, a), i, a, voter)
(* configurations a Join that lost leadership can leave behind: any prefix of its Raft calls took effect - including *)
(* the last one, the add: "leadership lost while committing log" says the outcome is unknown, not that it failed      *)
RECURSIVE PartialFrom(_, _, _, _, _)
PartialFrom(c, todo, i, a, voter) ==
  {c} \cup (IF todo = {} THEN {o[3] : o \in AddStep(c, i, a, voter)}
            ELSE UNION { PartialFrom(RaftNext(c, "remove", RemoveTarget(s, i), a), todo \ {s}, i, a, voter) : s \in todo })
JoinPartials(c, i, a, voter) == PartialFrom(c, Matches(c, i, a), i, a, voter)

(* how the request relates to the configuration it meets (names the history class) *)
Rel(c, i, a) ==
  IF \E s \in c : s.id = i /\ s.addr = a THEN "same-id-same-addr"
  ELSE IF i \in Ids(c) /\ a \in Addrs(c) THEN "own-id-on-anothers-addr"
  ELSE IF i \in Ids(c) THEN "same-id-new-addr"
  ELSE IF a \in Addrs(c) THEN "new-id-on-used-addr"
  ELSE "fresh"

(* ------------------------------------------------------------------ reaping rule *)
ReapTimeoutOf(suff, tv, tn) == IF suff = "V" THEN tv ELSE tn
ReapGuard(suff, dur, tv, tn) == ReapTimeoutOf(suff, tv, tn) > 0 /\ dur > ReapTimeoutOf(suff, tv, tn)

(* ------------------------------------------------------------------ state machine *)
IdleJoin == [pc |-> "idle", id |-> Self, addr |-> SelfAddr, voter |-> TRUE, todo |-> {}, res |-> "", why |-> "",
             clean |-> TRUE, pre |-> {}]

Init == /\ config = (IF Expect = 0 THEN {Srv(Self, SelfAddr, "V")} ELSE {})
        /\ raftBoot = (Expect = 0)
        /\ notified = {} /\ bootFlag = FALSE /\ bootCalls = 0
        /\ joins = [j \in 1..MaxJoins |-> IdleJoin]
        /\ down = {} /\ since = [i \in Id |-> 0] /\ reaped = FALSE
        /\ nops = 0 /\ hist = <<>>

HasLeader == raftBoot /\ HasVoter(config)
(* a finished request returns before anything else happens (its final state is where the invariants look) *)
NoneDone == \A j \in 1..MaxJoins : joins[j].pc # "done"
(* the generator produces sequential histories: a request starts when the previous one has returned *)
Sequential == GenLen > 0 => \A j \in 1..MaxJoins : joins[j].pc = "idle"
Budget == MaxOps = 0 \/ nops < MaxOps
Count(op) == /\ nops' = (IF MaxOps = 0 THEN 0 ELSE nops + 1)
             /\ hist' = (IF GenLen > 0 THEN Append(hist, op) ELSE hist)
NoCount == UNCHANGED <<nops, hist>>

(* a new configuration: a replication routine (and its last-contact time) exists per id while the id stays *)
SetConfig(nc) == /\ config' = nc
                 /\ since' = [i \in Id |-> IF i \in Ids(nc) /\ i \in Ids(config) THEN since[i] ELSE 0]
(* joins[j] := rec; every OTHER join in flight is no longer undisturbed when the configuration changed *)
Upd(j, rec, nc) == [k \in DOMAIN joins |->
                      IF k = j THEN rec
                      ELSE IF joins[k].pc \in {"scan", "done"} /\ nc # config THEN [joins[k] EXCEPT !.clean = FALSE, !.pre = {}]
                      ELSE joins[k]]
Others(nc) == Upd(0, IdleJoin, nc)

(* --- Store.Join: GetConfiguration *)
JoinStart(j, i, a, voter) ==
  /\ NoneDone /\ Budget /\ HasLeader /\ joins[j].pc = "idle"
  /\ \A k \in 1..(j - 1) : joins[k].pc # "idle"
  /\ joins' = [joins EXCEPT ![j] = [pc |-> "scan", id |-> i, addr |-> a, voter |-> voter, todo |-> Matches(config, i, a),
                                    res |-> "", why |-> "", clean |-> TRUE, pre |-> config]]
  /\ Count([op |-> "join", id |-> i, addr |-> a, voter |-> voter])
  /\ UNCHANGED <<config, raftBoot, notified, bootFlag, bootCalls, down, since, reaped>>

(* --- one iteration of the scan loop that meets a matching entry: ignore, or remove *)
JoinScan(j) ==
  /\ NoneDone /\ joins[j].pc = "scan" /\ joins[j].todo # {}
  /\ \E s \in joins[j].todo :
       LET r == joins[j] IN
       IF Identical(s, r.id, r.addr, r.voter)
       THEN /\ joins' = Upd(j, [r EXCEPT !.pc = "done", !.res = "ok", !.why = "ignored"], config)
            /\ UNCHANGED <<config, since>>
       ELSE LET nc == RaftNext(config, "remove", RemoveTarget(s, r.id), r.addr) IN
            IF RaftOK(nc)
            THEN /\ SetConfig(nc) /\ joins' = Upd(j, [r EXCEPT !.todo = @ \ {s}], nc)
            ELSE /\ joins' = Upd(j, [r EXCEPT !.pc = "done", !.res = "refused", !.why = Why(nc)], config)
                 /\ UNCHANGED <<config, since>>
  /\ NoCount /\ UNCHANGED <<raftBoot, notified, bootFlag, bootCalls, down, reaped>>

(* --- AddVoter / AddNonvoter *)
JoinAdd(j) ==
  /\ NoneDone /\ joins[j].pc = "scan" /\ joins[j].todo = {}
  /\ LET r == joins[j]
         nc == RaftNext(config, AddCmd(r.voter), r.id, r.addr) IN
     IF RaftOK(nc)
     THEN /\ SetConfig(nc) /\ joins' = Upd(j, [r EXCEPT !.pc = "done", !.res = "ok", !.why = "added"], nc)
     ELSE /\ joins' = Upd(j, [r EXCEPT !.pc = "done", !.res = "refused", !.why = Why(nc)], config)
          /\ UNCHANGED <<config, since>>
  /\ NoCount /\ UNCHANGED <<raftBoot, notified, bootFlag, bootCalls, down, reaped>>

(* --- the add is appended, leadership is lost before the answer: the request fails although the change takes effect *)
JoinAddLost(j) ==
  /\ NoneDone /\ GenLen = 0 /\ joins[j].pc = "scan" /\ joins[j].todo = {}
  /\ LET r == joins[j]
         nc == RaftNext(config, AddCmd(r.voter), r.id, r.addr) IN
     /\ RaftOK(nc) /\ SetConfig(nc)
     /\ joins' = Upd(j, [r EXCEPT !.pc = "done", !.res = "notleader", !.why = ""], nc)
  /\ NoCount /\ UNCHANGED <<raftBoot, notified, bootFlag, bootCalls, down, reaped>>

(* --- leadership lost between two Raft calls: the request fails where it stands *)
JoinLoseLeader(j) ==
  /\ NoneDone /\ GenLen = 0 /\ joins[j].pc = "scan"
  /\ joins' = [joins EXCEPT ![j] = [@ EXCEPT !.pc = "done", !.res = "notleader", !.why = ""]]
  /\ NoCount /\ UNCHANGED <<config, raftBoot, notified, bootFlag, bootCalls, down, since, reaped>>

JoinReturn(j) ==
  /\ joins[j].pc = "done"
  /\ joins' = [joins EXCEPT ![j] = IdleJoin]
  /\ NoCount /\ UNCHANGED <<config, raftBoot, notified, bootFlag, bootCalls, down, since, reaped>>

(* --- Store.Remove *)
Remove(i) ==
  /\ NoneDone /\ Budget /\ HasLeader /\ Sequential
  /\ LET nc == RaftNext(config, "remove", i, SelfAddr) IN
     IF RaftOK(nc) THEN SetConfig(nc) /\ joins' = Others(nc)
     ELSE UNCHANGED <<config, since, joins>>
  /\ Count([op |-> "remove", id |-> i])
  /\ UNCHANGED <<raftBoot, notified, bootFlag, bootCalls, down, reaped>>

(* --- Store.Notify; hl: this node already knows a leader.  NotifyStep is the whole critical section (notifyMu) as a *)
(* function of the Store's bootstrap state st = [config, raftBoot, notified, bootFlag, bootCalls].                      *)
(* raft.BootstrapCluster is refused when Raft has state, when the configuration is malformed, or when this node is no  *)
(* voter in it; Store.bootstrapped is set whether or not it succeeded.  canBoot = FALSE: Raft on this node already has  *)
(* state of its own (it voted for a peer that bootstrapped first), so BootstrapCluster is refused; the configuration    *)
(* then arrives from the leader.                                                                                         *)
NotifyStep(st, i, a, hl, expect, self, canBoot) ==
  IF expect = 0 \/ (BootstrapOnce /\ st.bootFlag) \/ hl \/ i \in Ids(st.notified) THEN st
  ELSE LET nn == st.notified \cup {[id |-> i, addr |-> a]} IN
       IF Cardinality(nn) < expect THEN [st EXCEPT !.notified = nn]
       ELSE LET c == {Srv(n.id, n.addr, "V") : n \in nn}
                ok == canBoot /\ ~st.raftBoot /\ RaftOK(c) /\ self \in Ids(c) IN
            [config |-> IF ok THEN c ELSE st.config, raftBoot |-> (st.raftBoot \/ ok), notified |-> nn,
             bootFlag |-> TRUE, bootCalls |-> st.bootCalls + 1]
BootState == [config |-> config, raftBoot |-> raftBoot, notified |-> notified, bootFlag |-> bootFlag, bootCalls |-> bootCalls]
Notify(i, a, hl, canBoot) ==
  /\ NoneDone /\ Expect > 0 /\ Budget /\ Sequential /\ (hl => HasLeader)     \* with BootstrapExpect = 0 Notify does nothing
  /\ LET n == NotifyStep(BootState, i, a, hl, Expect, Self, canBoot) IN
     /\ SetConfig(n.config) /\ raftBoot' = n.raftBoot /\ notified' = n.notified
     /\ bootFlag' = n.bootFlag /\ bootCalls' = n.bootCalls
  /\ Count([op |-> "notify", id |-> i, addr |-> a])
  /\ UNCHANGED <<joins, down, reaped>>

(* --- processes stop answering / answer again; time passes *)
Stop(i) == /\ NoneDone /\ i \in Ids(config) /\ i \notin down /\ Cardinality(down) < MaxDownNodes /\ down' = down \cup {i}
           /\ UNCHANGED <<config, raftBoot, notified, bootFlag, bootCalls, joins, since, reaped, nops, hist>>
Start(i) == /\ NoneDone /\ i \in down /\ down' = down \ {i} /\ since' = [since EXCEPT ![i] = 0]
            /\ UNCHANGED <<config, raftBoot, notified, bootFlag, bootCalls, joins, reaped, nops, hist>>
Tick == /\ NoneDone /\ \E i \in down \cap Ids(config) : since[i] < MaxSince
        /\ since' = [i \in Id |-> IF i \in down \cap Ids(config) /\ since[i] < MaxSince THEN since[i] + 1 ELSE since[i]]
        /\ UNCHANGED <<config, raftBoot, notified, bootFlag, bootCalls, joins, down, reaped, nops, hist>>

(* --- the reaper: FailedHeartbeatObservation for i, role looked up in the configuration, timeout of that role *)
Reap(i) ==
  /\ NoneDone /\ HasLeader /\ i \in down /\ i \in Ids(config)
  /\ LET s == CHOOSE s \in Entry(config, i) : TRUE
         nc == RaftNext(config, "remove", i, SelfAddr) IN
     /\ (ReapAfterRoleTimeout => ReapGuard(s.suff, since[i], ReapV, ReapN))
     /\ RaftOK(nc)
     /\ SetConfig(nc) /\ joins' = Others(nc)
     /\ reaped' = (reaped \/ ~ReapGuard(s.suff, since[i], ReapV, ReapN))
  /\ NoCount /\ UNCHANGED <<raftBoot, notified, bootFlag, bootCalls, down>>

Next == \/ \E j \in 1..MaxJoins, i \in OpIds, a \in OpAddrs, v \in BOOLEAN : JoinStart(j, i, a, v)
        \/ \E j \in 1..MaxJoins : JoinScan(j) \/ JoinAdd(j) \/ JoinAddLost(j) \/ JoinLoseLeader(j) \/ JoinReturn(j)
        \/ \E i \in OpIds : Remove(i)
        \/ \E i \in OpIds, a \in OpAddrs, hl \in BOOLEAN, cb \in BOOLEAN : Notify(i, a, hl, cb)
        \/ \E i \in Id : Stop(i) \/ Start(i) \/ Reap(i)
        \/ Tick
Spec == Init /\ [][Next]_vars

(* ------------------------------------------------------------------ properties *)
InvUniqueIds == UniqueIds(config)
InvUniqueAddrs == UniqueAddrs(config)
(* a join that returned success gave the node the role it asked for (undisturbed requests; a  *)
(* concurrent request for the same id can legitimately win)                                   *)
RoleAsRequested == \A j \in 1..MaxJoins :
  (joins[j].pc = "done" /\ joins[j].res = "ok" /\ joins[j].clean) =>
     Srv(joins[j].id, joins[j].addr, Want(joins[j].voter)) \in config
(* a well-formed join is not turned down by Raft's duplicate check: whatever stands in its way is replaced *)
JoinTakesEffect == \A j \in 1..MaxJoins :
  (joins[j].pc = "done" /\ joins[j].res = "refused" /\ joins[j].clean) => joins[j].why = "no-voter"
(* the step-by-step join and the closed form used by the trace specification agree *)
StepsMatchClosedForm == \A j \in 1..MaxJoins :
  (joins[j].pc = "done" /\ joins[j].clean) =>
     IF joins[j].res = "notleader" THEN config \in JoinPartials(joins[j].pre, joins[j].id, joins[j].addr, joins[j].voter)
     ELSE <<joins[j].res, joins[j].why, config>> \in JoinOutcomes(joins[j].pre, joins[j].id, joins[j].addr, joins[j].voter)
BootstrapAtMostOnce == bootCalls <= 1
ReapOnlyAfterRoleTimeout == ~reaped

(* ids / addresses other than the bootstrap node's are interchangeable (model-checking configurations only) *)
Sym == Permutations(Id \ {Self}) \cup Permutations(Addr \ {SelfAddr})

(* ------------------------------------------------------------------ generator *)
Quiet == \A j \in 1..MaxJoins : joins[j].pc = "idle"
GenEmit == (GenLen > 0 /\ Len(hist) = GenLen /\ Quiet) => PrintT(<<"@@", ToJson([ops |-> hist, final |-> config])>>)
=============================================================================
