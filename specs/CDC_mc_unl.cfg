\* thorough: 2 nodes, 3 entries, leadership signals and outages unlimited, no restart
SPECIFICATION Spec
CONSTANTS
  Node = {n1, n2}
  MaxIdx = 3
  Multi = {2}
  BatchSz = 2
  InCap = 0
  AsyncHWM = FALSE
  SigCap = 2
  MaxFlips = 99
  MaxLeaders = 1
  MaxRestarts = 0
  MaxSnaps = 0
  MaxDowns = 99
  OneGroupPerEntry = TRUE
  LabelEveryGroup = TRUE
  KeyByHighest = TRUE
  SyncFlushBeforeSnapshot = TRUE
  DrainInBeforeSync = TRUE
  HWMAfterSendOK = TRUE
  PruneToHWMOnly = TRUE
  RewindCursor = TRUE
  ParkedKeptUntilSent = TRUE
  RestartHWMBelowLowest = TRUE
  DropReapplied = TRUE
SYMMETRY Sym
INVARIANTS TypeOK Labelled NoSkip TenureOrder TakenStored KeysBounded LoopShape
