SPECIFICATION Spec
CONSTANTS
  MaxWals = 2
  MaxChunk = 12
  CheckSizes = TRUE
  CRCOnInstall = TRUE
  CRCOnRestore = TRUE
  RejectTrailing = FALSE
  ValidateFiles = TRUE
  CompressionTransparent = TRUE
  ZeroCRCCompared = TRUE
INVARIANTS RestoreAcceptedIsSource
