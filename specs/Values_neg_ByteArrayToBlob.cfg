SPECIFICATION Spec
CONSTANTS
  Int64Exact = TRUE
  HexLiteralToBlob = TRUE
  ByteArrayToBlob = FALSE
  BlobStaysBlob = TRUE
  TextStaysText = TRUE
INVARIANTS TypeFaithful
