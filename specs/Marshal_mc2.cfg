SPECIFICATION Spec
CONSTANTS
  BatchThreshold = TRUE
  SizeThreshold = TRUE
  OnlyIfSmallerOrForced = TRUE
  DecompressOnFlag = TRUE
  CountFlagOverhead = TRUE
  ParamKinds = {"p", "badutf8"}
  InvalidKinds = {"badutf8"}
  OtherKinds = {"d", "badutf8"}
  MaxReqs = 1
INVARIANTS TypeOK RoundTrip UsefulOnly FlagTable FlagOnlyForRequests FlagMatchesBody StatsPartition EntrySmaller
