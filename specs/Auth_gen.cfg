SPECIFICATION Spec
CONSTANTS
  Users = {"a", "b", "*"}
  Pws = {"p", "q"}
  Perms = {"x", "y", "all"}
  QPerms = {"x", "y"}
  MaxLen = 2
  FreshEntry = TRUE
  LastWins = TRUE
  AllUsersFirst = TRUE
  NeedUsername = TRUE
  ExactPassword = TRUE
  PermOrAll = TRUE
INVARIANT Emit
