SPECIFICATION Spec
CONSTANTS
  MaxWrites = 5
  MaxAuto = 3
  MaxBackups = 2
  Delta = {1, 2}
  GateDuringFileCopy = TRUE
  SnapshotBeforeCopy = TRUE
  DumpInOneReadTxn = TRUE
  BackupSingleStep = TRUE
  StreamEndDetected = TRUE
  AbortAfterPartial = TRUE
  EndMarkerOnlyOnSuccess = TRUE
  CopyErrorReturned = TRUE
INVARIANTS TypeOK Consistent Complete CutIsError GateReleased
