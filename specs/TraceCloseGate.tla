--------------------------- MODULE TraceCloseGate ---------------------------
(* Trace validation of store.Close against CloseGate.tla.  One "case" line per run of the real  *)
(* store: times in ticks of 10 ms since the holder took the gate, reconstructed from the gate's *)
(* own hook events (cas.begin / cas.end under its mutex, time-stamped on arrival):              *)
(*   t0 Close called | ready Close's first attempt on the gate (its snapshot-on-close is over) *)
(*   | gate Close obtained the gate | ret Close returned | ok | rel = last release of the gate  *)
(*   by somebody else after t0 and before Close got it (0 = Close never had to wait), or, for a *)
(*   failed Close, the moment the holder finally released.                                      *)
(* The property is evaluated with the SAME predicates as in the model (Prompt, MayFail), with   *)
(* the generous constants of TraceCloseGate.cfg (Eps = 1.5 s, "about ten seconds" >= 8.5 s).    *)
(* Judged is the retry loop alone: from max(release, first attempt) to the acquisition; the     *)
(* disk work of the snapshot-on-close before it and of the shutdown after it (fsyncs, seconds   *)
(* on a loaded machine) is not what the property is about.                                      *)
EXTENDS CloseGate, Json, Sequences

Trace == ndJsonDeserialize("trace.ndjson")
VARIABLES l, bad
tvars == <<vars, l, bad>>
Ev == Trace[l]
Is(e) == l <= Len(Trace) /\ Trace[l].ev = e
Step == l' = l + 1

TInit == /\ now = 0 /\ gate = "free" /\ h = [pc |-> "wait"] /\ c = [pc |-> "wait"]
         /\ l = 1 /\ bad = {} /\ TLCSet(1, 0) /\ TLCSet(2, {})
TReset == Is("reset") /\ Step /\ UNCHANGED <<vars, bad>>
TCase == /\ Is("case") /\ Step /\ UNCHANGED vars
         /\ bad' = bad \cup
              (IF Ev.ok THEN (IF Prompt(Ev.gate, Ev.rel, Ev.ready, 0) THEN {} ELSE {<<l, "ClosePrompt">>})
                        ELSE (IF MayFail(Ev.ret, Ev.rel, Ev.t0, 0) THEN {} ELSE {<<l, "FailOnlyIfOutlasts">>}))
TNext == TReset \/ TCase
TSpec == TInit /\ [][TNext]_tvars

HW == /\ TLCSet(1, Max2(l, TLCGet(1)))
      /\ TLCSet(2, IF Cardinality(bad) >= Cardinality(TLCGet(2)) THEN bad ELSE TLCGet(2))
Accepted == /\ \A b \in TLCGet(2) : PrintT(<<"@@BAD", b[1], b[2]>>)
            /\ IF TLCGet(1) >= Len(Trace) + 1 THEN TRUE ELSE PrintT(<<"@@HW", TLCGet(1) - 1>>) /\ FALSE
            /\ TLCGet(2) = {}
=============================================================================
