------------------------------- MODULE RqRead -------------------------------
(* The decisions of rqlite's linearizable-read protocol (store/store.go                       *)
(* waitForLinearizableRead), shared by the design model Cluster.tla and the trace              *)
(* specification TraceCluster.tla, so that both judge the same rule.                           *)
EXTENDS Naturals
CONSTANTS UpgradeStrong,    \* first linearizable read in a term is upgraded to a strong read
          VerifyQuorum,     \* leadership confirmed with a quorum after the read index is taken
          RecheckTerm       \* term compared with the term at invocation after the verification

(* after `currReadTerm != strongReadTerm` and `State() != Leader` *)
LrCheck(rterm, srtv, isLeader) ==
  IF UpgradeStrong /\ rterm # srtv THEN "upgrade" ELSE IF ~isLeader THEN "abort" ELSE "index"
(* after VerifyLeader: `CurrentTerm() != currReadTerm` *)
LrTermOK(rterm, cur) == ~RecheckTerm \/ cur = rterm
(* fsmTarget.Subscribe(readIndex) fires *)
LrMayServe(sigv, target) == sigv >= target
=============================================================================
