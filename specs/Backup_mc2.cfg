SPECIFICATION Spec
CONSTANTS
  MaxWrites = 4
  MaxAuto = 2
  MaxBackups = 2
  Delta = {1, 2}
  GateDuringFileCopy = TRUE
  SnapshotBeforeCopy = TRUE
  DumpInOneReadTxn = TRUE
  BackupSingleStep = TRUE
  StreamEndDetected = TRUE
  AbortAfterPartial = TRUE
  EndMarkerOnlyOnSuccess = TRUE
  CopyErrorReturned = TRUE
  DumpRowErrorsReturned = TRUE
INVARIANTS TypeOK Consistent Complete CutIsError GateReleased
