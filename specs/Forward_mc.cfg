SPECIFICATION Spec
CONSTANTS
  Node = {n1, n2, n3}
  Cred = {"anonymous", "good", "bad"}
  Allowed = {"good", "anonymous"}
  MaxMoves = 2
  MaxReq = 2
  LocalOnlyIfLeader = TRUE
  ForwardWithCreds = TRUE
  RedirectWhenAsked = TRUE
  ReturnLeaderIndex = TRUE
INVARIANTS AtMostOnce CallerCreds Transparent RedirectOnly
PROPERTIES OnlyLeaderExec
