SPECIFICATION Spec
CONSTANTS
  Writers = {w1, w2, w3}
  MaxWrites = 4
  MaxSize = 2
  BatchSize = 2
  HasTimeout = TRUE
  MaxFlush = 1
  SeqUnderLock = TRUE
  BatchOnSize = TRUE
  BatchSeqIsMax = FALSE
INVARIANTS SeqIncreasing
