----------------------------- MODULE TraceChunk -----------------------------
(* Observations of the real Chunker/Dechunker judged by Chunk.tla: each line is one case       *)
(* (n, s, reader variant, tamper) with the chunk sequence the real sender produced, the         *)
(* sequence delivered to the real receiver, and what the receiver did.  The sender's sequence    *)
(* must satisfy SenderOKOn; the receiver's outcome must equal the spec receiver run on the      *)
(* delivered sequence; a completed transfer must have reproduced the bytes.                      *)
EXTENDS Chunk, Integers

Trace == ndJsonDeserialize("trace.ndjson")
VARIABLE l
tvars == <<vars, l>>
Ev == Trace[l]
Max2(a, b) == IF a > b THEN a ELSE b
TInit == c = [n |-> 0, s |-> 1, rd |-> "sep", tamper |-> "none", at |-> 1] /\ l = 1 /\ TLCSet(1, 0)
Want == Recv(Ev.deliver, 1, [sid |-> "", seq |-> 0, got |-> 0, done |-> FALSE, rej |-> 0, foreign |-> FALSE])
TCase == /\ l <= Len(Trace) /\ l' = l + 1 /\ c' = Ev.c
         /\ SenderOKOn(Ev.chunks, Ev.c.n, Ev.c.s)
         /\ Ev.rej = Want.rej /\ Ev.done = Want.done /\ Ev.got = Want.got /\ ~Want.foreign
         /\ (Ev.done => Ev.got = Ev.c.n /\ Ev.contentok)
         /\ (Ev.c.tamper = "none" /\ Ev.c.n > 0 => Ev.done /\ Ev.rej = 0)
TSpec == TInit /\ [][TCase]_tvars
HW == TLCSet(1, Max2(l, TLCGet(1)))
Accepted == IF TLCGet(1) >= Len(Trace) + 1 THEN TRUE
            ELSE PrintT(<<"@@HW", TLCGet(1) - 1>>) /\ FALSE
=============================================================================
