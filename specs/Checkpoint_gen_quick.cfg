SPECIFICATION GenSpec
CONSTANTS
  NPages = 2
  Readers = {1, 2}
  MaxWrites = 2
  MaxCkpt = 3
  ReaderPoints = {"idle"}
  CanonicalPages = FALSE
  DisarmOnTruncate = TRUE
  ArmOnAllMoved = TRUE
  ResumeFromArmed = TRUE
  ResetBySalt = TRUE
  CancelOnError = TRUE
  BusyKeepsState = TRUE
VIEW GenView
CONSTRAINT Emit
