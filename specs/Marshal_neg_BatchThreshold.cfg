SPECIFICATION Spec
CONSTANTS
  BatchThreshold = FALSE
  SizeThreshold = TRUE
  OnlyIfSmallerOrForced = TRUE
  DecompressOnFlag = TRUE
  CountFlagOverhead = FALSE
  ParamKinds = {"p", "badutf8"}
  InvalidKinds = {"badutf8"}
  OtherKinds = {"d", "badutf8"}
  MaxReqs = 1
INVARIANTS FlagTable
