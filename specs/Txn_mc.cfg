SPECIFICATION Spec
CONSTANTS
  MaxLen = 4
  TxAllOrNothing = TRUE
  StopAtFirstFailure = TRUE
  PrepareFailureAborts = TRUE
  RollbackOnError = TRUE
  ResultPerStatement = TRUE
INVARIANTS AllOrNothing ResultsMatch RoeClean NoTxLeftOpen
