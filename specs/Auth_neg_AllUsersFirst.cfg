SPECIFICATION Spec
CONSTANTS
  Users = {"a", "b", "*"}
  Pws = {"p", "q"}
  Perms = {"x", "all"}
  QPerms = {"x", "y"}
  MaxLen = 2
  FreshEntry = TRUE
  LastWins = TRUE
  AllUsersFirst = FALSE
  NeedUsername = TRUE
  ExactPassword = TRUE
  PermOrAll = TRUE
INVARIANT RuleHolds
