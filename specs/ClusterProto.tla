----------------------------- MODULE ClusterProto -----------------------------
(* C35: arbitrary bytes on the inter-node port cannot crash a node, make it allocate     *)
(* memory the client did not send, or change its state without passing the permission    *)
(* checks.  The port is a byte-multiplexed TCP listener (tcp/mux.go: first byte selects   *)
(* raft / cluster service, anything else is closed); the cluster service                  *)
(* (cluster/service.go handleConn) reads frames: 8-byte little-endian length, then that   *)
(* many bytes of a protobuf Command{type, oneof request, credentials}.                     *)
(*                                                                                        *)
(* A connection = mux byte class + at most MaxFrames frames; a frame = length class x       *)
(* payload class:                                                                          *)
(*   length  0 | lt (declares less than is sent: the rest is read as the next frame)       *)
(*           | eq | gt (declares more than is sent, then EOF) | 2^31 | 2^62 | 2^64-1       *)
(*   payload garbage (cannot be unmarshalled) | nil(t) command of type t without its       *)
(*           sub-request | bad(t) well-formed request, wrong password | good(t)             *)
(* Switches (TRUE = the design, Appendix D): BoundedRead (the declared length is not       *)
(* trusted for allocation: memory follows bytes received, impossible lengths are refused), *)
(* NilRequestChecked, UnknownHeaderClosed, AuthBeforeEffect.                               *)
EXTENDS Naturals, Sequences, FiniteSets, TLC, Json

CONSTANTS BoundedRead, NilRequestChecked, UnknownHeaderClosed, AuthBeforeEffect, MaxFrames, Muxes

Types == {"UNKNOWN", "GET_NODE_META", "EXECUTE", "QUERY", "BACKUP", "LOAD", "REMOVE_NODE", "NOTIFY", "JOIN",
          "REQUEST", "LOAD_CHUNK", "BACKUP_STREAM", "STEPDOWN", "HIGHWATER_MARK_UPDATE", "OUTOFRANGE"}
Responds(t)     == t \notin {"UNKNOWN", "OUTOFRANGE"}                       \* no case in the switch: ignored
NeedsReq(t)     == t \notin {"UNKNOWN", "OUTOFRANGE", "GET_NODE_META", "LOAD_CHUNK"}
Permissioned(t) == t \in {"EXECUTE", "QUERY", "REQUEST", "BACKUP", "BACKUP_STREAM", "LOAD", "REMOVE_NODE", "NOTIFY", "JOIN", "STEPDOWN"}
Effect(t)       == t \in {"EXECUTE", "REQUEST", "LOAD", "REMOVE_NODE", "JOIN", "STEPDOWN", "BACKUP", "BACKUP_STREAM"}  \* a backup may snapshot

Lens   == {"0", "lt", "eq", "gt", "2^31", "2^62", "2^64-1"}
Pays   == {[k |-> "garbage", t |-> "-"]} \cup {[k |-> k, t |-> t] : k \in {"nil", "bad", "good"}, t \in Types}
Frames == {[len |-> l, pay |-> p] : l \in Lens \ {"0"}, p \in Pays} \cup {[len |-> "0", pay |-> [k |-> "garbage", t |-> "-"]]}
          \* length 0: nothing is sent after the prefix, the payload class is immaterial

(* memory in MiB; what the client sends is far below 1 MiB in every case *)
SentMiB == 0
C == 4
K == 64
AllocMiB(l) == IF l = "2^31" THEN 2048 ELSE 0            \* 2^62 and 2^64-1 cannot be allocated at all
Impossible(l) == l \in {"2^62", "2^64-1"}

(* expected response of one frame under the design, as a pure function (what the generator emits) *)
Normal(t) == IF ~Responds(t) THEN "ignored" ELSE IF t = "BACKUP_STREAM" THEN "stream" ELSE "served"
ExpFrame(f) ==
  CASE f.len = "0"  -> "ignored"
    [] f.len = "lt" -> "any"
    [] f.len \in {"gt", "2^31", "2^62", "2^64-1"} -> "closed"
    [] OTHER ->
       CASE f.pay.k = "garbage" -> "closed"
         [] f.pay.k = "nil"  -> IF NeedsReq(f.pay.t) THEN "nilerr" ELSE Normal(f.pay.t)
         [] f.pay.k = "bad"  -> IF Permissioned(f.pay.t) THEN "unauth" ELSE Normal(f.pay.t)
         [] OTHER -> Normal(f.pay.t)
Continues(x) == x \in {"ignored", "served", "stream", "nilerr", "unauth"}    \* the connection stays open for the next frame

VARIABLES mux, frames, i, open, alive, memMiB, changedUnauth, changedAuth, servedMalformed, resp, pc
vars == <<mux, frames, i, open, alive, memMiB, changedUnauth, changedAuth, servedMalformed, resp, pc>>

Init == /\ mux \in Muxes
        /\ \E n \in 1..MaxFrames : frames \in [1..n -> Frames]
        /\ (mux # "cluster" => Len(frames) = 1)            \* decided by the header byte alone
        \* a second frame is only interesting when the first leaves the connection open
        /\ \A j \in 1..(Len(frames) - 1) : Continues(ExpFrame(frames[j]))
        /\ i = 1 /\ open = TRUE /\ alive = TRUE /\ memMiB = 0 /\ changedUnauth = FALSE /\ changedAuth = FALSE
        /\ servedMalformed = FALSE /\ resp = <<>> /\ pc = "mux"

(* tcp/mux.go handleConn: one header byte selects the listener *)
Dispatch ==
  /\ pc = "mux"
  /\ CASE mux = "cluster" -> pc' = "frame" /\ open' = open
       [] mux = "raft"    -> pc' = "done" /\ open' = FALSE          \* not a raft RPC: the raft transport closes
       [] OTHER           -> IF UnknownHeaderClosed THEN pc' = "done" /\ open' = FALSE
                             ELSE pc' = "frame" /\ open' = open      \* falls through to the cluster service
  /\ UNCHANGED <<mux, frames, i, alive, memMiB, changedUnauth, changedAuth, servedMalformed, resp>>

Close == pc' = "done" /\ open' = FALSE
Respond(x) == resp' = Append(resp, x)

(* allocation for a declared length l *)
Alloc(l) == IF BoundedRead THEN memMiB' = memMiB        \* follows bytes received (tiny)
            ELSE memMiB' = memMiB + AllocMiB(l)

(* read the length prefix and the payload *)
ReadBad ==   \* lengths that never complete
  /\ pc = "frame" /\ open /\ alive /\ i <= Len(frames)
  /\ LET f == frames[i] IN
     /\ f.len \in {"gt", "2^31", "2^62", "2^64-1"}
     /\ IF Impossible(f.len) /\ ~BoundedRead
        THEN alive' = FALSE /\ memMiB' = memMiB /\ pc' = "done" /\ open' = FALSE      \* makeslice: len out of range
        ELSE alive' = alive /\ Alloc(f.len) /\ Close                                 \* EOF before the payload is complete
  /\ UNCHANGED <<mux, frames, i, changedUnauth, changedAuth, servedMalformed, resp>>

ReadShort ==  \* declared length shorter than what follows: the remainder is parsed as a further frame
  /\ pc = "frame" /\ open /\ alive /\ i <= Len(frames) /\ frames[i].len = "lt"
  /\ \E l \in {"gt", "2^31", "2^62"} :                     \* the phantom length the leftover bytes spell
       IF Impossible(l) /\ ~BoundedRead
       THEN alive' = FALSE /\ memMiB' = memMiB /\ pc' = "done" /\ open' = FALSE
       ELSE alive' = alive /\ Alloc(l) /\ Close
  /\ UNCHANGED <<mux, frames, i, changedUnauth, changedAuth, servedMalformed, resp>>

Advance == /\ i' = i + 1
            /\ IF i + 1 > Len(frames) THEN Close ELSE pc' = pc /\ open' = open     \* client half-closes after its last frame

Process ==
  /\ pc = "frame" /\ open /\ alive /\ i <= Len(frames)
  /\ LET f == frames[i]  t == f.pay.t  k == f.pay.k IN
     /\ f.len \in {"0", "eq"}
     /\ memMiB' = memMiB
     /\ CASE f.len = "0" \/ (k \in {"nil", "bad", "good"} /\ ~Responds(t)) ->      \* empty / unknown command: no case, ignored
               /\ Advance /\ UNCHANGED <<alive, changedUnauth, changedAuth, resp>>
               /\ servedMalformed' = servedMalformed
          [] k = "garbage" ->
               /\ Close /\ UNCHANGED <<i, alive, changedUnauth, changedAuth, resp, servedMalformed>>
          [] k = "nil" /\ NeedsReq(t) ->
               IF NilRequestChecked
               THEN /\ Respond("nilerr") /\ Advance /\ UNCHANGED <<alive, changedUnauth, changedAuth, servedMalformed>>
               ELSE /\ alive' = FALSE /\ pc' = "done" /\ open' = FALSE               \* nil dereference in the handler goroutine
                    /\ UNCHANGED <<i, changedUnauth, changedAuth, resp, servedMalformed>>
          [] k = "bad" /\ Permissioned(t) ->
               IF AuthBeforeEffect
               THEN /\ Respond("unauth") /\ Advance /\ UNCHANGED <<alive, changedUnauth, changedAuth, servedMalformed>>
               ELSE /\ Respond(Normal(t)) /\ Advance /\ changedUnauth' = (changedUnauth \/ Effect(t))
                    /\ UNCHANGED <<alive, changedAuth, servedMalformed>>
          [] OTHER ->      \* good(t), or nil / bad of a type that needs no request / permission
               /\ Respond(Normal(t)) /\ Advance
               /\ changedAuth' = (changedAuth \/ (k = "good" /\ Effect(t)))
               /\ servedMalformed' = (servedMalformed \/ mux # "cluster")
               /\ UNCHANGED <<alive, changedUnauth>>
  /\ UNCHANGED <<mux, frames>>

Next == Dispatch \/ ReadBad \/ ReadShort \/ Process
Spec == Init /\ [][Next]_vars

(* ---- the property ---- *)
Alive        == alive
MemBounded   == memMiB <= C * SentMiB + K
StateChangeAuthorized == ~changedUnauth
MalformedRejected     == ~servedMalformed            \* a connection with a wrong header byte is never served
(* the state machine answers as the generator's pure function says (frames up to the first that closes) *)
RECURSIVE ExpResp(_, _)
ExpResp(fs, j) == IF j > Len(fs) THEN <<>>
                  ELSE LET x == ExpFrame(fs[j]) IN
                       IF x \in {"closed", "any"} THEN <<>>
                       ELSE (IF x = "ignored" THEN <<>> ELSE <<x>>) \o ExpResp(fs, j + 1)
RespAsExpected == (pc = "done" /\ mux = "cluster" /\ alive) => resp = ExpResp(frames, 1)

(* ---- generator ---- *)
MayChange(fs) == \E j \in 1..Len(fs) : fs[j].len = "eq" /\ fs[j].pay.k = "good" /\ Effect(fs[j].pay.t)
Emit == pc = "mux" => PrintT(<<"@@", ToJson([mux |-> mux, frames |-> frames,
                                              exp |-> [j \in 1..Len(frames) |-> ExpFrame(frames[j])],
                                              maychange |-> (mux = "cluster" /\ MayChange(frames))])>>)
GenStop == pc = "mux"
=============================================================================
