------------------------------ MODULE Transfer ------------------------------
(* C10: a snapshot streamed from one node's store and written into another node's store.        *)
(*                                                                                                *)
(* Framing, transcribed from snapshot/streamer.go (SnapshotStreamer.Open):                        *)
(*     4-byte big-endian length  ||  protobuf SnapshotHeader{format_version,                      *)
(*         full{db_header{size_bytes,crc32}, wal_headers[{size_bytes,crc32}]}}                    *)
(*     ||  database file  ||  WAL files in order                                                  *)
(* The stream is abstracted to CELLS: one L cell (the length prefix, value = declared header      *)
(* length in cells), one H cell (the marshalled header, carrying the header record), and FC = 3   *)
(* data cells per file: first byte / interior / last byte, so that "inside" and "at a boundary"   *)
(* are different positions.  The harness concretises a cell to every byte offset of its range.    *)
(*                                                                                                *)
(* One optional mutation: flip / drop / insert / truncate at a cell (insert also at the end =     *)
(* trailing data), or a structural header edit that re-marshals a header which no longer matches  *)
(* the data (sizes, CRCs, dropped / added / swapped WAL entries, missing database entry, other    *)
(* payload kinds).  Optional transport wrapper (store/transport.go: zstd Compressor on the sender, *)
(* raft's io.LimitReader(conn, req.Size) and the Decompressor on the receiver).                   *)
(* COMPOUND mutations (added after a seeded change slipped through, see notes/C10.md): a          *)
(* header-field edit of ONE file's entry TOGETHER WITH an alteration of that file's payload -     *)
(* "checksum cleared / its tag bit flipped" x "payload byte altered", and "size field -1 / +1" x  *)
(* "payload one byte shorter / longer": see Compounds.                                            *)
(*                                                                                                *)
(* Acceptors, transcribed from the code:                                                          *)
(*   Sink   snapshot/sink.go Sink.Write (buffer until the header is complete, processHeader,      *)
(*          then FullSink) + snapshot/sink_full.go FullSink.Write/advance/Close; the writer is    *)
(*          raft's installSnapshot: io.Copy into the sink, Cancel on any write or read error,     *)
(*          else Close.  Every split of the stream into writes is a path of WriteChunk steps.     *)
(*   Restore snapshot/restore.go Restore (io.ReadFull / io.CopyN: insensitive to read sizes).     *)
(*                                                                                                *)
(* Mechanisms (TRUE = the design):                                                                *)
(*   CheckSizes      FullSink counts bytes: more than declared = ErrUnexpectedData, fewer at       *)
(*                   Close = ErrIncomplete                                                        *)
(*   CRCOnInstall    FullSink.Close compares the inline CRC32 of every file with the header       *)
(*   CRCOnRestore    Restore compares the inline CRC32 of every file with the header              *)
(*   RejectTrailing  Restore requires end-of-stream after the declared payload                    *)
(*   ValidateFiles   IsValidSQLiteFile / IsValidSQLiteWALFile on what was received                *)
(*   ZeroCRCCompared a header checksum that decodes as ZERO (proto3: field absent - cleared, or    *)
(*                   its tag byte flipped into an unknown field) is compared like any other value  *)
(*                   (FALSE: "no checksum recorded" is taken to mean "nothing to compare")         *)
(*   CompressionTransparent  what the receiver's decompressor delivers is exactly what the        *)
(*                   sender's compressor read, whatever the data (FALSE: the wire form of         *)
(*                   incompressible data is longer than req.Size and is cut by raft's LimitReader) *)
EXTENDS Integers, Sequences, FiniteSets, TLC, Json

CONSTANTS MaxWals, MaxChunk,
          CheckSizes, CRCOnInstall, CRCOnRestore, RejectTrailing, ValidateFiles, CompressionTransparent,
          ZeroCRCCompared

FC == 3
Where(j) == IF j = 1 THEN "first" ELSE IF j = FC THEN "last" ELSE "mid"

NoHdr == [kind |-> "nohdr", db |-> <<>>, wals |-> <<>>]
DCell(f, j) == [k |-> "D", v |-> <<f, j, 0>>, h |-> NoHdr]
BadCell(f, j) == [k |-> "D", v |-> <<f, j, 1>>, h |-> NoHdr]       \* a flipped data byte
XCell == [k |-> "X", v |-> <<0 - 1, 0 - 1, 0>>, h |-> NoHdr]       \* an inserted foreign byte
LCell(n) == [k |-> "L", v |-> <<n>>, h |-> NoHdr]
HCell(h) == [k |-> "H", v |-> <<>>, h |-> h]
Garbage == [kind |-> "garbage", db |-> <<>>, wals |-> <<>>]
Huge == 99

(* ---- the source ---- *)
SrcFile(f) == [j \in 1..FC |-> DCell(f, j)]
SrcFiles(nw) == [f \in 1..(nw + 1) |-> SrcFile(f - 1)]                \* <<db, wal1, .., walnw>>
Crc(cells) == cells                                                   \* ideal checksum: equal iff identical
SrcHeader(nw) == [kind |-> "full", db |-> <<[size |-> FC, crc |-> Crc(SrcFile(0))]>>,
                  wals |-> [i \in 1..nw |-> [size |-> FC, crc |-> Crc(SrcFile(i))]]]
RECURSIVE Flat(_)
Flat(fs) == IF fs = <<>> THEN <<>> ELSE Head(fs) \o Flat(Tail(fs))
SrcStream(nw) == <<LCell(1), HCell(SrcHeader(nw))>> \o Flat(SrcFiles(nw))
NCells(nw) == 2 + FC * (nw + 1)

(* ---- mutations ---- *)
(* a mutation names a cell by (sec, file, where); CellIx gives its index in the source stream *)
CellIx(m) == CASE m.sec = "len" -> 1
               [] m.sec = "hdr" -> 2
               [] m.sec = "end" -> 0                                   \* resolved against nw below
               [] OTHER -> 2 + FC * m.file + (IF m.where = "first" THEN 1 ELSE IF m.where = "mid" THEN 2 ELSE FC)
CellDesc(nw) ==  \* (sec, file, where) of every cell of the source stream, in order
  <<[sec |-> "len", file |-> 0, where |-> "-"], [sec |-> "hdr", file |-> 0, where |-> "-"]>> \o
  [i \in 1..(FC * (nw + 1)) |-> [sec |-> (IF (i - 1) \div FC = 0 THEN "db" ELSE "wal"), file |-> (i - 1) \div FC,
                                  where |-> Where(((i - 1) % FC) + 1)]]
M(kind, d, edit) == [kind |-> kind, sec |-> d.sec, file |-> d.file, where |-> d.where, edit |-> edit]
EndDesc == [sec |-> "end", file |-> 0, where |-> "-"]
NoneDesc == [sec |-> "-", file |-> 0, where |-> "-"]
HdrEdits(nw) ==
  {M("hdr", NoneDesc, e) : e \in {"db-size-dec", "db-size-inc", "db-crc", "wal-add-empty", "db-nil", "payload-none", "payload-inc"}}
  \cup {M("hdr", NoneDesc, "db-crc-zero")}
  \cup {M("hdr", [NoneDesc EXCEPT !.file = i], e) : i \in 1..nw, e \in {"wal-size-dec", "wal-size-inc", "wal-crc", "wal-crc-zero"}}
  \cup (IF nw >= 1 THEN {M("hdr", NoneDesc, "wal-drop-last")} ELSE {})
  \cup (IF nw >= 2 THEN {M("hdr", NoneDesc, "wal-drop-first"), M("hdr", NoneDesc, "wal-swap")} ELSE {})
(* compound: the header entry of file f is edited AND the payload of file f is altered.           *)
(*   crc-zero+flip      checksum field cleared (re-marshalled without it) + a payload byte altered *)
(*   crc-tagflip+flip   one bit of the checksum's TAG byte flipped (unknown field => decodes as 0) *)
(*                      + a payload byte altered - two single-bit errors                           *)
(*   size-dec+drop      size field - 1 and the file's last byte dropped (consistent truncation)    *)
(*   size-inc+insert    size field + 1 and a byte inserted after the file's last (extension)       *)
Compounds(nw) ==
  LET D == CellDesc(nw) IN
  {M("compound", D[i], e) : i \in 3..NCells(nw), e \in {"crc-zero+flip", "crc-tagflip+flip"}}
  \cup {M("compound", D[2 + FC * (f + 1)], e) : f \in 0..nw, e \in {"size-dec+drop", "size-inc+insert"}}
Mutations(nw) ==
  LET D == CellDesc(nw) IN
  {M("none", NoneDesc, "-")}
  \cup {M("flip", D[1], e) : e \in {"bit", "zero", "less", "more", "huge"}}
  \cup {M("flip", D[i], "-") : i \in 2..NCells(nw)}
  \cup {M("drop", D[i], "-") : i \in 1..NCells(nw)}
  \cup {M("insert", D[i], "-") : i \in 1..NCells(nw)} \cup {M("insert", EndDesc, "-")}
  \cup {M("truncate", D[i], "-") : i \in 1..NCells(nw)}
  \cup HdrEdits(nw)
  \cup Compounds(nw)

ZeroCrc == <<>>          \* what an absent / cleared checksum decodes to (= the checksum of no bytes)
EditHeader(h, m) ==
  LET i == m.file
      dbh == h.db[1] IN
  CASE m.edit = "db-size-dec" -> [h EXCEPT !.db = <<[dbh EXCEPT !.size = @ - 1]>>]
    [] m.edit = "db-size-inc" -> [h EXCEPT !.db = <<[dbh EXCEPT !.size = @ + 1]>>]
    [] m.edit = "db-crc" -> [h EXCEPT !.db = <<[dbh EXCEPT !.crc = <<BadCell(0, 1)>>]>>]
    [] m.edit = "db-crc-zero" -> [h EXCEPT !.db = <<[dbh EXCEPT !.crc = ZeroCrc]>>]
    [] m.edit = "wal-crc-zero" -> [h EXCEPT !.wals[i].crc = ZeroCrc]
    [] m.edit = "wal-size-dec" -> [h EXCEPT !.wals[i].size = @ - 1]
    [] m.edit = "wal-size-inc" -> [h EXCEPT !.wals[i].size = @ + 1]
    [] m.edit = "wal-crc" -> [h EXCEPT !.wals[i].crc = <<BadCell(i, 1)>>]
    [] m.edit = "wal-drop-last" -> [h EXCEPT !.wals = SubSeq(@, 1, Len(@) - 1)]
    [] m.edit = "wal-drop-first" -> [h EXCEPT !.wals = Tail(@)]
    [] m.edit = "wal-add-empty" -> [h EXCEPT !.wals = Append(@, [size |-> 0, crc |-> <<>>])]
    [] m.edit = "wal-swap" -> [h EXCEPT !.wals = <<@[2], @[1]>>]
    [] m.edit = "db-nil" -> [h EXCEPT !.db = <<>>]
    [] m.edit = "payload-none" -> [h EXCEPT !.kind = "none"]
    [] m.edit = "payload-inc" -> [h EXCEPT !.kind = "inc"]

Mutate(nw, m) ==
  LET s == SrcStream(nw)
      n == Len(s)
      i == IF m.sec = "end" THEN n + 1 ELSE CellIx(m) IN
  CASE m.kind = "none" -> s
    [] m.kind = "flip" ->
         [s EXCEPT ![i] = CASE m.sec = "len" -> LCell(CASE m.edit = "zero" -> 0 [] m.edit = "less" -> 0
                                                        [] m.edit = "more" -> 2 [] OTHER -> Huge)
                            [] m.sec = "hdr" -> HCell(Garbage)
                            [] OTHER -> BadCell(m.file, s[i].v[2])]
    [] m.kind = "drop" -> SubSeq(s, 1, i - 1) \o SubSeq(s, i + 1, n)
    [] m.kind = "insert" -> SubSeq(s, 1, i - 1) \o <<XCell>> \o SubSeq(s, i, n)
    [] m.kind = "truncate" -> SubSeq(s, 1, i - 1)
    [] m.kind = "hdr" -> [s EXCEPT ![2] = HCell(EditHeader(s[2].h, m))]
    [] m.kind = "compound" ->
         LET f == m.file
             h0 == s[2].h
             zeroed == IF f = 0 THEN [h0 EXCEPT !.db = <<[h0.db[1] EXCEPT !.crc = ZeroCrc]>>]
                       ELSE [h0 EXCEPT !.wals[f].crc = ZeroCrc]
             shorter == IF f = 0 THEN [h0 EXCEPT !.db = <<[h0.db[1] EXCEPT !.size = @ - 1]>>]
                        ELSE [h0 EXCEPT !.wals[f].size = @ - 1]
             longer == IF f = 0 THEN [h0 EXCEPT !.db = <<[h0.db[1] EXCEPT !.size = @ + 1]>>]
                       ELSE [h0 EXCEPT !.wals[f].size = @ + 1]
             last == 2 + FC * (f + 1) IN                    \* index of the last cell of file f
         CASE m.edit \in {"crc-zero+flip", "crc-tagflip+flip"} ->
                [s EXCEPT ![2] = HCell(zeroed), ![i] = BadCell(f, s[i].v[2])]
           [] m.edit = "size-dec+drop" ->
                LET t == [s EXCEPT ![2] = HCell(shorter)] IN SubSeq(t, 1, last - 1) \o SubSeq(t, last + 1, n)
           [] m.edit = "size-inc+insert" ->
                LET t == [s EXCEPT ![2] = HCell(longer)] IN SubSeq(t, 1, last) \o <<XCell>> \o SubSeq(t, last + 1, n)

(* ---- transport wrapper ---- *)
Comps == {"none", "zstd", "zstd-grows"}
Delivered(s, comp) ==
  IF comp = "zstd-grows" /\ ~CompressionTransparent
  THEN [cells |-> SubSeq(s, 1, Len(s) - 1), err |-> TRUE]      \* wire form cut at req.Size: the decoder ends in an error
  ELSE [cells |-> s, err |-> FALSE]

Cases == UNION {{[nw |-> nw, mut |-> m, comp |-> cp] : m \in Mutations(nw), cp \in {"none", "zstd"}} : nw \in 0..MaxWals}
         \cup {[nw |-> 0, mut |-> M("none", NoneDesc, "-"), comp |-> "zstd-grows"]}
Mutated(c) == c.mut.kind # "none"
Input(c) == Delivered(Mutate(c.nw, c.mut), c.comp)

(* ---- header parsing common to both acceptors ---- *)
LenOf(cell) == IF cell.k = "L" THEN cell.v[1] ELSE Huge             \* anything else read as a length is garbage
(* result of looking for a complete header in a buffer of cells: "wait" | "bad" | "ok" *)
FindHeader(buf) ==
  IF Len(buf) < 1 THEN [r |-> "wait", h |-> NoHdr, rest |-> <<>>]
  ELSE LET n == LenOf(buf[1]) IN
       IF Len(buf) < 1 + n THEN [r |-> "wait", h |-> NoHdr, rest |-> <<>>]
       ELSE IF n = 1 /\ buf[2].k = "H" /\ buf[2].h.kind # "garbage"
            THEN [r |-> "ok", h |-> buf[2].h, rest |-> SubSeq(buf, 3, Len(buf))]
            ELSE [r |-> "bad", h |-> NoHdr, rest |-> <<>>]              \* unmarshal error / empty header
ValidFile(cells, isDb) ==
  /\ Len(cells) > 0
  /\ cells[1].k = "D" /\ cells[1].v[2] = 1 /\ cells[1].v[3] = 0 /\ (isDb <=> cells[1].v[1] = 0)

(* comparison of a computed checksum with the header's *)
CrcOK(got, want) == IF ~ZeroCRCCompared /\ want = ZeroCrc THEN TRUE ELSE got = want

(* ---- the sink ---- *)
SinkInit == [st |-> "hdr", buf |-> <<>>, h |-> NoHdr, phase |-> "db", wi |-> 0, rem |-> 0,
             cur |-> <<>>, files |-> <<>>, out |-> "-"]
Fail(sk) == [sk EXCEPT !.st = "err"]
(* FullSink.advance: the current artifact is complete *)
Advance(sk) ==
  LET done == [sk EXCEPT !.files = Append(@, sk.cur), !.cur = <<>>] IN
  IF sk.phase = "db"
  THEN IF Len(sk.h.wals) = 0 THEN [done EXCEPT !.phase = "done"]
       ELSE [done EXCEPT !.phase = "wal", !.wi = 1, !.rem = sk.h.wals[1].size]
  ELSE IF sk.wi + 1 > Len(sk.h.wals) THEN [done EXCEPT !.phase = "done"]
       ELSE [done EXCEPT !.wi = sk.wi + 1, !.rem = sk.h.wals[sk.wi + 1].size]
(* FullSink.Write, one cell at a time (the code loops over the chunk and may span artifacts) *)
RECURSIVE FullWrite(_, _)
FullWrite(sk, cells) ==
  IF cells = <<>> \/ sk.st = "err" THEN sk
  ELSE IF sk.phase = "done"
       THEN IF CheckSizes THEN Fail(sk) ELSE sk                                  \* ErrUnexpectedData
       ELSE IF sk.rem = 0 THEN FullWrite(Advance(sk), cells)                     \* zero-length artifact
       ELSE LET t == [sk EXCEPT !.cur = Append(@, Head(cells)), !.rem = @ - 1] IN
            FullWrite(IF t.rem = 0 THEN Advance(t) ELSE t, Tail(cells))
(* Sink.Write *)
SinkWrite(sk, chunk) ==
  IF sk.st = "err" THEN sk
  ELSE IF sk.st = "hdr"
  THEN LET b == sk.buf \o chunk
           f == FindHeader(b) IN
       CASE f.r = "wait" -> [sk EXCEPT !.buf = b]
         [] f.r = "bad" -> Fail(sk)
         [] OTHER ->
            CASE f.h.kind = "full" ->
                   IF f.h.db = <<>> THEN Fail(sk)                                \* ErrHeaderInvalid
                   ELSE FullWrite([sk EXCEPT !.st = "full", !.buf = <<>>, !.h = f.h, !.phase = "db",
                                              !.rem = f.h.db[1].size], f.rest)
              [] f.h.kind = "inc" -> Fail(sk)     \* receiver has no full snapshot / data follows the header
              [] OTHER -> Fail(sk)                \* unrecognized payload
  ELSE FullWrite(sk, chunk)
(* Sink.Close after all writes succeeded *)
SinkClose(sk) ==
  IF sk.st = "hdr" THEN [sk EXCEPT !.out = "nothing"]         \* header never completed: temp dir removed, nil
  ELSE LET a == IF sk.phase # "done" /\ sk.rem = 0 THEN Advance(sk) ELSE sk      \* one lazy advance
           fin == IF a.phase = "done" THEN a
                  ELSE [a EXCEPT !.files = Append(@, a.cur)] IN                  \* only reached without CheckSizes
       IF a.phase # "done" /\ CheckSizes THEN [sk EXCEPT !.out = "error"]        \* ErrIncomplete
       ELSE IF ValidateFiles /\ ~(\A i \in 1..Len(fin.files) : ValidFile(fin.files[i], i = 1))
            THEN [sk EXCEPT !.out = "error"]
       ELSE IF CRCOnInstall /\ ~(/\ Len(fin.files) = 1 + Len(fin.h.wals)
                                 /\ CrcOK(Crc(fin.files[1]), fin.h.db[1].crc)
                                 /\ \A i \in 1..Len(fin.h.wals) : CrcOK(Crc(fin.files[i + 1]), fin.h.wals[i].crc))
            THEN [sk EXCEPT !.out = "error"]
       ELSE [fin EXCEPT !.out = "installed"]
(* the whole install with one write: the reference every split must agree with *)
SinkWhole(c) ==
  LET in == Input(c)
      w == SinkWrite(SinkInit, in.cells) IN
  IF w.st = "err" \/ in.err THEN [w EXCEPT !.out = "error"] ELSE SinkClose(w)

(* ---- Restore ---- *)
(* take declared sizes in order; r = [ok, files, rest] *)
RECURSIVE TakeFiles(_, _, _)
TakeFiles(sizes, cells, acc) ==
  IF sizes = <<>> THEN [ok |-> TRUE, files |-> acc, rest |-> cells]
  ELSE IF Len(cells) < Head(sizes) THEN [ok |-> FALSE, files |-> acc, rest |-> <<>>]      \* io.CopyN: EOF
       ELSE TakeFiles(Tail(sizes), SubSeq(cells, Head(sizes) + 1, Len(cells)),
                      Append(acc, SubSeq(cells, 1, Head(sizes))))
Restore(c) ==
  LET in == Input(c)
      f == FindHeader(in.cells)
      E == [out |-> "error", files |-> <<>>] IN
  IF f.r # "ok" THEN E                                              \* short read / unmarshal error
  ELSE IF f.h.kind # "full" THEN E                                  \* "snapshot has no database"
  ELSE IF f.h.db = <<>> THEN [out |-> "panic", files |-> <<>>]      \* nil DbHeader dereferenced (as written)
  ELSE LET sizes == <<f.h.db[1].size>> \o [i \in 1..Len(f.h.wals) |-> f.h.wals[i].size]
           crcs == <<f.h.db[1].crc>> \o [i \in 1..Len(f.h.wals) |-> f.h.wals[i].crc]
           t == TakeFiles(sizes, f.rest, <<>>) IN
       IF ~t.ok THEN E
       ELSE IF CRCOnRestore /\ ~(\A i \in 1..Len(sizes) : CrcOK(Crc(t.files[i]), crcs[i])) THEN E
       ELSE IF RejectTrailing /\ (t.rest # <<>> \/ in.err) THEN E
       ELSE IF Len(f.h.wals) > 0 /\ ValidateFiles /\ ~(\A i \in 1..Len(t.files) : ValidFile(t.files[i], i = 1)) THEN E   \* db.ReplayWAL
       ELSE [out |-> "installed", files |-> t.files]

(* ---- behaviours: every split of the delivered stream into writes ---- *)
VARIABLES c, in, pos, sk        \* in = Input(c), computed once
vars == <<c, in, pos, sk>>
Init == c \in Cases /\ in = Input(c) /\ pos = 0 /\ sk = SinkInit
Running == sk.out = "-"
WriteChunk(k) ==
  /\ Running /\ sk.st # "err" /\ pos + k <= Len(in.cells)
  /\ sk' = SinkWrite(sk, SubSeq(in.cells, pos + 1, pos + k))
  /\ pos' = pos + k /\ UNCHANGED <<c, in>>
CancelOnError ==      \* io.Copy returned an error (from the sink or from the reader): raft cancels the sink
  /\ Running /\ (sk.st = "err" \/ (pos = Len(in.cells) /\ in.err))
  /\ sk' = [sk EXCEPT !.out = "error"] /\ UNCHANGED <<c, in, pos>>
CloseSink ==
  /\ Running /\ sk.st # "err" /\ pos = Len(in.cells) /\ ~in.err
  /\ sk' = SinkClose(sk) /\ UNCHANGED <<c, in, pos>>
Next == (\E k \in 1..MaxChunk : WriteChunk(k)) \/ CancelOnError \/ CloseSink
Spec == Init /\ [][Next]_vars
SpecGen == Init /\ [][UNCHANGED vars]_vars

(* ---- properties ---- *)
Finished == sk.out # "-"
SinkAcceptedIsSource == sk.out = "installed" => sk.files = SrcFiles(c.nw)
SinkMutatedRejected == Finished /\ Mutated(c) => sk.out # "installed"
SinkUnmutatedInstalls == Finished /\ ~Mutated(c) => sk.out = "installed"
SplitIndependent == Finished => sk.out = SinkWhole(c).out
(* Restore does not depend on the sink's progress: judged once per case, in the initial state *)
RestoreAcceptedIsSource == pos = 0 /\ Restore(c).out = "installed" => Restore(c).files = SrcFiles(c.nw)
RestoreMutatedRejected == pos = 0 /\ Mutated(c) => Restore(c).out # "installed"
RestoreUnmutatedInstalls == pos = 0 /\ ~Mutated(c) => Restore(c).out = "installed"
TypeOK == sk.out \in {"-", "installed", "error", "nothing"} /\ pos \in 0..(NCells(MaxWals) + 1)

Emit == PrintT(<<"@@", ToJson([nw |-> c.nw, mut |-> c.mut, comp |-> c.comp,
                               sink |-> SinkWhole(c).out, restore |-> Restore(c).out])>>)
=============================================================================
