--------------------------- MODULE TraceTransfer ---------------------------
(* Observations of the real sink / snapshot.Restore judged by Transfer.tla.  Each line is one    *)
(* class of runs of the harness: the abstract case (number of WALs, mutation, transport), the    *)
(* acceptor, whether the bytes delivered to the acceptor differed from the source stream, and    *)
(* what the real code did (installed / error / nothing / panic; whether what it installed equals *)
(* the source).  For the cases of the model the real outcome must be "installed" exactly when    *)
(* the design's acceptor installs (SinkWhole / Restore with every mechanism on); for corruption  *)
(* of the compressed wire bytes and for the runs through the real NodeTransport (not in the      *)
(* model's vocabulary) it must be "installed" exactly when the delivered bytes are the source's. *)
(* Whatever is installed must equal the source.                                                  *)
EXTENDS Transfer

Trace == ndJsonDeserialize("trace.ndjson")
VARIABLE l
tvars == <<vars, l>>
Ev == Trace[l]
Max2(a, b) == IF a > b THEN a ELSE b
NoCase == [nw |-> 0, mut |-> M("none", NoneDesc, "-"), comp |-> "none"]
TInit == c = NoCase /\ in = Input(NoCase) /\ pos = 0 /\ sk = SinkInit /\ l = 1 /\ TLCSet(1, 0) /\ TLCSet(2, 0)
CaseOf(e) == [nw |-> e.nw, mut |-> e.mut, comp |-> e.comp]
Want(e) == IF e.layer = "stream"
           THEN /\ CaseOf(e) \in Cases
                /\ (IF e.acceptor = "sink" THEN SinkWhole(CaseOf(e)).out ELSE Restore(CaseOf(e)).out) = "installed"
           ELSE ~e.changed
(* Lines are independent observations, so a line the design does not allow is FLAGGED (printed  *)
(* as @@BAD with its number) and the validation continues: one run reports every violating      *)
(* class.  The check fails unless every line is consumed and none is flagged.                   *)
Good(e) == /\ e.outcome \in {"installed", "error", "nothing", "panic"}
           /\ (e.outcome = "installed") = Want(e)
           /\ (e.outcome = "installed" => e.same \in {"yes", "logical"})
TCase == /\ l <= Len(Trace) /\ l' = l + 1 /\ UNCHANGED vars
         /\ IF Good(Ev) THEN TRUE ELSE PrintT(<<"@@BAD", l>>) /\ TLCSet(2, TLCGet(2) + 1)
TSpec == TInit /\ [][TCase]_tvars
HW == TLCSet(1, Max2(l, TLCGet(1)))
Accepted == IF TLCGet(1) >= Len(Trace) + 1 /\ TLCGet(2) = 0 THEN TRUE
            ELSE PrintT(<<"@@HW", TLCGet(1) - 1>>) /\ PrintT(<<"@@NBAD", TLCGet(2)>>) /\ FALSE
=============================================================================
