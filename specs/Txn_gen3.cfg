SPECIFICATION Spec
CONSTANTS
  MaxLen = 3
  TxAllOrNothing = TRUE
  StopAtFirstFailure = TRUE
  PrepareFailureAborts = TRUE
  RollbackOnError = TRUE
  ResultPerStatement = TRUE
INVARIANTS Emit
