SPECIFICATION GSpec
CONSTANTS
  Proc = {"anon", "reap", "xreap"}
  MaxIdx = 1
  MaxHolds = 4
  CASExclusive = TRUE
  WriterExcludesReaders = TRUE
  BlockingWakes = TRUE
  WakeAtTarget = TRUE
  Streamer = {"a", "b"}
  MaxOpens = 1
  MaxSinks = 1
  MaxX = 1
  Threshold = 2
  ReadLen = 2
  StreamHoldsReadLock = FALSE
  ReleaseOnce = TRUE
  IdleForceClose = TRUE
  ReaperWaitsForReaders = TRUE
  Depth = 45
INVARIANT NoReapWhileOpen
VIEW allvars
