SPECIFICATION Spec
CONSTANTS
  MaxLen = 3
  TxAllOrNothing = TRUE
  StopAtFirstFailure = TRUE
  PrepareFailureAborts = TRUE
  RollbackOnError = FALSE
  ResultPerStatement = TRUE
INVARIANTS RoeClean
