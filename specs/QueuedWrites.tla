---------------------------- MODULE QueuedWrites ----------------------------
(* rqlite http/service.go, queued-write path, on top of the batching queue (Queue.tla).         *)
(*                                                                                              *)
(* queuedExecute (HTTP handler, one per client request):                                        *)
(*   Post      = stmtQueue.Write(stmts, fc): seqMu, seqNum++ (= the sequence number returned    *)
(*               to the client = the acceptance order), blocking send on batchCh, unlock         *)
(*               (Queue!WLock, Queue!WSend).  A `wait` request then blocks on its flush channel  *)
(*               (WaitOk) or gives up after its timeout (WaitTimeout, HTTP 408: the statements   *)
(*               stay queued).                                                                   *)
(* runQueue (ONE goroutine per node):                                                            *)
(*   Take      = req := <-stmtQueue.C                                                            *)
(*   TryOk     = proxy.Execute returned nil: the batch is in the log, applied                    *)
(*   TryFail   = proxy.Execute returned an error and nothing was sent/applied: leader not found  *)
(*               (no leader address known), not leader, not ready, dial refused.  The code logs, *)
(*               sleeps one second and executes THE SAME request again (inner `for`).            *)
(*   TryLost   = proxy.Execute returned an error but the outcome is unknown: leadership lost     *)
(*               while committing, connection to the leader cut after the request was sent.  The *)
(*               entry may or may not be applied; the code retries the same batch all the same,  *)
(*               so the whole batch can be applied twice (at-least-once).                        *)
(*   Done      = seqNum stored, req.Close(): closes the flush channels of exactly that batch.    *)
(* Environment: LeaderDown / LeaderUp (a leader is / is not reachable from this node).           *)
(*                                                                                               *)
(* Switches (TRUE = the design): SeqUnderLock (Queue), SingleConsumer, RetrySameBatch,           *)
(* CloseAfterApply.                                                                              *)
EXTENDS Queue

CONSTANTS MaxStmts,        \* a request carries 1..MaxStmts statements
          FreeWait,        \* TRUE: any request may ask to wait; FALSE (smaller model): exactly the MaxStmts-statement requests do
          MaxLoss,         \* bound on the number of leader losses (keeps the model finite without a constraint)
          SingleConsumer, RetrySameBatch, CloseAfterApply

VARIABLES shape,    \* sequence number -> [n, wait]   (sequence indexed by sequence number)
          wst,      \* sequence number -> "none" | "waiting" | "ok" | "timeout"   HTTP handler of a wait request
          cur,      \* consumer -> the batch it holds (a Queue request) or <<>>
          cst,      \* consumer -> "idle" | "have" | "applied"
          leader,   \* "up" | "down"
          losses,
          applied,  \* history: statements <<seq, k>> in the order they were applied
          unk,      \* batch sequence number -> tries of that batch whose outcome the consumer could not know
          closed    \* batch sequence numbers whose flush channels have been closed

qwvars == <<shape, wst, cur, cst, leader, losses, applied, unk, closed>>
allvars == <<vars, qwvars>>

Consumers == IF SingleConsumer THEN {"c1"} ELSE {"c1", "c2"}

QWInit == /\ Init /\ shape = <<>> /\ wst = <<>> /\ cur = [c \in Consumers |-> <<>>] /\ cst = [c \in Consumers |-> "idle"]
          /\ leader = "up" /\ losses = 0 /\ applied = <<>> /\ unk = [s \in 1..MaxWrites |-> 0] /\ closed = {}

----------------------------------------------------------------------------
(* statements of one request / one batch, in their original order *)
ReqStmts(s) == [k \in 1..shape[s].n |-> <<s, k>>]
ItemSeqs(b) == [j \in 1..Len(b.items) |-> b.items[j].seq]
Stmts(b) == FlattenSeq([j \in 1..Len(b.items) |-> ReqStmts(b.items[j].seq)])

(* ---- clients ---- *)
Post(w) == /\ WLock(w)
           /\ \E n \in 1..MaxStmts : \E wt \in (IF FreeWait THEN BOOLEAN ELSE {n = MaxStmts}) :
                shape' = Append(shape, [n |-> n, wait |-> wt])
           /\ wst' = Append(wst, "none")
           /\ UNCHANGED <<cur, cst, leader, losses, applied, unk, closed>>
PostSent(w) == /\ WSend(w)
               /\ wst' = [wst EXCEPT ![wseq[w]] = IF shape[wseq[w]].wait THEN "waiting" ELSE "none"]
               /\ UNCHANGED <<shape, cur, cst, leader, losses, applied, unk, closed>>
(* the flush channel of sequence number s is closed iff a batch containing s has been closed *)
FcClosed(s) == \E i \in 1..Len(out) : out[i].seq \in closed /\ s \in Range(ItemSeqs(out[i]))
WaitOk(s) == /\ s \in 1..Len(wst) /\ wst[s] = "waiting" /\ FcClosed(s)
             /\ wst' = [wst EXCEPT ![s] = "ok"]
             /\ UNCHANGED <<vars, shape, cur, cst, leader, losses, applied, unk, closed>>
WaitTimeout(s) == /\ s \in 1..Len(wst) /\ wst[s] = "waiting"
                  /\ wst' = [wst EXCEPT ![s] = "timeout"]
                  /\ UNCHANGED <<vars, shape, cur, cst, leader, losses, applied, unk, closed>>

(* ---- the queue's own run loop (Queue.tla, unchanged) ---- *)
QueueLoop == (RecvItem \/ TimerFire \/ PushSend) /\ UNCHANGED qwvars

(* ---- consumer ---- *)
Take(c) == /\ cst[c] = "idle" /\ Consume
           /\ cur' = [cur EXCEPT ![c] = Head(sendCh)]
           /\ cst' = [cst EXCEPT ![c] = "have"]
           /\ closed' = IF CloseAfterApply THEN closed ELSE closed \cup {Head(sendCh).seq}
           /\ UNCHANGED <<shape, wst, leader, losses, applied, unk>>
TryOk(c) == /\ cst[c] = "have" /\ leader = "up"
            /\ applied' = applied \o Stmts(cur[c])
            /\ cst' = [cst EXCEPT ![c] = "applied"]
            /\ UNCHANGED <<vars, shape, wst, cur, leader, losses, unk, closed>>
(* a failed try: with RetrySameBatch the consumer stays on the same request; without, it moves on as if done *)
AfterFailure(c) == cst' = [cst EXCEPT ![c] = IF RetrySameBatch THEN "have" ELSE "applied"]
TryFail(c) == /\ cst[c] = "have" /\ leader = "down"
              /\ AfterFailure(c)
              /\ UNCHANGED <<vars, shape, wst, cur, leader, losses, applied, unk, closed>>
TryLost(c) == /\ cst[c] = "have" /\ leader = "up" /\ losses < MaxLoss
              /\ leader' = "down" /\ losses' = losses + 1
              /\ \E ap \in BOOLEAN : applied' = IF ap THEN applied \o Stmts(cur[c]) ELSE applied
              /\ unk' = [unk EXCEPT ![cur[c].seq] = @ + 1]
              /\ AfterFailure(c)
              /\ UNCHANGED <<vars, shape, wst, cur, closed>>
Done(c) == /\ cst[c] = "applied"
           /\ closed' = closed \cup {cur[c].seq}
           /\ cur' = [cur EXCEPT ![c] = <<>>] /\ cst' = [cst EXCEPT ![c] = "idle"]
           /\ UNCHANGED <<vars, shape, wst, leader, losses, applied, unk>>

(* ---- environment ---- *)
LeaderDown == /\ leader = "up" /\ losses < MaxLoss /\ leader' = "down" /\ losses' = losses + 1
              /\ UNCHANGED <<vars, shape, wst, cur, cst, applied, unk, closed>>
LeaderUp == /\ leader = "down" /\ leader' = "up"
            /\ UNCHANGED <<vars, shape, wst, cur, cst, losses, applied, unk, closed>>

ConsumerNext == \E c \in Consumers : Take(c) \/ TryOk(c) \/ TryFail(c) \/ TryLost(c) \/ Done(c)
QWNext == \/ \E w \in Writers : Post(w) \/ PostSent(w)
          \/ \E s \in 1..MaxWrites : WaitOk(s) \/ WaitTimeout(s)
          \/ QueueLoop \/ ConsumerNext \/ LeaderDown \/ LeaderUp
QWSpec == QWInit /\ [][QWNext]_allvars
(* fairness: the node keeps running (handlers, run loop, consumer are scheduled) and a leader is  *)
(* eventually reachable (LeaderUp; LeaderDown is bounded by MaxLoss).  Clients need not post.      *)
QWFair == /\ QWSpec
          /\ \A w \in Writers : WF_allvars(PostSent(w))
          /\ \A s \in 1..MaxWrites : WF_allvars(WaitOk(s))
          /\ WF_allvars(QueueLoop) /\ WF_allvars(ConsumerNext) /\ WF_allvars(LeaderUp)

----------------------------------------------------------------------------
(* acceptance order = sequence-number order, each request's statements together and in order *)
Expected == FlattenSeq([s \in 1..Len(shape) |-> ReqStmts(s)])
FirstOcc(a) == LET F[i \in 0..Len(a)] ==
                     IF i = 0 THEN <<>>
                     ELSE IF \E j \in 1..(i - 1) : a[j] = a[i] THEN F[i - 1] ELSE Append(F[i - 1], a[i])
               IN F[Len(a)]
Count(a, x) == Cardinality({i \in 1..Len(a) : a[i] = x})

(* the applied sequence (duplicates aside) is the acceptance order *)
InOrder == IsPrefix(FirstOcc(applied), Expected)
(* each request's statements are applied together and in their original order, every time *)
RequestsContiguous == \A i \in 1..Len(applied) :
                         /\ applied[i][2] > 1 => (i > 1 /\ applied[i - 1] = <<applied[i][1], applied[i][2] - 1>>)
                         /\ applied[i][2] < shape[applied[i][1]].n => (i < Len(applied) /\ applied[i + 1] = <<applied[i][1], applied[i][2] + 1>>)
(* a statement is applied more than once only when a try of its batch had an unknown outcome *)
BatchIdxOf(s) == (CHOOSE i \in 1..Len(out) : s \in Range(ItemSeqs(out[i])))
DupsOnlyAfterUnknown == \A x \in Range(applied) : Count(applied, x) <= 1 + unk[out[BatchIdxOf(x[1])].seq]
(* nothing accepted is dropped: a batch the consumer no longer holds has been applied *)
Held(b) == \E c \in Consumers : cst[c] # "idle" /\ cur[c] = b
NoneDropped == LET A == Range(applied) IN \A i \in 1..Len(out) : Held(out[i]) \/ \A x \in Range(Stmts(out[i])) : x \in A
(* a wait request returns success only after the batch containing its statements was applied *)
WaitAfterApply == LET A == Range(applied) IN \A s \in 1..Len(wst) : wst[s] = "ok" => \A x \in Range(ReqStmts(s)) : x \in A
(* flush channels are closed batch-wise, only for batches that were taken *)
ClosedAreTaken == \A b \in closed : \E i \in 1..Len(out) : out[i].seq = b

(* liveness: every accepted request is eventually applied *)
Sent(s) == s \in Range(SeqNums(NonFlush(chan))) \cup Range(SeqNums(qobjs)) \cup Range(Seqs(pending)) \cup Range(Seqs(sendCh)) \cup Range(Seqs(out))
AppliedReq(s) == s \in 1..Len(shape) /\ Range(ReqStmts(s)) \subseteq Range(applied)
EventuallyApplied == \A s \in 1..MaxWrites : Sent(s) ~> AppliedReq(s)
(* and a waiting client is eventually answered *)
WaitAnswered == \A s \in 1..MaxWrites : (s \in 1..Len(wst) /\ wst[s] = "waiting") ~> (s \in 1..Len(wst) /\ wst[s] \in {"ok", "timeout"})
=============================================================================
