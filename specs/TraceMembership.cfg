SPECIFICATION TSpec
CONSTANTS
  Id = {"n1", "n2", "n3", "a", "b", "c"}
  Addr = {"s1", "s2", "s3", "1", "2", "3"}
  Self = "n1"
  SelfAddr = "s1"
  OpIds = {"a", "b", "c"}
  OpAddrs = {"1", "2", "3"}
  Expect = 0
  ReapV = 0
  ReapN = 0
  MaxSince = 0
  MaxDownNodes = 0
  MaxJoins = 1
  MaxOps = 0
  GenLen = 0
  IgnoreOnlyIfIdenticalInclRole = TRUE
  RemoveConflictingEntry = TRUE
  BootstrapOnce = TRUE
  ReapAfterRoleTimeout = TRUE
  RaftRejectsDuplicates = TRUE
CONSTRAINT HW
POSTCONDITION Accepted
CHECK_DEADLOCK FALSE
