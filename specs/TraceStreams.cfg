SPECIFICATION TSpec
CONSTANTS
  Proc = {"anon", "reap", "xreap"}
  MaxIdx = 1
  MaxHolds = 1000000
  CASExclusive = TRUE
  WriterExcludesReaders = TRUE
  BlockingWakes = TRUE
  WakeAtTarget = TRUE
  Streamer <- TStreamers
  MaxOpens = 1
  MaxSinks = 1
  MaxX = 1
  Threshold = 2
  ReadLen = 1
  StreamHoldsReadLock = TRUE
  ReleaseOnce = TRUE
  IdleForceClose = TRUE
  ReaperWaitsForReaders = TRUE
CONSTRAINT HW
POSTCONDITION Accepted
CHECK_DEADLOCK FALSE
