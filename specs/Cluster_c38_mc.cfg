SPECIFICATION Spec
CONSTANTS
  Node = {n1, n2, n3}
  Voter = {n1, n2, n3}
  MaxTerm = 2
  MaxLog = 4
  NonCmdKinds = {"C","B"}
  WarmStart = TRUE
  MaxRestarts = 0
  UpgradeStrong = TRUE
  VerifyQuorum = TRUE
  RecheckTerm = TRUE
  StrongThroughLog = TRUE
  SignalConfig = TRUE
  SignalBarrier = TRUE
  MaxSnaps = 0
  SnapAtApplied = TRUE
  InstallReplacesDb = TRUE
  SignalRestore = TRUE
SYMMETRY Sym
INVARIANTS StateMachineSafety ReadLin NoStuckRead
