\* every case with the permission check of its own family missing; violations are collected per
\* family (TLC register 2, -workers 1); the post-condition demands every permissioned family
SPECIFICATION Spec
CONSTANTS
  Unchecked = {}
  FullStar = FALSE
  MutEach = TRUE
  NoBodyAfterError = TRUE
  Roles = {"leader"}
INVARIANTS Collect
POSTCONDITION AllCaught
