------------------------------- MODULE Replica -------------------------------
(* C01: every node that applies the same committed log ends with the same database, whether   *)
(* it applied the entries live, replayed them after a restart, rebuilt them during manual      *)
(* recovery or received them inside a snapshot -- whenever and however fast it applies them.   *)
(*                                                                                             *)
(* A request is [ep, tx, stmts]; it is submitted at an HTTP endpoint (http/service.go:         *)
(* execute / queued execute / request), where the rewriter (command/sql/processor.go, design   *)
(* in Rewrite.tla, instantiated here) may replace the non-deterministic call of a statement,   *)
(* and is then appended to the committed log AS REWRITTEN.  A statement is                     *)
(*   [k: "write" | "ddl" | "fail" | "query", tpl, slot, site, slot2, site2, par, sub]          *)
(* where tpl is a write template of Rewrite.tla and (slot, site), (slot2, site2) are up to TWO *)
(* call sites of that spec's site space, each in a clause context of the template -- the same  *)
(* clause or two different ones, in either textual order, non-deterministic calls next to      *)
(* deterministic time calls on a fixed value / a column -- restricted to what the property     *)
(* covers (no RANDOM() in ORDER BY, no RANDOMBLOB(expr)).                                      *)
(*                                                                                             *)
(* Apply paths (one abstract database each):                                                   *)
(*   live      the node that answered the request (applies in log order, at "now")             *)
(*   follower  another node applying the same log live, at its own pace                        *)
(*   restart   a node restarted: the WAL is discarded, the database is the one of a snapshot   *)
(*             (or empty) and the rest of the log is replayed -- later                         *)
(*   install   a node that received a snapshot taken at index i and applies the rest           *)
(*   recover   manual recovery (store/state.go RecoverNode): snapshot (or nothing) + replay    *)
(*             of the whole log by the recovery code, in one go                                *)
(* The effect of a statement is modelled as a CELL; a cell is a function of the replicated     *)
(* text alone iff no must-rewrite call survives in it; otherwise it also records who applied   *)
(* it (random) / when it was applied (now).  Converge: paths that consumed the same prefix     *)
(* have equal databases.                                                                       *)
(* Switches (TRUE = the design):                                                               *)
(*   RewriteAllSites       the rewriter reaches and recognises every must-rewrite call         *)
(*   RewriteOnEndpoint[e]  the rewriter runs on endpoint e before the request is replicated    *)
(*   SingleApplyPath       recovery replays entries with the same processor as live apply      *)
(*   SiteIndependent       whether a call is replaced does not depend on the other calls of    *)
(*                         the statement: the statement is re-rendered iff ANY call was        *)
(*                         replaced (FALSE: the verdict of the last call visited decides)      *)
EXTENDS Naturals, Sequences, FiniteSets, TLC, Json, SequencesExt

CONSTANTS RewriteAllSites, RewriteOnEndpoint, SingleApplyPath, SiteIndependent,
          Mode,          \* "mc": exhaustive over a small request alphabet; "gen": random programs for the replay
          MaxReq, MaxClock, MaxSnaps, MaxStmts,
          McAlphabet,    \* "small" | "full": the request alphabet of the exhaustive run
          Reduced        \* TRUE (quick exhaustive run only): no second live node, and a request is submitted only when the
                         \* live node has applied the previous ones (one client that waits for its answers)

(* The site space, the property (MustRewrite) and the design of the rewriter (Replaced) are those of     *)
(* Rewrite.tla (C14), transcribed here for one-site statements because instantiating that module makes   *)
(* TLC pre-compute its case sets on every start; ReplicaRewriteEq.tla checks, over the whole site space, *)
(* that the transcription and Rewrite.tla agree.                                                         *)
T1      == {"date", "time", "datetime", "julianday", "unixepoch"}
TimeFns == T1 \cup {"strftime", "timediff"}
Fns     == {"random", "randomblob"} \cup TimeFns
FormsOf(fn) == CASE fn = "random"     -> {"call"}
                 [] fn = "randomblob" -> {"lit", "zero", "expr"}
                 [] fn \in T1         -> {"now", "nowuc", "implicit", "other", "expr", "col"}
                 [] fn = "strftime"   -> {"now", "implicit", "other", "col"}
                 [] fn = "timediff"   -> {"now_other", "other_now", "now_now", "other_other"}
ModsOf(fn, form) == IF fn \in T1 \cup {"strftime"} /\ form \in {"now", "other"}
                    THEN {"none", "plus", "som2", "rawunix"} ELSE {"none"}
Cases_  == {"lower", "upper", "mixed"}
Gaps    == {"none", "space", "newline", "comment"}
Nests   == {"bare", "paren", "call", "arith", "cast", "case", "isnull", "between", "subq", "string", "ident"}
FnForms == UNION {{<<fn, fo, mo>> : mo \in ModsOf(fn, fo)} : <<fn, fo>> \in UNION {{<<f, g>> : g \in FormsOf(f)} : f \in Fns}}
MkSite(ffm, cs, gap, nest) == [fn |-> ffm[1], form |-> ffm[2], mod |-> ffm[3], cs |-> cs, gap |-> gap, nest |-> nest]
InOrderBy(slot) == slot \in {"orderby", "suborderby", "winorder"}
CallSite(s) == s.nest \notin {"string", "ident"}
NowArg(s) == \/ s.fn \in T1 /\ s.form \in {"now", "nowuc", "implicit"}
             \/ s.fn = "strftime" /\ s.form \in {"now", "implicit"}
             \/ s.fn = "timediff" /\ s.form # "other_other"
NonDetCall(s) == s.fn \in {"random", "randomblob"} \/ NowArg(s)
Excluded(slot, s) == \/ s.fn = "random" /\ InOrderBy(slot)
                     \/ s.fn = "randomblob" /\ s.form = "expr"
MustRewrite(slot, s) == /\ CallSite(s)
                        /\ \/ s.fn = "random" /\ ~InOrderBy(slot)
                           \/ s.fn = "randomblob" /\ s.form \in {"lit", "zero"}
                           \/ NowArg(s)
\* design of the rewriter for a statement with one call site: pre-filter, walk, recognise
TextHit(s) == s.gap = "none" \/ RewriteAllSites
Reached(slot, s) == /\ CallSite(s)
                    /\ RewriteAllSites \/ (slot # "ctebody" /\ slot # "inselect" /\ s.nest \notin {"isnull", "subq"})
Recognised(slot, s) == CASE s.fn = "random"     -> ~InOrderBy(slot)
                         [] s.fn = "randomblob" -> s.form \in {"lit", "zero"}
                         [] s.fn \in T1         -> s.form \in {"now", "nowuc"} \/ (s.form = "implicit" /\ RewriteAllSites)
                         [] s.fn = "strftime"   -> s.form = "now" \/ (s.form = "implicit" /\ RewriteAllSites)
                         [] s.fn = "timediff"   -> s.form # "other_other"
ReplacedSite(slot, s) == TextHit(s) /\ Reached(slot, s) /\ Recognised(slot, s)
\* a time value read from a COLUMN needs a table in scope: not in a VALUES list, a FROM-less (sub-)select, LIMIT / OFFSET
NoColumn == {<<"select", "offset">>, <<"compound", "proj">>, <<"compound", "proj2">>, <<"values", "values">>, <<"insval", "values">>,
             <<"insval2", "values2">>, <<"replace", "values">>, <<"updfrom", "subproj">>, <<"upsert", "values">>, <<"insret", "values">>,
             <<"ctesel", "ctebody">>, <<"cteins", "ctebody">>, <<"cteupd", "ctebody">>, <<"ctedel", "ctebody">>, <<"multi", "values">>}
ColScope(tpl, slot) == <<tpl, slot>> \notin NoColumn
WellScoped(tpl, slot, s) == s.form = "col" => ColScope(tpl, slot)
\* the KIND of a call: what the walker's branch for it looks at
KindSeq == <<"random", "randomblob", "time-now", "time-omitted", "time-fixed", "time-column", "strftime-now", "strftime-fixed",
             "timediff-now", "timediff-fixed">>
KindOfFf(fn, form) == CASE fn = "random" -> "random"
                        [] fn = "randomblob" /\ form # "expr" -> "randomblob"
                        [] fn = "randomblob" /\ form = "expr" -> "randomblob-expr"
                        [] fn \in T1 /\ form \in {"now", "nowuc"} -> "time-now"
                        [] fn \in T1 /\ form = "implicit" -> "time-omitted"
                        [] fn \in T1 /\ form \in {"other", "expr"} -> "time-fixed"
                        [] fn \in T1 /\ form = "col" -> "time-column"
                        [] fn = "strftime" /\ form \in {"now", "implicit"} -> "strftime-now"
                        [] fn = "strftime" /\ form \in {"other", "col"} -> "strftime-fixed"
                        [] fn = "timediff" /\ form # "other_other" -> "timediff-now"
                        [] fn = "timediff" /\ form = "other_other" -> "timediff-fixed"
                        [] OTHER -> "none"
KindOf(s) == KindOfFf(s.fn, s.form)

Endpoints == {"execute", "queued", "request"}
AllEndpoints == [e \in Endpoints |-> TRUE]
NotExecute   == [e \in Endpoints |-> e # "execute"]
NotQueued    == [e \in Endpoints |-> e # "queued"]
NotRequest   == [e \in Endpoints |-> e # "request"]

Paths == {"live", "restart", "install", "recover"} \cup (IF Reduced THEN {} ELSE {"follower"})

-----------------------------------------------------------------------------
(* statements *)
NoSite == [fn |-> "none", form |-> "none", mod |-> "none", cs |-> "lower", gap |-> "none", nest |-> "bare"]
HasSite(st) == st.site.fn # "none"
NSites(st) == IF st.site.fn = "none" THEN 0 ELSE IF st.site2.fn = "none" THEN 1 ELSE 2
SiteAt(st, i) == IF i = 1 THEN st.site ELSE st.site2
SlotAt(st, i) == IF i = 1 THEN st.slot ELSE st.slot2

\* write templates of Rewrite.tla and the slots whose value reaches the database (or decides which rows change)
WSlots == << <<"insval", "values">>, <<"insval2", "values2">>, <<"inssel", "proj">>, <<"inssel", "where">>, <<"replace", "values">>,
             <<"update", "set">>, <<"update", "where">>, <<"updtuple", "set">>, <<"updfrom", "subproj">>, <<"updfrom", "where">>,
             <<"delete", "where">>, <<"upsert", "values">>, <<"upsert", "upsertset">>, <<"upsert", "upsertwhere">>,
             <<"insret", "values">>, <<"insret", "returning">>, <<"updret", "set">>, <<"delret", "where">>,
             <<"cteins", "ctebody">>, <<"cteins", "proj">>, <<"cteupd", "set">>, <<"ctedel", "where">>, <<"multi", "values">> >>

\* the site space of Rewrite.tla minus what the property excludes
Covered(slot, s) == ~Excluded(slot, s)
FfNonDet(x) == NonDetCall(MkSite(x, "lower", "none", "bare"))
FnFormNonDet == SetToSeq({x \in FnForms : FfNonDet(x) /\ ~(x[1] = "randomblob" /\ x[2] = "expr")})   \* 'now' / random forms
FnFormDet    == SetToSeq({x \in FnForms : ~FfNonDet(x)})                                            \* other time values
\* two call sites of one statement: the same slot twice (one clause, the calls side by side) or two slots of the template in
\* textual order; every ordered pair of sites is drawn for either
WPairs == SelectSeq([k \in 1..(Len(WSlots) * Len(WSlots)) |->
                       LET i == ((k - 1) \div Len(WSlots)) + 1
                           j == ((k - 1) % Len(WSlots)) + 1 IN
                       IF i <= j /\ WSlots[i][1] = WSlots[j][1] THEN <<WSlots[i][1], WSlots[i][2], WSlots[j][2]>> ELSE <<>>],
                    LAMBDA x : x # <<>>)
\* slots whose value is stored (the others decide which rows change)
ValueSlot(slot) == slot \in {"values", "values2", "proj", "set", "subproj", "upsertset", "ctebody"}
\* ... and is stored whatever the table holds (the row an UPSERT inserts always exists: its VALUES are never stored)
Stored(tpl, slot) == ValueSlot(slot) /\ <<tpl, slot>> # <<"upsert", "values">>

DdlKinds  == <<"index", "addcol", "view", "table2", "dropindex", "trigger">>
FailKinds == <<"failprep", "failcons", "midfail">>
ParKinds  == <<"none", "pos", "named">>

W2(tp, s, s2, par) == [k |-> "write", tpl |-> tp[1], slot |-> tp[2], site |-> s,
                       slot2 |-> IF s2.fn = "none" THEN "none" ELSE tp[3], site2 |-> s2, par |-> par, sub |-> "none"]
W(ts, s, par) == W2(<<ts[1], ts[2], "none">>, s, NoSite, par)
Other(k, sub) == [k |-> k, tpl |-> "none", slot |-> "none", site |-> NoSite, slot2 |-> "none", site2 |-> NoSite, par |-> "none", sub |-> sub]
D(sub)        == Other("ddl", sub)
F(sub)        == Other("fail", sub)
Q             == Other("query", "none")

HasAt(st, i)  == st.k = "write" /\ i <= NSites(st)
MustAt(st, i) == HasAt(st, i) /\ MustRewrite(SlotAt(st, i), SiteAt(st, i))
Must(st)      == \E i \in 1..2 : MustAt(st, i)
\* what the rewriter (by design) does with the statement when it runs: the pre-filter looks at the whole text, the walker
\* replaces the node of every call it reaches and recognises, and the statement is re-rendered iff a node was replaced.
\* Sites are visited in textual order.
ParsedSt(st)     == \E k \in 1..NSites(st) : TextHit(SiteAt(st, k))
NodeReplaced(st, i) == HasAt(st, i) /\ ParsedSt(st) /\ Reached(SlotAt(st, i), SiteAt(st, i)) /\ Recognised(SlotAt(st, i), SiteAt(st, i))
Rerendered(st)   == IF SiteIndependent THEN \E i \in 1..2 : NodeReplaced(st, i)
                    ELSE NSites(st) > 0 /\ NodeReplaced(st, NSites(st))       \* the last call visited decides
ReplacedAt(st, i) == NodeReplaced(st, i) /\ Rerendered(st)
Replaced(st)     == \E i \in 1..2 : ReplacedAt(st, i)
\* a call whose value differs between evaluations is still in the replicated text
ResidualAt(e, i) == HasAt(e.st, i) /\ CallSite(SiteAt(e.st, i)) /\ NonDetCall(SiteAt(e.st, i)) /\ ~e.rw[i]
ResidualRnd(e)   == \E i \in 1..2 : ResidualAt(e, i) /\ SiteAt(e.st, i).fn \in {"random", "randomblob"}
ResidualNow(e)   == \E i \in 1..2 : ResidualAt(e, i) /\ SiteAt(e.st, i).fn \notin {"random", "randomblob"}
SiteOK(tpl, slot, s) == Covered(slot, s) /\ WellScoped(tpl, slot, s)

ReqOK(r) == /\ r.ep = "queued" => ~r.tx                                  \* the queue does not carry a transaction flag
            /\ \A i \in DOMAIN r.stmts : r.stmts[i].k = "query" => r.ep = "request"
            /\ \E i \in DOMAIN r.stmts : r.stmts[i].k # "query"           \* a read-only request is not replicated at all
            /\ \A i \in DOMAIN r.stmts : \A k \in 1..NSites(r.stmts[i]) : SiteOK(r.stmts[i].tpl, SlotAt(r.stmts[i], k), SiteAt(r.stmts[i], k))

-----------------------------------------------------------------------------
(* the small alphabet of the exhaustive run *)
Rep(fn, form) == MkSite(<<fn, form, "none">>, "lower", "none", "bare")
StPlain == W(<<"insval", "values">>, Rep("random", "call"), "none")           \* rewritten by every version of the rewriter
StGap   == W(<<"cteins", "ctebody">>, Rep("datetime", "implicit"), "pos")     \* needs RewriteAllSites
StDet   == W(<<"update", "set">>, Rep("datetime", "other"), "named")          \* nothing to rewrite
StStr   == W(<<"insval", "values">>, [Rep("date", "now") EXCEPT !.nest = "string"], "none")
\* two calls in one statement: a non-deterministic call FOLLOWED by a time call on a fixed value in the same clause, and a time
\* call on a column followed by a non-deterministic one in another clause
StPairA == W2(<<"insval", "values", "values">>, Rep("random", "call"), Rep("date", "other"), "none")
StPairB == W2(<<"update", "set", "where">>, Rep("strftime", "col"), Rep("julianday", "now"), "pos")
McReqs == {[ep |-> e, tx |-> FALSE, stmts |-> <<s>>] : e \in Endpoints, s \in {StPlain, StGap}}
          \cup {[ep |-> e, tx |-> FALSE, stmts |-> <<s>>] : e \in (IF McAlphabet = "full" THEN Endpoints ELSE {"execute"}), s \in {StPairA, StPairB}}
          \cup {[ep |-> e, tx |-> FALSE, stmts |-> <<s>>] : e \in (IF McAlphabet = "full" THEN Endpoints ELSE {"execute"}), s \in {StDet, StStr}}
          \cup {[ep |-> e, tx |-> t, stmts |-> <<StPlain, F("failcons")>>] :
                   e \in (IF McAlphabet = "full" THEN {"execute", "request"} ELSE {"request"}), t \in BOOLEAN}
          \cup {[ep |-> "request", tx |-> TRUE, stmts |-> <<Q, StGap>>]}

(* random programs: every dimension decoded from integers drawn once per statement *)
Pick(q, z) == q[(z % Len(q)) + 1]
GapW  == <<"none", "none", "none", "none", "none", "none", "space", "newline", "comment">>
NestW == <<"bare", "bare", "bare", "bare", "bare", "bare", "bare", "bare", "paren", "call", "arith", "cast", "case", "isnull",
           "between", "subq", "string", "ident">>
CaseW == <<"lower", "lower", "upper", "mixed">>
GenSite(z) == LET z0 == z \div 4
                  ffm == IF z % 4 = 0 THEN Pick(FnFormDet, z0) ELSE Pick(FnFormNonDet, z0)
                  z1 == z0 \div 64
                  z2 == z1 \div Len(CaseW)
                  z3 == z2 \div Len(GapW) IN
              MkSite(ffm, Pick(CaseW, z1), Pick(GapW, z2), Pick(NestW, z3))
\* a drawn site that the slot cannot take: a column where no table is in scope becomes a fixed value, an excluded call is dropped
FitSite(tpl, slot, s0) == LET s == IF s0.form = "col" /\ ~ColScope(tpl, slot) THEN [s0 EXCEPT !.form = "other"] ELSE s0 IN
                          IF s.fn # "none" /\ ~Covered(slot, s) THEN NoSite ELSE s
GenStmt(ep, z, y, x) ==
  LET kind == z % 10
      z1 == z \div 10
      two == x % 5 < 2                      \* two of five statements with a site get a second one
      tp == IF two THEN Pick(WPairs, z1) ELSE LET ts == Pick(WSlots, z1) IN <<ts[1], ts[2], ts[2]>>
      z2 == z1 \div Len(WSlots)
      par == Pick(ParKinds, z2)
      z3 == z2 \div Len(ParKinds)
      s0 == IF z3 % 5 = 0 THEN NoSite ELSE FitSite(tp[1], tp[2], GenSite(y))
      t0 == IF two THEN FitSite(tp[1], tp[3], GenSite(x \div 5)) ELSE NoSite
      s == IF s0.fn = "none" THEN t0 ELSE s0                  \* a dropped first site: the second one is the only one
      t == IF s0.fn = "none" THEN NoSite ELSE t0
      tq == IF s0.fn = "none" /\ t0.fn # "none" THEN <<tp[1], tp[3], tp[3]>> ELSE tp IN
  CASE kind = 0 -> D(Pick(DdlKinds, z1))
    [] kind = 1 -> F(Pick(FailKinds, z1))
    [] kind = 2 /\ ep = "request" -> Q
    [] OTHER -> W2(tq, s, t, par)
GenReq(zs, ys, xs, h) ==
  LET ep == Pick(<<"execute", "execute", "queued", "request", "request">>, h)
      n == ((h \div 5) % MaxStmts) + 1
      tx == ep # "queued" /\ (h \div 50) % 3 = 0 IN
  [ep |-> ep, tx |-> tx, stmts |-> [j \in 1..n |-> GenStmt(ep, zs[j], ys[j], xs[j])]]
Big == 1000000000
ASSUME MaxStmts \in 1..3

-----------------------------------------------------------------------------
VARIABLES log,       \* committed log: Seq([ep, tx, stmts: Seq([st, rw])])
          clock,
          applied,   \* path -> number of entries consumed
          db,        \* path -> Seq(cell)
          started,   \* path -> BOOLEAN
          snaps,     \* Seq([idx, db]): snapshots of the live path
          liveAt,    \* history: database of the live path after i entries
          prog, sched   \* gen mode only: the submitted requests and the order of the path actions
vars == <<log, clock, applied, db, started, snaps, liveAt, prog, sched>>

Entry(r) == [ep |-> r.ep, tx |-> r.tx,
             stmts |-> [i \in DOMAIN r.stmts |-> [st |-> r.stmts[i],
                                                    rw |-> [k \in 1..2 |-> RewriteOnEndpoint[r.ep] /\ ReplacedAt(r.stmts[i], k)]]]]

Cell(i, j, e, t, p) ==
  [i |-> i, j |-> j,
   rnd |-> IF ResidualRnd(e) THEN p ELSE "-",
   now |-> IF ResidualNow(e) THEN t ELSE 0]
Effective(en) == IF en.tx /\ \E j \in DOMAIN en.stmts : en.stmts[j].st.k = "fail" THEN {}
                 ELSE {j \in DOMAIN en.stmts : en.stmts[j].st.k \in {"write", "ddl"}}
RECURSIVE Cells(_, _, _, _, _)
Cells(i, en, j, t, p) == IF j > Len(en.stmts) THEN <<>>
                         ELSE (IF j \in Effective(en) THEN <<Cell(i, j, en.stmts[j], t, p)>> ELSE <<>>) \o Cells(i, en, j + 1, t, p)
\* proc = "store": CommandProcessor.Process; "recovery": what a separate recovery interpreter would do (it does
\* not know the unified execute-query command)
ApplyEntry(d, i, t, p, proc) == IF proc = "recovery" /\ log[i].ep = "request" THEN d ELSE d \o Cells(i, log[i], 1, t, p)
RECURSIVE Replay(_, _, _, _, _, _)
Replay(d, from, to, t, p, proc) == IF from > to THEN d ELSE Replay(ApplyEntry(d, from, t, p, proc), from + 1, to, t, p, proc)

NoSnap == [idx |-> 0, db |-> <<>>]
Bases == {NoSnap} \cup {snaps[k] : k \in DOMAIN snaps}
LastSnapIdx == IF snaps = <<>> THEN 0 ELSE snaps[Len(snaps)].idx
Note(x) == IF Mode = "gen" THEN Append(sched, x) ELSE sched

Done == /\ Len(log) = MaxReq
        /\ \A p \in Paths : started[p] /\ applied[p] = Len(log)
G == Mode = "gen" => ~Done                      \* a generated behaviour ends when every path has the whole log

Init == /\ log = <<>> /\ clock = 1
        /\ applied = [p \in Paths |-> 0]
        /\ db = [p \in Paths |-> <<>>]
        /\ started = [p \in Paths |-> p \in {"live", "follower"}]
        /\ snaps = <<>> /\ liveAt = <<>> /\ prog = <<>> /\ sched = <<>>

McEntry == [r \in McReqs |-> Entry(r)]
ASSUME Mode = "mc" => \A r \in McReqs : ReqOK(r)
Submit(r, en) == /\ G
                 /\ Len(log) < MaxReq
                 /\ Mode = "gen" => ReqOK(r)
                 /\ (Mode = "gen" \/ Reduced) => applied["live"] = Len(log)       \* the HTTP client waits for the answer
                 /\ log' = Append(log, en)
                 /\ prog' = IF Mode = "gen" THEN Append(prog, r) ELSE prog
                 /\ sched' = Note([a |-> "submit", p |-> "-", i |-> Len(log) + 1])
                 /\ UNCHANGED <<clock, applied, db, started, snaps, liveAt>>

ApplyLive(p) == /\ G /\ started[p] /\ applied[p] < Len(log)
                /\ LET i == applied[p] + 1
                       d == ApplyEntry(db[p], i, clock, p, "store") IN
                   /\ db' = [db EXCEPT ![p] = d]
                   /\ applied' = [applied EXCEPT ![p] = i]
                   /\ liveAt' = IF p = "live" THEN Append(liveAt, d) ELSE liveAt
                   /\ sched' = Note([a |-> "apply", p |-> p, i |-> i])
                /\ UNCHANGED <<log, clock, started, snaps, prog>>

SnapshotAt(i) == /\ G /\ applied["live"] = i /\ i > LastSnapIdx /\ Len(snaps) < MaxSnaps
                 /\ snaps' = Append(snaps, [idx |-> i, db |-> db["live"]])
                 /\ sched' = Note([a |-> "snap", p |-> "live", i |-> i])
                 /\ UNCHANGED <<log, clock, applied, db, started, liveAt, prog>>

\* the restarted node has lost everything past the snapshot it restores (or reuses as its database file)
RestartReplay(b) == /\ G /\ ~started["restart"]
                    /\ Mode = "gen" => Len(log) = MaxReq
                    /\ started' = [started EXCEPT !["restart"] = TRUE]
                    /\ db' = [db EXCEPT !["restart"] = b.db]
                    /\ applied' = [applied EXCEPT !["restart"] = b.idx]
                    /\ sched' = Note([a |-> "restart", p |-> "restart", i |-> b.idx])
                    /\ UNCHANGED <<log, clock, snaps, liveAt, prog>>

Install(b) == /\ G /\ ~started["install"] /\ b.idx > 0
              /\ started' = [started EXCEPT !["install"] = TRUE]
              /\ db' = [db EXCEPT !["install"] = b.db]
              /\ applied' = [applied EXCEPT !["install"] = b.idx]
              /\ sched' = Note([a |-> "install", p |-> "install", i |-> b.idx])
              /\ UNCHANGED <<log, clock, snaps, liveAt, prog>>

Recover(b) == /\ G /\ ~started["recover"] /\ Len(log) > 0
              /\ Mode = "gen" => Len(log) = MaxReq
              /\ started' = [started EXCEPT !["recover"] = TRUE]
              /\ db' = [db EXCEPT !["recover"] = Replay(b.db, b.idx + 1, Len(log), clock, "recover",
                                                        IF SingleApplyPath THEN "store" ELSE "recovery")]
              /\ applied' = [applied EXCEPT !["recover"] = Len(log)]
              /\ sched' = Note([a |-> "recover", p |-> "recover", i |-> b.idx])
              /\ UNCHANGED <<log, clock, snaps, liveAt, prog>>

AdvanceClock == /\ G /\ clock < MaxClock
                /\ clock' = clock + 1
                /\ sched' = Note([a |-> "tick", p |-> "-", i |-> clock + 1])
                /\ UNCHANGED <<log, applied, db, started, snaps, liveAt, prog>>

SubmitAny == IF Mode = "mc" THEN \E r \in McReqs : Submit(r, McEntry[r])
             ELSE \E zs \in {<<RandomElement(0..Big), RandomElement(0..Big), RandomElement(0..Big)>>} :
                  \E ys \in {<<RandomElement(0..Big), RandomElement(0..Big), RandomElement(0..Big)>>} :
                  \E xs \in {<<RandomElement(0..Big), RandomElement(0..Big), RandomElement(0..Big)>>} :
                  \E h \in {RandomElement(0..Big)} : LET r == GenReq(zs, ys, xs, h) IN Submit(r, Entry(r))

Next == \/ SubmitAny
        \/ \E p \in Paths : ApplyLive(p)
        \/ \E i \in 0..MaxReq : SnapshotAt(i)
        \/ \E b \in Bases : RestartReplay(b)
        \/ \E b \in Bases : Install(b)
        \/ \E b \in Bases : Recover(b)
        \/ AdvanceClock
Spec == Init /\ [][Next]_vars

-----------------------------------------------------------------------------
LiveDB(i) == IF i = 0 THEN <<>> ELSE liveAt[i]
(* all paths that consumed the same prefix have equal databases *)
Converge == /\ \A p \in Paths : (started[p] /\ applied[p] <= Len(liveAt)) => db[p] = LiveDB(applied[p])
            /\ \A p, q \in Paths : (started[p] /\ started[q] /\ applied[p] = applied[q]) => db[p] = db[q]
(* "a statement's effect is a function of its replicated text": nothing non-deterministic is left in the log *)
LogDeterministic == \A i \in DOMAIN log : \A j \in DOMAIN log[i].stmts : \A k \in 1..2 : ~ResidualAt(log[i].stmts[j], k)
(* the rewrite is applied exactly where the property demands it: at EVERY must-rewrite call, whatever the other calls are *)
RewrittenIffMust == \A i \in DOMAIN log : \A j \in DOMAIN log[i].stmts : \A k \in 1..2 :
                       log[i].stmts[j].rw[k] <=> MustAt(log[i].stmts[j].st, k)

McView == <<log, clock, applied, db, started, snaps, liveAt>>

StmtJson(st) == [k |-> st.k, tpl |-> st.tpl, slot |-> st.slot, fn |-> st.site.fn, form |-> st.site.form, mod |-> st.site.mod,
                 cs |-> st.site.cs, gap |-> st.site.gap, nest |-> st.site.nest, par |-> st.par, sub |-> st.sub,
                 must |-> MustAt(st, 1), design |-> ReplacedAt(st, 1), kind |-> KindOf(st.site),
                 slot2 |-> st.slot2, fn2 |-> st.site2.fn, form2 |-> st.site2.form, mod2 |-> st.site2.mod,
                 cs2 |-> st.site2.cs, gap2 |-> st.site2.gap, nest2 |-> st.site2.nest,
                 must2 |-> MustAt(st, 2), design2 |-> ReplacedAt(st, 2), kind2 |-> KindOf(st.site2)]
Emit == (Mode = "gen" /\ Done) =>
          PrintT(<<"@@", ToJson([prog |-> [i \in DOMAIN prog |-> [ep |-> prog[i].ep, tx |-> prog[i].tx,
                                                                   stmts |-> [j \in DOMAIN prog[i].stmts |-> StmtJson(prog[i].stmts[j])]]],
                                 sched |-> sched])>>)
=============================================================================
