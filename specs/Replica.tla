------------------------------- MODULE Replica -------------------------------
(* C01: every node that applies the same committed log ends with the same database, whether   *)
(* it applied the entries live, replayed them after a restart, rebuilt them during manual      *)
(* recovery or received them inside a snapshot -- whenever and however fast it applies them.   *)
(*                                                                                             *)
(* A request is [ep, tx, stmts]; it is submitted at an HTTP endpoint (http/service.go:         *)
(* execute / queued execute / request), where the rewriter (command/sql/processor.go, design   *)
(* in Rewrite.tla, instantiated here) may replace the non-deterministic call of a statement,   *)
(* and is then appended to the committed log AS REWRITTEN.  A statement is                     *)
(*   [k: "write" | "ddl" | "fail" | "query", tpl, slot, site, par, sub]                        *)
(* where (tpl, slot, site) are a template, a clause context and a call site of Rewrite.tla's   *)
(* site space, restricted to what the property covers (no RANDOM() in ORDER BY, no             *)
(* RANDOMBLOB(expr)) and to write statements.                                                  *)
(*                                                                                             *)
(* Apply paths (one abstract database each):                                                   *)
(*   live      the node that answered the request (applies in log order, at "now")             *)
(*   follower  another node applying the same log live, at its own pace                        *)
(*   restart   a node restarted: the WAL is discarded, the database is the one of a snapshot   *)
(*             (or empty) and the rest of the log is replayed -- later                         *)
(*   install   a node that received a snapshot taken at index i and applies the rest           *)
(*   recover   manual recovery (store/state.go RecoverNode): snapshot (or nothing) + replay    *)
(*             of the whole log by the recovery code, in one go                                *)
(* The effect of a statement is modelled as a CELL; a cell is a function of the replicated     *)
(* text alone iff no must-rewrite call survives in it; otherwise it also records who applied   *)
(* it (random) / when it was applied (now).  Converge: paths that consumed the same prefix     *)
(* have equal databases.                                                                       *)
(* Switches (TRUE = the design):                                                               *)
(*   RewriteAllSites       the rewriter reaches and recognises every must-rewrite call         *)
(*   RewriteOnEndpoint[e]  the rewriter runs on endpoint e before the request is replicated    *)
(*   SingleApplyPath       recovery replays entries with the same processor as live apply      *)
EXTENDS Naturals, Sequences, FiniteSets, TLC, Json, SequencesExt

CONSTANTS RewriteAllSites, RewriteOnEndpoint, SingleApplyPath,
          Mode,          \* "mc": exhaustive over a small request alphabet; "gen": random programs for the replay
          MaxReq, MaxClock, MaxSnaps, MaxStmts,
          McAlphabet,    \* "small" | "full": the request alphabet of the exhaustive run
          Reduced        \* TRUE (quick exhaustive run only): no second live node, and a request is submitted only when the
                         \* live node has applied the previous ones (one client that waits for its answers)

(* The site space, the property (MustRewrite) and the design of the rewriter (Replaced) are those of     *)
(* Rewrite.tla (C14), transcribed here for one-site statements because instantiating that module makes   *)
(* TLC pre-compute its case sets on every start; ReplicaRewriteEq.tla checks, over the whole site space, *)
(* that the transcription and Rewrite.tla agree.                                                         *)
T1      == {"date", "time", "datetime", "julianday", "unixepoch"}
TimeFns == T1 \cup {"strftime", "timediff"}
Fns     == {"random", "randomblob"} \cup TimeFns
FormsOf(fn) == CASE fn = "random"     -> {"call"}
                 [] fn = "randomblob" -> {"lit", "zero", "expr"}
                 [] fn \in T1         -> {"now", "nowuc", "implicit", "other", "expr"}
                 [] fn = "strftime"   -> {"now", "implicit", "other"}
                 [] fn = "timediff"   -> {"now_other", "other_now", "now_now", "other_other"}
ModsOf(fn, form) == IF fn \in T1 \cup {"strftime"} /\ form \in {"now", "other"}
                    THEN {"none", "plus", "som2", "rawunix"} ELSE {"none"}
Cases_  == {"lower", "upper", "mixed"}
Gaps    == {"none", "space", "newline", "comment"}
Nests   == {"bare", "paren", "call", "arith", "cast", "case", "isnull", "between", "subq", "string", "ident"}
FnForms == UNION {{<<fn, fo, mo>> : mo \in ModsOf(fn, fo)} : <<fn, fo>> \in UNION {{<<f, g>> : g \in FormsOf(f)} : f \in Fns}}
MkSite(ffm, cs, gap, nest) == [fn |-> ffm[1], form |-> ffm[2], mod |-> ffm[3], cs |-> cs, gap |-> gap, nest |-> nest]
InOrderBy(slot) == slot \in {"orderby", "suborderby", "winorder"}
CallSite(s) == s.nest \notin {"string", "ident"}
NowArg(s) == \/ s.fn \in T1 /\ s.form \in {"now", "nowuc", "implicit"}
             \/ s.fn = "strftime" /\ s.form \in {"now", "implicit"}
             \/ s.fn = "timediff" /\ s.form # "other_other"
NonDetCall(s) == s.fn \in {"random", "randomblob"} \/ NowArg(s)
Excluded(slot, s) == \/ s.fn = "random" /\ InOrderBy(slot)
                     \/ s.fn = "randomblob" /\ s.form = "expr"
MustRewrite(slot, s) == /\ CallSite(s)
                        /\ \/ s.fn = "random" /\ ~InOrderBy(slot)
                           \/ s.fn = "randomblob" /\ s.form \in {"lit", "zero"}
                           \/ NowArg(s)
\* design of the rewriter for a statement with one call site: pre-filter, walk, recognise
TextHit(s) == s.gap = "none" \/ RewriteAllSites
Reached(slot, s) == /\ CallSite(s)
                    /\ RewriteAllSites \/ (slot # "ctebody" /\ slot # "inselect" /\ s.nest \notin {"isnull", "subq"})
Recognised(slot, s) == CASE s.fn = "random"     -> ~InOrderBy(slot)
                         [] s.fn = "randomblob" -> s.form \in {"lit", "zero"}
                         [] s.fn \in T1         -> s.form \in {"now", "nowuc"} \/ (s.form = "implicit" /\ RewriteAllSites)
                         [] s.fn = "strftime"   -> s.form = "now" \/ (s.form = "implicit" /\ RewriteAllSites)
                         [] s.fn = "timediff"   -> s.form # "other_other"
ReplacedSite(slot, s) == TextHit(s) /\ Reached(slot, s) /\ Recognised(slot, s)

Endpoints == {"execute", "queued", "request"}
AllEndpoints == [e \in Endpoints |-> TRUE]
NotExecute   == [e \in Endpoints |-> e # "execute"]
NotQueued    == [e \in Endpoints |-> e # "queued"]
NotRequest   == [e \in Endpoints |-> e # "request"]

Paths == {"live", "restart", "install", "recover"} \cup (IF Reduced THEN {} ELSE {"follower"})

-----------------------------------------------------------------------------
(* statements *)
NoSite == [fn |-> "none", form |-> "none", mod |-> "none", cs |-> "lower", gap |-> "none", nest |-> "bare"]
HasSite(st) == st.site.fn # "none"

\* write templates of Rewrite.tla and the slots whose value reaches the database (or decides which rows change)
WSlots == << <<"insval", "values">>, <<"insval2", "values2">>, <<"inssel", "proj">>, <<"inssel", "where">>, <<"replace", "values">>,
             <<"update", "set">>, <<"update", "where">>, <<"updtuple", "set">>, <<"updfrom", "subproj">>, <<"updfrom", "where">>,
             <<"delete", "where">>, <<"upsert", "values">>, <<"upsert", "upsertset">>, <<"upsert", "upsertwhere">>,
             <<"insret", "values">>, <<"insret", "returning">>, <<"updret", "set">>, <<"delret", "where">>,
             <<"cteins", "ctebody">>, <<"cteins", "proj">>, <<"cteupd", "set">>, <<"ctedel", "where">>, <<"multi", "values">> >>

\* the site space of Rewrite.tla minus what the property excludes
Covered(slot, s) == ~Excluded(slot, s)
FfNonDet(x) == NonDetCall(MkSite(x, "lower", "none", "bare"))
FnFormNonDet == SetToSeq({x \in FnForms : FfNonDet(x) /\ ~(x[1] = "randomblob" /\ x[2] = "expr")})   \* 'now' / random forms
FnFormDet    == SetToSeq({x \in FnForms : ~FfNonDet(x)})                                            \* other time values

DdlKinds  == <<"index", "addcol", "view", "table2", "dropindex", "trigger">>
FailKinds == <<"failprep", "failcons", "midfail">>
ParKinds  == <<"none", "pos", "named">>

W(ts, s, par) == [k |-> "write", tpl |-> ts[1], slot |-> ts[2], site |-> s, par |-> par, sub |-> "none"]
D(sub)        == [k |-> "ddl",   tpl |-> "none", slot |-> "none", site |-> NoSite, par |-> "none", sub |-> sub]
F(sub)        == [k |-> "fail",  tpl |-> "none", slot |-> "none", site |-> NoSite, par |-> "none", sub |-> sub]
Q             == [k |-> "query", tpl |-> "none", slot |-> "none", site |-> NoSite, par |-> "none", sub |-> "none"]

Must(st)  == st.k = "write" /\ HasSite(st) /\ MustRewrite(st.slot, st.site)
\* what the rewriter (by design) does with the statement when it runs
Replaced(st) == st.k = "write" /\ HasSite(st) /\ ReplacedSite(st.slot, st.site)
\* a call whose value differs between evaluations is still in the replicated text
Residual(e) == e.st.k = "write" /\ HasSite(e.st) /\ CallSite(e.st.site) /\ NonDetCall(e.st.site) /\ ~e.rw

ReqOK(r) == /\ r.ep = "queued" => ~r.tx                                  \* the queue does not carry a transaction flag
            /\ \A i \in DOMAIN r.stmts : r.stmts[i].k = "query" => r.ep = "request"
            /\ \E i \in DOMAIN r.stmts : r.stmts[i].k # "query"           \* a read-only request is not replicated at all
            /\ \A i \in DOMAIN r.stmts : HasSite(r.stmts[i]) => Covered(r.stmts[i].slot, r.stmts[i].site)

-----------------------------------------------------------------------------
(* the small alphabet of the exhaustive run *)
Rep(fn, form) == MkSite(<<fn, form, "none">>, "lower", "none", "bare")
StPlain == W(<<"insval", "values">>, Rep("random", "call"), "none")           \* rewritten by every version of the rewriter
StGap   == W(<<"cteins", "ctebody">>, Rep("datetime", "implicit"), "pos")     \* needs RewriteAllSites
StDet   == W(<<"update", "set">>, Rep("datetime", "other"), "named")          \* nothing to rewrite
StStr   == W(<<"insval", "values">>, [Rep("date", "now") EXCEPT !.nest = "string"], "none")
McReqs == {[ep |-> e, tx |-> FALSE, stmts |-> <<s>>] : e \in Endpoints, s \in {StPlain, StGap}}
          \cup {[ep |-> e, tx |-> FALSE, stmts |-> <<s>>] : e \in (IF McAlphabet = "full" THEN Endpoints ELSE {"execute"}), s \in {StDet, StStr}}
          \cup {[ep |-> e, tx |-> t, stmts |-> <<StPlain, F("failcons")>>] :
                   e \in (IF McAlphabet = "full" THEN {"execute", "request"} ELSE {"request"}), t \in BOOLEAN}
          \cup {[ep |-> "request", tx |-> TRUE, stmts |-> <<Q, StGap>>]}

(* random programs: every dimension decoded from integers drawn once per statement *)
Pick(q, z) == q[(z % Len(q)) + 1]
GapW  == <<"none", "none", "none", "none", "none", "none", "space", "newline", "comment">>
NestW == <<"bare", "bare", "bare", "bare", "bare", "bare", "bare", "bare", "paren", "call", "arith", "cast", "case", "isnull",
           "between", "subq", "string", "ident">>
CaseW == <<"lower", "lower", "upper", "mixed">>
GenSite(z) == LET z0 == z \div 4
                  ffm == IF z % 4 = 0 THEN Pick(FnFormDet, z0) ELSE Pick(FnFormNonDet, z0)
                  z1 == z0 \div 64
                  z2 == z1 \div Len(CaseW)
                  z3 == z2 \div Len(GapW) IN
              MkSite(ffm, Pick(CaseW, z1), Pick(GapW, z2), Pick(NestW, z3))
GenStmt(ep, z, y) ==
  LET kind == z % 10
      z1 == z \div 10
      ts == Pick(WSlots, z1)
      z2 == z1 \div Len(WSlots)
      par == Pick(ParKinds, z2)
      z3 == z2 \div Len(ParKinds)
      s0 == IF z3 % 5 = 0 THEN NoSite ELSE GenSite(y)
      s == IF s0.fn # "none" /\ ~Covered(ts[2], s0) THEN NoSite ELSE s0 IN
  CASE kind = 0 -> D(Pick(DdlKinds, z1))
    [] kind = 1 -> F(Pick(FailKinds, z1))
    [] kind = 2 /\ ep = "request" -> Q
    [] OTHER -> W(ts, s, par)
GenReq(zs, ys, h) ==
  LET ep == Pick(<<"execute", "execute", "queued", "request", "request">>, h)
      n == ((h \div 5) % MaxStmts) + 1
      tx == ep # "queued" /\ (h \div 50) % 3 = 0 IN
  [ep |-> ep, tx |-> tx, stmts |-> [j \in 1..n |-> GenStmt(ep, zs[j], ys[j])]]
Big == 1000000000
ASSUME MaxStmts \in 1..3

-----------------------------------------------------------------------------
VARIABLES log,       \* committed log: Seq([ep, tx, stmts: Seq([st, rw])])
          clock,
          applied,   \* path -> number of entries consumed
          db,        \* path -> Seq(cell)
          started,   \* path -> BOOLEAN
          snaps,     \* Seq([idx, db]): snapshots of the live path
          liveAt,    \* history: database of the live path after i entries
          prog, sched   \* gen mode only: the submitted requests and the order of the path actions
vars == <<log, clock, applied, db, started, snaps, liveAt, prog, sched>>

Entry(r) == [ep |-> r.ep, tx |-> r.tx,
             stmts |-> [i \in DOMAIN r.stmts |-> [st |-> r.stmts[i], rw |-> RewriteOnEndpoint[r.ep] /\ Replaced(r.stmts[i])]]]

Cell(i, j, e, t, p) ==
  [i |-> i, j |-> j,
   rnd |-> IF Residual(e) /\ e.st.site.fn \in {"random", "randomblob"} THEN p ELSE "-",
   now |-> IF Residual(e) /\ e.st.site.fn \notin {"random", "randomblob"} THEN t ELSE 0]
Effective(en) == IF en.tx /\ \E j \in DOMAIN en.stmts : en.stmts[j].st.k = "fail" THEN {}
                 ELSE {j \in DOMAIN en.stmts : en.stmts[j].st.k \in {"write", "ddl"}}
RECURSIVE Cells(_, _, _, _, _)
Cells(i, en, j, t, p) == IF j > Len(en.stmts) THEN <<>>
                         ELSE (IF j \in Effective(en) THEN <<Cell(i, j, en.stmts[j], t, p)>> ELSE <<>>) \o Cells(i, en, j + 1, t, p)
\* proc = "store": CommandProcessor.Process; "recovery": what a separate recovery interpreter would do (it does
\* not know the unified execute-query command)
ApplyEntry(d, i, t, p, proc) == IF proc = "recovery" /\ log[i].ep = "request" THEN d ELSE d \o Cells(i, log[i], 1, t, p)
RECURSIVE Replay(_, _, _, _, _, _)
Replay(d, from, to, t, p, proc) == IF from > to THEN d ELSE Replay(ApplyEntry(d, from, t, p, proc), from + 1, to, t, p, proc)

NoSnap == [idx |-> 0, db |-> <<>>]
Bases == {NoSnap} \cup {snaps[k] : k \in DOMAIN snaps}
LastSnapIdx == IF snaps = <<>> THEN 0 ELSE snaps[Len(snaps)].idx
Note(x) == IF Mode = "gen" THEN Append(sched, x) ELSE sched

Done == /\ Len(log) = MaxReq
        /\ \A p \in Paths : started[p] /\ applied[p] = Len(log)
G == Mode = "gen" => ~Done                      \* a generated behaviour ends when every path has the whole log

Init == /\ log = <<>> /\ clock = 1
        /\ applied = [p \in Paths |-> 0]
        /\ db = [p \in Paths |-> <<>>]
        /\ started = [p \in Paths |-> p \in {"live", "follower"}]
        /\ snaps = <<>> /\ liveAt = <<>> /\ prog = <<>> /\ sched = <<>>

McEntry == [r \in McReqs |-> Entry(r)]
ASSUME Mode = "mc" => \A r \in McReqs : ReqOK(r)
Submit(r, en) == /\ G
                 /\ Len(log) < MaxReq
                 /\ Mode = "gen" => ReqOK(r)
                 /\ (Mode = "gen" \/ Reduced) => applied["live"] = Len(log)       \* the HTTP client waits for the answer
                 /\ log' = Append(log, en)
                 /\ prog' = IF Mode = "gen" THEN Append(prog, r) ELSE prog
                 /\ sched' = Note([a |-> "submit", p |-> "-", i |-> Len(log) + 1])
                 /\ UNCHANGED <<clock, applied, db, started, snaps, liveAt>>

ApplyLive(p) == /\ G /\ started[p] /\ applied[p] < Len(log)
                /\ LET i == applied[p] + 1
                       d == ApplyEntry(db[p], i, clock, p, "store") IN
                   /\ db' = [db EXCEPT ![p] = d]
                   /\ applied' = [applied EXCEPT ![p] = i]
                   /\ liveAt' = IF p = "live" THEN Append(liveAt, d) ELSE liveAt
                   /\ sched' = Note([a |-> "apply", p |-> p, i |-> i])
                /\ UNCHANGED <<log, clock, started, snaps, prog>>

SnapshotAt(i) == /\ G /\ applied["live"] = i /\ i > LastSnapIdx /\ Len(snaps) < MaxSnaps
                 /\ snaps' = Append(snaps, [idx |-> i, db |-> db["live"]])
                 /\ sched' = Note([a |-> "snap", p |-> "live", i |-> i])
                 /\ UNCHANGED <<log, clock, applied, db, started, liveAt, prog>>

\* the restarted node has lost everything past the snapshot it restores (or reuses as its database file)
RestartReplay(b) == /\ G /\ ~started["restart"]
                    /\ Mode = "gen" => Len(log) = MaxReq
                    /\ started' = [started EXCEPT !["restart"] = TRUE]
                    /\ db' = [db EXCEPT !["restart"] = b.db]
                    /\ applied' = [applied EXCEPT !["restart"] = b.idx]
                    /\ sched' = Note([a |-> "restart", p |-> "restart", i |-> b.idx])
                    /\ UNCHANGED <<log, clock, snaps, liveAt, prog>>

Install(b) == /\ G /\ ~started["install"] /\ b.idx > 0
              /\ started' = [started EXCEPT !["install"] = TRUE]
              /\ db' = [db EXCEPT !["install"] = b.db]
              /\ applied' = [applied EXCEPT !["install"] = b.idx]
              /\ sched' = Note([a |-> "install", p |-> "install", i |-> b.idx])
              /\ UNCHANGED <<log, clock, snaps, liveAt, prog>>

Recover(b) == /\ G /\ ~started["recover"] /\ Len(log) > 0
              /\ Mode = "gen" => Len(log) = MaxReq
              /\ started' = [started EXCEPT !["recover"] = TRUE]
              /\ db' = [db EXCEPT !["recover"] = Replay(b.db, b.idx + 1, Len(log), clock, "recover",
                                                        IF SingleApplyPath THEN "store" ELSE "recovery")]
              /\ applied' = [applied EXCEPT !["recover"] = Len(log)]
              /\ sched' = Note([a |-> "recover", p |-> "recover", i |-> b.idx])
              /\ UNCHANGED <<log, clock, snaps, liveAt, prog>>

AdvanceClock == /\ G /\ clock < MaxClock
                /\ clock' = clock + 1
                /\ sched' = Note([a |-> "tick", p |-> "-", i |-> clock + 1])
                /\ UNCHANGED <<log, applied, db, started, snaps, liveAt, prog>>

SubmitAny == IF Mode = "mc" THEN \E r \in McReqs : Submit(r, McEntry[r])
             ELSE \E zs \in {<<RandomElement(0..Big), RandomElement(0..Big), RandomElement(0..Big)>>} :
                  \E ys \in {<<RandomElement(0..Big), RandomElement(0..Big), RandomElement(0..Big)>>} :
                  \E h \in {RandomElement(0..Big)} : LET r == GenReq(zs, ys, h) IN Submit(r, Entry(r))

Next == \/ SubmitAny
        \/ \E p \in Paths : ApplyLive(p)
        \/ \E i \in 0..MaxReq : SnapshotAt(i)
        \/ \E b \in Bases : RestartReplay(b)
        \/ \E b \in Bases : Install(b)
        \/ \E b \in Bases : Recover(b)
        \/ AdvanceClock
Spec == Init /\ [][Next]_vars

-----------------------------------------------------------------------------
LiveDB(i) == IF i = 0 THEN <<>> ELSE liveAt[i]
(* all paths that consumed the same prefix have equal databases *)
Converge == /\ \A p \in Paths : (started[p] /\ applied[p] <= Len(liveAt)) => db[p] = LiveDB(applied[p])
            /\ \A p, q \in Paths : (started[p] /\ started[q] /\ applied[p] = applied[q]) => db[p] = db[q]
(* "a statement's effect is a function of its replicated text": nothing non-deterministic is left in the log *)
LogDeterministic == \A i \in DOMAIN log : \A j \in DOMAIN log[i].stmts : ~Residual(log[i].stmts[j])
(* the rewrite is applied exactly where the property demands it *)
RewrittenIffMust == \A i \in DOMAIN log : \A j \in DOMAIN log[i].stmts : log[i].stmts[j].rw <=> Must(log[i].stmts[j].st)

McView == <<log, clock, applied, db, started, snaps, liveAt>>

StmtJson(st) == [k |-> st.k, tpl |-> st.tpl, slot |-> st.slot, fn |-> st.site.fn, form |-> st.site.form, mod |-> st.site.mod,
                 cs |-> st.site.cs, gap |-> st.site.gap, nest |-> st.site.nest, par |-> st.par, sub |-> st.sub,
                 must |-> Must(st), design |-> Replaced(st)]
Emit == (Mode = "gen" /\ Done) =>
          PrintT(<<"@@", ToJson([prog |-> [i \in DOMAIN prog |-> [ep |-> prog[i].ep, tx |-> prog[i].tx,
                                                                   stmts |-> [j \in DOMAIN prog[i].stmts |-> StmtJson(prog[i].stmts[j])]]],
                                 sched |-> sched])>>)
=============================================================================
