SPECIFICATION Spec
CONSTANTS
  MaxS = 3
  EofWithDataSeen = TRUE
  LastWhenFinished = TRUE
  StreamIdCheck = TRUE
  SeqCheck = TRUE
INVARIANTS SenderOK Reassembled NoWrongContent
