SPECIFICATION Spec
CONSTANTS
  Int64Exact = TRUE
  HexLiteralToBlob = TRUE
  ByteArrayToBlob = TRUE
  BlobStaysBlob = TRUE
  TextStaysText = FALSE
INVARIANTS TypeFaithful
