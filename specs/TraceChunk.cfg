SPECIFICATION TSpec
CONSTANTS
  MaxS = 3
  EofWithDataSeen = FALSE
  LastWhenFinished = FALSE
  StreamIdCheck = TRUE
  SeqCheck = TRUE
CONSTRAINT HW
POSTCONDITION Accepted
CHECK_DEADLOCK FALSE
