------------------------------- MODULE Cluster -------------------------------
(* rqlite cluster: an abstract Raft (gossip style: terms, elections by quorum, replication,      *)
(* truncation, commit, leader lease step-down) and, on top of it, the rqlite node layer of       *)
(* store/store.go: writes through the log, strong reads through the log, the multi-step          *)
(* linearizable read (waitForLinearizableRead + Query), FSM apply where only COMMAND entries     *)
(* reach rqlite's FSM (hashicorp/raft runFSM), and the fsmTarget progress signal.                *)
(*                                                                                               *)
(* Entry kinds: "N" leader no-op, "W" execute, "Q" strong query, "C" configuration change,       *)
(*              "B" barrier.  W and Q are commands (FSM.Apply); C reaches the FSM only through    *)
(*              StoreConfiguration; B and N never reach it.                                      *)
(*                                                                                               *)
(* Node \ Voter are read replicas (non-voters): they receive entries and snapshots and apply    *)
(* them, take reads (a linearizable or strong read is refused there: not leader), never vote.    *)
(*                                                                                               *)
(* Switches (TRUE = the design the properties need):                                             *)
(*   UpgradeStrong    first linearizable read in a term is upgraded to a strong read (srt check) *)
(*   VerifyQuorum     leadership is confirmed with a quorum after the read index is taken         *)
(*   RecheckTerm      the term is compared with the term at invocation after the verification     *)
(*   StrongThroughLog a strong read is an entry in the log (not a local read on a leader)         *)
(*   SignalConfig     FSM progress is signalled for configuration entries (StoreConfiguration)    *)
(*   SignalBarrier    FSM progress is signalled when a barrier completes                          *)
(*                                                                                               *)
(* Log compaction (MaxSnaps > 0): a node snapshots its database at its FSM position and discards *)
(* the log up to there (TakeSnapshot); a leader that no longer has the entry a follower needs    *)
(* sends the snapshot instead (InstallSnapshot: the follower's database is REPLACED, its FSM      *)
(* position and fsmTarget move to the snapshot index); a restart starts from the snapshot.       *)
(* `log` stays the full sequence as a ghost; what a node can still SEND is log above snapIdx.     *)
(*   SnapAtApplied      the snapshot is labelled with the FSM position (not the commit index)     *)
(*   InstallReplacesDb  installing a snapshot replaces the database (not: keeps it, moves index)  *)
(*   SignalRestore      installing a snapshot signals fsmTarget at the snapshot index             *)
EXTENDS Naturals, Sequences, FiniteSets, TLC, RqRead

CONSTANTS Node, MaxTerm, MaxLog, NonCmdKinds,
          Voter,         \* the voting members; Node \ Voter are read replicas: they replicate and apply, never vote or lead
          MaxRestarts,   \* node restarts explored (volatile state lost: role, commit index, FSM position, strongReadTerm)
          WarmStart,     \* start from the (reachable) state "stable leader in term 1 that has served a strong read"
          StrongThroughLog, SignalConfig, SignalBarrier,   \* + UpgradeStrong, VerifyQuorum, RecheckTerm of RqRead
          MaxSnaps,      \* snapshots (with log truncation) explored
          SnapAtApplied, InstallReplacesDb, SignalRestore

VARIABLES role,        \* [Node -> {"F","L"}]
          term,        \* [Node -> Nat]
          log,         \* [Node -> Seq([term, kind])]
          commitIdx,   \* [Node -> Nat]  raft commit index known to the node
          lastApplied, \* [Node -> Nat]  entries handed to (and processed by) the FSM goroutine
          sig,         \* [Node -> Nat]  fsmTarget: highest index signalled as applied
          srt,         \* [Node -> Nat]  strongReadTerm
          ackedIdx,    \* highest index of a write acknowledged to a client
          rd,          \* the in-flight read (one at a time)
          nrestart,
          db,          \* [Node -> SUBSET Nat]  the database: indexes of the writes it contains
          snapIdx,     \* [Node -> Nat]  index the node's newest snapshot is labelled with (log at or below is gone)
          snapDb,      \* [Node -> SUBSET Nat]  the database inside that snapshot
          nsnap

vars == <<role, term, log, commitIdx, lastApplied, sig, srt, ackedIdx, rd, nrestart, db, snapIdx, snapDb, nsnap>>
snapvars == <<db, snapIdx, snapDb, nsnap>>

ASSUME Voter \subseteq Node
Quorums == {Q \in SUBSET Voter : Cardinality(Q) * 2 > Cardinality(Voter)}
LastTerm(l) == IF Len(l) = 0 THEN 0 ELSE l[Len(l)].term
IsCmd(e) == e.kind \in {"W", "Q"}
Signalled(e) == IsCmd(e) \/ (e.kind = "C" /\ SignalConfig) \/ (e.kind = "B" /\ SignalBarrier)
Max(a, b) == IF a > b THEN a ELSE b
Min(a, b) == IF a < b THEN a ELSE b

(* the read protocol's decisions LrCheck / LrTermOK / LrMayServe come from RqRead *)

NoRead == [pc |-> "idle", node |-> CHOOSE n \in Node : TRUE, rterm |-> 0, ridx |-> 0, minIdx |-> 0, served |-> 0, lvl |-> "lin", seen |-> {}]

ColdInit == /\ role = [n \in Node |-> "F"] /\ term = [n \in Node |-> 0]
            /\ log = [n \in Node |-> <<>>] /\ commitIdx = [n \in Node |-> 0]
            /\ lastApplied = [n \in Node |-> 0] /\ sig = [n \in Node |-> 0]
            /\ srt = [n \in Node |-> 0] /\ ackedIdx = 0 /\ rd = NoRead /\ nrestart = 0
            /\ db = [n \in Node |-> {}] /\ snapIdx = [n \in Node |-> 0] /\ snapDb = [n \in Node |-> {}] /\ nsnap = 0
(* reachable from ColdInit: ld elected in term 1, no-op and one strong read replicated, committed and applied *)
WarmInit == \E ld \in Voter :
            /\ role = [n \in Node |-> IF n = ld THEN "L" ELSE "F"] /\ term = [n \in Node |-> 1]
            /\ log = [n \in Node |-> <<[term |-> 1, kind |-> "N"], [term |-> 1, kind |-> "Q"]>>]
            /\ commitIdx = [n \in Node |-> 2] /\ lastApplied = [n \in Node |-> 2] /\ sig = [n \in Node |-> 2]
            /\ srt = [n \in Node |-> IF n = ld THEN 1 ELSE 0] /\ ackedIdx = 0 /\ rd = NoRead /\ nrestart = 0
            /\ db = [n \in Node |-> {}] /\ snapIdx = [n \in Node |-> 0] /\ snapDb = [n \in Node |-> {}] /\ nsnap = 0
Init == IF WarmStart THEN WarmInit ELSE ColdInit

(* ------------------------------ abstract Raft ------------------------------ *)
UpToDate(i, j) == \/ LastTerm(log[i]) > LastTerm(log[j])
                  \/ LastTerm(log[i]) = LastTerm(log[j]) /\ Len(log[i]) >= Len(log[j])

BecomeLeader(n, Q) ==
  /\ n \in Q /\ term[n] < MaxTerm
  /\ \A q \in Q : term[q] <= term[n] /\ UpToDate(n, q)
  /\ Len(log[n]) < MaxLog
  /\ LET t == term[n] + 1 IN
     /\ term' = [m \in Node |-> IF m \in Q THEN t ELSE term[m]]
     /\ role' = [m \in Node |-> IF m = n THEN "L" ELSE IF m \in Q THEN "F" ELSE role[m]]
     /\ log' = [log EXCEPT ![n] = Append(@, [term |-> t, kind |-> "N"])]
  /\ UNCHANGED <<commitIdx, lastApplied, sig, srt, ackedIdx, rd, nrestart, snapvars>>

StepDown(n) == /\ role[n] = "L" /\ role' = [role EXCEPT ![n] = "F"]   \* lease lost, same term
               /\ UNCHANGED <<term, log, commitIdx, lastApplied, sig, srt, ackedIdx, rd, nrestart, snapvars>>

UpdateTerm(i, j) == /\ term[j] > term[i]
                    /\ term' = [term EXCEPT ![i] = term[j]]
                    /\ role' = [role EXCEPT ![i] = "F"]
                    /\ UNCHANGED <<log, commitIdx, lastApplied, sig, srt, ackedIdx, rd, nrestart, snapvars>>

GetEntry(i, j) ==
  /\ role[j] = "L" /\ i # j /\ term[i] = term[j]
  /\ Len(log[i]) < Len(log[j])
  /\ Len(log[i]) >= snapIdx[j]            \* below that the leader has only its snapshot: InstallSnapshot
  /\ LET k == Len(log[i]) IN
       /\ (IF k = 0 THEN TRUE ELSE log[i][k] = log[j][k])
       /\ log' = [log EXCEPT ![i] = Append(@, log[j][k+1])]
  /\ UNCHANGED <<role, term, commitIdx, lastApplied, sig, srt, ackedIdx, rd, nrestart, snapvars>>

Truncate(i, j) ==
  /\ role[j] = "L" /\ i # j /\ term[i] = term[j]
  /\ Len(log[i]) > 0
  /\ LET k == Len(log[i]) IN (IF k > Len(log[j]) THEN TRUE ELSE log[i][k] # log[j][k])
  /\ Len(log[i]) > commitIdx[i]
  /\ log' = [log EXCEPT ![i] = SubSeq(@, 1, Len(@) - 1)]
  /\ UNCHANGED <<role, term, commitIdx, lastApplied, sig, srt, ackedIdx, rd, nrestart, snapvars>>

Agree(n, k) == {m \in Node : Len(log[m]) >= k /\ log[m][k] = log[n][k] /\ term[m] = term[n]}
AdvanceCommit(n) ==
  /\ role[n] = "L"
  /\ \E k \in (commitIdx[n]+1)..Len(log[n]) :
       /\ log[n][k].term = term[n]
       /\ (Agree(n, k) \cap Voter) \in Quorums
       /\ commitIdx' = [commitIdx EXCEPT ![n] = k]
  /\ UNCHANGED <<role, term, log, lastApplied, sig, srt, ackedIdx, rd, nrestart, snapvars>>

LearnCommit(i, j) ==
  /\ role[j] = "L" /\ term[i] = term[j] /\ commitIdx[j] > commitIdx[i]
  /\ LET k == Min(commitIdx[j], Len(log[i])) IN
       /\ k > commitIdx[i] /\ log[i][k] = log[j][k]
       /\ commitIdx' = [commitIdx EXCEPT ![i] = k]
  /\ UNCHANGED <<role, term, log, lastApplied, sig, srt, ackedIdx, rd, nrestart, snapvars>>

(* Raft hands entry lastApplied+1 to the FSM goroutine; only signalled kinds move fsmTarget *)
ApplyOne(n) ==
  /\ lastApplied[n] < commitIdx[n]
  /\ LET k == lastApplied[n] + 1 IN
       /\ lastApplied' = [lastApplied EXCEPT ![n] = k]
       /\ sig' = [sig EXCEPT ![n] = IF Signalled(log[n][k]) THEN k ELSE @]
       /\ db' = [db EXCEPT ![n] = IF log[n][k].kind = "W" THEN @ \cup {k} ELSE @]
  /\ UNCHANGED <<role, term, log, commitIdx, srt, ackedIdx, rd, nrestart, snapIdx, snapDb, nsnap>>

(* process restart: the log is durable; role, commit index, FSM position, fsmTarget and strongReadTerm are not *)
(* (Store.Open resets them: fsm.reset); an in-flight read on that node is gone                              *)
Restart(n) ==
  /\ nrestart < MaxRestarts
  /\ role' = [role EXCEPT ![n] = "F"] /\ commitIdx' = [commitIdx EXCEPT ![n] = snapIdx[n]]
  /\ lastApplied' = [lastApplied EXCEPT ![n] = snapIdx[n]] /\ db' = [db EXCEPT ![n] = snapDb[n]]
  /\ sig' = [sig EXCEPT ![n] = 0] /\ srt' = [srt EXCEPT ![n] = 0]
  /\ rd' = IF rd.pc # "idle" /\ rd.node = n THEN NoRead ELSE rd
  /\ nrestart' = nrestart + 1
  /\ UNCHANGED <<term, log, ackedIdx, snapIdx, snapDb, nsnap>>

(* ------------------------------ log compaction ------------------------------ *)
(* Store.Snapshot + raft's log truncation: the database as of the FSM position, labelled with that index *)
TakeSnapshot(n) ==
  /\ nsnap < MaxSnaps /\ lastApplied[n] > snapIdx[n]
  /\ snapIdx' = [snapIdx EXCEPT ![n] = IF SnapAtApplied THEN lastApplied[n] ELSE commitIdx[n]]
  /\ snapDb' = [snapDb EXCEPT ![n] = db[n]]
  /\ nsnap' = nsnap + 1
  /\ UNCHANGED <<role, term, log, commitIdx, lastApplied, sig, srt, ackedIdx, rd, nrestart, db>>

(* the leader no longer has what follower i needs next: raft streams the leader's snapshot, the follower's *)
(* FSM restores it (Store.fsmRestore: swap the database, fsmIdx / fsmTarget := snapshot index)             *)
InstallSnapshot(i, j) ==
  /\ role[j] = "L" /\ i # j /\ term[i] = term[j]
  /\ Len(log[i]) < snapIdx[j]
  /\ (Len(log[i]) > 0 => Len(log[i]) <= commitIdx[i] \/ log[i][Len(log[i])] = log[j][Len(log[i])])
  /\ log' = [log EXCEPT ![i] = SubSeq(log[j], 1, snapIdx[j])]
  /\ snapIdx' = [snapIdx EXCEPT ![i] = snapIdx[j]] /\ snapDb' = [snapDb EXCEPT ![i] = snapDb[j]]
  /\ commitIdx' = [commitIdx EXCEPT ![i] = Max(@, snapIdx[j])]
  /\ lastApplied' = [lastApplied EXCEPT ![i] = snapIdx[j]]
  /\ db' = [db EXCEPT ![i] = IF InstallReplacesDb THEN snapDb[j] ELSE @]
  /\ sig' = [sig EXCEPT ![i] = IF SignalRestore THEN Max(@, snapIdx[j]) ELSE @]
  /\ UNCHANGED <<role, term, srt, ackedIdx, rd, nrestart, nsnap>>

(* ------------------------------ rqlite layer ------------------------------ *)
ClientWrite(n) ==
  /\ role[n] = "L" /\ Len(log[n]) < MaxLog
  /\ log' = [log EXCEPT ![n] = Append(@, [term |-> term[n], kind |-> "W"])]
  /\ UNCHANGED <<role, term, commitIdx, lastApplied, sig, srt, ackedIdx, rd, nrestart, snapvars>>

NonCmdEntry(n, kd) ==   \* join / remove (C) or Store.Barrier (B)
  /\ role[n] = "L" /\ Len(log[n]) < MaxLog
  /\ log' = [log EXCEPT ![n] = Append(@, [term |-> term[n], kind |-> kd])]
  /\ UNCHANGED <<role, term, commitIdx, lastApplied, sig, srt, ackedIdx, rd, nrestart, snapvars>>

(* a write is acknowledged by the leader that appended it, once its FSM applied it *)
AckWrite(n) ==
  /\ role[n] = "L"
  /\ \E k \in 1..lastApplied[n] :
       /\ log[n][k].kind = "W" /\ log[n][k].term = term[n] /\ k > ackedIdx
       /\ ackedIdx' = k
  /\ UNCHANGED <<role, term, log, commitIdx, lastApplied, sig, srt, rd, nrestart, snapvars>>

(* ---- Query(level): readTerm := CurrentTerm(), then the level's path ---- *)
RdInvoke(n, lvl) ==
  /\ rd.pc = "idle"
  /\ rd' = [NoRead EXCEPT !.pc = IF lvl = "lin" THEN "chk" ELSE "strong", !.node = n, !.rterm = term[n],
                          !.minIdx = ackedIdx, !.lvl = lvl]
  /\ UNCHANGED <<role, term, log, commitIdx, lastApplied, sig, srt, ackedIdx, nrestart, snapvars>>

(* waitForLinearizableRead: srt check, leader check, readIndex := CommitIndex() *)
RdCheck ==
  /\ rd.pc = "chk"
  /\ LET n == rd.node
         d == LrCheck(rd.rterm, srt[n], role[n] = "L") IN
       rd' = IF d = "upgrade" THEN [rd EXCEPT !.pc = "strong"]
             ELSE IF d = "abort" THEN NoRead
             ELSE [rd EXCEPT !.pc = "verify", !.ridx = commitIdx[n]]
  /\ UNCHANGED <<role, term, log, commitIdx, lastApplied, sig, srt, ackedIdx, nrestart, snapvars>>

(* strong read: State()==Leader, raft.Apply(Q) *)
RdStrongSubmit ==
  /\ rd.pc = "strong"
  /\ LET n == rd.node IN
       IF role[n] # "L" \/ Len(log[n]) >= MaxLog THEN rd' = NoRead /\ UNCHANGED log
       ELSE IF StrongThroughLog
            THEN /\ log' = [log EXCEPT ![n] = Append(@, [term |-> term[n], kind |-> "Q"])]
                 /\ rd' = [rd EXCEPT !.pc = "swait", !.ridx = Len(log[n]) + 1]
            ELSE /\ rd' = [rd EXCEPT !.pc = "done", !.served = lastApplied[n], !.seen = db[n]] /\ UNCHANGED log
  /\ UNCHANGED <<role, term, commitIdx, lastApplied, sig, srt, ackedIdx, nrestart, snapvars>>

RdStrongDone ==
  /\ rd.pc = "swait"
  /\ LET n == rd.node IN
       \/ /\ role[n] = "L" /\ lastApplied[n] >= rd.ridx /\ Len(log[n]) >= rd.ridx
          /\ log[n][rd.ridx].kind = "Q" /\ log[n][rd.ridx].term = term[n]
          /\ srt' = [srt EXCEPT ![n] = rd.rterm]          \* strongReadTerm.Store(readTerm)
          /\ rd' = [rd EXCEPT !.pc = "done", !.served = rd.ridx, !.seen = db[n]]
       \/ /\ role[n] # "L" /\ rd' = NoRead /\ UNCHANGED srt  \* ErrNotLeader / leadership lost
  /\ UNCHANGED <<role, term, log, commitIdx, lastApplied, sig, ackedIdx, nrestart, snapvars>>

(* VerifyLeader(): a quorum still follows n *)
RdVerify(Q) ==
  /\ rd.pc = "verify"
  /\ LET n == rd.node IN
       IF ~VerifyQuorum THEN rd' = [rd EXCEPT !.pc = "term"]
       ELSE \/ /\ n \in Q /\ role[n] = "L" /\ \A q \in Q : term[q] <= term[n]
               /\ rd' = [rd EXCEPT !.pc = "term"]
            \/ /\ role[n] # "L" /\ rd' = NoRead
  /\ UNCHANGED <<role, term, log, commitIdx, lastApplied, sig, srt, ackedIdx, nrestart, snapvars>>

RdTerm ==
  /\ rd.pc = "term"
  /\ rd' = IF LrTermOK(rd.rterm, term[rd.node]) THEN [rd EXCEPT !.pc = "wait"] ELSE NoRead
  /\ UNCHANGED <<role, term, log, commitIdx, lastApplied, sig, srt, ackedIdx, nrestart, snapvars>>

(* fsmTarget.Subscribe(readIndex) fires; the read is then served from the local database *)
RdServe ==
  /\ rd.pc = "wait"
  /\ LrMayServe(sig[rd.node], rd.ridx)
  /\ rd' = [rd EXCEPT !.pc = "done", !.served = lastApplied[rd.node], !.seen = db[rd.node]]
  /\ UNCHANGED <<role, term, log, commitIdx, lastApplied, sig, srt, ackedIdx, nrestart, snapvars>>

RdFinish == /\ rd.pc = "done" /\ rd' = NoRead
            /\ UNCHANGED <<role, term, log, commitIdx, lastApplied, sig, srt, ackedIdx, nrestart, snapvars>>

Next == \/ \E n \in Node, Q \in Quorums : BecomeLeader(n, Q)
        \/ \E n \in Node : Restart(n) \/ StepDown(n) \/ AdvanceCommit(n) \/ ApplyOne(n) \/ ClientWrite(n) \/ AckWrite(n)
        \/ \E n \in Node, kd \in NonCmdKinds : NonCmdEntry(n, kd)
        \/ \E n \in Node, lv \in {"lin", "strong"} : RdInvoke(n, lv)
        \/ \E i, j \in Node : UpdateTerm(i, j) \/ GetEntry(i, j) \/ Truncate(i, j) \/ LearnCommit(i, j) \/ InstallSnapshot(i, j)
        \/ \E n \in Node : TakeSnapshot(n)
        \/ RdCheck \/ RdStrongSubmit \/ RdStrongDone \/ RdTerm \/ RdServe \/ RdFinish
        \/ \E Q \in Quorums : RdVerify(Q)
Spec == Init /\ [][Next]_vars

(* ------------------------------ properties ------------------------------ *)
(* Raft environment sanity *)
StateMachineSafety == \A i, j \in Node : \A k \in 1..Min(commitIdx[i], commitIdx[j]) :
                         k <= Len(log[i]) /\ k <= Len(log[j]) => log[i][k] = log[j][k]
ReplicaNeverLeads == \A n \in Node \ Voter : role[n] = "F"
OneLeaderPerTerm == \A i, j \in Node : role[i] = "L" /\ role[j] = "L" /\ term[i] = term[j] => i = j
(* C02: a completed linearizable/strong read reflects every write acknowledged before it began *)
ReadLin == rd.pc = "done" => rd.served >= rd.minIdx
(* C38: a read waiting on a node whose FSM has processed everything up to the read index can proceed *)
NoStuckRead == (rd.pc = "wait" /\ lastApplied[rd.node] >= rd.ridx) => sig[rd.node] >= rd.ridx
(* C16: what a served linearizable read has been through *)
ServedAfterProtocol == (rd.pc = "done" /\ rd.lvl = "lin" /\ rd.ridx > 0 /\ UpgradeStrong /\ RecheckTerm) =>
                          lastApplied[rd.node] >= rd.ridx
(* the database of every node is exactly the writes of the committed log up to its FSM position -- through *)
(* snapshots taken, installed and restarted from                                                           *)
WritesUpTo(n, k) == {x \in 1..k : x <= Len(log[n]) /\ log[n][x].kind = "W"}
DbIsLogPrefix == \A n \in Node : db[n] = WritesUpTo(n, lastApplied[n])
SnapshotIsLogPrefix == \A n \in Node : snapIdx[n] <= commitIdx[n] /\ snapDb[n] = WritesUpTo(n, snapIdx[n])
(* C02 on contents: a completed linearizable/strong read saw every write acknowledged before it began *)
ReadSeesAcked == rd.pc = "done" => WritesUpTo(rd.node, rd.minIdx) \subseteq rd.seen
=============================================================================
