------------------------------- MODULE Cluster -------------------------------
(* rqlite cluster: an abstract Raft (gossip style: terms, elections by quorum, replication,      *)
(* truncation, commit, leader lease step-down) and, on top of it, the rqlite node layer of       *)
(* store/store.go: writes through the log, strong reads through the log, the multi-step          *)
(* linearizable read (waitForLinearizableRead + Query), FSM apply where only COMMAND entries     *)
(* reach rqlite's FSM (hashicorp/raft runFSM), and the fsmTarget progress signal.                *)
(*                                                                                               *)
(* Entry kinds: "N" leader no-op, "W" execute, "Q" strong query, "C" configuration change,       *)
(*              "B" barrier.  W and Q are commands (FSM.Apply); C reaches the FSM only through    *)
(*              StoreConfiguration; B and N never reach it.                                      *)
(*                                                                                               *)
(* Switches (TRUE = the design the properties need):                                             *)
(*   UpgradeStrong    first linearizable read in a term is upgraded to a strong read (srt check) *)
(*   VerifyQuorum     leadership is confirmed with a quorum after the read index is taken         *)
(*   RecheckTerm      the term is compared with the term at invocation after the verification     *)
(*   StrongThroughLog a strong read is an entry in the log (not a local read on a leader)         *)
(*   SignalConfig     FSM progress is signalled for configuration entries (StoreConfiguration)    *)
(*   SignalBarrier    FSM progress is signalled when a barrier completes                          *)
EXTENDS Naturals, Sequences, FiniteSets, TLC, RqRead

CONSTANTS Node, MaxTerm, MaxLog, NonCmdKinds,
          MaxRestarts,   \* node restarts explored (volatile state lost: role, commit index, FSM position, strongReadTerm)
          WarmStart,     \* start from the (reachable) state "stable leader in term 1 that has served a strong read"
          StrongThroughLog, SignalConfig, SignalBarrier    \* + UpgradeStrong, VerifyQuorum, RecheckTerm of RqRead

VARIABLES role,        \* [Node -> {"F","L"}]
          term,        \* [Node -> Nat]
          log,         \* [Node -> Seq([term, kind])]
          commitIdx,   \* [Node -> Nat]  raft commit index known to the node
          lastApplied, \* [Node -> Nat]  entries handed to (and processed by) the FSM goroutine
          sig,         \* [Node -> Nat]  fsmTarget: highest index signalled as applied
          srt,         \* [Node -> Nat]  strongReadTerm
          ackedIdx,    \* highest index of a write acknowledged to a client
          rd,          \* the in-flight read (one at a time)
          nrestart

vars == <<role, term, log, commitIdx, lastApplied, sig, srt, ackedIdx, rd, nrestart>>

Quorums == {Q \in SUBSET Node : Cardinality(Q) * 2 > Cardinality(Node)}
LastTerm(l) == IF Len(l) = 0 THEN 0 ELSE l[Len(l)].term
IsCmd(e) == e.kind \in {"W", "Q"}
Signalled(e) == IsCmd(e) \/ (e.kind = "C" /\ SignalConfig) \/ (e.kind = "B" /\ SignalBarrier)
Max(a, b) == IF a > b THEN a ELSE b
Min(a, b) == IF a < b THEN a ELSE b

(* the read protocol's decisions LrCheck / LrTermOK / LrMayServe come from RqRead *)

NoRead == [pc |-> "idle", node |-> CHOOSE n \in Node : TRUE, rterm |-> 0, ridx |-> 0, minIdx |-> 0, served |-> 0, lvl |-> "lin"]

ColdInit == /\ role = [n \in Node |-> "F"] /\ term = [n \in Node |-> 0]
            /\ log = [n \in Node |-> <<>>] /\ commitIdx = [n \in Node |-> 0]
            /\ lastApplied = [n \in Node |-> 0] /\ sig = [n \in Node |-> 0]
            /\ srt = [n \in Node |-> 0] /\ ackedIdx = 0 /\ rd = NoRead /\ nrestart = 0
(* reachable from ColdInit: ld elected in term 1, no-op and one strong read replicated, committed and applied *)
WarmInit == \E ld \in Node :
            /\ role = [n \in Node |-> IF n = ld THEN "L" ELSE "F"] /\ term = [n \in Node |-> 1]
            /\ log = [n \in Node |-> <<[term |-> 1, kind |-> "N"], [term |-> 1, kind |-> "Q"]>>]
            /\ commitIdx = [n \in Node |-> 2] /\ lastApplied = [n \in Node |-> 2] /\ sig = [n \in Node |-> 2]
            /\ srt = [n \in Node |-> IF n = ld THEN 1 ELSE 0] /\ ackedIdx = 0 /\ rd = NoRead /\ nrestart = 0
Init == IF WarmStart THEN WarmInit ELSE ColdInit

(* ------------------------------ abstract Raft ------------------------------ *)
UpToDate(i, j) == \/ LastTerm(log[i]) > LastTerm(log[j])
                  \/ LastTerm(log[i]) = LastTerm(log[j]) /\ Len(log[i]) >= Len(log[j])

BecomeLeader(n, Q) ==
  /\ n \in Q /\ term[n] < MaxTerm
  /\ \A q \in Q : term[q] <= term[n] /\ UpToDate(n, q)
  /\ Len(log[n]) < MaxLog
  /\ LET t == term[n] + 1 IN
     /\ term' = [m \in Node |-> IF m \in Q THEN t ELSE term[m]]
     /\ role' = [m \in Node |-> IF m = n THEN "L" ELSE IF m \in Q THEN "F" ELSE role[m]]
     /\ log' = [log EXCEPT ![n] = Append(@, [term |-> t, kind |-> "N"])]
  /\ UNCHANGED <<commitIdx, lastApplied, sig, srt, ackedIdx, rd, nrestart>>

StepDown(n) == /\ role[n] = "L" /\ role' = [role EXCEPT ![n] = "F"]   \* lease lost, same term
               /\ UNCHANGED <<term, log, commitIdx, lastApplied, sig, srt, ackedIdx, rd, nrestart>>

UpdateTerm(i, j) == /\ term[j] > term[i]
                    /\ term' = [term EXCEPT ![i] = term[j]]
                    /\ role' = [role EXCEPT ![i] = "F"]
                    /\ UNCHANGED <<log, commitIdx, lastApplied, sig, srt, ackedIdx, rd, nrestart>>

GetEntry(i, j) ==
  /\ role[j] = "L" /\ i # j /\ term[i] = term[j]
  /\ Len(log[i]) < Len(log[j])
  /\ LET k == Len(log[i]) IN
       /\ (IF k = 0 THEN TRUE ELSE log[i][k] = log[j][k])
       /\ log' = [log EXCEPT ![i] = Append(@, log[j][k+1])]
  /\ UNCHANGED <<role, term, commitIdx, lastApplied, sig, srt, ackedIdx, rd, nrestart>>

Truncate(i, j) ==
  /\ role[j] = "L" /\ i # j /\ term[i] = term[j]
  /\ Len(log[i]) > 0
  /\ LET k == Len(log[i]) IN (IF k > Len(log[j]) THEN TRUE ELSE log[i][k] # log[j][k])
  /\ Len(log[i]) > commitIdx[i]
  /\ log' = [log EXCEPT ![i] = SubSeq(@, 1, Len(@) - 1)]
  /\ UNCHANGED <<role, term, commitIdx, lastApplied, sig, srt, ackedIdx, rd, nrestart>>

Agree(n, k) == {m \in Node : Len(log[m]) >= k /\ log[m][k] = log[n][k] /\ term[m] = term[n]}
AdvanceCommit(n) ==
  /\ role[n] = "L"
  /\ \E k \in (commitIdx[n]+1)..Len(log[n]) :
       /\ log[n][k].term = term[n]
       /\ Agree(n, k) \in Quorums
       /\ commitIdx' = [commitIdx EXCEPT ![n] = k]
  /\ UNCHANGED <<role, term, log, lastApplied, sig, srt, ackedIdx, rd, nrestart>>

LearnCommit(i, j) ==
  /\ role[j] = "L" /\ term[i] = term[j] /\ commitIdx[j] > commitIdx[i]
  /\ LET k == Min(commitIdx[j], Len(log[i])) IN
       /\ k > commitIdx[i] /\ log[i][k] = log[j][k]
       /\ commitIdx' = [commitIdx EXCEPT ![i] = k]
  /\ UNCHANGED <<role, term, log, lastApplied, sig, srt, ackedIdx, rd, nrestart>>

(* Raft hands entry lastApplied+1 to the FSM goroutine; only signalled kinds move fsmTarget *)
ApplyOne(n) ==
  /\ lastApplied[n] < commitIdx[n]
  /\ LET k == lastApplied[n] + 1 IN
       /\ lastApplied' = [lastApplied EXCEPT ![n] = k]
       /\ sig' = [sig EXCEPT ![n] = IF Signalled(log[n][k]) THEN k ELSE @]
  /\ UNCHANGED <<role, term, log, commitIdx, srt, ackedIdx, rd, nrestart>>

(* process restart: the log is durable; role, commit index, FSM position, fsmTarget and strongReadTerm are not *)
(* (Store.Open resets them: fsm.reset); an in-flight read on that node is gone                              *)
Restart(n) ==
  /\ nrestart < MaxRestarts
  /\ role' = [role EXCEPT ![n] = "F"] /\ commitIdx' = [commitIdx EXCEPT ![n] = 0]
  /\ lastApplied' = [lastApplied EXCEPT ![n] = 0] /\ sig' = [sig EXCEPT ![n] = 0] /\ srt' = [srt EXCEPT ![n] = 0]
  /\ rd' = IF rd.pc # "idle" /\ rd.node = n THEN NoRead ELSE rd
  /\ nrestart' = nrestart + 1
  /\ UNCHANGED <<term, log, ackedIdx>>

(* ------------------------------ rqlite layer ------------------------------ *)
ClientWrite(n) ==
  /\ role[n] = "L" /\ Len(log[n]) < MaxLog
  /\ log' = [log EXCEPT ![n] = Append(@, [term |-> term[n], kind |-> "W"])]
  /\ UNCHANGED <<role, term, commitIdx, lastApplied, sig, srt, ackedIdx, rd, nrestart>>

NonCmdEntry(n, kd) ==   \* join / remove (C) or Store.Barrier (B)
  /\ role[n] = "L" /\ Len(log[n]) < MaxLog
  /\ log' = [log EXCEPT ![n] = Append(@, [term |-> term[n], kind |-> kd])]
  /\ UNCHANGED <<role, term, commitIdx, lastApplied, sig, srt, ackedIdx, rd, nrestart>>

(* a write is acknowledged by the leader that appended it, once its FSM applied it *)
AckWrite(n) ==
  /\ role[n] = "L"
  /\ \E k \in 1..lastApplied[n] :
       /\ log[n][k].kind = "W" /\ log[n][k].term = term[n] /\ k > ackedIdx
       /\ ackedIdx' = k
  /\ UNCHANGED <<role, term, log, commitIdx, lastApplied, sig, srt, rd, nrestart>>

(* ---- Query(level): readTerm := CurrentTerm(), then the level's path ---- *)
RdInvoke(n, lvl) ==
  /\ rd.pc = "idle"
  /\ rd' = [NoRead EXCEPT !.pc = IF lvl = "lin" THEN "chk" ELSE "strong", !.node = n, !.rterm = term[n],
                          !.minIdx = ackedIdx, !.lvl = lvl]
  /\ UNCHANGED <<role, term, log, commitIdx, lastApplied, sig, srt, ackedIdx, nrestart>>

(* waitForLinearizableRead: srt check, leader check, readIndex := CommitIndex() *)
RdCheck ==
  /\ rd.pc = "chk"
  /\ LET n == rd.node
         d == LrCheck(rd.rterm, srt[n], role[n] = "L") IN
       rd' = IF d = "upgrade" THEN [rd EXCEPT !.pc = "strong"]
             ELSE IF d = "abort" THEN NoRead
             ELSE [rd EXCEPT !.pc = "verify", !.ridx = commitIdx[n]]
  /\ UNCHANGED <<role, term, log, commitIdx, lastApplied, sig, srt, ackedIdx, nrestart>>

(* strong read: State()==Leader, raft.Apply(Q) *)
RdStrongSubmit ==
  /\ rd.pc = "strong"
  /\ LET n == rd.node IN
       IF role[n] # "L" \/ Len(log[n]) >= MaxLog THEN rd' = NoRead /\ UNCHANGED log
       ELSE IF StrongThroughLog
            THEN /\ log' = [log EXCEPT ![n] = Append(@, [term |-> term[n], kind |-> "Q"])]
                 /\ rd' = [rd EXCEPT !.pc = "swait", !.ridx = Len(log[n]) + 1]
            ELSE /\ rd' = [rd EXCEPT !.pc = "done", !.served = lastApplied[n]] /\ UNCHANGED log
  /\ UNCHANGED <<role, term, commitIdx, lastApplied, sig, srt, ackedIdx, nrestart>>

RdStrongDone ==
  /\ rd.pc = "swait"
  /\ LET n == rd.node IN
       \/ /\ role[n] = "L" /\ lastApplied[n] >= rd.ridx /\ Len(log[n]) >= rd.ridx
          /\ log[n][rd.ridx].kind = "Q" /\ log[n][rd.ridx].term = term[n]
          /\ srt' = [srt EXCEPT ![n] = rd.rterm]          \* strongReadTerm.Store(readTerm)
          /\ rd' = [rd EXCEPT !.pc = "done", !.served = rd.ridx]
       \/ /\ role[n] # "L" /\ rd' = NoRead /\ UNCHANGED srt  \* ErrNotLeader / leadership lost
  /\ UNCHANGED <<role, term, log, commitIdx, lastApplied, sig, ackedIdx, nrestart>>

(* VerifyLeader(): a quorum still follows n *)
RdVerify(Q) ==
  /\ rd.pc = "verify"
  /\ LET n == rd.node IN
       IF ~VerifyQuorum THEN rd' = [rd EXCEPT !.pc = "term"]
       ELSE \/ /\ n \in Q /\ role[n] = "L" /\ \A q \in Q : term[q] <= term[n]
               /\ rd' = [rd EXCEPT !.pc = "term"]
            \/ /\ role[n] # "L" /\ rd' = NoRead
  /\ UNCHANGED <<role, term, log, commitIdx, lastApplied, sig, srt, ackedIdx, nrestart>>

RdTerm ==
  /\ rd.pc = "term"
  /\ rd' = IF LrTermOK(rd.rterm, term[rd.node]) THEN [rd EXCEPT !.pc = "wait"] ELSE NoRead
  /\ UNCHANGED <<role, term, log, commitIdx, lastApplied, sig, srt, ackedIdx, nrestart>>

(* fsmTarget.Subscribe(readIndex) fires; the read is then served from the local database *)
RdServe ==
  /\ rd.pc = "wait"
  /\ LrMayServe(sig[rd.node], rd.ridx)
  /\ rd' = [rd EXCEPT !.pc = "done", !.served = lastApplied[rd.node]]
  /\ UNCHANGED <<role, term, log, commitIdx, lastApplied, sig, srt, ackedIdx, nrestart>>

RdFinish == /\ rd.pc = "done" /\ rd' = NoRead
            /\ UNCHANGED <<role, term, log, commitIdx, lastApplied, sig, srt, ackedIdx, nrestart>>

Next == \/ \E n \in Node, Q \in Quorums : BecomeLeader(n, Q)
        \/ \E n \in Node : Restart(n) \/ StepDown(n) \/ AdvanceCommit(n) \/ ApplyOne(n) \/ ClientWrite(n) \/ AckWrite(n)
        \/ \E n \in Node, kd \in NonCmdKinds : NonCmdEntry(n, kd)
        \/ \E n \in Node, lv \in {"lin", "strong"} : RdInvoke(n, lv)
        \/ \E i, j \in Node : UpdateTerm(i, j) \/ GetEntry(i, j) \/ Truncate(i, j) \/ LearnCommit(i, j)
        \/ RdCheck \/ RdStrongSubmit \/ RdStrongDone \/ RdTerm \/ RdServe \/ RdFinish
        \/ \E Q \in Quorums : RdVerify(Q)
Spec == Init /\ [][Next]_vars

(* ------------------------------ properties ------------------------------ *)
(* Raft environment sanity *)
StateMachineSafety == \A i, j \in Node : \A k \in 1..Min(commitIdx[i], commitIdx[j]) :
                         k <= Len(log[i]) /\ k <= Len(log[j]) => log[i][k] = log[j][k]
OneLeaderPerTerm == \A i, j \in Node : role[i] = "L" /\ role[j] = "L" /\ term[i] = term[j] => i = j
(* C02: a completed linearizable/strong read reflects every write acknowledged before it began *)
ReadLin == rd.pc = "done" => rd.served >= rd.minIdx
(* C38: a read waiting on a node whose FSM has processed everything up to the read index can proceed *)
NoStuckRead == (rd.pc = "wait" /\ lastApplied[rd.node] >= rd.ridx) => sig[rd.node] >= rd.ridx
(* C16: what a served linearizable read has been through *)
ServedAfterProtocol == (rd.pc = "done" /\ rd.lvl = "lin" /\ rd.ridx > 0 /\ UpgradeStrong /\ RecheckTerm) =>
                          lastApplied[rd.node] >= rd.ridx
=============================================================================
