SPECIFICATION TSpec
CONSTANTS
  MaxSnaps = 3
  MaxCrashes = 1000000
  MaxOk = 1000000
  TmpThenRename = TRUE
  RemoveOldIfNewExists = TRUE
  PlanResume = TRUE
  ResumeToleratesDoneRename = FALSE
  Gen = FALSE
INVARIANTS ResultExact CleanFinish NoDataLoss
CONSTRAINT HW
POSTCONDITION Accepted
CHECK_DEADLOCK FALSE
