SPECIFICATION Spec
CONSTANTS
  NPages = 2
  Readers = {r1, r2}
  MaxWrites = 3
  MaxCkpt = 3
  ReaderPoints = {"idle", "check", "compact", "sqlite", "classify", "finish"}
  CanonicalPages = FALSE
  DisarmOnTruncate = TRUE
  ArmOnAllMoved = TRUE
  ResumeFromArmed = TRUE
  ResetBySalt = TRUE
  CancelOnError = TRUE
  BusyKeepsState = TRUE
SYMMETRY ReaderSym
VIEW MCView
INVARIANTS RebuildOK NoSegmentAfterFailure ResetDetected NoSpuriousReset NoRecapture ArmedSane SegWellFormed TypeOK
