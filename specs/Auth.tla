-------------------------------- MODULE Auth --------------------------------
(* rqlite auth/credential_store.go: the credentials file is a JSON array of entries  *)
(* {username?, password?, perms?}; Load builds the store; AA decides a request.        *)
(* Load and AA are transcribed step by step from the code; Rule is the documented     *)
(* declarative rule.  Design check: AA(Load(file)) = Rule(Declared(file)) for every    *)
(* file and query.  Switches (TRUE = design): FreshEntry (each entry is decoded into a *)
(* fresh value), LastWins, AllUsersFirst, NeedUsername, ExactPassword, PermOrAll.      *)
EXTENDS Naturals, Sequences, FiniteSets, TLC, Json, SequencesExt

CONSTANTS Users, Pws, Perms, QPerms, MaxLen,
          FreshEntry, LastWins, AllUsersFirst, NeedUsername, ExactPassword, PermOrAll

Absent  == "ABSENT"
NoPerms == {"ABSENT"}                      \* the perms field is omitted
Entry   == [user : Users \cup {Absent}, pw : Pws \cup {Absent}, perms : (SUBSET Perms) \cup {NoPerms}]
Files   == UNION {[1..n -> Entry] : n \in 0..MaxLen}
QUsers  == Users \cup {""}
QPws    == Pws \cup {""}
Queries == QUsers \X QPws \X QPerms

VARIABLE file
vars == <<file>>

(* --- Load: the decoder struct `cred` is reused across entries unless FreshEntry --- *)
Zero == [user |-> "", pw |-> "", perms |-> {}]
RECURSIVE LoadFrom(_, _, _, _)
LoadFrom(f, i, cred, st) ==
  IF i > Len(f) THEN st
  ELSE LET e    == f[i]
           base == IF FreshEntry THEN Zero ELSE cred
           c    == [user  |-> IF e.user = Absent THEN base.user ELSE e.user,
                    pw    |-> IF e.pw = Absent THEN base.pw ELSE e.pw,
                    perms |-> IF e.perms = NoPerms THEN base.perms ELSE e.perms]
           new  == (c.user :> [pw |-> c.pw, perms |-> c.perms])
           st2  == IF LastWins THEN new @@ st ELSE st @@ new
       IN LoadFrom(f, i + 1, c, st2)
Load(f) == LoadFrom(f, 1, Zero, <<>>)

(* --- what the file declares: every entry independent, last definition wins --- *)
RECURSIVE DeclFrom(_, _, _)
DeclFrom(f, i, st) ==
  IF i > Len(f) THEN st
  ELSE LET e == f[i]
           u == IF e.user = Absent THEN "" ELSE e.user
           new == (u :> [pw |-> IF e.pw = Absent THEN "" ELSE e.pw,
                         perms |-> IF e.perms = NoPerms THEN {} ELSE e.perms])
       IN DeclFrom(f, i + 1, new @@ st)
Declared(f) == DeclFrom(f, 1, <<>>)

(* --- AA as coded --- *)
HasPerm(st, u, p) == \/ (u \in DOMAIN st /\ p \in st[u].perms)
                     \/ ("*" \in DOMAIN st /\ p \in st["*"].perms)
HasAny(st, u, perm) == HasPerm(st, u, perm) \/ (PermOrAll /\ HasPerm(st, u, "all"))
Check(st, u, pw) == u \in DOMAIN st /\ (ExactPassword => st[u].pw = pw)
AA(st, u, pw, perm) ==
  IF AllUsersFirst /\ HasAny(st, "*", perm) THEN TRUE
  ELSE IF NeedUsername /\ u = "" THEN FALSE
  ELSE IF ~Check(st, u, pw) THEN FALSE
  ELSE HasAny(st, u, perm)

(* --- the documented rule --- *)
Grants(st, x, perm) == x \in DOMAIN st /\ (perm \in st[x].perms \/ "all" \in st[x].perms)
Rule(st, u, pw, perm) ==
  \/ Grants(st, "*", perm)
  \/ (u # "" /\ u \in DOMAIN st /\ st[u].pw = pw /\ (Grants(st, u, perm) \/ Grants(st, "*", perm)))

Init == file \in Files
Next == UNCHANGED file
Spec == Init /\ [][Next]_vars

RuleHolds == \A q \in Queries : AA(Load(file), q[1], q[2], q[3]) = Rule(Declared(file), q[1], q[2], q[3])

(* --- generator: one case per file with the expected decision for every query --- *)
QSeq == SetToSeq(Queries)
Emit == PrintT(<<"@@", ToJson([file |-> file,
                               q |-> [i \in 1..Len(QSeq) |-> <<QSeq[i][1], QSeq[i][2], QSeq[i][3]>>],
                               exp |-> [i \in 1..Len(QSeq) |-> Rule(Declared(file), QSeq[i][1], QSeq[i][2], QSeq[i][3])]])>>)
=============================================================================
