SPECIFICATION TSpec
CONSTANTS
  Page = {"1", "2"}
  MaxIdx = 1000000
  MaxSnapOps = 1000000
  MaxCrashes = 1000000
  AllowRecover = TRUE
  FingerprintGate = TRUE
  FPVouchesForVisible = TRUE
  CleanStagingOnNewBase = TRUE
  FullAfterLoad = TRUE
  RecoverDiscardsFile = TRUE
  ClearFlagOnlyIfCovers = TRUE
CONSTRAINT HW
POSTCONDITION Accepted
CHECK_DEADLOCK FALSE
