SPECIFICATION Spec
CONSTANTS
  Int64Exact = TRUE
  HexLiteralToBlob = FALSE
  ByteArrayToBlob = TRUE
  BlobStaysBlob = TRUE
  TextStaysText = TRUE
INVARIANTS TypeFaithful
