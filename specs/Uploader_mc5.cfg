SPECIFICATION Spec
CONSTANTS
  MaxIdx = 5
  MaxFail = 3
  MaxRestart = 2
  IndexBeforeProvide = TRUE
  SkipIfUnchanged = TRUE
  RecordOnlyOnSuccess = TRUE
  PublishAfterApply = TRUE
  IndexIsDBApplied = TRUE
  CheckCurrentID = TRUE
INVARIANTS TypeOK LabelCovered FailedNotRecorded NoMissedChange NoUploadWithoutChange QuiescentEqual
