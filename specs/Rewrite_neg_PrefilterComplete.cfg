SPECIFICATION Spec
CONSTANTS
  PrefilterComplete = FALSE
  ImplicitNow = TRUE
  FormatOnly = TRUE
  SkipOrderBy = TRUE
  LeaveStringsIdents = TRUE
  UntouchedIfNoSite = TRUE
  WalkEverywhere = TRUE
  OnePin = TRUE
  SiteIndependent = TRUE
  Tier = "neg"
INVARIANTS Complete
