---------------------------- MODULE TraceBackup ----------------------------
(* Trace validation for C21 against Backup.tla.                                                  *)
(* Phase C of harness/main/backup.go: writers run transfers (Backup!Apply) over HTTP against a   *)
(* live 3-node cluster while backups are requested in every format / flag combination from the   *)
(* leader, through a follower and from a follower's own database.  The trace lists               *)
(*   init      the state before the first transfer (log index idx)                               *)
(*   w*        every applied transfer in apply order with the state it produced and the log      *)
(*             index it was acknowledged with (lo = hi; lo < hi only if the acknowledgement was  *)
(*             lost and the index is only known to lie between its neighbours')                   *)
(*   bk*       one line per backup: format, flags, via, window [start, end], HTTP status,        *)
(*             whether the body was received without a transport error, whether it could be      *)
(*             restored (opened by SQLite after gunzip / replayed into an empty database), and    *)
(*             the projection of the restored database.                                           *)
(* Each w line must be Backup!Apply of its predecessor (the history is one that Backup.tla's     *)
(* Write produces); each bk line is judged with Backup.tla's CompleteP / SomeState / ConsistentP.*)
(* Phase B lines (ref, cut): the inter-node stream of a forwarded backup cut after `pos` bytes;  *)
(* Backup!CutIsError: a response with status 200, read to its end without error, whose body is   *)
(* not the complete backup, is a short file reported as success.                                  *)
(* Phase P lines (pf): the producing node failed after streaming began (fault point fired at     *)
(* the k-th arrival); Backup!FailedIsErrorP: such a request must not be answered as a backup     *)
(* (status 200 and a body that ends without a transport error).                                  *)
(* Every failed rule is recorded as <<line, name>> and printed by the postcondition.             *)
EXTENDS Backup, Json

Trace == ndJsonDeserialize("trace.ndjson")
VARIABLES l, first, nst, bad
tvars == <<l, first, nst, bad, vars>>

Ev == Trace[l]
Is(e) == l <= Len(Trace) /\ Trace[l].ev = e
Step == l' = l + 1
Flag(b, cond, name) == IF cond THEN b ELSE b \cup {<<l, name>>}

StateOf(r) == MkState(r.lo, r.hi, r.nobj, r.na, r.sa, r.nz, r.sz, r.nm, r.sk, r.sd)
H(n) == StateOf(Trace[first + n - 1])       \* state n of the current run (1 = the init line)

TInit == /\ Init /\ l = 1 /\ first = 0 /\ nst = 0 /\ bad = {} /\ TLCSet(1, 0) /\ TLCSet(2, {})

TReset == /\ Is("reset") /\ Step /\ first' = 0 /\ nst' = 0 /\ UNCHANGED <<bad, vars>>
TInitState == /\ Is("init") /\ first = 0 /\ Step /\ first' = l /\ nst' = 1
              /\ Ev.lo = Ev.hi /\ Ev.nm >= 0 /\ Ev.na > 0 /\ Ev.nz > 0
              /\ UNCHANGED <<bad, vars>>
(* a transfer: the state it produced is Apply of the previous one; indexes grow *)
TWrite == /\ Is("w") /\ first > 0 /\ l = first + nst /\ Step /\ nst' = nst + 1
          /\ LET prev == StateOf(Trace[l - 1])
             IN /\ StateOf(Ev) = Apply(prev, Ev.lo, Ev.hi, Ev.k, Ev.d)
                /\ Total(StateOf(Ev)) = Total(prev)
                /\ Ev.lo > prev.lo /\ Ev.hi >= Ev.lo /\ Ev.hi >= prev.hi
          /\ UNCHANGED <<first, bad, vars>>

ContOf(r) == [obj |-> r.nobj,
              tab |-> [a |-> IF r.na < 0 THEN Missing ELSE <<r.na, r.sa>>,
                       z |-> IF r.nz < 0 THEN Missing ELSE <<r.nz, r.sz>>,
                       m |-> IF r.nm < 0 THEN Missing ELSE <<r.nm, r.sk, r.sd>>]]

(* one backup; only the first failing rule is recorded *)
TBackup ==
  /\ Is("bk") /\ first > 0 /\ Step
  /\ LET ok == Ev.status = 200 /\ Ev.clean
         cont == ContOf(Ev)
     IN bad' = IF ~ok THEN bad                                      \* an error is always allowed
               ELSE IF ~Ev.restored THEN Flag(bad, FALSE, "unrestorable")
               ELSE IF ~CompleteP(cont, H(1)) THEN Flag(bad, FALSE, "incomplete")
               ELSE IF ~SomeState(H, nst, cont) THEN Flag(bad, FALSE, "inconsistent")
               ELSE IF Ev.moved THEN bad                             \* leadership moved: the window was read from another node
               ELSE Flag(bad, ConsistentP(H, nst, Ev.start, Ev.end, cont), "not-in-window")
  /\ UNCHANGED <<first, nst, vars>>

(* the reference (uncut) forwarded backup of phase B *)
TRef == /\ Is("ref") /\ Step
        /\ bad' = Flag(bad, (Ev.status = 200 /\ Ev.clean) => Ev.restored, "unrestorable")
        /\ UNCHANGED <<first, nst, vars>>
(* a cut stream must not be reported as a successful backup *)
TCut == /\ Is("cut") /\ Step
        /\ bad' = Flag(bad, Ev.fired => ~(Ev.status = 200 /\ Ev.clean /\ ~Ev.equal), "short-success")
        /\ UNCHANGED <<first, nst, vars>>

(* the production of a backup failed after streaming began: the answer must not be a backup *)
TProducerFail == /\ Is("pf") /\ Step
                 /\ bad' = Flag(bad, FailedIsErrorP(Ev.fired, Ev.status, Ev.clean), "success-although-producer-failed")
                 /\ UNCHANGED <<first, nst, vars>>

TNext == TReset \/ TInitState \/ TWrite \/ TBackup \/ TRef \/ TCut \/ TProducerFail
TSpec == TInit /\ [][TNext]_tvars

HW == /\ TLCSet(1, IF l > TLCGet(1) THEN l ELSE TLCGet(1))
      /\ TLCSet(2, IF Cardinality(bad) >= Cardinality(TLCGet(2)) THEN bad ELSE TLCGet(2))
Accepted == /\ \A b \in TLCGet(2) : PrintT(<<"@@BAD", b[1], b[2]>>)
            /\ IF TLCGet(1) >= Len(Trace) + 1 THEN TRUE ELSE PrintT(<<"@@HW", TLCGet(1) - 1>>) /\ FALSE
            /\ TLCGet(2) = {}
=============================================================================
