SPECIFICATION Spec
CONSTANTS
  MaxLen = 3
  TxAllOrNothing = FALSE
  StopAtFirstFailure = TRUE
  PrepareFailureAborts = TRUE
  RollbackOnError = TRUE
  ResultPerStatement = TRUE
INVARIANTS AllOrNothing
