SPECIFICATION SpecGen
CONSTANTS
  NWals = 2
  VerifyBeforeFirstUse = TRUE
  VerifyAtStartRestore = TRUE
  HeaderCarriesRecordedCRC = TRUE
  ReceiverRecomputes = TRUE
  VerifyBeforeConsolidate = TRUE
INVARIANTS EmitAll
