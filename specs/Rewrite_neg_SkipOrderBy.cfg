SPECIFICATION Spec
CONSTANTS
  PrefilterComplete = TRUE
  ImplicitNow = TRUE
  FormatOnly = TRUE
  SkipOrderBy = FALSE
  LeaveStringsIdents = TRUE
  UntouchedIfNoSite = TRUE
  WalkEverywhere = TRUE
  OnePin = TRUE
  SiteIndependent = TRUE
  Tier = "neg"
INVARIANTS Minimal
