SPECIFICATION Spec
CONSTANTS
  PrefilterComplete = TRUE
  ImplicitNow = TRUE
  FormatOnly = TRUE
  SkipOrderBy = TRUE
  LeaveStringsIdents = TRUE
  UntouchedIfNoSite = TRUE
  WalkEverywhere = TRUE
  OnePin = FALSE
  SiteIndependent = TRUE
  Tier = "neg"
INVARIANTS OnePinPerStatement
