SPECIFICATION Spec
CONSTANTS
  MaxSnaps = 2
  MaxCrashes = 1
  MaxOk = 2
  TmpThenRename = TRUE
  RemoveOldIfNewExists = TRUE
  PlanResume = TRUE
  ResumeToleratesDoneRename = FALSE
  Gen = FALSE
INVARIANTS TypeOK RunOK ResultExact CleanFinish NoDataLoss
