SPECIFICATION Spec
CONSTANTS
  MaxLen = 2
  MaxReq = 2
  MaxRow = 2
  AOps = {"ins", "insm", "upd", "updall", "updfail", "updkey", "del", "delall", "repl", "upsert"}
  BOps = {"ins", "del", "upd", "repl"}
  CtlOps = {"begin", "commit", "rollback", "savepoint", "release", "rollbackto", "failprep"}
  TxModes = {TRUE, FALSE}
  Trigs = {TRUE, FALSE}
  Filters = {FALSE}
  Idss = {FALSE}
  DropRolledBack = TRUE
  GroupPerCommit = TRUE
  FilterTables = TRUE
  IdsOnly = TRUE
INVARIANTS EmitCase
