------------------------------ MODULE Corrupt ------------------------------
(* C12: corrupt snapshot data is detected before it is used.                                      *)
(*                                                                                                *)
(* One node's snapshot store holds data files - the database of the newest full snapshot, the    *)
(* WAL files of the incrementals after it, and the files of an older snapshot nobody needs any   *)
(* more - each with a checksum sidecar (snapshot/sidecar).  Transcribed from snapshot/store.go:  *)
(*   Scan        every operation rescans the catalog: a file without its magic bytes or with an  *)
(*               unparseable sidecar is an error (snapshot.go loadSnapshot)                      *)
(*   Verify      ensureVerified: the CRC of EVERY data file is compared with its sidecar, at     *)
(*               most once per Store instance (`verified` latch), before the first Open or Reap; *)
(*               store/store.go calls it at start-up when raft is going to restore               *)
(*   Open        the stream header carries the RECORDED checksums (NewChecksummedSnapshotHeader) *)
(*               and the current bytes; the receiver (sink Close / snapshot.Restore) recomputes  *)
(*   Reap        checkpoints the WALs into the database file and RE-CHECKSUMS the result        *)
(*               (plan: Checkpoint, CalcCRC32); the old files are gone afterwards                *)
(* One corruption event: a file, a place (a data byte / the magic bytes / the sidecar made       *)
(* unparseable / the sidecar changed to another well-formed value), a time (while the node is    *)
(* down = present at start, or after this Store instance's first verification).                  *)
(* `taint` follows the corrupted bytes: a file is tainted when a data byte of it was altered;    *)
(* consolidation, transfer and restore propagate taint.                                          *)
(*                                                                                                *)
(* Mechanisms (TRUE = the design the property describes):                                        *)
(*   VerifyBeforeFirstUse     Open and Reap call ensureVerified                                  *)
(*   VerifyAtStartRestore     start-up verifies before raft restores                             *)
(*   HeaderCarriesRecordedCRC the header's checksums come from the sidecars, not from the bytes  *)
(*   ReceiverRecomputes       sink / Restore compare the bytes received with the header          *)
(*   VerifyBeforeConsolidate  Reap compares the files it is about to consolidate with their      *)
(*                            sidecars even when the once-only verification has already run      *)
(*                            (the code as written does NOT: see Corrupt_asis.cfg)               *)
EXTENDS Integers, Sequences, FiniteSets, TLC, Json

CONSTANTS NWals,
          VerifyBeforeFirstUse, VerifyAtStartRestore, HeaderCarriesRecordedCRC, ReceiverRecomputes, VerifyBeforeConsolidate

Wals == {"wal1", "wal2"} \cap (IF NWals = 0 THEN {} ELSE IF NWals = 1 THEN {"wal1"} ELSE {"wal1", "wal2"})
Chain == {"db"} \cup Wals               \* what Open(newest) streams and what Reap consolidates
Files == Chain \cup {"old"}             \* "old": a data file of an older snapshot, verified but not used
Places == {"data", "magic", "sidecar-parse", "sidecar-value"}
Whens == {"before-open", "after-verify"}
Consumers == {"start-restore", "open-restore", "open-transfer", "reap-then-restore", "reap-then-transfer"}
NoCorruption == [file |-> "-", place |-> "-", when |-> "-"]

VARIABLES
  st,         \* the node and its store: [node, fs, verified, used, detected, early]
              \*   node      "down" | "up" | "dead" (error returned / fatal exit: nothing further happens)
              \*   fs        [file -> [there, taint, dirty, magic, side]], side in {"ok", "unparseable", "wrong"}
              \*             taint = the content is not what was snapshotted; dirty = the bytes changed after
              \*             the sidecar was written (a re-checksummed consolidation is tainted but not dirty)
              \*   verified  the once-only latch of this Store instance
              \*   used      set of [what, taint], what in {"restored", "installed", "consolidated"}
              \*   detected  an integrity error was raised
              \*   early     start-up: corruption present at start was reported before raft began to restore
  cor,        \* the corruption event, or NoCorruption
  plan,       \* the consumer this behaviour exercises
  step        \* progress of the consumer
vars == <<st, cor, plan, step>>

Clean == [there |-> TRUE, taint |-> FALSE, dirty |-> FALSE, magic |-> TRUE, side |-> "ok"]
Gone == [there |-> FALSE, taint |-> FALSE, dirty |-> FALSE, magic |-> TRUE, side |-> "ok"]
InitSt == [node |-> "down", fs |-> [f \in Files |-> Clean], verified |-> FALSE, used |-> {}, detected |-> FALSE, early |-> "-"]

(* ---- state transformers: the actions below and Outcome() are both built from these ---- *)
Present(s) == {f \in Files : s.fs[f].there}
ScanFails(s) == \E f \in Present(s) : ~s.fs[f].magic \/ s.fs[f].side = "unparseable"
(* CRC of the bytes vs the sidecar: differs when one of them changed since the sidecar was written *)
Mismatch(s, f) == s.fs[f].dirty \/ s.fs[f].side = "wrong"
VerifyFails(s) == \E f \in Present(s) : Mismatch(s, f)
Die(s) == [s EXCEPT !.node = "dead", !.detected = TRUE]

DoCorrupt(s, f, place) ==
  [s EXCEPT !.fs[f] = CASE place = "data" -> [@ EXCEPT !.taint = TRUE, !.dirty = TRUE]
                        [] place = "magic" -> [@ EXCEPT !.taint = TRUE, !.dirty = TRUE, !.magic = FALSE]
                        [] place = "sidecar-parse" -> [@ EXCEPT !.side = "unparseable"]
                        [] OTHER -> [@ EXCEPT !.side = "wrong"]]
(* NewStore: structural check only.  A start that restores verifies first (store.Open). *)
DoStart(s, pl) ==
  IF pl = "start-restore" /\ VerifyAtStartRestore
  THEN IF ScanFails(s) \/ VerifyFails(s) THEN [Die(s) EXCEPT !.early = "reported"]
       ELSE [s EXCEPT !.node = "up", !.verified = TRUE, !.early = "clean"]
  ELSE [s EXCEPT !.node = "up"]
(* the first verification of this instance *)
DoFirstVerify(s) ==
  IF ScanFails(s) \/ VerifyFails(s) THEN Die(s) ELSE [s EXCEPT !.verified = TRUE]
(* ensureVerified as called from Open / Reap: TRUE = an error is raised *)
EnsureFails(s) == VerifyBeforeFirstUse /\ ~s.verified /\ VerifyFails(s)
(* Store.Open + stream + receiver.  what = "restored" | "installed" *)
DoOpen(s, what) ==
  IF ScanFails(s) \/ EnsureFails(s) THEN Die(s)
  ELSE LET headerBad == \E f \in Chain \cap Present(s) :
                           IF HeaderCarriesRecordedCRC THEN Mismatch(s, f)   \* recorded checksum vs current bytes
                           ELSE FALSE                                        \* checksum computed from the current bytes
           taint == \E f \in Chain \cap Present(s) : s.fs[f].taint IN
       IF ReceiverRecomputes /\ headerBad THEN Die(s)
       ELSE [s EXCEPT !.used = @ \cup {[what |-> what, taint |-> taint]}, !.verified = (@ \/ VerifyBeforeFirstUse)]
(* Store.Reap: consolidate the chain into the database file, re-checksum, drop everything else *)
DoReap(s) ==
  IF ScanFails(s) \/ EnsureFails(s) THEN Die(s)
  ELSE IF VerifyBeforeConsolidate /\ VerifyFails(s) THEN Die(s)
  ELSE IF Wals \cap Present(s) = {} THEN [s EXCEPT !.verified = (@ \/ VerifyBeforeFirstUse)]     \* nothing to consolidate
  ELSE LET taint == \E f \in Chain \cap Present(s) : s.fs[f].taint IN
       [s EXCEPT !.fs = [f \in Files |-> IF f = "db" THEN [Clean EXCEPT !.taint = taint] ELSE Gone],
                 !.used = @ \cup {[what |-> "consolidated", taint |-> taint]},
                 !.verified = (@ \/ VerifyBeforeFirstUse)]
(* step k (0, 1) of a consumer *)
DoConsume(s, pl, k) ==
  CASE pl \in {"start-restore", "open-restore"} -> DoOpen(s, "restored")
    [] pl = "open-transfer" -> DoOpen(s, "installed")
    [] pl = "reap-then-restore" -> IF k = 0 THEN DoReap(s) ELSE DoOpen(s, "restored")
    [] pl = "reap-then-transfer" -> IF k = 0 THEN DoReap(s) ELSE DoOpen(s, "installed")
Steps(pl) == IF pl \in {"reap-then-restore", "reap-then-transfer"} THEN 2 ELSE 1

(* ---- behaviours ---- *)
Init == st = InitSt /\ cor = NoCorruption /\ plan \in Consumers /\ step = 0

CorruptBeforeOpen(f, p) ==
  /\ st.node = "down" /\ cor = NoCorruption /\ step = 0
  /\ st' = DoCorrupt(st, f, p) /\ cor' = [file |-> f, place |-> p, when |-> "before-open"]
  /\ UNCHANGED <<plan, step>>
CorruptAfterVerify(f, p) ==
  /\ st.node = "up" /\ st.verified /\ cor = NoCorruption /\ step = 0 /\ st.fs[f].there /\ plan # "start-restore"
  /\ st' = DoCorrupt(st, f, p) /\ cor' = [file |-> f, place |-> p, when |-> "after-verify"]
  /\ UNCHANGED <<plan, step>>
Start ==
  /\ st.node = "down" /\ step = 0
  /\ st' = DoStart(st, plan) /\ UNCHANGED <<cor, plan, step>>
FirstVerify ==
  /\ st.node = "up" /\ ~st.verified /\ step = 0 /\ plan # "start-restore"
  /\ st' = DoFirstVerify(st) /\ UNCHANGED <<cor, plan, step>>
Consume ==
  /\ st.node = "up" /\ step < Steps(plan)
  /\ st' = DoConsume(st, plan, step) /\ step' = step + 1 /\ UNCHANGED <<cor, plan>>
Next == \/ \E f \in Files, p \in Places : CorruptBeforeOpen(f, p) \/ CorruptAfterVerify(f, p)
        \/ Start \/ FirstVerify \/ Consume
Spec == Init /\ [][Next]_vars

(* ---- the property ---- *)
TypeOK == st.node \in {"down", "up", "dead"} /\ step \in 0..2 /\ st.verified \in BOOLEAN
(* present at start: never restored, installed or consolidated *)
StartCorruptionNeverUsed == cor.when = "before-open" => \A u \in st.used : ~u.taint
(* arising while the node runs: never restored or installed *)
RunCorruptionNeverServed == cor.when = "after-verify" => \A u \in st.used : u.what = "consolidated" \/ ~u.taint
(* the start-up check reports corruption of any file before raft starts to restore *)
EarlyStartDetection == plan = "start-restore" /\ cor.when = "before-open" /\ st.node # "down" => st.early = "reported"
(* detection never fires on an uncorrupted store *)
NoFalseDetection == cor = NoCorruption => ~st.detected

(* ---- the outcome of one case: the single path of the machine for it ---- *)
Outcome(file, place, when, consumer) ==
  LET s0 == IF when = "before-open" THEN DoCorrupt(InitSt, file, place) ELSE InitSt
      s1 == DoStart(s0, consumer)
      s2 == IF when = "after-verify" /\ s1.node = "up"
            THEN LET v == IF s1.verified THEN s1 ELSE DoFirstVerify(s1) IN
                 IF v.node = "up" THEN DoCorrupt(v, file, place) ELSE v
            ELSE s1
      s3 == IF s2.node = "up" THEN DoConsume(s2, consumer, 0) ELSE s2
      s4 == IF s3.node = "up" /\ Steps(consumer) = 2 THEN DoConsume(s3, consumer, 1) ELSE s3
  IN [detected |-> s4.detected,
      taint |-> \E u \in s4.used : u.what # "consolidated" /\ u.taint,
      consolidated_taint |-> \E u \in s4.used : u.what = "consolidated" /\ u.taint]

GenCases == {x \in [file : Files, place : Places, when : Whens, consumer : Consumers] :
               ~(x.consumer = "start-restore" /\ x.when = "after-verify")}      \* a start is a new instance
            \cup {[file |-> "-", place |-> "-", when |-> "-", consumer |-> k] : k \in Consumers}
SpecGen == Init /\ [][UNCHANGED vars]_vars
EmitAll == plan = "open-restore" => \A x \in GenCases :
             LET o == Outcome(x.file, x.place, x.when, x.consumer) IN
             PrintT(<<"@@", ToJson([file |-> x.file, place |-> x.place, when |-> x.when, consumer |-> x.consumer, nw |-> NWals,
                                    detected |-> o.detected, taint |-> o.taint, consolidated_taint |-> o.consolidated_taint])>>)
(* the machine and the function agree (checked in every terminal state) *)
OutcomeAgrees ==
  (st.node = "dead" \/ (st.node = "up" /\ step = Steps(plan)))
  => LET o == Outcome(cor.file, cor.place, cor.when, plan) IN
     /\ o.detected = st.detected
     /\ (~st.detected => o.taint = (\E u \in st.used : u.what # "consolidated" /\ u.taint))
=============================================================================
