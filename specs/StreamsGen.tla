----------------------------- MODULE StreamsGen -----------------------------
(* Schedule generator for the replay (B) of Streams.tla on the real snapshot store.  A behaviour  *)
(* of Streams.tla is projected on the steps a driver can force on the real code:                   *)
(*   O:s open  R:s read  P:s stop reading  C:s Close  I:s the idle timer ran (the driver waits for *)
(*   the force-close when it has stopped reading s)                                                *)
(*   (c:s = that Close has released the lock; the real Close is one call, the driver makes it at  *)
(*   the place of c:s when there is one, else at C:s)                                              *)
(*   K sink create+close (signals the reaper)         X Store.Reap() in its own goroutine          *)
(*   B let the auto-reaper go from its gate before BeginWriteBlocking                              *)
(*   M let whoever is parked before the reap plan's execution go     E let the auto-reaper EndWrite *)
(* The remaining actions are steps the real code takes by itself.  TLC -simulate samples           *)
(* behaviours; each is printed once, when it ends or reaches Depth states.                         *)
EXTENDS Streams, Json

CONSTANT Depth
VARIABLE hist
gvars == <<allvars, hist>>

L(a, lab) == a /\ hist' = Append(hist, lab)
Q(a) == a /\ hist' = hist

GInit == SInit /\ hist = <<>>
GNext == \/ \E s \in Streamer :
              \/ L(Open(s), "O:" \o s) \/ L(OpenFail(s), "O:" \o s) \/ L(Read(s), "R:" \o s) \/ L(Pause(s), "P:" \o s)
              \/ L(CloseEnter(s), "C:" \o s) \/ L(CloseExit(s), "c:" \o s)
              \/ Q(TimerFire(s)) \/ L(IdleEnter(s), "I:" \o s) \/ Q(IdleExit(s))
         \/ Q(SinkCreate) \/ L(SinkClose, "K")
         \/ Q(ReapTake) \/ L(ReapBeginBlocking, "B") \/ Q(ReapCheck) \/ L(ReapMutate, "M") \/ L(ReapEnd, "E")
         \/ L(XBegin, "X") \/ L(XMutate, "M") \/ Q(XEnd)
GSpec == GInit /\ [][GNext]_gvars

Emit == (TLCGet("level") >= Depth \/ ~ENABLED GNext) => PrintT(<<"@@", ToJson(hist)>>)
=============================================================================
