SPECIFICATION Spec
CONSTANTS
  ROPool = TRUE
  ClassifyWholeText = TRUE
  LocalReadsOnROPool = FALSE
  StrongQueryOnROPool = TRUE
  Nodes = {n1, n2, n3}
INVARIANT EveryNode
