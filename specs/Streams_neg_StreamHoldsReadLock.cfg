SPECIFICATION SSpec
CONSTANTS
  Proc = {"anon", "reap", "xreap"}
  MaxIdx = 1
  MaxHolds = 4
  CASExclusive = TRUE
  WriterExcludesReaders = TRUE
  BlockingWakes = TRUE
  WakeAtTarget = TRUE
  Streamer = {s1, s2}
  MaxOpens = 1
  MaxSinks = 2
  MaxX = 1
  Threshold = 2
  ReadLen = 2
  StreamHoldsReadLock = FALSE
  ReleaseOnce = TRUE
  IdleForceClose = TRUE
  ReaperWaitsForReaders = TRUE
INVARIANTS NoReapWhileOpen
