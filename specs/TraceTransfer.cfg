SPECIFICATION TSpec
CONSTANTS
  MaxWals = 2
  MaxChunk = 12
  CheckSizes = TRUE
  CRCOnInstall = TRUE
  CRCOnRestore = TRUE
  RejectTrailing = TRUE
  ValidateFiles = TRUE
  CompressionTransparent = TRUE
  ZeroCRCCompared = TRUE
CONSTRAINT HW
POSTCONDITION Accepted
CHECK_DEADLOCK FALSE
