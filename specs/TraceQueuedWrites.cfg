SPECIFICATION TSpec
CONSTANTS
  Writers = {"w"}
  MaxWrites = 1000000
  MaxSize = 1000000
  BatchSize = 8
  HasTimeout = TRUE
  MaxFlush = 0
  BatchOnSize = TRUE
  BatchSeqIsMax = TRUE
  MaxStmts = 3
  FreeWait = TRUE
  MaxLoss = 0
  SeqUnderLock = TRUE
  SingleConsumer = TRUE
  RetrySameBatch = TRUE
  CloseAfterApply = TRUE
CONSTRAINT HW
POSTCONDITION Accepted
CHECK_DEADLOCK FALSE
