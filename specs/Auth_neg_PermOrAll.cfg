SPECIFICATION Spec
CONSTANTS
  Users = {"a", "b", "*"}
  Pws = {"p", "q"}
  Perms = {"x", "all"}
  QPerms = {"x", "y"}
  MaxLen = 2
  FreshEntry = TRUE
  LastWins = TRUE
  AllUsersFirst = TRUE
  NeedUsername = TRUE
  ExactPassword = TRUE
  PermOrAll = FALSE
INVARIANT RuleHolds
