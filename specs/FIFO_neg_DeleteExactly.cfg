SPECIFICATION Spec
CONSTANTS
  MaxIdx = 4
  MaxOps = 8
  PersistHighest = TRUE
  IgnoreAtOrBelow = TRUE
  CursorMonotone = TRUE
  DeleteExactly = FALSE
INVARIANTS Increasing Durable HighestRemembered StoredIncreasing NoStranded HeadValid
CONSTRAINT Bound
