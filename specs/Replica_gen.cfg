SPECIFICATION Spec
CONSTANTS
  RewriteAllSites = TRUE
  RewriteOnEndpoint <- AllEndpoints
  SingleApplyPath = TRUE
  Mode = "gen"
  MaxReq = 6
  MaxClock = 4
  MaxSnaps = 2
  MaxStmts = 3
  McAlphabet = "small"
  Reduced = FALSE
INVARIANTS Converge LogDeterministic RewrittenIffMust Emit
