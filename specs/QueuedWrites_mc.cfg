SPECIFICATION QWSpec
CONSTANTS
  Writers = {w1, w2}
  MaxWrites = 3
  MaxSize = 2
  BatchSize = 2
  HasTimeout = TRUE
  MaxFlush = 0
  BatchOnSize = TRUE
  BatchSeqIsMax = TRUE
  MaxStmts = 2
  FreeWait = FALSE
  MaxLoss = 1
  SeqUnderLock = TRUE
  SingleConsumer = TRUE
  RetrySameBatch = TRUE
  CloseAfterApply = TRUE
INVARIANTS InOrder RequestsContiguous DupsOnlyAfterUnknown NoneDropped WaitAfterApply ClosedAreTaken
