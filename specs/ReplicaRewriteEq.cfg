SPECIFICATION Spec
