------------------------------ MODULE Upgrade ------------------------------
(* rqlite snapshot/upgrader.go as run by store.Open on every start:                          *)
(*     Upgrade7To8(<raft>/snapshots, <raft>/rsnapshots); Upgrade8To10(<raft>/rsnapshots,       *)
(*     <raft>/wsnapshots); snapshot.NewStore(<raft>/wsnapshots)                                *)
(* File system = five directories d7 (v7 store), t8 (rsnapshots.tmp), d8 (v8 store), t10      *)
(* (wsnapshots.tmp), d10 (v10 store), each [ex, s[k]] with per-snapshot presence of its        *)
(* directory, meta.json, data file (none / partial / full) and CRC sidecar, plus the           *)
(* UPGRADE_8_10_PLAN file (tmp, written, chosen snapshot).  Snapshot ids 1..MaxSnaps are       *)
(* ordered by (term, index); the data of snapshot k is "content k".                            *)
(* One action per step of the code (= one trace event / crash point of the instrumented        *)
(* code, see TraceUpgrade.tla); plan operations with the idempotence rule of                   *)
(* snapshot/plan/executor.go; Crash after every step; CrashInRemove = crash inside a           *)
(* non-atomic RemoveAll(old) leaving any downward-closed part of the old directory.            *)
(* Switches (TRUE = the design):                                                               *)
(*   TmpThenRename              new directory is built under <new>.tmp and renamed into place  *)
(*   RemoveOldIfNewExists       "new exists => only remove old" test of both upgraders         *)
(*   PlanResume                 Upgrade8To10 resumes a persisted plan before anything else     *)
(*   ResumeToleratesDoneRename  a resumed plan whose rename already happened only cleans up    *)
(*                              (FALSE = the code before the fix: re-executes every op)        *)
EXTENDS Naturals, FiniteSets, Sequences, TLC, Json

CONSTANTS MaxSnaps, MaxCrashes, MaxOk,
          TmpThenRename, RemoveOldIfNewExists, PlanResume, ResumeToleratesDoneRename,
          Gen            \* TRUE: carry the crash schedule and print every completed one as a case

VARIABLES fs, plan,          \* durable
          pc, opi, sel,      \* volatile: program counter, next plan op, snapshot chosen by this run
          lastev,            \* last step completed (name, occurrence) = position of a crash
          kind, shape, n,    \* the original store: "v7"/"v8", per-snapshot shape, newest id
          crashes, okruns, res, sched
vars == <<fs, plan, pc, opi, sel, lastev, kind, shape, n, crashes, okruns, res, sched>>
hist == <<kind, shape, n>>

Snaps == 1..MaxSnaps
DirNames == {"d7", "t8", "d8", "t10", "d10"}
Rec(d, m, da, c) == [dir |-> d, meta |-> m, data |-> da, crc |-> c]
NoSnap == Rec(FALSE, FALSE, "none", "none")
Absent == [ex |-> FALSE, s |-> [k \in Snaps |-> NoSnap]]
NoPlan == [st |-> "none", tmp |-> FALSE, id |-> 0]
IsEmpty(D) == \A k \in Snaps : ~D.s[k].dir /\ D.s[k].data = "none"
Max(S) == CHOOSE x \in S : \A y \in S : y <= x
Evt(e, k) == [e |-> e, k |-> k]

OrigSnap(sh) == IF sh = "full" THEN Rec(TRUE, TRUE, "full", "none")
                ELSE IF sh = "nodata" THEN Rec(TRUE, TRUE, "none", "none") ELSE NoSnap
(* original stores: snapshots 1..m, the newest complete, older ones complete or meta-only *)
Shapes == {sh \in [Snaps -> {"full", "nodata", "none"}] :
             \E m \in Snaps : /\ sh[m] = "full"
                              /\ \A k \in Snaps : (k > m => sh[k] = "none") /\ (k < m => sh[k] # "none")}
NOf(sh) == Max({k \in Snaps : sh[k] = "full"})
InitFs(kd, sh) == [dn \in DirNames |->
                     IF (dn = "d7" /\ kd = "v7") \/ (dn = "d8" /\ kd = "v8")
                     THEN [ex |-> TRUE, s |-> [k \in Snaps |-> OrigSnap(sh[k])]] ELSE Absent]

Init == /\ kind \in {"v7", "v8"} /\ shape \in Shapes /\ n = NOf(shape)
        /\ fs = InitFs(kind, shape) /\ plan = NoPlan
        /\ pc = "idle" /\ opi = 0 /\ sel = 0 /\ lastev = Evt("init", 0)
        /\ crashes = 0 /\ okruns = 0 /\ res = "none" /\ sched = <<>>

Go(p, e, k) == pc' = p /\ lastev' = Evt(e, k)
T7 == IF TmpThenRename THEN "t8" ELSE "d8"
T10 == IF TmpThenRename THEN "t10" ELSE "d10"

StartRun == /\ pc = "idle" /\ okruns < MaxOk /\ res # "err"
            /\ Go("u78.start", "run", 0)
            /\ UNCHANGED <<fs, plan, opi, sel, hist, crashes, okruns, res, sched>>

---------------------------------------------------------------------------
(* Upgrade7To8(old = d7, new = d8) *)
U78Start == /\ pc = "u78.start"
            /\ fs' = [fs EXCEPT !["t8"] = Absent]          \* stale tmp dir of an interrupted run
            /\ Go("u78.check", "up78.start", 1)
            /\ UNCHANGED <<plan, opi, sel, hist, crashes, okruns, res, sched>>
U78NoOld == /\ pc = "u78.check" /\ ~fs["d7"].ex
            /\ Go("u810.start", "up78.noold", 1)
            /\ UNCHANGED <<fs, plan, opi, sel, hist, crashes, okruns, res, sched>>
U78OldEmpty == /\ pc = "u78.check" /\ fs["d7"].ex /\ IsEmpty(fs["d7"])
               /\ fs' = [fs EXCEPT !["d7"] = Absent]
               /\ Go("u810.start", "up78.oldempty", 1)
               /\ UNCHANGED <<plan, opi, sel, hist, crashes, okruns, res, sched>>
G78NewExists == fs["d7"].ex /\ ~IsEmpty(fs["d7"]) /\ RemoveOldIfNewExists /\ fs["d8"].ex
U78NewExists == /\ pc = "u78.check" /\ G78NewExists
                /\ fs' = [fs EXCEPT !["d7"] = Absent]
                /\ Go("u810.start", "up78.newexists", 1)
                /\ UNCHANGED <<plan, opi, sel, hist, crashes, okruns, res, sched>>
U78Tmp == /\ pc = "u78.check" /\ fs["d7"].ex /\ ~IsEmpty(fs["d7"]) /\ ~G78NewExists
          /\ fs' = [fs EXCEPT ![T7].ex = TRUE]
          /\ Go("u78.meta", "up78.tmp", 1)
          /\ UNCHANGED <<plan, opi, sel, hist, crashes, okruns, res, sched>>
Cands7 == {k \in Snaps : fs["d7"].s[k].dir /\ fs["d7"].s[k].meta}
U78Meta == /\ pc = "u78.meta" /\ Cands7 # {}
           /\ sel' = Max(Cands7)
           /\ fs' = [fs EXCEPT ![T7].s[sel'].dir = TRUE, ![T7].s[sel'].meta = TRUE]
           /\ Go("u78.dbcreate", "up78.meta", 1)
           /\ UNCHANGED <<plan, opi, hist, crashes, okruns, res, sched>>
U78DbCreate == /\ pc = "u78.dbcreate"
               /\ fs' = [fs EXCEPT ![T7].s[sel].data = "partial"]
               /\ Go("u78.copy", "up78.dbcreated", 1)
               /\ UNCHANGED <<plan, opi, sel, hist, crashes, okruns, res, sched>>
U78Copy == /\ pc = "u78.copy" /\ fs["d7"].s[sel].data = "full"
           /\ fs' = [fs EXCEPT ![T7].s[sel].data = "full"]
           /\ Go("u78.wal", "up78.copied", 1)
           /\ UNCHANGED <<plan, opi, sel, hist, crashes, okruns, res, sched>>
U78Wal == /\ pc = "u78.wal" /\ Go("u78.rename", "up78.wal", 1)
          /\ UNCHANGED <<fs, plan, opi, sel, hist, crashes, okruns, res, sched>>
RenameOK7 == ~TmpThenRename \/ ~fs["d8"].ex \/ IsEmpty(fs["d8"])
U78Rename == /\ pc = "u78.rename" /\ RenameOK7
             /\ fs' = IF TmpThenRename THEN [fs EXCEPT !["d8"] = fs["t8"], !["t8"] = Absent] ELSE fs
             /\ Go("u78.remove", "up78.renamed", 1)
             /\ UNCHANGED <<plan, opi, sel, hist, crashes, okruns, res, sched>>
U78Remove == /\ pc = "u78.remove"
             /\ fs' = [fs EXCEPT !["d7"] = Absent]
             /\ Go("u810.start", "up78.removed", 1)
             /\ UNCHANGED <<plan, opi, sel, hist, crashes, okruns, res, sched>>
(* error return: no newest snapshot / unreadable state file / rename onto a non-empty directory; *)
(* the deferred clean-up removes the tmp dir; store.Open fails                                    *)
U78Err == /\ \/ pc = "u78.meta" /\ Cands7 = {}
             \/ pc = "u78.copy" /\ fs["d7"].s[sel].data # "full"
             \/ pc = "u78.rename" /\ ~RenameOK7
          /\ fs' = [fs EXCEPT !["t8"] = Absent]
          /\ pc' = "idle" /\ res' = "err" /\ lastev' = Evt("err", 0) /\ opi' = 0 /\ sel' = 0
          /\ UNCHANGED <<plan, hist, crashes, okruns, sched>>

---------------------------------------------------------------------------
(* Upgrade8To10(old = d8, new = d10) *)
U810Start == /\ pc = "u810.start"
             /\ plan' = [plan EXCEPT !.tmp = FALSE]        \* os.Remove(planPath + ".tmp")
             /\ Go("u810.check", "up810.start", 1)
             /\ UNCHANGED <<fs, opi, sel, hist, crashes, okruns, res, sched>>
HasPlan == PlanResume /\ plan.st = "written"
U810Resume == /\ pc = "u810.check" /\ HasPlan
              /\ lastev' = Evt("up810.resume", 1)
              /\ IF ResumeToleratesDoneRename /\ fs["d10"].ex
                 THEN pc' = "u810.cleanup" /\ opi' = 0
                 ELSE pc' = "op" /\ opi' = 1
              /\ UNCHANGED <<fs, plan, sel, hist, crashes, okruns, res, sched>>
U810NoOld == /\ pc = "u810.check" /\ ~HasPlan /\ ~fs["d8"].ex
             /\ Go("ret", "up810.noold", 1)
             /\ UNCHANGED <<fs, plan, opi, sel, hist, crashes, okruns, res, sched>>
U810OldEmpty == /\ pc = "u810.check" /\ ~HasPlan /\ fs["d8"].ex /\ IsEmpty(fs["d8"])
                /\ fs' = [fs EXCEPT !["d8"] = Absent]
                /\ Go("ret", "up810.oldempty", 1)
                /\ UNCHANGED <<plan, opi, sel, hist, crashes, okruns, res, sched>>
G810NewExists == ~HasPlan /\ fs["d8"].ex /\ ~IsEmpty(fs["d8"]) /\ RemoveOldIfNewExists /\ fs["d10"].ex
U810NewExists == /\ pc = "u810.check" /\ G810NewExists
                 /\ fs' = [fs EXCEPT !["d8"] = Absent]
                 /\ Go("ret", "up810.newexists", 1)
                 /\ UNCHANGED <<plan, opi, sel, hist, crashes, okruns, res, sched>>
Cands8 == {k \in Snaps : fs["d8"].s[k].dir /\ fs["d8"].s[k].meta /\ fs["d8"].s[k].data # "none"}
G810Build == ~HasPlan /\ fs["d8"].ex /\ ~IsEmpty(fs["d8"]) /\ ~(RemoveOldIfNewExists /\ fs["d10"].ex)
U810NoSnap == /\ pc = "u810.check" /\ G810Build /\ Cands8 = {}
              /\ Go("ret", "up810.nosnap", 1)
              /\ UNCHANGED <<fs, plan, opi, sel, hist, crashes, okruns, res, sched>>
U810PlanTmp == /\ pc = "u810.check" /\ G810Build /\ Cands8 # {}
               /\ sel' = Max(Cands8)
               /\ plan' = [plan EXCEPT !.tmp = TRUE]
               /\ Go("u810.planrename", "plan.write.tmp", 1)
               /\ UNCHANGED <<fs, opi, hist, crashes, okruns, res, sched>>
U810Plan == /\ pc = "u810.planrename"
            /\ plan' = [st |-> "written", tmp |-> FALSE, id |-> sel]
            /\ opi' = 1 /\ Go("op", "up810.plan", 1)
            /\ UNCHANGED <<fs, sel, hist, crashes, okruns, res, sched>>

(* plan = 1 mkdir tmp, 2 mkdir tmp/id, 3 write meta, 4 copy db, 5 crc, 6 rename tmp -> new, 7 remove old *)
OpTypes == <<"mkdir_all", "mkdir_all", "write_meta", "copy_file", "calc_crc32", "rename", "remove_all">>
NOps == 7
Pid == plan.id
OpDone(i, newfs) == /\ fs' = newfs /\ lastev' = Evt("plan.op", i)
                    /\ IF i = NOps THEN pc' = "u810.planremove" /\ opi' = 0 ELSE pc' = "op" /\ opi' = i + 1
                    /\ UNCHANGED <<plan, sel, hist, crashes, okruns, res, sched>>
OpFail(i) == /\ pc' = "idle" /\ res' = "err" /\ lastev' = Evt("err", i) /\ opi' = 0 /\ sel' = 0
             /\ UNCHANGED <<fs, plan, hist, crashes, okruns, sched>>
SrcData == fs["d8"].s[Pid].data
DstRec == fs[T10].s[Pid]
DstDirOK == fs[T10].ex /\ DstRec.dir
(* the outcome of op i in the current state: "ok" / "err" (4 may also start a copy) *)
CopySkips == SrcData = "none" /\ DstRec.data # "none"       \* "dst exists and src does not" => nil
CopyFails == (SrcData = "none" /\ DstRec.data = "none") \/ (SrcData # "none" /\ ~DstDirOK)
RenameSkips == ~fs["t10"].ex /\ fs["d10"].ex                 \* "src gone and dst exists" => nil
RenameFails == (~fs["t10"].ex /\ ~fs["d10"].ex) \/ (fs["t10"].ex /\ fs["d10"].ex /\ ~IsEmpty(fs["d10"]))
Op1 == pc = "op" /\ opi = 1 /\ OpDone(1, [fs EXCEPT ![T10].ex = TRUE])
Op2 == pc = "op" /\ opi = 2 /\ OpDone(2, [fs EXCEPT ![T10].ex = TRUE, ![T10].s[Pid].dir = TRUE])
Op3 == pc = "op" /\ opi = 3 /\ OpDone(3, IF DstDirOK THEN [fs EXCEPT ![T10].s[Pid].meta = TRUE] ELSE fs)
Op4Skip == pc = "op" /\ opi = 4 /\ CopySkips /\ OpDone(4, fs)
Op4Create == /\ pc = "op" /\ opi = 4 /\ SrcData # "none" /\ DstDirOK       \* O_CREATE|O_TRUNC
             /\ fs' = [fs EXCEPT ![T10].s[Pid].data = "partial"]
             /\ pc' = "opcopy" /\ lastev' = Evt("plan.copy.created", 1)
             /\ UNCHANGED <<plan, opi, sel, hist, crashes, okruns, res, sched>>
Op4Finish == pc = "opcopy" /\ OpDone(4, [fs EXCEPT ![T10].s[Pid].data = SrcData])
Op5 == /\ pc = "op" /\ opi = 5 /\ DstRec.data # "none"
       /\ OpDone(5, [fs EXCEPT ![T10].s[Pid].crc = IF DstRec.data = "full" THEN "offull" ELSE "ofpartial"])
Op6 == /\ pc = "op" /\ opi = 6
       /\ IF ~TmpThenRename \/ RenameSkips THEN OpDone(6, fs)
          ELSE ~RenameFails /\ OpDone(6, [fs EXCEPT !["d10"] = fs["t10"], !["t10"] = Absent])
Op7 == pc = "op" /\ opi = 7 /\ OpDone(7, [fs EXCEPT !["d8"] = Absent])
OpErr == /\ pc = "op"
         /\ \/ opi = 4 /\ CopyFails
            \/ opi = 5 /\ DstRec.data = "none"
            \/ opi = 6 /\ TmpThenRename /\ ~RenameSkips /\ RenameFails
         /\ OpFail(opi)
(* repaired resume: the rename is done, only the clean-up remains *)
U810Cleanup == /\ pc = "u810.cleanup"
               /\ fs' = [fs EXCEPT !["t10"] = Absent, !["d8"] = Absent]
               /\ Go("u810.planremove", "up810.cleanup", 1)
               /\ UNCHANGED <<plan, opi, sel, hist, crashes, okruns, res, sched>>
U810PlanRemove == /\ pc = "u810.planremove"
                  /\ plan' = [NoPlan EXCEPT !.tmp = plan.tmp]
                  /\ Go("ret", "up810.planremoved", 1)
                  /\ UNCHANGED <<fs, opi, sel, hist, crashes, okruns, res, sched>>

---------------------------------------------------------------------------
(* both upgraders returned nil: store.Open goes on to snapshot.NewStore *)
Case == [kind |-> kind, shape |-> shape, n |-> n, sched |-> sched']
Return == /\ pc = "ret"
          /\ pc' = "idle" /\ res' = "ok" /\ okruns' = okruns + 1 /\ lastev' = Evt("ret", 0) /\ opi' = 0 /\ sel' = 0
          /\ sched' = IF Gen THEN Append(sched, [pc |-> "ok", opi |-> 0, ev |-> "", pdir |-> "", ps |-> <<>>]) ELSE sched
          /\ (Gen /\ okruns' = MaxOk) => PrintT(<<"@@", ToJson(Case)>>)
          /\ UNCHANGED <<fs, plan, hist, crashes>>

(* process crash: durable state stays, the run is cut after step `lastev` *)
Entry(pd, ps) == [pc |-> pc, opi |-> opi, ev |-> lastev.e, pdir |-> pd, ps |-> ps]
Crash == /\ pc \notin {"idle", "u78.start"} /\ crashes < MaxCrashes
         /\ pc' = "idle" /\ crashes' = crashes + 1 /\ lastev' = Evt("crash", 0) /\ opi' = 0 /\ sel' = 0
         /\ sched' = IF Gen THEN Append(sched, Entry("", <<>>)) ELSE sched
         /\ UNCHANGED <<fs, plan, hist, okruns, res>>

(* crash inside RemoveAll(old): files go in directory order, a directory after its content *)
OldRecs == [dir : BOOLEAN, meta : BOOLEAN, data : {"none", "partial", "full"}, crc : {"none"}]
LessRec(dn, r2, r) == /\ r2.dir => r.dir
                      /\ r2.meta => (r.meta /\ r2.dir)
                      /\ r2.data = r.data \/ r2.data = "none"
                      /\ (dn = "d7" /\ r2.data # "none") => r2.dir        \* state.bin lives inside the directory
LessSet(dn, r) == {r2 \in OldRecs : LessRec(dn, r2, r)}
ASSUME MaxSnaps \in 1..3        \* the product below is written out (TLC has no dependent function sets)
L(dn, D, k) == LessSet(dn, D.s[k])
SProd(dn, D) == IF MaxSnaps = 1 THEN {<<a>> : a \in L(dn, D, 1)}
                ELSE IF MaxSnaps = 2 THEN {<<a, b>> : a \in L(dn, D, 1), b \in L(dn, D, 2)}
                ELSE {<<a, b, c>> : a \in L(dn, D, 1), b \in L(dn, D, 2), c \in L(dn, D, 3)}
Partials(dn, D) == IF D.ex THEN {[ex |-> TRUE, s |-> f] : f \in SProd(dn, D)} \ {D} ELSE {}
Top(D) == Max({0} \cup {k \in Snaps : D.s[k].dir \/ D.s[k].data # "none"})
GenPartials(dn, D) == {D2 \in Partials(dn, D) : IsEmpty(D2) \/ \A k \in Snaps : k # Top(D) => D2.s[k] = D.s[k]}
PartialChoices(dn, D) == IF Gen THEN GenPartials(dn, D) ELSE Partials(dn, D)
RemovePoint == IF pc = "u78.check" /\ G78NewExists THEN "d7"
               ELSE IF pc = "u78.remove" THEN "d7"
               ELSE IF pc = "u810.check" /\ G810NewExists THEN "d8"
               ELSE IF pc = "op" /\ opi = 7 THEN "d8"
               ELSE IF pc = "u810.cleanup" THEN "d8" ELSE ""
CrashRm(D2) == /\ RemovePoint # "" /\ crashes < MaxCrashes
               /\ fs' = IF pc = "u810.cleanup" THEN [fs EXCEPT !["t10"] = Absent, !["d8"] = D2]
                        ELSE [fs EXCEPT ![RemovePoint] = D2]
               /\ sched' = IF Gen THEN Append(sched, Entry(RemovePoint, D2.s)) ELSE sched
               /\ pc' = "idle" /\ crashes' = crashes + 1 /\ lastev' = Evt("crash", 0) /\ opi' = 0 /\ sel' = 0
               /\ UNCHANGED <<plan, hist, okruns, res>>
CrashInRemove == /\ RemovePoint # ""
                 /\ \E D2 \in PartialChoices(RemovePoint, fs[RemovePoint]) : CrashRm(D2)

Next == \/ StartRun \/ U78Start \/ U78NoOld \/ U78OldEmpty \/ U78NewExists \/ U78Tmp \/ U78Meta
        \/ U78DbCreate \/ U78Copy \/ U78Wal \/ U78Rename \/ U78Remove \/ U78Err
        \/ U810Start \/ U810Resume \/ U810NoOld \/ U810OldEmpty \/ U810NewExists \/ U810NoSnap
        \/ U810PlanTmp \/ U810Plan \/ Op1 \/ Op2 \/ Op3 \/ Op4Skip \/ Op4Create \/ Op4Finish \/ Op5 \/ Op6 \/ Op7
        \/ OpErr \/ U810Cleanup \/ U810PlanRemove \/ Return \/ Crash \/ CrashInRemove
Spec == Init /\ [][Next]_vars

---------------------------------------------------------------------------
(* the property *)
NewestRec == Rec(TRUE, TRUE, "full", "offull")
Final == /\ fs["d10"].ex
         /\ \A k \in Snaps : fs["d10"].s[k] = IF k = n THEN NewestRec ELSE NoSnap
Completed == res = "ok" /\ pc = "idle"
RunOK == res # "err"                       \* no start fails, whatever crashed before
ResultExact == Completed => Final          \* exactly one v10 snapshot: data, meta and CRC of the newest original
CleanFinish == Completed => /\ \A dn \in {"d7", "t8", "d8", "t10"} : ~fs[dn].ex
                            /\ plan = NoPlan
(* at every instant, crashed or not, a complete copy of the newest original is in an old or the new store *)
NoDataLoss == \/ \E dn \in {"d7", "d8"} : fs[dn].ex /\ fs[dn].s[n].meta /\ fs[dn].s[n].data = "full"
              \/ fs["d10"].ex /\ fs["d10"].s[n] = NewestRec
TypeOK == /\ pc \in {"idle", "u78.start", "u78.check", "u78.meta", "u78.dbcreate", "u78.copy", "u78.wal", "u78.rename",
                     "u78.remove", "u810.start", "u810.check", "u810.planrename", "op", "opcopy", "u810.cleanup",
                     "u810.planremove", "ret"}
          /\ opi \in 0..NOps /\ sel \in 0..MaxSnaps /\ plan.id \in 0..MaxSnaps
          /\ (pc \in {"op", "opcopy"} => plan.id \in Snaps)
=============================================================================
