SPECIFICATION Spec
CONSTANTS
  Page = {p1, p2}
  MaxIdx = 4
  MaxSnapOps = 3
  MaxCrashes = 1
  AllowRecover = FALSE
  FingerprintGate = TRUE
  FPVouchesForVisible = TRUE
  CleanStagingOnNewBase = FALSE
  FullAfterLoad = TRUE
  RecoverDiscardsFile = TRUE
  ClearFlagOnlyIfCovers = TRUE
INVARIANTS LiveOK Rebuild
