--------------------------- MODULE TraceSnapStore ---------------------------
(* Trace validation of the real snapshot.Store against SnapStore.tla (catalog mode, the code as  *)
(* it is: GateAtClose = FALSE).  One line per harness operation with the observed result, then   *)
(* three observation lines that must equal the model: st.disk (raw directory listing, flag and   *)
(* plan files), st.list (ListAll / List / DueNext), st.open (Open + Restore of every listed id). *)
(* The model replays deterministically; a line no action accepts is a conformance failure.       *)
(* Property violations (C09) do not stop the replay: they are printed as @@VIOL <line> <class>     *)
(* when the model -- which equals the observed store at every step -- takes the offending step.   *)
EXTENDS SnapStore

Trace == ndJsonDeserialize("trace.ndjson")
VARIABLE l
tvars == <<vars, l>>
Ev == Trace[l]
Is(e) == l <= Len(Trace) /\ Trace[l].ev = e
Next1 == l' = l + 1 /\ UNCHANGED P
Max2(a, b) == IF a > b THEN a ELSE b

Fresh == [dirs |-> <<>>, flag |-> FALSE, plan |-> NoPlan, ptmp |-> FALSE, sinks |-> [x \in Sinks |-> NoSink],
          nextId |-> 0, nextWal |-> 0, ht |-> 1, hi |-> 1, bad |-> {}]
TInit == S = Fresh /\ P = <<>> /\ l = 1 /\ TLCSet(1, 0)
(* S' = s, announcing the property violations this step adds *)
To(s) == /\ S' = s
         /\ IF s.bad \subseteq S.bad THEN TRUE ELSE PrintT(<<"@@VIOL", l, s.bad \ S.bad>>)

TReset == Is("reset") /\ Next1 /\ S' = Fresh
TCreate == /\ Is("create") /\ Next1 /\ S.sinks[Ev.s].st = "free" /\ Ev.id = S.nextId + 1
           /\ To(CreateF(S, Ev.s, Ev.term, Ev.idx))
THeader == /\ Is("header") /\ Next1 /\ S.sinks[Ev.s].st = "open" /\ S.nextWal + 1 = Ev.first
           /\ LET r == HeaderF(S, Ev.s, Ev.kind, Ev.nw) IN r.ok = Ev.ok /\ To(r.s)
TData == Is("data") /\ Next1 /\ S.sinks[Ev.s].st = "hdr" /\ S.sinks[Ev.s].kind = "full" /\ Ev.ok /\ To(DataF(S, Ev.s))
TClose == /\ Is("close") /\ Next1 /\ Closable(S.sinks[Ev.s])
          /\ LET r == CloseAll(S, Ev.s) IN r.ok = Ev.ok /\ To(r.s)
TCancel == /\ Is("cancel") /\ Next1 /\ Closable(S.sinks[Ev.s])
           /\ LET r == CancelSink(S, Ev.s) IN r.ok = Ev.ok /\ To(r.s)
TSetFull == Is("setfull") /\ Next1 /\ Ev.ok /\ To([S EXCEPT !.flag = TRUE])
TReap == Is("reap") /\ Next1 /\ LET r == ReapAtomic(S) IN r.ok = Ev.ok /\ To(r.s)
TReopen == Is("reopen") /\ Next1 /\ LET r == CheckOpen(S) IN r.ok = Ev.ok /\ To(r.s)
(* the process was killed at the crash point after close step k; the next process opened the store *)
TCrashClose == /\ Is("crashclose") /\ Next1 /\ PastHeader(S.sinks[Ev.s])
               /\ LET r == CloseFrom(S, Ev.s, 1, Ev.k) IN
                  /\ r.ok
                  /\ LET o == CheckOpen(r.s) IN o.ok = Ev.ok /\ To(o.s)

OpenProj(s, id) == LET r == Resolve(s, id) IN
                   [id |-> id, ok |-> r.ok, nwals |-> r.nwals, base |-> r.base, applied |-> SetToSeq(Range(r.applied)),
                    last |-> IF r.applied = <<>> THEN 0 ELSE Last(r.applied)]
TDisk == /\ Is("st.disk") /\ Next1 /\ UNCHANGED S
         /\ Ev.dirs = DirProj(S) /\ Ev.flag = S.flag /\ Ev.plan = S.plan.exists /\ Ev.ptmp = S.ptmp
         /\ LET v == StateViolations(S) IN IF v = {} THEN TRUE ELSE PrintT(<<"@@VIOL", l, v>>)
TList == /\ Is("st.list") /\ Next1 /\ UNCHANGED S
         /\ Ev.ok = ScanOK(S) /\ Ev.due = DueNext(S)
         /\ IF ScanOK(S) THEN Ev.list = ListAll(S) /\ Ev.first = (IF ListAll(S) = <<>> THEN 0 ELSE ListAll(S)[1]) ELSE TRUE
TOpen == /\ Is("st.open") /\ Next1 /\ UNCHANGED S
         /\ LET ids == SetToSeq(NonTmp(S)) IN Ev.opens = [k \in 1..Len(ids) |-> OpenProj(S, ids[k])]

TNext == TReset \/ TCreate \/ THeader \/ TData \/ TClose \/ TCancel \/ TSetFull \/ TReap \/ TReopen \/ TCrashClose
         \/ TDisk \/ TList \/ TOpen
TSpec == TInit /\ [][TNext]_tvars
HW == TLCSet(1, Max2(l, TLCGet(1)))
Accepted == IF TLCGet(1) >= Len(Trace) + 1 THEN TRUE
            ELSE PrintT(<<"@@HW", TLCGet(1) - 1>>) /\ FALSE
=============================================================================
