------------------------------ MODULE ReadOnly ------------------------------
(* C17: reads never modify data; databases change only through the log.                           *)
(*                                                                                                *)
(* One request = one SQL text of a statement class, sent to an endpoint at a consistency level    *)
(* to a node of some role.  The spec follows it through the code's own steps                      *)
(*   http/service.go handleQuery / handleRequest (sql.Process sets the EXPLAIN flag)              *)
(*   -> proxy (a request the receiving node may not serve is forwarded to the leader)             *)
(*   -> store/store.go Query / Request (RORWCount classifies each statement of a unified          *)
(*      request; level and nRW decide: local read | QUERY log entry | EXECUTE_QUERY log entry)    *)
(*   -> db/db.go QueryWithContext (read-only pool: mode=ro + query_only) or, for a log entry      *)
(*      applied by the FSM of EVERY node, db.Query (pool) / db.Request (read-write connection:    *)
(*      each statement classified again; read-only -> the driver's query loop, which steps only   *)
(*      the LAST statement of a text; read-write -> the exec loop, which steps every statement)   *)
(* and records which node's database the text changed.                                            *)
(*                                                                                                *)
(* Switches (TRUE = the design):                                                                  *)
(*   ROPool              connections of the read-only pool refuse every write                     *)
(*   ClassifyWholeText   the read-only verdict binds the whole text: a text that is treated as    *)
(*                       read-only cannot write, whichever of its statements tries.  The verdict  *)
(*                       itself is taken from the FIRST statement (sqlite3_stmt_readonly) or from *)
(*                       the EXPLAIN flag, by Store.RORWCount for the route and by DB.Request on  *)
(*                       every node; DB.Request then runs the text through the query path of the  *)
(*                       read-write connection with writes disabled (PRAGMA query_only), so a     *)
(*                       writing tail -- or a PRAGMA optimize that SQLite reports as read-only -- *)
(*                       fails instead of changing the database.  FALSE: the verdict on the head  *)
(*                       decides and the rest of the text runs unchecked                          *)
(*   LocalReadsOnROPool  reads served without the log use the pool (FALSE: the read-write         *)
(*                       connection)                                                              *)
(*   StrongQueryOnROPool a QUERY log entry is executed on the pool by every node (FALSE: on the   *)
(*                       read-write connection)                                                   *)
EXTENDS Naturals, Sequences, FiniteSets, TLC, Json

CONSTANTS ROPool, ClassifyWholeText, LocalReadsOnROPool, StrongQueryOnROPool,
          Nodes          \* node ids

(* ------------------------------------------------------------------ statement classes ------    *)
(* headRO : sqlite3_stmt_readonly of the first statement of the text                              *)
(* expl   : sql.Process (HTTP layer) marks the text as an EXPLAIN statement                       *)
(* fq     : sql.Process marks it ForceQuery (RETURNING): a read-write statement run by the query  *)
(*          loop                                                                                  *)
(* effQ   : the driver's QUERY loop on a writable connection changes the main database (only the  *)
(*          last statement of the text is stepped)                                                *)
(* effX   : the driver's EXEC loop on a writable connection changes the main database (every      *)
(*          statement is stepped)                                                                 *)
Attr(h, e, f, q, x) == [headRO |-> h, expl |-> e, fq |-> f, effQ |-> q, effX |-> x]
ClassAttr ==
  [c \in {"select", "select-fn", "pragma-read", "attach", "empty", "comment"} |-> Attr(TRUE, FALSE, FALSE, FALSE, FALSE)] @@
  [c \in {"ro-head-rw-tail", "ro-head-ddl-tail", "ro-head-pragma-tail"} |-> Attr(TRUE, FALSE, FALSE, TRUE, TRUE)] @@
  [c \in {"rw-head-ro-tail"} |-> Attr(FALSE, FALSE, FALSE, FALSE, TRUE)] @@
  [c \in {"explain-write"} |-> Attr(FALSE, TRUE, FALSE, FALSE, FALSE)] @@
  [c \in {"explain-ro-head-rw-tail"} |-> Attr(TRUE, TRUE, FALSE, TRUE, TRUE)] @@
  [c \in {"explain-rw-head-rw-tail"} |-> Attr(FALSE, TRUE, FALSE, TRUE, TRUE)] @@
  [c \in {"insert-returning"} |-> Attr(FALSE, FALSE, TRUE, TRUE, TRUE)] @@
  [c \in {"pragma-write", "ddl", "with-insert"} |-> Attr(FALSE, FALSE, FALSE, TRUE, TRUE)] @@
  \* plain PRAGMA optimize with ONE table to analyse: sqlite3_stmt_readonly says read-only (no write transaction is
  \* compiled in), yet it runs ANALYZE through OP_SqlExec; with the 0x10000 bit (all tables) it is reported read-write
  [c \in {"pragma-optimize"} |-> Attr(TRUE, FALSE, FALSE, TRUE, TRUE)] @@
  [c \in {"pragma-optimize-all"} |-> Attr(FALSE, FALSE, FALSE, TRUE, TRUE)] @@
  \* no effect on the main database: incremental_vacuum without auto_vacuum, a TEMP table
  [c \in {"pragma-incr-vacuum", "create-temp"} |-> Attr(FALSE, FALSE, FALSE, FALSE, FALSE)]
Classes == DOMAIN ClassAttr

Endpoints == {"qpost", "qget", "ralone", "rwrite"}     \* /db/query POST, /db/query GET ?q=, /db/request alone, /db/request + a genuine write
Levels == {"none", "weak", "strong", "linearizable"}
Roles == {"leader", "follower"}
IsQuery(ep) == ep \in {"qpost", "qget"}

(* up: a linearizable read is upgraded to a strong read (first one in the leader's term)          *)
Case == [class : Classes, ep : Endpoints, level : Levels, role : Roles, up : BOOLEAN]
ValidCase(c) == c.up => c.level = "linearizable"

(* ------------------------------------------------------------------ classification ---------    *)
StoreRO(cl) == ClassAttr[cl].expl \/ ClassAttr[cl].headRO      \* Store.RORWCount: decides the route
DbRO(cl)    == ClassAttr[cl].expl \/ ClassAttr[cl].headRO      \* DB.Request, on the read-write connection of every node
(* what the property calls a read: every query-endpoint request, and a statement a unified request treats as read-only*)
TreatedRO(c) == IsQuery(c.ep) \/ StoreRO(c.class) \/ DbRO(c.class)

(* ------------------------------------------------------------------ dispatch ---------------    *)
(* Store.Request on a FOLLOWER runs the linearizable pre-check first; a follower never served a strong read in*)
(* the current term, so it rewrites the level of the request to strong, then finds it is not the leader, and*)
(* the proxy forwards the rewritten request.  (Store.Query keeps the level in a local variable.)  *)
EffLevel(c) == IF c.level = "linearizable" /\ (c.up \/ (~IsQuery(c.ep) /\ c.role = "follower")) THEN "strong" ELSE c.level
NRW(c) == (IF c.ep = "rwrite" THEN 1 ELSE 0) + (IF ~IsQuery(c.ep) /\ ~StoreRO(c.class) THEN 1 ELSE 0)
(* the kind of log entry the request becomes: "none" = served without the log                     *)
Entry(c) == IF IsQuery(c.ep) THEN (IF EffLevel(c) = "strong" THEN "QUERY" ELSE "none")
            ELSE IF NRW(c) = 0 /\ EffLevel(c) # "strong" THEN "none" ELSE "EXECUTE_QUERY"
(* the node that serves it: only a level-none read stays on a follower                            *)
ServedBy(c) == IF c.role = "follower" /\ Entry(c) = "none" /\ c.level = "none" THEN "follower" ELSE "leader"

(* effect of the text on one node's main database, by the connection that runs it                 *)
OnPool(cl) == ~ROPool /\ ClassAttr[cl].effQ
OnRW(cl) == IF DbRO(cl) THEN ~ClassifyWholeText /\ ClassAttr[cl].effQ       \* query loop, writes disabled
            ELSE IF ClassAttr[cl].fq THEN ClassAttr[cl].effQ ELSE ClassAttr[cl].effX
OnRWQueryLoop(cl) == ClassAttr[cl].effQ        \* a read routed to the read-write connection (switch off)

(* ------------------------------------------------------------------ the request, step by step   *)
VARIABLES c,         \* the case
          pc,        \* "recv" -> "local" | "proposed" -> "done"
          entry,     \* log entry kind
          applied,   \* nodes whose FSM applied the entry
          changed    \* nodes whose main database the TEXT changed (the genuine write of rwrite is not counted)
vars == <<c, pc, entry, applied, changed>>

Init == /\ c \in {x \in Case : ValidCase(x)}
        /\ pc = "recv" /\ entry = "none" /\ applied = {} /\ changed = {}

(* Store.Query / Store.Request decide *)
Dispatch == /\ pc = "recv"
            /\ entry' = Entry(c)
            /\ pc' = IF Entry(c) = "none" THEN "local" ELSE "proposed"
            /\ UNCHANGED <<c, applied, changed>>

(* served by one node without the log *)
ServeLocal == /\ pc = "local"
              /\ \E n \in Nodes :
                   LET hit == IF LocalReadsOnROPool THEN OnPool(c.class) ELSE OnRWQueryLoop(c.class) IN
                   changed' = IF hit THEN changed \cup {n} ELSE changed
              /\ pc' = "done"
              /\ UNCHANGED <<c, entry, applied>>

(* the FSM of node n applies the committed entry *)
Apply(n) == /\ pc = "proposed" /\ n \notin applied
            /\ applied' = applied \cup {n}
            /\ LET hit == IF entry = "QUERY"
                          THEN (IF StrongQueryOnROPool THEN OnPool(c.class) ELSE OnRWQueryLoop(c.class))
                          ELSE OnRW(c.class) IN
               changed' = IF hit THEN changed \cup {n} ELSE changed
            /\ pc' = IF applied' = Nodes THEN "done" ELSE pc
            /\ UNCHANGED <<c, entry>>

Next == Dispatch \/ ServeLocal \/ (\E n \in Nodes : Apply(n)) \/ (pc = "done" /\ UNCHANGED vars)
Spec == Init /\ [][Next]_vars

(* ------------------------------------------------------------------ the property -----------    *)
(* sentence 1: no read changes the database of any node *)
NoChangeByRead == changed # {} => ~TreatedRO(c)
(* sentence 2: a database changes only by applying a committed log entry (here: one that carries writes)*)
OnlyThroughLog == \A n \in changed : entry = "EXECUTE_QUERY" /\ n \in applied
(* ... and then on every node, at that one index *)
EveryNode == pc = "done" /\ changed # {} => changed = Nodes
Inv == NoChangeByRead /\ OnlyThroughLog /\ EveryNode
TypeOK == pc \in {"recv", "local", "proposed", "done"} /\ entry \in {"none", "QUERY", "EXECUTE_QUERY"} /\ applied \subseteq Nodes /\ changed \subseteq Nodes

(* ------------------------------------------------------------------ generator --------------    *)
(* every case with the design's expectation, for replay on the real code                          *)
Expect(x) == [class |-> x.class, ep |-> x.ep, level |-> x.level, role |-> x.role, up |-> x.up,
              treated_ro |-> TreatedRO(x), store_ro |-> StoreRO(x.class), db_ro |-> DbRO(x.class), entry |-> Entry(x), served_by |-> ServedBy(x),
              \* the design lets the text change the databases only here, and then it does on every node
              may_change |-> ~TreatedRO(x) /\ Entry(x) = "EXECUTE_QUERY",
              changes |-> Entry(x) = "EXECUTE_QUERY" /\ OnRW(x.class),
              \* single statements sqlite itself calls read-write and that do write: the code must change (harness sanity)
              must_change |-> ~IsQuery(x.ep) /\ x.class \in {"pragma-write", "ddl", "with-insert", "insert-returning", "rw-head-ro-tail", "pragma-optimize-all"}]
Gen(u) == \A x \in {y \in Case : ValidCase(y)} : PrintT(<<"@@", ToJson(Expect(x))>>)
GenInv == Gen(pc)
(* a one-state behaviour, so that GenInv is evaluated (and every case printed) exactly once       *)
GenInit == /\ c = [class |-> "select", ep |-> "qpost", level |-> "none", role |-> "leader", up |-> FALSE]
           /\ pc = "done" /\ entry = "none" /\ applied = {} /\ changed = {}
GenSpec == GenInit /\ [][UNCHANGED vars]_vars
=============================================================================
