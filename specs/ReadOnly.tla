------------------------------ MODULE ReadOnly ------------------------------
(* C17: reads never modify data; databases change only through the log.                           *)
(*                                                                                                *)
(* One request = a SEQUENCE of SQL texts, each of a statement class (a query-endpoint request      *)
(* carries one; a unified request 1..MaxLen, with or without the transaction flag), sent to an    *)
(* endpoint at a consistency level to a node of some role.  The spec follows it through the       *)
(* code's own steps                                                                               *)
(*   http/service.go handleQuery / handleRequest (sql.Process sets the EXPLAIN flag)              *)
(*   -> proxy (a request the receiving node may not serve is forwarded to the leader)             *)
(*   -> store/store.go Query / Request (RORWCount classifies each statement of a unified          *)
(*      request; level and nRW decide: local read | QUERY log entry | EXECUTE_QUERY log entry)    *)
(*   -> db/db.go QueryWithContext (read-only pool: mode=ro + query_only) or, for a log entry      *)
(*      applied by the FSM of EVERY node, db.Query (pool) / db.Request (read-write connection:    *)
(*      each statement classified again; read-only -> the driver's query loop, which steps only   *)
(*      the LAST statement of a text; read-write -> the exec loop, which steps every statement;   *)
(*      the statements of one request run one after the other on ONE connection, so whatever a    *)
(*      statement leaves behind on the connection is met by the next)                             *)
(* and records which node's database which STATEMENT of the request changed.                      *)
(*                                                                                                *)
(* Switches (TRUE = the design):                                                                  *)
(*   ROPool              connections of the read-only pool refuse every write                     *)
(*   ClassifyWholeText   the read-only verdict binds the whole text: a text that is treated as    *)
(*                       read-only cannot write, whichever of its statements tries.  The verdict  *)
(*                       itself is taken from the FIRST statement (sqlite3_stmt_readonly) or from *)
(*                       the EXPLAIN flag, by Store.RORWCount for the route and by DB.Request on  *)
(*                       every node; DB.Request then runs the text through the query path of the  *)
(*                       read-write connection with writes disabled (PRAGMA query_only), so a     *)
(*                       writing tail -- or a PRAGMA optimize that SQLite reports as read-only -- *)
(*                       fails instead of changing the database.  FALSE: the verdict on the head  *)
(*                       decides and the rest of the text runs unchecked                          *)
(*   GuardEveryROStmt    the write guard is established for EVERY statement DB.Request classifies *)
(*                       as read-only, and lifted after it, whatever ran before it in the same    *)
(*                       request: whether a statement is guarded depends on its own verdict only, *)
(*                       never on the history of the connection.  FALSE: the guard is kept as     *)
(*                       state across the statements of the request -- established when the first *)
(*                       read-only statement is met, lifted when a read-write statement needs the *)
(*                       connection, and then believed to be still in place: a read-only          *)
(*                       statement after [read-only .. read-write] runs unguarded                 *)
(*   LocalReadsOnROPool  reads served without the log use the pool (FALSE: the read-write         *)
(*                       connection)                                                              *)
(*   StrongQueryOnROPool a QUERY log entry is executed on the pool by every node (FALSE: on the   *)
(*                       read-write connection)                                                   *)
EXTENDS Integers, Sequences, FiniteSets, TLC, Json

CONSTANTS ROPool, ClassifyWholeText, GuardEveryROStmt, LocalReadsOnROPool, StrongQueryOnROPool,
          Nodes,         \* node ids
          SeqClasses,    \* the statement classes unified requests of 2..MaxLen statements are built from (all orders, repeats)
          MaxLen         \* longest unified request

(* ------------------------------------------------------------------ statement classes ------    *)
(* headRO : sqlite3_stmt_readonly of the first statement of the text                              *)
(* expl   : sql.Process (HTTP layer) marks the text as an EXPLAIN statement                       *)
(* fq     : sql.Process marks it ForceQuery (RETURNING): a read-write statement run by the query  *)
(*          loop                                                                                  *)
(* effQ   : the driver's QUERY loop on a writable connection changes the main database (only the  *)
(*          last statement of the text is stepped)                                                *)
(* effX   : the driver's EXEC loop on a writable connection changes the main database (every      *)
(*          statement is stepped)                                                                 *)
Attr(h, e, f, q, x) == [headRO |-> h, expl |-> e, fq |-> f, effQ |-> q, effX |-> x]
ClassAttr ==
  [c \in {"select", "select-fn", "pragma-read", "attach", "empty", "comment"} |-> Attr(TRUE, FALSE, FALSE, FALSE, FALSE)] @@
  [c \in {"ro-head-rw-tail", "ro-head-ddl-tail", "ro-head-pragma-tail"} |-> Attr(TRUE, FALSE, FALSE, TRUE, TRUE)] @@
  [c \in {"rw-head-ro-tail"} |-> Attr(FALSE, FALSE, FALSE, FALSE, TRUE)] @@
  [c \in {"explain-write"} |-> Attr(FALSE, TRUE, FALSE, FALSE, FALSE)] @@
  [c \in {"explain-ro-head-rw-tail"} |-> Attr(TRUE, TRUE, FALSE, TRUE, TRUE)] @@
  [c \in {"explain-rw-head-rw-tail"} |-> Attr(FALSE, TRUE, FALSE, TRUE, TRUE)] @@
  [c \in {"insert-returning"} |-> Attr(FALSE, FALSE, TRUE, TRUE, TRUE)] @@
  \* "write": a plain single INSERT (the genuine write of a mixed request)
  [c \in {"write", "pragma-write", "ddl", "with-insert"} |-> Attr(FALSE, FALSE, FALSE, TRUE, TRUE)] @@
  \* plain PRAGMA optimize with ONE table to analyse: sqlite3_stmt_readonly says read-only (no write transaction is
  \* compiled in), yet it runs ANALYZE through OP_SqlExec; with the 0x10000 bit (all tables) it is reported read-write
  [c \in {"pragma-optimize"} |-> Attr(TRUE, FALSE, FALSE, TRUE, TRUE)] @@
  [c \in {"pragma-optimize-all"} |-> Attr(FALSE, FALSE, FALSE, TRUE, TRUE)] @@
  \* no effect on the main database: incremental_vacuum without auto_vacuum, a TEMP table
  [c \in {"pragma-incr-vacuum", "create-temp"} |-> Attr(FALSE, FALSE, FALSE, FALSE, FALSE)]
Classes == DOMAIN ClassAttr

Endpoints == {"qpost", "qget", "req"}     \* /db/query POST, /db/query GET ?q=, /db/request (unified: a sequence of statements)
Levels == {"none", "weak", "strong", "linearizable"}
Roles == {"leader", "follower"}
IsQuery(ep) == ep \in {"qpost", "qget"}

RECURSIVE SeqsOf(_, _)
SeqsOf(S, k) == IF k = 0 THEN {<<>>} ELSE {Append(s, a) : s \in SeqsOf(S, k - 1), a \in S}
(* the statement sequences of a unified request: every class alone; every class before and after a genuine    *)
(* write; every sequence of 2..MaxLen statements over SeqClasses (every order, with repeats)                   *)
ReqSeqs == {<<a>> : a \in Classes} \cup {<<a, "write">> : a \in Classes} \cup {<<"write", a>> : a \in Classes}
           \cup UNION {SeqsOf(SeqClasses, k) : k \in 2..MaxLen}

(* up: a linearizable read is upgraded to a strong read (first one in the leader's term); tx: ?transaction    *)
Case == [ep : {"qpost", "qget"}, stmts : {<<a>> : a \in Classes}, tx : {FALSE}, level : Levels, role : Roles, up : BOOLEAN]
        \cup [ep : {"req"}, stmts : ReqSeqs, tx : BOOLEAN, level : Levels, role : Roles, up : BOOLEAN]
ValidCase(c) == c.up => c.level = "linearizable"
AllCases == {x \in Case : ValidCase(x)}
Pos(c) == 1..Len(c.stmts)

(* ------------------------------------------------------------------ classification ---------    *)
(* per STATEMENT, from its own text only *)
StoreRO(cl) == ClassAttr[cl].expl \/ ClassAttr[cl].headRO      \* Store.RORWCount: decides the route
DbRO(cl)    == ClassAttr[cl].expl \/ ClassAttr[cl].headRO      \* DB.Request, on the read-write connection of every node
(* what the property calls a read: every query-endpoint request, and a statement a unified request treats as read-only*)
TreatedRO(c, i) == IsQuery(c.ep) \/ StoreRO(c.stmts[i]) \/ DbRO(c.stmts[i])

(* ------------------------------------------------------------------ dispatch ---------------    *)
(* Store.Request on a FOLLOWER runs the linearizable pre-check first; a follower never served a strong read in*)
(* the current term, so it rewrites the level of the request to strong, then finds it is not the leader, and*)
(* the proxy forwards the rewritten request.  (Store.Query keeps the level in a local variable.)  *)
EffLevel(c) == IF c.level = "linearizable" /\ (c.up \/ (~IsQuery(c.ep) /\ c.role = "follower")) THEN "strong" ELSE c.level
NRW(c) == IF IsQuery(c.ep) THEN 0 ELSE Cardinality({i \in Pos(c) : ~StoreRO(c.stmts[i])})
NRO(c) == IF IsQuery(c.ep) THEN 0 ELSE Cardinality({i \in Pos(c) : StoreRO(c.stmts[i])})
(* the kind of log entry the request becomes: "none" = served without the log                     *)
Entry(c) == IF IsQuery(c.ep) THEN (IF EffLevel(c) = "strong" THEN "QUERY" ELSE "none")
            ELSE IF NRW(c) = 0 /\ EffLevel(c) # "strong" THEN "none" ELSE "EXECUTE_QUERY"
(* the node that serves it: only a level-none read stays on a follower                            *)
ServedBy(c) == IF c.role = "follower" /\ Entry(c) = "none" /\ c.level = "none" THEN "follower" ELSE "leader"

(* ------------------------------------------------------------------ one connection runs the statements -- *)
(* conn: "pool" a connection of the read-only pool (db.Query: every statement through the query loop);       *)
(*       "rwq"  the read-write connection used like the pool (a read routed there: switches off);            *)
(*       "rw"   the read-write connection under DB.Request (each statement classified, guarded if read-only) *)
(* h = the statements of the request that ran on the connection before this one.  The design never looks at  *)
(* it; with GuardEveryROStmt off the guard set for an earlier read-only statement and lifted for a later      *)
(* read-write one is believed to be still there                                                              *)
Guarded(h) == GuardEveryROStmt \/ ~(\E j \in 1..Len(h) : \E k \in (j + 1)..Len(h) : DbRO(h[j]) /\ ~DbRO(h[k]))
(* attempt: the statement, run this way, writes to the main database; refused: the connection refuses writes  *)
Outcome(conn, ss, i) ==
  LET a == ClassAttr[ss[i]] IN
  IF conn = "pool" THEN [attempt |-> a.effQ, refused |-> ROPool]
  ELSE IF conn = "rwq" THEN [attempt |-> a.effQ, refused |-> FALSE]
  ELSE IF DbRO(ss[i]) THEN [attempt |-> a.effQ, refused |-> ClassifyWholeText /\ Guarded(SubSeq(ss, 1, i - 1))]   \* query loop, writes disabled
  ELSE [attempt |-> IF a.fq THEN a.effQ ELSE a.effX, refused |-> FALSE]
(* the loop of db.Query / db.Request over the statements: a refused write is that statement's error.  Inside a *)
(* transaction db.Request rolls everything back at the first error and ends the request; db.Query (pool) goes  *)
(* on with the next statement and commits                                                                    *)
Acc0 == [hit |-> {}, failed |-> {}, ran |-> {}]
RECURSIVE Exec(_, _, _, _, _)
Exec(conn, ss, tx, i, acc) ==
  IF i > Len(ss) THEN acc
  ELSE LET o == Outcome(conn, ss, i) IN
       IF o.attempt /\ o.refused
       THEN IF tx /\ conn = "rw" THEN [hit |-> {}, failed |-> acc.failed \cup {i}, ran |-> acc.ran \cup {i}]
            ELSE Exec(conn, ss, tx, i + 1, [hit |-> acc.hit, failed |-> acc.failed \cup {i}, ran |-> acc.ran \cup {i}])
       ELSE Exec(conn, ss, tx, i + 1, [hit |-> acc.hit \cup (IF o.attempt THEN {i} ELSE {}), failed |-> acc.failed, ran |-> acc.ran \cup {i}])
Run(conn, c) == Exec(conn, c.stmts, c.tx, 1, Acc0)
ConnLocal == IF LocalReadsOnROPool THEN "pool" ELSE "rwq"
ConnEntry(e) == IF e = "QUERY" THEN (IF StrongQueryOnROPool THEN "pool" ELSE "rwq") ELSE "rw"

(* ------------------------------------------------------------------ the request, step by step   *)
VARIABLES c,         \* the case
          pc,        \* "recv" -> "local" | "proposed" -> "done"
          entry,     \* log entry kind
          applied,   \* nodes whose FSM applied the entry
          changed    \* <<n, i>>: statement i of the request changed the main database of node n
vars == <<c, pc, entry, applied, changed>>

Init == /\ c \in AllCases
        /\ pc = "recv" /\ entry = "none" /\ applied = {} /\ changed = {}

(* Store.Query / Store.Request decide *)
Dispatch == /\ pc = "recv"
            /\ entry' = Entry(c)
            /\ pc' = IF Entry(c) = "none" THEN "local" ELSE "proposed"
            /\ UNCHANGED <<c, applied, changed>>

(* served by one node without the log *)
ServeLocal == /\ pc = "local"
              /\ \E n \in Nodes : changed' = changed \cup ({n} \X Run(ConnLocal, c).hit)
              /\ pc' = "done"
              /\ UNCHANGED <<c, entry, applied>>

(* the FSM of node n applies the committed entry: the whole request, on one connection of that node *)
Apply(n) == /\ pc = "proposed" /\ n \notin applied
            /\ applied' = applied \cup {n}
            /\ changed' = changed \cup ({n} \X Run(ConnEntry(entry), c).hit)
            /\ pc' = IF applied' = Nodes THEN "done" ELSE pc
            /\ UNCHANGED <<c, entry>>

Next == Dispatch \/ ServeLocal \/ (\E n \in Nodes : Apply(n)) \/ (pc = "done" /\ UNCHANGED vars)
Spec == Init /\ [][Next]_vars

(* ------------------------------------------------------------------ the property -----------    *)
(* sentence 1: no read changes the database of any node *)
NoChangeByRead == \A p \in changed : ~TreatedRO(c, p[2])
(* sentence 2: a database changes only by applying a committed log entry (here: one that carries writes)*)
OnlyThroughLog == \A p \in changed : entry = "EXECUTE_QUERY" /\ p[1] \in applied
(* ... and then on every node, at that one index *)
EveryNode == pc = "done" => \A p \in changed : \A n \in Nodes : <<n, p[2]>> \in changed
Inv == NoChangeByRead /\ OnlyThroughLog /\ EveryNode
TypeOK == pc \in {"recv", "local", "proposed", "done"} /\ entry \in {"none", "QUERY", "EXECUTE_QUERY"} /\ applied \subseteq Nodes
          /\ changed \subseteq (Nodes \X Pos(c))

(* ------------------------------------------------------------------ generator --------------    *)
(* every case with the design's expectation PER STATEMENT, for replay on the real code            *)
SureWriters == {"write", "pragma-write", "ddl", "with-insert", "insert-returning", "rw-head-ro-tail", "pragma-optimize-all"}
Expect(x) ==
  LET r == Run(IF Entry(x) = "none" THEN ConnLocal ELSE ConnEntry(Entry(x)), x) IN
  [ep |-> x.ep, stmts |-> x.stmts, tx |-> x.tx, level |-> x.level, role |-> x.role, up |-> x.up,
   entry |-> Entry(x), served_by |-> ServedBy(x), nrw |-> NRW(x), nro |-> NRO(x),
   per |-> [i \in Pos(x) |->
     [class |-> x.stmts[i], treated_ro |-> TreatedRO(x, i), store_ro |-> StoreRO(x.stmts[i]), db_ro |-> DbRO(x.stmts[i]),
      \* the design lets a statement change the databases only here, and then it does on every node
      may_change |-> ~TreatedRO(x, i) /\ Entry(x) = "EXECUTE_QUERY",
      runs |-> i \in r.ran, fails |-> i \in r.failed, changes |-> i \in r.hit,
      \* single statements sqlite itself calls read-write and that do write: the code must change (harness sanity)
      must_change |-> i \in r.hit /\ x.stmts[i] \in SureWriters]]]
Gen(u) == \A x \in AllCases : PrintT(<<"@@", ToJson(Expect(x))>>)
GenInv == Gen(pc)
(* a one-state behaviour, so that GenInv is evaluated (and every case printed) exactly once       *)
GenInit == /\ c = [ep |-> "qpost", stmts |-> <<"select">>, tx |-> FALSE, level |-> "none", role |-> "leader", up |-> FALSE]
           /\ pc = "done" /\ entry = "none" /\ applied = {} /\ changed = {}
GenSpec == GenInit /\ [][UNCHANGED vars]_vars
=============================================================================
