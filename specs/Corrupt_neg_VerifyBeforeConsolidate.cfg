SPECIFICATION Spec
CONSTANTS
  NWals = 2
  VerifyBeforeFirstUse = TRUE
  VerifyAtStartRestore = TRUE
  HeaderCarriesRecordedCRC = TRUE
  ReceiverRecomputes = TRUE
  VerifyBeforeConsolidate = FALSE
INVARIANTS RunCorruptionNeverServed
