\* generator: every sequence of GenLen join / remove requests for two spare nodes (ids a, b; addresses 1, 2) on a cluster
\* whose stable voter s is never named; printed as @@ lines, replayed on a live cluster by harness/main/membership.go
SPECIFICATION Spec
CONSTANTS
  Id = {"a", "b", "s"}
  Addr = {"1", "2", "s0"}
  Self = "s"
  SelfAddr = "s0"
  OpIds = {"a", "b"}
  OpAddrs = {"1", "2"}
  Expect = 0
  ReapV = 0
  ReapN = 0
  MaxSince = 0
  MaxDownNodes = 0
  MaxJoins = 1
  MaxOps = 3
  GenLen = 3
  IgnoreOnlyIfIdenticalInclRole = TRUE
  RemoveConflictingEntry = TRUE
  BootstrapOnce = TRUE
  ReapAfterRoleTimeout = TRUE
  RaftRejectsDuplicates = TRUE
INVARIANTS GenEmit InvUniqueIds InvUniqueAddrs RoleAsRequested JoinTakesEffect
