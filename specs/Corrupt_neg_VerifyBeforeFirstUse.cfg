SPECIFICATION Spec
CONSTANTS
  NWals = 2
  VerifyBeforeFirstUse = FALSE
  VerifyAtStartRestore = TRUE
  HeaderCarriesRecordedCRC = TRUE
  ReceiverRecomputes = TRUE
  VerifyBeforeConsolidate = FALSE
INVARIANTS StartCorruptionNeverUsed
