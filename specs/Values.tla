------------------------------- MODULE Values -------------------------------
(* rqlite value pipeline: http/request_parser.go (ParseRequest, makeParameter) ->          *)
(* db/db.go parametersToValues -> SQLite (binding, column affinity) -> go-sqlite3 row       *)
(* values -> db/db.go normalizeRowParameters -> command/encoding/json.go.                    *)
(*                                                                                            *)
(* One behaviour = one value travelling down one path of the decision table                   *)
(*   input class x (positional | named parameter | SQL literal) x destination (column of a   *)
(*   given affinity, or no column at all: SELECT ?) x how it is read back (the column itself  *)
(*   or an expression over it: no declared type) x response form (array | associative) x      *)
(*   blob_array flag.                                                                          *)
(* Actions are the stages of the code.  Declarative side: SqlClass (which SQLite storage      *)
(* class a JSON value denotes), Affinity (SQLite's column affinity rules, datatype3.html §3), *)
(* JsonOf (how a storage class must appear in JSON).  The invariants say that the staged      *)
(* pipeline computes exactly the declarative outcome and never loses the value.               *)
(* Switches (TRUE = the design): Int64Exact, HexLiteralToBlob, ByteArrayToBlob,               *)
(* BlobStaysBlob, TextStaysText.                                                              *)
EXTENDS Naturals, Sequences, FiniteSets, TLC, Json

CONSTANTS Int64Exact,        \* JSON integers are decoded as int64 (json.Number), never through float64
          HexLiteralToBlob,  \* a string parameter of the form x'..' is a blob
          ByteArrayToBlob,   \* a JSON array of 0..255 is a blob
          BlobStaysBlob,     \* a BLOB read back is a blob whatever the declared type of the result column
          TextStaysText      \* a string that merely looks like hex / a number stays text

Ints    == {"int_small", "int_big53", "int_min", "int_max"}
Floats  == {"float_frac", "float_integral", "float_exp_frac", "float_exp_integral", "float_huge"}
Bools   == {"bool_true", "bool_false"}
Texts   == {"text_plain", "text_empty", "text_escapes", "text_nonascii", "text_nul", "text_hexlooking",
            "text_numint", "text_numreal", "text_numintegral", "text_numlike"}
HexLits == {"hexlit", "hexlit_empty"}
Arrays  == {"bytearray", "bytearray_empty"}
Inputs  == Ints \cup Floats \cup Bools \cup {"null"} \cup Texts \cup HexLits \cup Arrays

Vias    == {"positional", "named", "literal"}
Cols    == {"none", "integer", "real", "text", "blob", "numeric", "nostore"}
Reads   == {"column", "expr"}
Forms   == {"array", "assoc"}

Path == [inp : Inputs, via : Vias, col : Cols, read : Reads, form : Forms, blobarr : BOOLEAN]
Valid(q) == /\ (q.via = "literal" => q.inp \notin Arrays \cup {"text_nul"})   \* no SQL literal form
            /\ (q.col = "nostore" => q.read = "expr")                          \* SELECT ? has no column
Paths == {q \in Path : Valid(q)}

(* ---------------------------------------------------------------- declarative side *)
SqlClass(i) == IF i \in Ints \cup Bools THEN "integer"
               ELSE IF i \in Floats THEN "real"
               ELSE IF i = "null" THEN "null"
               ELSE IF i \in Texts THEN "text"
               ELSE "blob"

(* lexical facts SQLite's affinity rules look at *)
IntegralFits(i) == i \in {"float_integral", "float_exp_integral"}            \* real equal to an int64
TextInt(i)      == i \in {"text_numint", "text_numintegral"}                 \* text that converts to INTEGER losslessly
TextNum(i)      == i \in {"text_numint", "text_numreal", "text_numintegral"} \* well-formed numeric literal

Affinity(c, i, col) ==
  CASE col \in {"none", "blob", "nostore"} -> c
    [] col = "text"    -> IF c \in {"integer", "real"} THEN "text" ELSE c
    [] col = "real"    -> IF c = "integer" THEN "real"
                          ELSE IF c = "text" /\ TextNum(i) THEN "real" ELSE c
    [] col \in {"integer", "numeric"} ->
                          IF c = "real" /\ IntegralFits(i) THEN "integer"
                          ELSE IF c = "text" /\ TextInt(i) THEN "integer"
                          ELSE IF c = "text" /\ TextNum(i) THEN "real" ELSE c

JsonOf(c, ba) == CASE c = "integer" -> "int"        \* JSON number in integer syntax, all 64 bits
                   [] c = "real"    -> "number"
                   [] c = "text"    -> "string"
                   [] c = "blob"    -> IF ba THEN "bytearray" ELSE "base64"
                   [] c = "null"    -> "null"
                   [] OTHER         -> "error"

(* ---------------------------------------------------------------- the pipeline as coded *)
VARIABLES p,        \* the path (fixed)
          stage,    \* "request" -> "parsed" -> "bound" -> "stored" -> "read" -> "done"
          v,        \* [k: current representation class, exact: value still equals the original]
          bound,    \* storage class handed to SQLite
          stored    \* storage class after column affinity (= typeof())
vars == <<p, stage, v, bound, stored>>

(* makeParameter: json.Number -> Int64() else Float64(); string -> ParseHex else text; []any -> bytes *)
ParseParam(i) ==
  IF i \in Ints THEN [k |-> "I", exact |-> Int64Exact \/ i \notin {"int_big53", "int_max"}]
  ELSE IF i \in Floats THEN [k |-> "D", exact |-> TRUE]
  ELSE IF i \in Bools THEN [k |-> "B", exact |-> TRUE]
  ELSE IF i = "null" THEN [k |-> "NIL", exact |-> TRUE]
  ELSE IF i \in HexLits THEN [k |-> IF HexLiteralToBlob THEN "Y" ELSE "S", exact |-> TRUE]
  ELSE IF i \in Arrays THEN [k |-> IF ByteArrayToBlob THEN "Y" ELSE "ERR", exact |-> TRUE]
  ELSE IF TextStaysText THEN [k |-> "S", exact |-> TRUE]
  ELSE IF i = "text_hexlooking" THEN [k |-> "Y", exact |-> FALSE]
  ELSE IF i = "text_numint" THEN [k |-> "I", exact |-> FALSE]
  ELSE IF i \in {"text_numreal", "text_numintegral"} THEN [k |-> "D", exact |-> FALSE]
  ELSE [k |-> "S", exact |-> TRUE]

(* a literal is read by SQLite's own tokenizer: nothing of rqlite in between *)
LiteralKind(i) == [k |-> CASE i \in Ints \cup Bools -> "I" [] i \in Floats -> "D" [] i = "null" -> "NIL"
                           [] i \in Texts -> "S" [] OTHER -> "Y", exact |-> TRUE]

BindClass(k) == CASE k = "I" -> "integer" [] k = "B" -> "integer" [] k = "D" -> "real" [] k = "S" -> "text"
                  [] k = "Y" -> "blob" [] k = "NIL" -> "null" [] OTHER -> "error"

(* the result column has no declared type, or one with text affinity: normalizeRowParameters/isTextType *)
DeclTextLike(q) == q.read = "expr" \/ q.col \in {"none", "text"}

Normalize(c, q, ex) ==
  CASE c = "integer" -> [k |-> "I", exact |-> ex]
    [] c = "real"    -> [k |-> "D", exact |-> ex]
    [] c = "text"    -> [k |-> "S", exact |-> ex]
    [] c = "null"    -> [k |-> "NIL", exact |-> ex]
    [] c = "blob"    -> IF BlobStaysBlob \/ ~DeclTextLike(q) THEN [k |-> "Y", exact |-> ex]
                        ELSE [k |-> "S", exact |-> FALSE]
    [] OTHER         -> [k |-> "ERR", exact |-> FALSE]

EncodeClass(k, ba) == CASE k = "I" -> "int" [] k = "D" -> "number" [] k = "S" -> "string" [] k = "NIL" -> "null"
                        [] k = "B" -> "bool" [] k = "Y" -> (IF ba THEN "bytearray" ELSE "base64") [] OTHER -> "error"

Init == /\ p \in Paths
        /\ stage = "request"
        /\ v = [k |-> "JSON", exact |-> TRUE]
        /\ bound = "-" /\ stored = "-"

ParseParameter == /\ stage = "request" /\ p.via # "literal"
                  /\ v' = ParseParam(p.inp)
                  /\ stage' = "parsed" /\ UNCHANGED <<p, bound, stored>>
SqlLiteral     == /\ stage = "request" /\ p.via = "literal"
                  /\ v' = LiteralKind(p.inp)
                  /\ stage' = "parsed" /\ UNCHANGED <<p, bound, stored>>
Bind           == /\ stage = "parsed"
                  /\ bound' = BindClass(v.k)
                  /\ stage' = "bound" /\ UNCHANGED <<p, v, stored>>
Store          == /\ stage = "bound"
                  /\ stored' = IF bound = "error" THEN "error" ELSE Affinity(bound, p.inp, p.col)
                  /\ stage' = "stored" /\ UNCHANGED <<p, v, bound>>
ReadBack       == /\ stage = "stored"
                  /\ v' = Normalize(stored, p, v.exact)
                  /\ stage' = "read" /\ UNCHANGED <<p, bound, stored>>
Encode         == /\ stage = "read"
                  /\ v' = [k |-> EncodeClass(v.k, p.blobarr), exact |-> v.exact]
                  /\ stage' = "done" /\ UNCHANGED <<p, bound, stored>>
Next == ParseParameter \/ SqlLiteral \/ Bind \/ Store \/ ReadBack \/ Encode
Spec == Init /\ [][Next]_vars

(* ---------------------------------------------------------------- the property *)
Past(s) == LET ord == [request |-> 0, parsed |-> 1, bound |-> 2, stored |-> 3, read |-> 4, done |-> 5]
           IN ord[stage] >= ord[s]
ExpStored(q) == Affinity(SqlClass(q.inp), q.inp, q.col)
ExpOut(q)    == JsonOf(ExpStored(q), q.blobarr)
Identity(q)  == ExpStored(q) = SqlClass(q.inp)     \* no affinity conversion: output must equal the INPUT value

TypeFaithful   == Past("bound")  => bound = SqlClass(p.inp)          \* bound with the same type
StoredAsSQLite == Past("stored") => stored = ExpStored(p)            \* typeof() is what SQLite's rules give
ValueExact     == v.exact                                            \* ... and the same value, at every stage
OutFaithful    == stage = "done" => v.k = ExpOut(p)                  \* read back in the right JSON class
FormBlind      == stage = "done" => v.k = JsonOf(stored, p.blobarr)  \* same outcome for array and associative

(* ---------------------------------------------------------------- generator *)
Emit == stage = "done" =>
          PrintT(<<"@@", ToJson([inp |-> p.inp, via |-> p.via, col |-> p.col, read |-> p.read, form |-> p.form,
                                 blobarr |-> p.blobarr, bound |-> SqlClass(p.inp), stored |-> ExpStored(p),
                                 out |-> ExpOut(p), identity |-> Identity(p)])>>)
=============================================================================
