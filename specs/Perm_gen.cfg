SPECIFICATION Spec
CONSTANTS
  Unchecked = {}
  MutEach = FALSE
  NoBodyAfterError = TRUE
  Roles = {"leader", "follower"}
INVARIANTS Emit
CONSTRAINT GenStop
