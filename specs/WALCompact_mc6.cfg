SPECIFICATION Spec
CONSTANTS
  MaxFrames = 6
  Pages = {1, 2}
  Sizes = {1, 3}
  BaseSizes = {2}
  MaxSaltBreaks = 1
  MaxCkBreaks = 1
  MaxBreaks = 1
  LatestPerPage = TRUE
  TxnBoundary = TRUE
  OffsetOrder = TRUE
  StopAtSaltBreak = TRUE
  StopAtChecksumBreak = TRUE
  ErrorOnOpenTxn = TRUE
  RespectStart = TRUE
INVARIANTS Design
