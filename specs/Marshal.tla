------------------------------- MODULE Marshal -------------------------------
(* rqlite: how a request becomes a Raft log entry and comes back (command/marshal.go,           *)
(* store/store.go execute/Query/Request/load/Noop, store/command_processor.go Process).          *)
(*                                                                                                *)
(*   Submit    the store receives a request r (type, relation of the statement count to the       *)
(*             batch threshold, relation of the longest SQL text to the size threshold, how the   *)
(*             gzip size g compares with the plain size u, ForceCompression, payload class)       *)
(*   Encode    RequestMarshaler.Marshal for execute / query / execute_query (transcribed: the     *)
(*             attempt is decided by the thresholds, the attempt is KEPT iff u > g or forced,      *)
(*             the statistics counters move), MarshalLoadRequest (always gzip, flag never set),   *)
(*             MarshalLoadChunkRequest / MarshalNoop (plain)                                      *)
(*   Wrap      Command{Type, SubCommand, Compressed} + command.Marshal -> the log entry           *)
(*   Decode    command.Unmarshal + by type: UnmarshalSubCommand (gunzip iff Compressed),           *)
(*             UnmarshalLoadRequest (always gunzip), UnmarshalLoadChunkRequest/UnmarshalNoop.      *)
(*                                                                                                *)
(* A request whose text is not valid UTF-8 cannot be marshalled (proto3 string): Encode refuses   *)
(* it (error to the caller, nothing is logged).                                                   *)
(*                                                                                                *)
(* Switches (TRUE = the design the code is meant to implement):                                   *)
(*   BatchThreshold         statement count >= threshold triggers a compression attempt           *)
(*   SizeThreshold          one SQL text >= threshold bytes triggers a compression attempt        *)
(*   OnlyIfSmallerOrForced  an attempt is kept only if it is smaller, or compression is forced    *)
(*   DecompressOnFlag       the decoder gunzips exactly when the Compressed flag is set           *)
(* CountFlagOverhead is not a mechanism of the code: FALSE = the code as written ("smaller" is    *)
(* judged on the sub-command bytes, u > g); TRUE = a design that also counts the 2 bytes the      *)
(* Compressed field adds to the entry (u > g + 2), which is what invariant EntrySmaller needs.    *)
EXTENDS Naturals, Integers, Sequences, FiniteSets, TLC, Json

CONSTANTS BatchThreshold, SizeThreshold, OnlyIfSmallerOrForced, DecompressOnFlag,
          CountFlagOverhead, ParamKinds, InvalidKinds, OtherKinds, MaxReqs

ReqTypes   == {"execute", "query", "execute_query"}
OtherTypes == {"load", "load_chunk", "noop"}
Rel        == {"below", "at", "above"}
Gains      == {"neg", "zero", "one", "two", "more"}      \* u - g :  < 0, 0, 1, 2, >= 3

ReqCases   == [type : ReqTypes, batch : Rel, size : Rel, gain : Gains, forced : BOOLEAN, param : ParamKinds]
(* a load request carries only bytes, so it has no text that could be invalid *)
OtherCases == [type : {"load_chunk", "noop"}, batch : {"na"}, size : {"na"}, gain : {"na"}, forced : {FALSE}, param : OtherKinds]
              \cup [type : {"load"}, batch : {"na"}, size : {"na"}, gain : {"na"}, forced : {FALSE}, param : OtherKinds \ InvalidKinds]
Cases      == ReqCases \cup OtherCases

(* ------------------------------------------------------------------ the decision, as coded *)
IsReq(r)      == r.type \in ReqTypes
Encodable(r)  == r.param \notin InvalidKinds
BatchMet(r)   == r.batch \in {"at", "above"}              \* len(stmts) >= BatchThreshold
SizeMet(r)    == r.size \in {"at", "above"}               \* some len(Sql) >= SizeThreshold
Attempt(r)    == IsReq(r) /\ ((BatchThreshold /\ BatchMet(r)) \/ (SizeThreshold /\ SizeMet(r)))
SubSmaller(r) == r.gain \in {"one", "two", "more"}        \* ubz > len(gzData)
EntSmaller(r) == r.gain = "more"                          \* ... and by more than the flag field costs
Better(r)     == IF CountFlagOverhead THEN EntSmaller(r) ELSE SubSmaller(r)
Keep(r)       == IF OnlyIfSmallerOrForced THEN Better(r) \/ r.forced ELSE TRUE
EncFlag(r)    == Attempt(r) /\ Keep(r)                    \* the bool returned by Marshal = Command.Compressed
EncBody(r)    == IF EncFlag(r) \/ r.type = "load" THEN "gz" ELSE "plain"

(* the statistics counters of command/marshal.go; u = plain size, out = size of the returned bytes *)
ZeroStats == [req |-> 0, comp |-> 0, uncomp |-> 0, miss |-> 0, pre |-> 0, compb |-> 0, uncompb |-> 0]
StatsDelta(r, u, out) ==
  IF ~IsReq(r) THEN ZeroStats                                               \* other types bypass the marshaler
  ELSE IF ~Encodable(r) THEN [ZeroStats EXCEPT !.req = 1]                   \* error return after the first counter
  ELSE IF ~Attempt(r) THEN [ZeroStats EXCEPT !.req = 1, !.pre = u, !.uncomp = 1, !.uncompb = u]
  ELSE IF Keep(r) THEN [ZeroStats EXCEPT !.req = 1, !.pre = u, !.comp = 1, !.compb = out]
  ELSE [ZeroStats EXCEPT !.req = 1, !.pre = u, !.miss = 1]                  \* a miss counts in neither byte counter
AddStats(a, d) == [k \in DOMAIN a |-> a[k] + d[k]]

(* the decoder: which types look at the flag, and what comes out *)
Gunzips(type, flag) == CASE type \in ReqTypes -> (DecompressOnFlag /\ flag)
                         [] type = "load"     -> TRUE
                         [] OTHER             -> FALSE
DecodeOutcome(type, flag, body, payload) == IF Gunzips(type, flag) = (body = "gz") THEN payload ELSE "error"

(* ------------------------------------------------------------------ the documented table *)
Met(r)        == BatchMet(r) \/ SizeMet(r)
ExpectFlag(r) == IsReq(r) /\ Met(r) /\ ((IF CountFlagOverhead THEN EntSmaller(r) ELSE SubSmaller(r)) \/ r.forced)

(* abstract sizes for the design model (the trace spec uses the measured ones) *)
U(r) == 10
G(r) == CASE r.gain = "neg" -> 11 [] r.gain = "zero" -> 10 [] r.gain = "one" -> 9 [] r.gain = "two" -> 8
          [] r.gain = "more" -> 5 [] OTHER -> 10
Out(r) == IF EncFlag(r) \/ r.type = "load" THEN G(r) ELSE U(r)

----------------------------------------------------------------------------
VARIABLES pc, req, wire, dec, st, nreq, nerr
vars == <<pc, req, wire, dec, st, nreq, nerr>>
NoWire == [type |-> "none", flag |-> FALSE, body |-> "plain", payload |-> "none"]
NoReq  == [type |-> "noop", batch |-> "na", size |-> "na", gain |-> "na", forced |-> FALSE, param |-> "none"]

Init == pc = "idle" /\ req = NoReq /\ wire = NoWire /\ dec = "none" /\ st = ZeroStats /\ nreq = 0 /\ nerr = 0

Submit(r) == /\ pc = "idle" /\ nreq < MaxReqs
             /\ pc' = "submitted" /\ req' = r /\ nreq' = nreq + 1
             /\ wire' = NoWire /\ dec' = "none" /\ UNCHANGED <<st, nerr>>
Refuse == /\ pc = "submitted" /\ ~Encodable(req)
          /\ pc' = "idle" /\ st' = AddStats(st, StatsDelta(req, U(req), Out(req)))
          /\ nerr' = nerr + (IF IsReq(req) THEN 1 ELSE 0) /\ req' = NoReq /\ UNCHANGED <<wire, dec, nreq>>
Encode == /\ pc = "submitted" /\ Encodable(req)
          /\ pc' = "encoded"
          /\ wire' = [type |-> "sub", flag |-> EncFlag(req), body |-> EncBody(req), payload |-> req.param]
          /\ st' = AddStats(st, StatsDelta(req, U(req), Out(req)))
          /\ UNCHANGED <<req, dec, nreq, nerr>>
Wrap == /\ pc = "encoded" /\ pc' = "logged"
        /\ wire' = [wire EXCEPT !.type = req.type]
        /\ UNCHANGED <<req, dec, st, nreq, nerr>>
Decode == /\ pc = "logged" /\ pc' = "decoded"
          /\ dec' = DecodeOutcome(wire.type, wire.flag, wire.body, wire.payload)
          /\ UNCHANGED <<req, wire, st, nreq, nerr>>
Done == pc = "decoded" /\ pc' = "idle" /\ req' = NoReq /\ wire' = NoWire /\ dec' = "none" /\ UNCHANGED <<st, nreq, nerr>>
Next == (\E r \in Cases : Submit(r)) \/ Refuse \/ Encode \/ Wrap \/ Decode \/ Done
Spec == Init /\ [][Next]_vars

----------------------------------------------------------------------------
TypeOK == /\ pc \in {"idle", "submitted", "encoded", "logged", "decoded"}
          /\ req \in Cases \cup {NoReq} /\ wire.flag \in BOOLEAN /\ wire.body \in {"plain", "gz"}
Sent == pc \in {"encoded", "logged", "decoded"}
(* the property: what was decoded is what was submitted, on every path *)
RoundTrip == pc = "decoded" => dec = req.param
(* the property: compression is used only when it makes things smaller or is forced (sub-command reading) *)
UsefulOnly == Sent /\ wire.flag => SubSmaller(req) \/ req.forced
(* the property, entry reading: an unforced compressed entry is really smaller than the plain one would be *)
EntrySmaller == Sent /\ wire.flag /\ ~req.forced => EntSmaller(req)
(* the design table: compressed = thresholdMet /\ (smaller \/ forced); only requests are ever flagged *)
FlagTable == Sent => wire.flag = ExpectFlag(req)
FlagOnlyForRequests == Sent /\ wire.flag => IsReq(req)
(* the flag tells the truth about the body for the types whose decoder consults it *)
FlagMatchesBody == Sent /\ IsReq(req) => (wire.flag <=> wire.body = "gz")
(* counters: every request is counted exactly once as compressed, uncompressed, a miss, or an error *)
StatsPartition == pc # "submitted" => st.req = st.comp + st.uncomp + st.miss + nerr

----------------------------------------------------------------------------
(* generator: one line per abstract case with what the table expects *)
GInit == pc = "gen" /\ req \in Cases /\ wire = NoWire /\ dec = "none" /\ st = ZeroStats /\ nreq = 0 /\ nerr = 0
GSpec == GInit /\ [][UNCHANGED vars]_vars
Emit == PrintT(<<"@@", ToJson([c |-> req, encodable |-> Encodable(req), flag |-> EncFlag(req), body |-> EncBody(req)])>>)
=============================================================================
