SPECIFICATION GenSpec
CONSTANTS
  ROPool = TRUE
  ClassifyWholeText = TRUE
  GuardEveryROStmt = TRUE
  LocalReadsOnROPool = TRUE
  StrongQueryOnROPool = TRUE
  Nodes = {n1, n2, n3}
  SeqClasses = {"select", "write", "ro-head-rw-tail", "explain-write", "explain-ro-head-rw-tail", "pragma-optimize", "insert-returning"}
  MaxLen = 4
INVARIANT GenInv
