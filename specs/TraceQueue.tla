----------------------------- MODULE TraceQueue -----------------------------
(* Trace validation of queue/queue.go against Queue.tla.  Hook events: q.write (under     *)
(* seqMu, after seqNum++ and before the channel send), q.recv / q.recvflush / q.timer /    *)
(* q.sending (run-loop goroutine).  Harness events: flush.call, c.recv (consumer took a    *)
(* request from C), c.closing (about to Close it), fc.closed (a writer saw its flush       *)
(* channel closed), w.ret (Write returned).  Sequence numbers are rebased by the harness.  *)
EXTENDS Queue, Json, Integers

Trace == ndJsonDeserialize("trace.ndjson")
VARIABLES l, objsOf, fcOf, flushPend, closing, retd, reason
tvars == <<vars, l, objsOf, fcOf, flushPend, closing, retd, reason>>
Ev == Trace[l]
Is(e) == l <= Len(Trace) /\ Trace[l].ev = e
Step == l' = l + 1
Max2(a, b) == IF a > b THEN a ELSE b
ObjsOfReq(r) == FlattenSeq([j \in 1..Len(r.items) |-> objsOf[r.items[j].seq]])
NObjs(q) == Len(FlattenSeq([j \in 1..Len(q) |-> objsOf[q[j].seq]]))
Quiet == UNCHANGED <<mu, wpc, wseq, pending, nflush>>

TInit == Init /\ l = 1 /\ objsOf = <<>> /\ fcOf = <<>> /\ flushPend = 0 /\ closing = {} /\ retd = {} /\ reason = "none" /\ TLCSet(1, 0)

TReset == /\ Is("reset") /\ Step
          /\ seqNum' = 0 /\ chan' = <<>> /\ qobjs' = <<>> /\ timer' = FALSE /\ sendCh' = <<>> /\ out' = <<>> /\ acc' = <<>>
          /\ objsOf' = <<>> /\ fcOf' = <<>> /\ flushPend' = 0 /\ closing' = {} /\ retd' = {} /\ reason' = "none" /\ Quiet

TWrite == /\ Is("q.write") /\ Step /\ Ev.seq = seqNum + 1 /\ seqNum' = Ev.seq
          /\ chan' = Append(chan, Item(Ev.seq)) /\ acc' = Append(acc, Ev.seq)
          /\ objsOf' = (Ev.seq :> Ev.objs) @@ objsOf /\ fcOf' = (Ev.seq :> Ev.fc) @@ fcOf
          /\ UNCHANGED <<qobjs, timer, sendCh, out, flushPend, closing, retd>> /\ Quiet /\ UNCHANGED reason
TRet == /\ Is("w.ret") /\ Step /\ Ev.seq \in DOMAIN objsOf /\ objsOf[Ev.seq] = Ev.objs /\ Ev.seq \notin retd
        /\ retd' = retd \cup {Ev.seq}
        /\ UNCHANGED <<seqNum, chan, qobjs, timer, sendCh, out, acc, objsOf, fcOf, flushPend, closing>> /\ Quiet /\ UNCHANGED reason
TFlushCall == /\ Is("flush.call") /\ Step /\ flushPend' = flushPend + 1
              /\ UNCHANGED <<seqNum, chan, qobjs, timer, sendCh, out, acc, objsOf, fcOf, closing, retd>> /\ Quiet /\ UNCHANGED reason

(* run loop: it can only be here if its previous send went through, i.e. at most one request waits in sendCh *)
LoopFree == Len(sendCh) <= 2   \* one in the 1-slot channel + one the single consumer has taken but not yet logged
TRecv == /\ Is("q.recv") /\ Step /\ LoopFree /\ reason = "none" /\ Len(qobjs) < BatchSize
         /\ reason' = (IF Len(qobjs) + 1 = BatchSize THEN "size" ELSE "none") /\ chan # <<>> /\ Head(chan).seq = Ev.seq
         /\ chan' = Tail(chan) /\ qobjs' = Append(qobjs, Head(chan))
         /\ timer' = (IF Len(qobjs) = 0 /\ HasTimeout THEN TRUE ELSE timer)
         /\ UNCHANGED <<seqNum, sendCh, out, acc, objsOf, fcOf, flushPend, closing, retd>> /\ Quiet
TRecvFlush == /\ Is("q.recvflush") /\ Step /\ LoopFree /\ reason = "none" /\ reason' = (IF qobjs = <<>> THEN "none" ELSE "flush") /\ flushPend > 0 /\ flushPend' = flushPend - 1
              /\ timer' = FALSE
              /\ UNCHANGED <<seqNum, chan, qobjs, sendCh, out, acc, objsOf, fcOf, closing, retd>> /\ Quiet
TTimer == /\ Is("q.timer") /\ Step /\ LoopFree /\ reason = "none" /\ reason' = (IF qobjs = <<>> THEN "none" ELSE "timer") /\ timer /\ timer' = FALSE
          /\ UNCHANGED <<seqNum, chan, qobjs, sendCh, out, acc, objsOf, fcOf, flushPend, closing, retd>> /\ Quiet
(* writeFn: allowed exactly when the batch is full, after a flush marker, or after the timer fired; the  *)
(* previous event tells which (the loop goroutine emits recv/recvflush/timer immediately before)          *)
TSending == /\ Is("q.sending") /\ Step /\ LoopFree /\ reason # "none" /\ reason' = "none" /\ qobjs # <<>>
            /\ Ev.nw = Len(qobjs) /\ Ev.n = NObjs(qobjs) /\ Ev.seq = Merge(qobjs).seq
            /\ Len(qobjs) <= BatchSize
            /\ sendCh' = Append(sendCh, Merge(qobjs)) /\ qobjs' = <<>> /\ timer' = FALSE
            /\ UNCHANGED <<seqNum, chan, out, acc, objsOf, fcOf, flushPend, closing, retd>> /\ Quiet
TConsume == /\ Is("c.recv") /\ Step /\ sendCh # <<>> /\ Head(sendCh).seq = Ev.seq
            /\ ObjsOfReq(Head(sendCh)) = Ev.objs
            /\ out' = Append(out, Head(sendCh)) /\ sendCh' = Tail(sendCh)
            /\ UNCHANGED <<seqNum, chan, qobjs, timer, acc, objsOf, fcOf, flushPend, closing, retd>> /\ Quiet /\ UNCHANGED reason
TClosing == /\ Is("c.closing") /\ Step /\ \E i \in 1..Len(out) : out[i].seq = Ev.seq
            /\ closing' = closing \cup {Ev.seq}
            /\ UNCHANGED <<seqNum, chan, qobjs, timer, sendCh, out, acc, objsOf, fcOf, flushPend, retd>> /\ Quiet /\ UNCHANGED reason
(* a flush channel may be observed closed only after the batch holding that write is being closed *)
TFcClosed == /\ Is("fc.closed") /\ Step
             /\ \E i \in 1..Len(out) : /\ out[i].seq \in closing
                                       /\ \E j \in 1..Len(out[i].items) : out[i].items[j].seq = Ev.seq
             /\ UNCHANGED <<seqNum, chan, qobjs, timer, sendCh, out, acc, objsOf, fcOf, flushPend, closing, retd>> /\ Quiet /\ UNCHANGED reason
(* end of run, queue quiescent after a final flush: nothing may be left inside *)
TDrained == /\ Is("drained") /\ Step /\ chan = <<>> /\ qobjs = <<>> /\ sendCh = <<>> /\ Seqs(out) = acc
            /\ UNCHANGED <<seqNum, chan, qobjs, timer, sendCh, out, acc, objsOf, fcOf, flushPend, closing, retd>> /\ Quiet /\ UNCHANGED reason

TNext == \/ TReset \/ TWrite \/ TRet \/ TFlushCall \/ TRecv \/ TRecvFlush \/ TTimer \/ TSending
         \/ TConsume \/ TClosing \/ TFcClosed \/ TDrained
TSpec == TInit /\ [][TNext]_tvars

(* the run loop sends a batch only for one of the three documented reasons *)
HW == TLCSet(1, Max2(l, TLCGet(1)))
Accepted == IF TLCGet(1) >= Len(Trace) + 1 THEN TRUE
            ELSE PrintT(<<"@@HW", TLCGet(1) - 1>>) /\ FALSE
TFIFO == IsPrefix(Seqs(out) \o Seqs(sendCh) \o SeqNums(qobjs) \o SeqNums(chan), acc)
         /\ Len(Seqs(out) \o Seqs(sendCh) \o SeqNums(qobjs) \o SeqNums(chan)) = Len(acc)
=============================================================================
