SPECIFICATION Spec
CONSTANTS
  PrefilterComplete = TRUE
  ImplicitNow = FALSE
  FormatOnly = TRUE
  SkipOrderBy = TRUE
  LeaveStringsIdents = TRUE
  UntouchedIfNoSite = TRUE
  WalkEverywhere = TRUE
  OnePin = TRUE
  SiteIndependent = TRUE
  Tier = "neg"
INVARIANTS Complete
