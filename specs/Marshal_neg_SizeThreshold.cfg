SPECIFICATION Spec
CONSTANTS
  BatchThreshold = TRUE
  SizeThreshold = FALSE
  OnlyIfSmallerOrForced = TRUE
  DecompressOnFlag = TRUE
  CountFlagOverhead = FALSE
  ParamKinds = {"p", "badutf8"}
  InvalidKinds = {"badutf8"}
  OtherKinds = {"d", "badutf8"}
  MaxReqs = 1
INVARIANTS FlagTable
