\* joins / re-joins / removals, every history of any length, 4 ids x 4 addresses (node a at a1 is the bootstrap node;
\* the other ids and addresses are interchangeable)
SPECIFICATION Spec
CONSTANTS
  a = a  b = b  c = c  d = d
  a1 = a1  a2 = a2  a3 = a3  a4 = a4
  Id = {a, b, c, d}
  Addr = {a1, a2, a3, a4}
  Self = a
  SelfAddr = a1
  OpIds = {a, b, c, d}
  OpAddrs = {a1, a2, a3, a4}
  Expect = 0
  ReapV = 2
  ReapN = 1
  MaxSince = 3
  MaxDownNodes = 0
  MaxJoins = 1
  MaxOps = 0
  GenLen = 0
  IgnoreOnlyIfIdenticalInclRole = TRUE
  RemoveConflictingEntry = TRUE
  BootstrapOnce = TRUE
  ReapAfterRoleTimeout = TRUE
  RaftRejectsDuplicates = TRUE
SYMMETRY Sym
INVARIANTS InvUniqueIds InvUniqueAddrs RoleAsRequested JoinTakesEffect StepsMatchClosedForm BootstrapAtMostOnce ReapOnlyAfterRoleTimeout
