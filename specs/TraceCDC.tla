------------------------------ MODULE TraceCDC ------------------------------
(* Trace validation of the real CDC pipeline (db.CDCStreamer -> cdc.Service -> cdc.Queue -> HTTP      *)
(* endpoint) against CDC.tla.  One line per hook event / harness event; every line is consumed       *)
(* deterministically: the model state follows what the code DID (fields of the event), and at every *)
(* line the rules of CDC.tla that apply are evaluated.  A rule that is false is recorded as          *)
(* <<line, name>> (register 2) and printed by the postcondition; the trace is always read to the end *)
(* so that every class of misbehaviour of one run is listed.                                         *)
(*                                                                                                   *)
(*  streamer (FSM goroutine)   cdcs.reset{k}  cdcs.commit{idx,nev}                                   *)
(*  writeToBatcher             cdc.in{idx,ignored}  cdc.sync{phase}                                  *)
(*  mainLoop                   cdc.batch{key,n,flushonly}                                            *)
(*  FIFO manager goroutine     fifo.enq{idx,stored,high}  fifo.del{idx}                              *)
(*  leaderLoop                 cdc.lead{is}  cdc.take{key,skipped}  cdc.sent{key,ok}  cdc.hwm{v}     *)
(*  leaderHWMLoop/followerLoop cdc.bcast{v}  cdc.hwm{v,role=follower}  cdc.prune                     *)
(*  NewService                 cdc.open{hwm}                                                         *)
(*  harness                    reset  ep.mode{up}  ep.rx{from,ok,groups}  c.restart{node,snap}       *)
(*                             c.snap{node,idx}  c.final{groups}  note                                *)
(* Property rules: Labelled (ep.rx), TenureOrder (ep.rx), NoSkip (every hwm change), completeness at *)
(* quiescence (c.final, with the recorded reason the group left the pipeline).                       *)
EXTENDS CDC, Json, Integers

Trace == ndJsonDeserialize("trace.ndjson")
VARIABLES l, bad,
          pb,       \* [Node -> <<>> | <<key, groups>>] batch handed to Enqueue, FIFO answer pending
          ord,      \* [Node -> Nat] commits seen in the entry being applied
          allg,     \* ids <<entry, ordinal>> of all groups created so far on any node
          drops,    \* <<entry, ordinal, reason>>: an undelivered group left a node's pipeline for good
          hwmSeen,  \* [Node -> SUBSET Nat] every value the node's hwm has had
          bvals,    \* values broadcast so far
          lastOK    \* [Node -> Nat] key of the last successful send
tvars == <<vars, l, bad, pb, ord, allg, drops, hwmSeen, bvals, lastOK>>

Ev == Trace[l]
Is(e) == l <= Len(Trace) /\ Trace[l].ev = e
Step == l' = l + 1
N == Ev.inst
Flag(b, cond, name) == IF cond THEN b ELSE b \cup {<<l, name>>}
Marker == <<0, 0, 0>>
NoMark(s) == SelectSeq(s, LAMBDA g : g # Marker)
Id(g) == <<g[1], g[2]>>
Stored(n) == UNION {Range(fifo[n][k]) : k \in DOMAIN fifo[n]}
(* groups of s that are neither delivered nor stored in n's FIFO: losing them from memory loses them on n *)
Gone(n, s) == {g \in Range(NoMark(s)) : Id(g) \notin DeliveredIds /\ g \notin Stored(n)}
Later(g) == g[2] >= 2
Sfx(later) == IF later THEN ":later-commit" ELSE ""
OnlyLater(S) == S # {} /\ \A x \in S : x[2] >= 2        \* ids or groups: ordinal is the 2nd component
Undelivered(v) == {x \in allg : x[1] <= v /\ x \notin DeliveredIds}

(* every variable of CDC.tla not named in ch is unchanged *)
Frame(ch) ==
  /\ IF "applied" \in ch THEN TRUE ELSE UNCHANGED applied
  /\ IF "inq" \in ch THEN TRUE ELSE UNCHANGED inq
  /\ IF "batch" \in ch THEN TRUE ELSE UNCHANGED batch
  /\ IF "fifo" \in ch THEN TRUE ELSE UNCHANGED fifo
  /\ IF "highKey" \in ch THEN TRUE ELSE UNCHANGED highKey
  /\ IF "startHigh" \in ch THEN TRUE ELSE UNCHANGED startHigh
  /\ IF "cursor" \in ch THEN TRUE ELSE UNCHANGED cursor
  /\ IF "taken" \in ch THEN TRUE ELSE UNCHANGED taken
  /\ IF "hwm" \in ch THEN TRUE ELSE UNCHANGED hwm
  /\ IF "snapIdx" \in ch THEN TRUE ELSE UNCHANGED snapIdx
  /\ IF "lead" \in ch THEN TRUE ELSE UNCHANGED lead
  /\ IF "up" \in ch THEN TRUE ELSE UNCHANGED up
  /\ IF "delivered" \in ch THEN TRUE ELSE UNCHANGED delivered
  /\ IF "lastIdx" \in ch THEN TRUE ELSE UNCHANGED lastIdx
  /\ IF "pb" \in ch THEN TRUE ELSE UNCHANGED pb
  /\ IF "ord" \in ch THEN TRUE ELSE UNCHANGED ord
  /\ IF "allg" \in ch THEN TRUE ELSE UNCHANGED allg
  /\ IF "drops" \in ch THEN TRUE ELSE UNCHANGED drops
  /\ IF "hwmSeen" \in ch THEN TRUE ELSE UNCHANGED hwmSeen
  /\ IF "bvals" \in ch THEN TRUE ELSE UNCHANGED bvals
  /\ IF "unsent" \in ch THEN TRUE ELSE UNCHANGED unsent
  /\ IF "lastOK" \in ch THEN TRUE ELSE UNCHANGED lastOK
  /\ IF "bad" \in ch THEN TRUE ELSE UNCHANGED bad
  /\ UNCHANGED <<hch, ordOK, flips, restarts, snaps, downs, sig, want, isl, stop, mwait>>

Fresh == /\ applied' = [n \in Node |-> 0] /\ inq' = [n \in Node |-> <<>>] /\ batch' = [n \in Node |-> <<>>]
         /\ fifo' = [n \in Node |-> <<>>] /\ highKey' = [n \in Node |-> 0] /\ startHigh' = [n \in Node |-> 0]
         /\ cursor' = [n \in Node |-> 0] /\ taken' = [n \in Node |-> <<>>] /\ hwm' = [n \in Node |-> 0]
         /\ snapIdx' = [n \in Node |-> 0] /\ lead' = {} /\ up' = TRUE /\ delivered' = {}
         /\ lastIdx' = [n \in Node |-> 0] /\ pb' = [n \in Node |-> <<>>] /\ ord' = [n \in Node |-> 0]
         /\ allg' = {} /\ drops' = {} /\ hwmSeen' = [n \in Node |-> {0}] /\ bvals' = {}
         /\ unsent' = [n \in Node |-> <<>>] /\ lastOK' = [n \in Node |-> 0]

TInit == /\ Init /\ l = 1 /\ TLCSet(1, 0) /\ TLCSet(2, {}) /\ bad = {}
         /\ pb = [n \in Node |-> <<>>] /\ ord = [n \in Node |-> 0] /\ allg = {} /\ drops = {}
         /\ hwmSeen = [n \in Node |-> {0}] /\ bvals = {} /\ lastOK = [n \in Node |-> 0]

TReset == /\ Is("reset") /\ Step /\ Fresh /\ UNCHANGED <<bad, hch, ordOK, flips, restarts, snaps, downs, sig, want, isl, stop, mwait>>
TNote == /\ (Is("note") \/ Is("cdc.prune") \/ Is("c.flap")) /\ Step /\ Frame({})

(* ---- FSM goroutine: Reset(index) per log entry, one group per commit with row changes ---- *)
TEntry == /\ Is("cdcs.reset") /\ Step
          /\ applied' = [applied EXCEPT ![N] = Ev.k] /\ ord' = [ord EXCEPT ![N] = 0]
          /\ Frame({"applied", "ord"})
TCommit == /\ Is("cdcs.commit") /\ Step
           /\ LET g == <<applied[N], ord[N] + 1, Ev.idx>> IN
                /\ inq' = [inq EXCEPT ![N] = Append(@, g)]
                /\ allg' = allg \cup {Id(g)}
           /\ ord' = [ord EXCEPT ![N] = @ + 1]
           /\ Frame({"inq", "allg", "ord"})

(* ---- writeToBatcher ---- *)
(* the hwm it compared with is read without synchronisation: the value before or after a concurrent change *)
NextHwm(n) == LET ks == {k \in (l + 1)..(IF l + 60 < Len(Trace) THEN l + 60 ELSE Len(Trace)) :
                             Trace[k].ev = "cdc.hwm" /\ Trace[k].inst = n}
              IN IF ks = {} THEN hwm[n] ELSE Trace[MinS(ks)].v
Plausible(n) == hwmSeen[n] \cup {NextHwm(n)}
TIn == /\ Is("cdc.in") /\ Step /\ inq[N] # <<>>
       /\ LET g == Head(inq[N])
              okT == Ev.idx # 0 /\ ((\E h \in Plausible(N) : Ev.idx <= h) \/ Ev.idx < startHigh[N])
              okF == Ev.idx = 0 \/ (\E h \in Plausible(N) : Ev.idx > h)
              b1 == Flag(bad, g[3] = Ev.idx, "in-channel-order")
              b2 == Flag(b1, IF Ev.ignored THEN okT ELSE okF, "batcher-filter-decision")
          IN /\ bad' = b2
             /\ batch' = [batch EXCEPT ![N] = IF Ev.ignored THEN @ ELSE Append(@, g)]
             /\ drops' = IF Ev.ignored /\ Id(g) \notin DeliveredIds /\ g \notin Stored(N)
                         THEN drops \cup {<<g[1], g[2], "lost:filtered-by-hwm" \o Sfx(Later(g))>>}
                         ELSE drops
       /\ inq' = [inq EXCEPT ![N] = Tail(@)]
       /\ Frame({"bad", "batch", "drops", "inq"})
TSync == /\ Is("cdc.sync") /\ Step
         /\ batch' = [batch EXCEPT ![N] = IF Ev.phase = "begin" THEN Append(@, Marker) ELSE @]
         /\ Frame({"batch"})

(* ---- mainLoop: a batch from the batcher, about to be enqueued under key = highest index ---- *)
TBatch == /\ Is("cdc.batch") /\ Step
          /\ LET cnt == IF Ev.n <= Len(batch[N]) THEN Ev.n ELSE Len(batch[N])
                 gb == NoMark(SubSeq(batch[N], 1, cnt))
                 b1 == Flag(bad, Ev.n <= Len(batch[N]), "batch-larger-than-batcher-contents")
                 b2 == Flag(b1, pb[N] = <<>>, "enqueue-overlaps-previous")
                 b3 == Flag(b2, Ev.key = MaxS(Labs(gb)), "batch-key-not-highest-index")
             IN /\ bad' = b3
                /\ batch' = [batch EXCEPT ![N] = SubSeq(@, cnt + 1, Len(@))]
                /\ pb' = [pb EXCEPT ![N] = IF Ev.flushonly THEN <<>> ELSE <<Ev.key, gb>>]
          /\ Frame({"bad", "batch", "pb"})

(* ---- FIFO manager goroutine ---- *)
TEnq == /\ Is("fifo.enq") /\ Step
        /\ LET gb == IF pb[N] = <<>> THEN <<>> ELSE pb[N][2]
               b1 == Flag(bad, pb[N] # <<>> /\ pb[N][1] = Ev.idx, "enqueue-without-batch")
               b2 == Flag(b1, Ev.stored = (Ev.idx > highKey[N]), "fifo-duplicate-suppression")
           IN /\ bad' = b2
              /\ fifo' = [fifo EXCEPT ![N] = IF Ev.stored THEN (Ev.idx :> gb) @@ @ ELSE @]
              /\ highKey' = [highKey EXCEPT ![N] = IF Ev.stored /\ Ev.idx > @ THEN Ev.idx ELSE @]
              /\ drops' = IF Ev.stored THEN drops
                          ELSE drops \cup {<<g[1], g[2], (IF Ev.idx = 0 THEN "lost:batch-key-0"
                                                           ELSE "lost:batch-key-reused") \o Sfx(Later(g))>> : g \in Gone(N, gb)}
        /\ pb' = [pb EXCEPT ![N] = <<>>]
        /\ Frame({"bad", "fifo", "highKey", "drops", "pb"})
TDel == /\ Is("fifo.del") /\ Step
        /\ LET cut == {k \in DOMAIN fifo[N] : k <= Ev.idx}
               lostg == {g \in UNION {Range(fifo[N][k]) : k \in cut} : Id(g) \notin DeliveredIds}
               b1 == Flag(bad, Ev.idx \in Plausible(N) \cup bvals, "prune-not-to-a-high-water-mark")
               b2 == Flag(b1, lostg = {}, "pruned-undelivered" \o Sfx(OnlyLater(lostg)))
           IN /\ bad' = b2
              /\ drops' = drops \cup {<<g[1], g[2], "lost:pruned-undelivered" \o Sfx(Later(g))>> : g \in lostg}
        /\ fifo' = [fifo EXCEPT ![N] = PruneF(@, Ev.idx)]
        /\ cursor' = [cursor EXCEPT ![N] = CursorAfterDel(@, Ev.idx)]
        /\ Frame({"bad", "drops", "fifo", "cursor"})

(* ---- leader loop ---- *)
TLead == /\ Is("cdc.lead") /\ Step
         /\ IF Ev.is
            THEN /\ lead' = lead \cup {N} /\ lastIdx' = [lastIdx EXCEPT ![N] = 0]
                 /\ UNCHANGED <<taken, unsent>>
            ELSE /\ lead' = lead \ {N} /\ lastIdx' = [lastIdx EXCEPT ![N] = 0]
                 /\ unsent' = [unsent EXCEPT ![N] = IF taken[N] # <<>> THEN taken[N] ELSE @]
                 /\ taken' = [taken EXCEPT ![N] = <<>>]
         /\ Frame({"lead", "lastIdx", "taken", "unsent"})
(* the next event comes from the FIFO cursor, or is the batch the previous leader loop of this node still held *)
TTake == /\ Is("cdc.take") /\ Step
         /\ LET k == Ev.key
                resumed == unsent[N] # <<>> /\ unsent[N][1] = k
                e == Seek(Keys(fifo[N]), cursor[N])
                skippedOver == /\ unsent[N] # <<>> /\ ~resumed /\ unsent[N][1] > hwm[N]
                               /\ \E x \in Range(unsent[N][2]) : Id(x) \notin DeliveredIds
                content == IF resumed THEN unsent[N][2] ELSE IF k \in DOMAIN fifo[N] THEN fifo[N][k] ELSE <<>>
                b1 == Flag(bad, resumed \/ Ev.skipped \/ k = e, "take-not-next-in-fifo")
                b2 == Flag(b1, Ev.skipped = (k <= hwm[N]), "take-skip-decision")
                b3 == Flag(b2, ~skippedOver, "unsent-batch-skipped-after-leadership-change")
            IN /\ bad' = b3
               /\ taken' = [taken EXCEPT ![N] = IF Ev.skipped THEN <<>> ELSE <<k, content>>]
               /\ cursor' = [cursor EXCEPT ![N] = IF resumed THEN @ ELSE IF k + 1 > @ THEN k + 1 ELSE @]
               /\ drops' = IF skippedOver
                           THEN drops \cup {<<g[1], g[2], "lost:unsent-batch-skipped">> :
                                              g \in {x \in Range(unsent[N][2]) : Id(x) \notin DeliveredIds}}
                           ELSE drops
               /\ unsent' = [unsent EXCEPT ![N] = <<>>]
         /\ Frame({"bad", "taken", "cursor", "drops", "unsent"})
TSent == /\ Is("cdc.sent") /\ Step
         /\ LET b1 == Flag(bad, taken[N] # <<>> /\ taken[N][1] = Ev.key, "sent-not-the-taken-batch")
                b2 == Flag(b1, Ev.ok => (taken[N] # <<>> /\ Range(taken[N][2]) \subseteq delivered), "send-ok-without-endpoint-accept")
            IN bad' = b2
         /\ taken' = [taken EXCEPT ![N] = IF Ev.ok THEN <<>> ELSE @]
         /\ lastOK' = [lastOK EXCEPT ![N] = IF Ev.ok THEN Ev.key ELSE @]
         /\ Frame({"bad", "taken", "lastOK"})

(* ---- high-water mark: the safety core of at-least-once ---- *)
THwm == /\ Is("cdc.hwm") /\ Step
        /\ LET b1 == Flag(bad, Undelivered(Ev.v) = {}, "hwm-passed-undelivered" \o Sfx(OnlyLater(Undelivered(Ev.v))))
               b2 == Flag(b1, IF Ev.role = "leader" THEN Ev.v = lastOK[N] ELSE Ev.v \in bvals, "hwm-value-unjustified")
           IN bad' = b2
        /\ hwm' = [hwm EXCEPT ![N] = Ev.v] /\ hwmSeen' = [hwmSeen EXCEPT ![N] = @ \cup {Ev.v}]
        /\ Frame({"bad", "hwm", "hwmSeen"})
TOpen == /\ Is("cdc.open") /\ Step
         /\ LET first == MinS(Keys(fifo[N]))
                b1 == Flag(bad, Undelivered(Ev.hwm) = {}, "hwm-passed-undelivered" \o Sfx(OnlyLater(Undelivered(Ev.hwm))))
                b2 == Flag(b1, Ev.hwm <= (IF first = 0 THEN 0 ELSE first - 1), "open-hwm-above-first-key")
            IN bad' = b2
         /\ hwm' = [hwm EXCEPT ![N] = Ev.hwm] /\ hwmSeen' = [hwmSeen EXCEPT ![N] = @ \cup {Ev.hwm}]
         /\ Frame({"bad", "hwm", "hwmSeen"})
TBcast == /\ Is("cdc.bcast") /\ Step
          \* the HWM loop may read a value the leader loop has stored but not yet reported
          /\ bad' = Flag(bad, Ev.v \in Plausible(N), "broadcast-not-own-hwm")
          /\ bvals' = bvals \cup {Ev.v}
          /\ Frame({"bad", "bvals"})

(* ---- endpoint ---- *)
TMode == /\ Is("ep.mode") /\ Step /\ up' = Ev.up /\ Frame({"up"})
TRx == /\ Is("ep.rx") /\ Step
       /\ LET n == Ev.from
              gs == Ev.groups                       \* <<entry, ordinal, label>> per message, as resolved by the harness from the payload
              labs == [x \in 1..Len(gs) |-> gs[x][3]]
              zero2 == \E x \in 1..Len(gs) : gs[x][3] = 0 /\ gs[x][2] >= 2 /\ gs[x][1] # 0
              wrong == \E x \in 1..Len(gs) : gs[x][3] # gs[x][1] /\ ~(gs[x][3] = 0 /\ gs[x][2] >= 2)
              b1 == Flag(bad, ~zero2, "label-index0-second-commit-of-entry")
              b2 == Flag(b1, ~wrong, "label-not-the-entry-index")
              b3 == Flag(b2, NonDecr(<<lastIdx[n]>> \o labs), "tenure-order-decreasing")
              b4 == Flag(b3, taken[n] # <<>> /\ taken[n][2] = gs, "payload-not-the-taken-batch")
          IN IF Ev.ok
             THEN /\ bad' = b4
                  /\ delivered' = delivered \cup Range(gs)
                  /\ lastIdx' = [lastIdx EXCEPT ![n] = IF gs = <<>> THEN @ ELSE gs[Len(gs)][3]]
             ELSE UNCHANGED <<bad, delivered, lastIdx>>
       /\ Frame({"bad", "delivered", "lastIdx"})

(* ---- harness: process restart, snapshot (log truncation), end of run ---- *)
TRestart == /\ Is("c.restart") /\ Step
            /\ LET n == Ev.node
                   mem == inq[n] \o batch[n] \o (IF pb[n] = <<>> THEN <<>> ELSE pb[n][2])
                   lostg == {g \in Gone(n, mem) : g[1] <= snapIdx[n]}
               IN /\ drops' = drops \cup {<<g[1], g[2], "lost:in-memory-at-restart-after-snapshot" \o Sfx(Later(g))>> : g \in lostg}
                  /\ applied' = [applied EXCEPT ![n] = snapIdx[n]]
                  /\ inq' = [inq EXCEPT ![n] = <<>>] /\ batch' = [batch EXCEPT ![n] = <<>>] /\ pb' = [pb EXCEPT ![n] = <<>>]
                  /\ cursor' = [cursor EXCEPT ![n] = 0] /\ taken' = [taken EXCEPT ![n] = <<>>]
                  /\ unsent' = [unsent EXCEPT ![n] = <<>>] /\ lead' = lead \ {n}
                  /\ startHigh' = [startHigh EXCEPT ![n] = highKey[n]] /\ ord' = [ord EXCEPT ![n] = 0]
                  /\ lastIdx' = [lastIdx EXCEPT ![n] = 0]
            /\ Frame({"drops", "applied", "inq", "batch", "pb", "cursor", "taken", "unsent", "lead", "startHigh", "ord", "lastIdx"})
TSnap == /\ Is("c.snap") /\ Step
         /\ LET n == Ev.node
                mem == inq[n] \o batch[n] \o (IF pb[n] = <<>> THEN <<>> ELSE pb[n][2])
            IN bad' = Flag(bad, {g \in Gone(n, mem) : g[1] <= Ev.idx} = {}, "snapshot-before-changes-reached-fifo")
         /\ snapIdx' = [snapIdx EXCEPT ![Ev.node] = Ev.idx]
         /\ Frame({"bad", "snapIdx"})
(* quiescent, endpoint up, one stable leader: every group of the committed log must have been delivered *)
TFinal == /\ Is("c.final") /\ Step
          /\ LET wanted == {<<Ev.groups[x][1], Ev.groups[x][2]>> : x \in 1..Len(Ev.groups)}
                 lost == wanted \ DeliveredIds
                 \* a node that leads again, still holds the batch its earlier leader loop did not send, and never sent it
                 held(x) == \E n \in lead : /\ unsent[n] # <<>> /\ unsent[n][1] > hwm[n]
                                             /\ \E g \in Range(unsent[n][2]) : Id(g) = x
                 why(x) == {d[3] : d \in {y \in drops : y[1] = x[1] /\ y[2] = x[2]}}
                           \cup (IF held(x) THEN {"lost:unsent-batch-skipped"} ELSE {})
                 names == UNION {IF why(x) = {} THEN {"lost:unexplained"} ELSE why(x) : x \in lost}
             IN bad' = bad \cup {<<l, nm>> : nm \in names}
          /\ Frame({"bad"})

TNext == \/ TReset \/ TNote \/ TEntry \/ TCommit \/ TIn \/ TSync \/ TBatch \/ TEnq \/ TDel \/ TLead \/ TTake \/ TSent
         \/ THwm \/ TOpen \/ TBcast \/ TMode \/ TRx \/ TRestart \/ TSnap \/ TFinal
TSpec == TInit /\ [][TNext]_tvars

HW == /\ TLCSet(1, IF l > TLCGet(1) THEN l ELSE TLCGet(1))
      /\ TLCSet(2, IF Cardinality(bad) >= Cardinality(TLCGet(2)) THEN bad ELSE TLCGet(2))
Accepted == /\ \A b \in TLCGet(2) : PrintT(<<"@@BAD", b[1], b[2]>>)
            /\ IF TLCGet(1) >= Len(Trace) + 1 THEN TRUE ELSE PrintT(<<"@@HW", TLCGet(1) - 1>>) /\ FALSE
            /\ TLCGet(2) = {}
=============================================================================
