SPECIFICATION TSpec
CONSTRAINT HW
POSTCONDITION Accepted
CHECK_DEADLOCK FALSE
