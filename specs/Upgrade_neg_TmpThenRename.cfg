SPECIFICATION Spec
CONSTANTS
  MaxSnaps = 2
  MaxCrashes = 1
  MaxOk = 2
  TmpThenRename = FALSE
  RemoveOldIfNewExists = TRUE
  PlanResume = TRUE
  ResumeToleratesDoneRename = TRUE
  Gen = FALSE
INVARIANTS TypeOK RunOK ResultExact CleanFinish NoDataLoss
