--------------------------------- MODULE Txn ---------------------------------
(* rqlite db/db.go: execution semantics of a write request on the execute path               *)
(* (executeWithConn) and the unified path (RequestWithContext).  A request is                  *)
(*   [tx, roe (rollback-on-error, execute path only), path, stmts]                             *)
(* and each statement belongs to an outcome class.  Database content is abstracted to the set  *)
(* of "marks" (statement positions whose write is visible after the request).                  *)
(* Run is the step-by-step evaluator (one Step per statement, as the for-loop in the code);    *)
(* the invariants are the user-level properties.  Switches (TRUE = design): TxAllOrNothing,    *)
(* StopAtFirstFailure, PrepareFailureAborts, RollbackOnError, ResultPerStatement.              *)
EXTENDS Naturals, Sequences, FiniteSets, TLC, Json

CONSTANTS MaxLen,
          TxAllOrNothing, StopAtFirstFailure, PrepareFailureAborts, RollbackOnError, ResultPerStatement

WriteClasses == {"w", "ret"}
FailClasses  == {"failrt", "failprep", "midfail", "multi"}
Classes == WriteClasses \cup FailClasses \cup {"q", "empty"}
TxCtl   == {"begin", "commit"}
Paths   == {"exec", "req"}

Reqs == {r \in [tx : BOOLEAN, roe : BOOLEAN, path : Paths, stmts : UNION {[1..n -> Classes \cup TxCtl] : n \in 1..MaxLen}] :
           /\ (r.roe => r.path = "exec" /\ ~r.tx)                     \* only the SQL-text load path asks for it
           /\ ((\E i \in DOMAIN r.stmts : r.stmts[i] \in TxCtl) => r.roe)   \* explicit BEGIN/COMMIT only with roe
           /\ \A i \in DOMAIN r.stmts : r.stmts[i] = "begin" =>           \* every BEGIN is closed by a later COMMIT
                 \E j \in DOMAIN r.stmts : j > i /\ r.stmts[j] = "commit"}

VARIABLE req
vars == <<req>>
Init == req \in Reqs
Next == UNCHANGED req
Spec == Init /\ [][Next]_vars

St0(r) == [db |-> {}, buf |-> {}, intx |-> r.tx, res |-> <<>>, stop |-> FALSE, failed |-> FALSE]

Fail(r, st, c) ==
  LET st1 == [st EXCEPT !.res = Append(@, "err"), !.failed = TRUE] IN
  IF r.tx
  THEN IF c = "failprep" /\ r.path = "req" /\ ~PrepareFailureAborts
       THEN st1                                                       \* reported, but the loop carries on
       ELSE IF TxAllOrNothing THEN [st1 EXCEPT !.buf = {}, !.intx = FALSE, !.stop = StopAtFirstFailure]
            ELSE [st1 EXCEPT !.stop = StopAtFirstFailure]
  ELSE IF r.roe
       THEN IF RollbackOnError THEN [st1 EXCEPT !.buf = {}, !.intx = FALSE, !.stop = TRUE]
            ELSE [st1 EXCEPT !.stop = TRUE]
       ELSE st1

AddMark(st, i) == IF st.intx THEN [st EXCEPT !.buf = @ \cup {i}] ELSE [st EXCEPT !.db = @ \cup {i}]

Step(r, i, st) ==
  LET c == r.stmts[i] IN
  CASE c = "empty"  -> st
    [] c \in WriteClasses -> [AddMark(st, i) EXCEPT !.res = Append(@, "ok")]
    [] c = "q"      -> [st EXCEPT !.res = Append(@, "ok")]
    [] c = "multi"  -> Fail(r, AddMark(st, i), c)       \* first command of the text succeeded, the second failed
    [] c \in {"failrt", "failprep", "midfail"} -> Fail(r, st, c)
    [] c = "begin"  -> IF st.intx THEN Fail(r, st, c) ELSE [st EXCEPT !.intx = TRUE, !.res = Append(@, "ok")]
    [] c = "commit" -> IF st.intx THEN [st EXCEPT !.db = @ \cup st.buf, !.buf = {}, !.intx = FALSE, !.res = Append(@, "ok")]
                       ELSE Fail(r, st, c)

RECURSIVE RunFrom(_, _, _)
RunFrom(r, i, st) == IF i > Len(r.stmts) \/ st.stop THEN st ELSE RunFrom(r, i + 1, Step(r, i, st))
Finish(r, st) == IF r.tx /\ st.intx THEN [st EXCEPT !.db = @ \cup st.buf, !.buf = {}, !.intx = FALSE] ELSE st
Run(r) == Finish(r, RunFrom(r, 1, St0(r)))

----------------------------------------------------------------------------
NonEmpty(r) == {i \in DOMAIN r.stmts : r.stmts[i] # "empty"}
WriteIdx(r) == {i \in DOMAIN r.stmts : r.stmts[i] \in WriteClasses \cup {"multi"}}
AnyFail(r)  == \E i \in DOMAIN r.stmts : r.stmts[i] \in FailClasses
FirstFail(r) == CHOOSE i \in DOMAIN r.stmts : r.stmts[i] \in FailClasses /\ \A j \in 1..(i - 1) : r.stmts[j] \notin FailClasses

(* a transactional request applies all of its statements or none *)
AllOrNothing == req.tx => LET o == Run(req) IN
                  IF AnyFail(req) THEN o.db = {} ELSE o.db = WriteIdx(req)
(* results: one per non-empty statement executed, in order; a transaction stops at the first failure *)
ResultsMatch == LET o == Run(req) IN
                  IF req.tx /\ AnyFail(req)
                  THEN /\ Len(o.res) = Cardinality({i \in NonEmpty(req) : i <= FirstFail(req)})
                       /\ o.res[Len(o.res)] = "err"
                       /\ \A k \in 1..(Len(o.res) - 1) : o.res[k] = "ok"
                  ELSE (~req.roe) => Len(o.res) = Cardinality(NonEmpty(req))
(* rollback-on-error leaves no effect of the failed (explicit) transaction *)
RoeClean == (req.roe /\ Run(req).failed) => Run(req).buf = {} /\ ~Run(req).intx
NoTxLeftOpen == ~Run(req).intx

Emit == PrintT(<<"@@", ToJson([req |-> req, db |-> Run(req).db, res |-> Run(req).res, intx |-> Run(req).intx])>>)
=============================================================================
