SPECIFICATION Spec
CONSTANTS
  BoundedRead = TRUE
  NilRequestChecked = FALSE
  UnknownHeaderClosed = TRUE
  AuthBeforeEffect = TRUE
  MaxFrames = 2
  Muxes = {"cluster", "raft", "unknown"}
INVARIANTS Alive
