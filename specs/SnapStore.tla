------------------------------ MODULE SnapStore ------------------------------
(* rqlite snapshot store (package snapshot/, snapshot/plan/): catalog of snapshot directories,   *)
(* sinks, the FULL_NEEDED flag, reaping through a persisted plan, and check() on open.           *)
(*                                                                                               *)
(* Disk (field S of the state, one record so that multi-step operations compose as functions):   *)
(*   dirs   id -> [term, idx, tmp, meta, db, dbok, crc, base, applied, wals, dbwal]               *)
(*            id       position of the directory name in creation order (names are               *)
(*                     "<term>-<idx>-<unix ms>"; ties in (term, idx) are ordered by the name)    *)
(*            tmp      name carries the ".tmp" suffix                                            *)
(*            meta     meta.json present; term/idx are its content (for a tmp dir: the sink's)   *)
(*            db/dbok  data.db present / completely written;  crc: sidecar "none" | "ok" | "stale"*)
(*            base     which full database data.db started from; applied: WALs checkpointed in     *)
(*            wals     *.wal files in name order (labels);  dbwal: label in data.db-wal, 0 = none *)
(*   flag   FULL_NEEDED exists;  plan / ptmp: REAP_PLAN / REAP_PLAN.tmp                            *)
(* Volatile: sinks (lost on crash / reopen, their tmp dirs stay until check() removes them).     *)
(*                                                                                               *)
(* Content of a database = (base, sequence of applied WAL labels); every WAL rewrites whole      *)
(* pages, its own page and one shared page, so the observable content is                         *)
(* (base, set of applied labels, last applied label) -- see harness/main/snapstore.go.           *)
(*                                                                                               *)
(* Switches (TRUE = the design).  C09: IgnoreTmp, OrderTermIndexId, GateIncOnFullNeeded,          *)
(* GateAtClose, ClearOnSuccessOnly.  C07: PlanBeforeMutation, ResumeOnOpen, IdempotentOps,        *)
(* LeftoverWALFirst, LastOpDoneShortcut, TmpCleanAfterResume.                                     *)
(* GateAtClose = FALSE is the code as it is today (the gate is applied at header time only).     *)
EXTENDS Naturals, Integers, Sequences, FiniteSets, TLC, Json

CONSTANTS IgnoreTmp, OrderTermIndexId, GateIncOnFullNeeded, GateAtClose, ClearOnSuccessOnly,
          PlanBeforeMutation, ResumeOnOpen, IdempotentOps, LeftoverWALFirst, LastOpDoneShortcut,
          TmpCleanAfterResume,
          Sinks,          \* sink slots, e.g. {1, 2}
          MaxId,          \* directories ever named (sinks + reaps)
          MaxWal,         \* WAL labels ever used
          MaxTerm, MaxIdx,
          GenDepth,       \* generator: length of the emitted random walks
          AtomicClose,    \* TRUE: Close is one action and crashes cut it at a named point (generator / traces)
          OlderSel, MaxFullWals, MaxIncs, MaxIncWals, TmpSel, MaxCrashes   \* reap mode: store shapes

VARIABLES S,      \* disk + sinks + counters (see above)
          P       \* reap mode: the running process [run, ph, i, j, ex, vplan, cnt, crashes, orig]; catalog mode: history
vars == <<S, P>>

Range(f) == {f[x] : x \in DOMAIN f}
Last(s) == s[Len(s)]
RECURSIVE SetToSeq(_)
SetToSeq(X) == IF X = {} THEN <<>> ELSE LET m == CHOOSE x \in X : \A y \in X : x <= y IN <<m>> \o SetToSeq(X \ {m})
Without(f, k) == [x \in DOMAIN f \ {k} |-> f[x]]
RECURSIVE Flatten(_)
Flatten(ss) == IF ss = <<>> THEN <<>> ELSE Head(ss) \o Flatten(Tail(ss))
OK(s) == [ok |-> TRUE, s |-> s]
ERR(s) == [ok |-> FALSE, s |-> s]

NoSink == [st |-> "free", id |-> 0, kind |-> "none", labels |-> <<>>, data |-> FALSE, needhdr |-> FALSE, step |-> 0]
NewDir(t, i) == [term |-> t, idx |-> i, tmp |-> TRUE, meta |-> FALSE, db |-> FALSE, dbok |-> FALSE, crc |-> "none",
                 base |-> 0, applied |-> <<>>, wals |-> <<>>, dbwal |-> 0]
NoPlan == [exists |-> FALSE, ops |-> <<>>]

-----------------------------------------------------------------------------
(* Catalog: Scan, ordering, Resolve, DueNext                                                     *)

Less(s, a, b) ==
  LET da == s.dirs[a]  db == s.dirs[b] IN
  IF OrderTermIndexId
  THEN \/ da.term < db.term
       \/ da.term = db.term /\ da.idx < db.idx
       \/ da.term = db.term /\ da.idx = db.idx /\ a < b
  ELSE \/ da.idx < db.idx
       \/ da.idx = db.idx /\ da.term < db.term
       \/ da.idx = db.idx /\ da.term = db.term /\ a < b
RECURSIVE SortIds(_, _)
SortIds(s, ids) == IF ids = {} THEN <<>>
                   ELSE LET m == CHOOSE x \in ids : \A y \in ids \ {x} : Less(s, x, y) IN <<m>> \o SortIds(s, ids \ {m})

Candidates(s) == {i \in DOMAIN s.dirs : IgnoreTmp => ~s.dirs[i].tmp}
ValidDir(d) == d.meta /\ IF d.db THEN d.dbok /\ d.crc # "none" ELSE d.wals # <<>>
ScanOK(s) == \A i \in Candidates(s) : ValidDir(s.dirs[i])
Order(s) == SortIds(s, Candidates(s))                      \* oldest ... newest
Reverse(q) == [k \in 1..Len(q) |-> q[Len(q) + 1 - k]]
ListAll(s) == Reverse(Order(s))                            \* meaningful when ScanOK
NonTmp(s) == {i \in DOMAIN s.dirs : ~s.dirs[i].tmp}
DueNext(s) == IF s.flag \/ NonTmp(s) = {} THEN "full" ELSE "inc"

Pos(q, x) == CHOOSE k \in 1..Len(q) : q[k] = x
FullAtOrBefore(s, ord, k) == LET F == {i \in 1..k : s.dirs[ord[i]].db} IN
                             IF F = {} THEN 0 ELSE CHOOSE i \in F : \A j \in F : j <= i
(* Open(id): [ok, nwals, base, applied (all labels the restored database holds, in order)] *)
Resolve(s, id) ==
  IF ~ScanOK(s) \/ id \notin Candidates(s) THEN [ok |-> FALSE, nwals |-> 0, base |-> 0, applied |-> <<>>]
  ELSE LET ord == Order(s)  k == Pos(ord, id)  f == FullAtOrBefore(s, ord, k) IN
       IF f = 0 THEN [ok |-> FALSE, nwals |-> 0, base |-> 0, applied |-> <<>>]
       ELSE LET chain == Flatten([i \in 1..(k - f + 1) |-> s.dirs[ord[f + i - 1]].wals]) IN
            [ok |-> TRUE, nwals |-> Len(chain), base |-> s.dirs[ord[f]].base, applied |-> s.dirs[ord[f]].applied \o chain]
AllCrcOK(s) == \A i \in Candidates(s) : s.dirs[i].db => s.dirs[i].crc = "ok"

-----------------------------------------------------------------------------
(* Plan operations (snapshot/plan/executor.go) as functions on the disk                          *)

HasWal(s, r) == r.d \in DOMAIN s.dirs /\ r.w \in Range(s.dirs[r.d].wals)
DropWal(q, w) == SelectSeq(q, LAMBDA x : x # w)
(* checkpoint whatever sits in <db>-wal into the database and remove it *)
CkptDbWal(s, f) == [s EXCEPT !.dirs[f].applied = Append(@, s.dirs[f].dbwal), !.dirs[f].dbwal = 0, !.dirs[f].crc = "stale"]
(* rename WAL r into <db>-wal (an existing <db>-wal is overwritten) *)
MoveWal(s, f, r) == [s EXCEPT !.dirs = [i \in DOMAIN s.dirs |->
                        IF i = f /\ i = r.d THEN [s.dirs[i] EXCEPT !.dbwal = r.w, !.wals = DropWal(@, r.w)]
                        ELSE IF i = f THEN [s.dirs[i] EXCEPT !.dbwal = r.w]
                        ELSE IF i = r.d THEN [s.dirs[i] EXCEPT !.wals = DropWal(@, r.w)]
                        ELSE s.dirs[i]]]
Leftover(s, f) == f \in DOMAIN s.dirs /\ s.dirs[f].dbwal # 0
AfterLeftover(s, f) == IF Leftover(s, f) /\ LeftoverWALFirst THEN CkptDbWal(s, f) ELSE s
Existing(s, refs) == SelectSeq(refs, LAMBDA r : HasWal(s, r))
RECURSIVE CkptAll(_, _, _)
CkptAll(s, f, ex) == IF ex = <<>> THEN s ELSE CkptAll(CkptDbWal(MoveWal(s, f, Head(ex)), f), f, Tail(ex))
DoCkpt(s, f, refs) ==
  LET s1 == AfterLeftover(s, f)  ex == Existing(s1, refs) IN
  IF ex = <<>> THEN OK(s1)
  ELSE IF f \notin DOMAIN s1.dirs THEN ERR(s1) ELSE OK(CkptAll(s1, f, ex))

DoOp(s, op) ==
  CASE op.t = "ckpt"   -> DoCkpt(s, op.f, op.refs)
    [] op.t = "crc"    -> IF op.f \in DOMAIN s.dirs THEN OK([s EXCEPT !.dirs[op.f].crc = "ok"]) ELSE ERR(s)
    [] op.t = "rmall"  -> IF op.f \in DOMAIN s.dirs THEN OK([s EXCEPT !.dirs = Without(s.dirs, op.f)])
                          ELSE IF IdempotentOps THEN OK(s) ELSE ERR(s)
    [] op.t = "meta"   -> IF op.f \in DOMAIN s.dirs THEN OK([s EXCEPT !.dirs[op.f].term = op.term, !.dirs[op.f].idx = op.idx, !.dirs[op.f].meta = TRUE])
                          ELSE OK(s)
    [] op.t = "verify" -> IF op.f \in DOMAIN s.dirs THEN OK(s) ELSE ERR(s)
    [] op.t = "rename" -> IF op.f \in DOMAIN s.dirs THEN OK([s EXCEPT !.dirs = Without(s.dirs, op.f) @@ (op.n :> s.dirs[op.f])])
                          ELSE IF IdempotentOps /\ op.n \in DOMAIN s.dirs THEN OK(s) ELSE ERR(s)
RECURSIVE DoOps(_, _)
DoOps(s, ops) == IF ops = <<>> THEN OK(s) ELSE LET r == DoOp(s, Head(ops)) IN IF r.ok THEN DoOps(r.s, Tail(ops)) ELSE r

LastOpDone(s) ==
  IF s.plan.ops = <<>> THEN TRUE
  ELSE LET op == Last(s.plan.ops) IN
       CASE op.t = "rename" -> op.f \notin DOMAIN s.dirs /\ op.n \in DOMAIN s.dirs
         [] op.t = "rmall"  -> op.f \notin DOMAIN s.dirs
         [] OTHER -> FALSE

(* reapInternal's plan for the catalog as it is: [kind, ops];  kind: "err" | "none" | "plan" *)
RmAll(ids) == [k \in 1..Len(ids) |-> [t |-> "rmall", f |-> ids[k]]]
RefsOf(s, i) == [k \in 1..Len(s.dirs[i].wals) |-> [d |-> i, w |-> s.dirs[i].wals[k]]]
BuildPlan(s) ==
  IF ~ScanOK(s) THEN [kind |-> "err", ops |-> <<>>]
  ELSE LET ord == Order(s)  n == Len(ord) IN
       IF n = 0 THEN [kind |-> "none", ops |-> <<>>]
       ELSE LET fi == FullAtOrBefore(s, ord, n) IN
            IF fi = 0 THEN [kind |-> "err", ops |-> <<>>]
            ELSE IF n = 1 THEN [kind |-> "none", ops |-> <<>>]
            ELSE LET f     == ord[fi]
                     newer == SubSeq(ord, fi + 1, n)
                     older == SubSeq(ord, 1, fi - 1)
                     refs  == Flatten([k \in 1..(n - fi + 1) |-> RefsOf(s, ord[fi + k - 1])])
                     top   == s.dirs[ord[n]]
                 IN IF newer = <<>> /\ refs = <<>> THEN [kind |-> "plan", ops |-> RmAll(older)]
                    ELSE IF refs # <<>>
                    THEN [kind |-> "plan",
                          ops |-> <<[t |-> "ckpt", f |-> f, refs |-> refs], [t |-> "crc", f |-> f]>> \o RmAll(newer) \o RmAll(older)
                                  \o <<[t |-> "meta", f |-> f, term |-> top.term, idx |-> top.idx], [t |-> "verify", f |-> f],
                                       [t |-> "rename", f |-> f, n |-> s.nextId + 1]>>]
                    ELSE [kind |-> "plan", ops |-> <<>>]
PlanNames(ops) == ops # <<>> /\ Last(ops).t = "rename"      \* the plan names a new directory

(* Store.Reap without interruption: [ok, s] *)
ReapAtomic(s) ==
  IF s.plan.exists THEN LET r == DoOps(s, s.plan.ops) IN IF r.ok THEN OK([r.s EXCEPT !.plan = NoPlan]) ELSE r
  ELSE LET bp == BuildPlan(s) IN
       IF bp.kind = "err" THEN ERR(s)
       ELSE IF bp.kind = "none" THEN OK(s)
       ELSE LET s0 == [s EXCEPT !.nextId = IF PlanNames(bp.ops) THEN @ + 1 ELSE @]
                r  == DoOps(s0, bp.ops) IN
            IF r.ok THEN OK(r.s) ELSE ERR([r.s EXCEPT !.plan = [exists |-> TRUE, ops |-> bp.ops]])

(* NewStore -> check(): [ok, s].  Sinks of the previous process are gone. *)
DropTmp(s) == [s EXCEPT !.dirs = [i \in {j \in DOMAIN s.dirs : ~s.dirs[j].tmp} |-> s.dirs[i]]]
DiskEmpty(s) == DOMAIN s.dirs = {} /\ ~s.flag /\ ~s.plan.exists /\ ~s.ptmp
CheckOpen(s0) ==
  LET s == [s0 EXCEPT !.sinks = [x \in Sinks |-> NoSink]] IN
  IF DiskEmpty(s) THEN OK(s)
  ELSE LET s1 == [s EXCEPT !.ptmp = FALSE] IN
       IF s1.plan.exists /\ ResumeOnOpen
       THEN IF LastOpDoneShortcut /\ LastOpDone(s1)
            THEN OK(DropTmp([s1 EXCEPT !.plan = NoPlan]))
            ELSE LET r == DoOps(s1, s1.plan.ops) IN
                 IF ~r.ok THEN r
                 ELSE IF TmpCleanAfterResume THEN OK(DropTmp([r.s EXCEPT !.plan = NoPlan])) ELSE OK([r.s EXCEPT !.plan = NoPlan])
       ELSE OK(DropTmp(s1))

-----------------------------------------------------------------------------
(* Sinks (snapshot/sink.go, sink_full.go).  Close as its real steps:                              *)
(*   1 moved   (inc) staging dir renamed into <tmp>/wal-incoming                                  *)
(*   2 wals    (inc) WAL files moved into <tmp>;  (full) FullSink.Close: complete? sidecars        *)
(*   3 meta    meta.json written and synced                                                        *)
(*   4 renamed <tmp> renamed to its final name: the snapshot is visible.  GateAtClose (design):     *)
(*             an incremental is refused here, atomically with the rename, when a full snapshot    *)
(*             is required or it would have no full snapshot before it                             *)
(*   5 flag    FULL_NEEDED removed, store dir synced, reaper signalled                             *)
Bad(s, what) == [s EXCEPT !.bad = @ \cup {what}]
ClearFlag(s, legit) == IF s.flag /\ ~legit THEN Bad([s EXCEPT !.flag = FALSE], "flag-cleared-without-install") ELSE [s EXCEPT !.flag = FALSE]
WouldResolve(s, x) ==   \* would the directory of sink x, once visible, have a full snapshot at or before it?
  LET id == s.sinks[x].id
      s2 == [s EXCEPT !.dirs[id].tmp = FALSE, !.dirs[id].meta = TRUE,
                      !.dirs[id].wals = IF s.sinks[x].kind = "inc" THEN s.sinks[x].labels ELSE @] IN
  IF ~ScanOK(s2) THEN TRUE ELSE LET ord == Order(s2) IN FullAtOrBefore(s2, ord, Pos(ord, id)) # 0
Release(s, x) == [s EXCEPT !.sinks[x] = NoSink]
FailClose(s, x) == ERR(Release(IF ClearOnSuccessOnly THEN s ELSE ClearFlag(s, FALSE), x))

CloseStep(s, x, k) ==   \* step k of Close on sink x, which is past its header: [ok, s]
  LET sk == s.sinks[x]  id == sk.id IN
  CASE k = 1 -> OK(s)
    [] k = 2 -> IF sk.kind = "inc" THEN OK([s EXCEPT !.dirs[id].wals = sk.labels])
                ELSE IF ~sk.data THEN FailClose(s, x)
                ELSE OK([s EXCEPT !.dirs[id].crc = "ok"])
    [] k = 3 -> OK([s EXCEPT !.dirs[id].meta = TRUE])
    [] k = 4 -> IF sk.kind = "inc" /\ GateAtClose /\ (DueNext(s) = "full" \/ ~WouldResolve(s, x)) THEN FailClose(s, x) ELSE
                LET need == DueNext(s) = "full"
                    s1 == [s EXCEPT !.dirs[id].tmp = FALSE]
                    s2 == IF sk.kind = "inc" /\ need
                          THEN Bad(s1, IF sk.needhdr THEN "inc-visible-while-full-needed:gate=header" ELSE "inc-visible-while-full-needed:gate=close")
                          ELSE s1
                    s3 == IF sk.kind = "inc" /\ ~WouldResolve(s, x) THEN Bad(s2, "inc-visible-without-base") ELSE s2
                IN OK(s3)
    [] k = 5 -> OK(Release(ClearFlag(s, TRUE), x))
RECURSIVE CloseFrom(_, _, _, _)
CloseFrom(s, x, k, upto) == IF k > upto THEN OK(s) ELSE LET r == CloseStep(s, x, k) IN IF r.ok THEN CloseFrom(r.s, x, k + 1, upto) ELSE r
PastHeader(sk) == sk.st = "hdr"
(* Close on a sink whose header never arrived or was refused: the tmp dir is removed, nothing else *)
CloseNoHeader(s, x) == OK(Release([s EXCEPT !.dirs = Without(s.dirs, s.sinks[x].id)], x))
CloseAll(s, x) == IF PastHeader(s.sinks[x]) THEN CloseFrom(s, x, 1, 5) ELSE CloseNoHeader(s, x)

CancelSink(s, x) ==
  LET sk == s.sinks[x]
      s0 == IF ClearOnSuccessOnly THEN s ELSE ClearFlag(s, FALSE) IN
  IF sk.st = "hdr" /\ sk.kind = "full" /\ ~sk.data THEN ERR(Release(s0, x))        \* FullSink.Close: ErrIncomplete, tmp dir stays
  ELSE OK(Release([s0 EXCEPT !.dirs = Without(s0.dirs, sk.id)], x))

-----------------------------------------------------------------------------
(* Catalog mode: the store API                                                                   *)

CatInit ==
  /\ S = [dirs |-> <<>>, flag |-> FALSE, plan |-> NoPlan, ptmp |-> FALSE, sinks |-> [x \in Sinks |-> NoSink],
          nextId |-> 0, nextWal |-> 0, ht |-> 1, hi |-> 1, bad |-> {}]
  /\ P = <<>>
Step(s) == s
Hist(e) == P' = Append(P, e)

TermIdxChoices(s) == {<<s.ht, s.hi>>} \cup (IF s.hi < MaxIdx THEN {<<s.ht, s.hi + 1>>} ELSE {})
                     \cup (IF s.ht < MaxTerm THEN {<<s.ht + 1, IF s.hi > 1 THEN s.hi - 1 ELSE s.hi>>} ELSE {})
CreateF(s, x, t, i) == [Step(s) EXCEPT !.nextId = @ + 1, !.ht = t, !.hi = i,
                                      !.dirs = s.dirs @@ ((s.nextId + 1) :> NewDir(t, i)),
                                      !.sinks[x] = [NoSink EXCEPT !.st = "open", !.id = s.nextId + 1]]
Create(x) == /\ S.sinks[x].st = "free" /\ S.nextId < MaxId
             /\ \E ti \in TermIdxChoices(S) : S' = CreateF(S, x, ti[1], ti[2]) /\ Hist([op |-> "create", s |-> x, term |-> ti[1], idx |-> ti[2]])

HeaderF(s, x, kind, nw) ==   \* [ok, s]
  LET id == s.sinks[x].id
      labels == [k \in 1..nw |-> s.nextWal + k]
      s1 == [Step(s) EXCEPT !.nextWal = @ + nw] IN
  IF kind = "full"
  THEN OK([s1 EXCEPT !.sinks[x].st = "hdr", !.sinks[x].kind = "full", !.sinks[x].labels = labels,
                    !.dirs[id].db = TRUE, !.dirs[id].base = id])
  ELSE IF GateIncOnFullNeeded /\ DueNext(s) = "full" THEN ERR([s1 EXCEPT !.sinks[x].st = "refused", !.sinks[x].kind = "inc"])
  ELSE OK([s1 EXCEPT !.sinks[x].st = "hdr", !.sinks[x].kind = "inc", !.sinks[x].labels = labels,
                     !.sinks[x].needhdr = (DueNext(s) = "full")])
WriteHeader(x) == /\ S.sinks[x].st = "open"
                  /\ \E kind \in {"full", "inc"} : \E nw \in 0..2 :
                       /\ (kind = "inc" => nw >= 1) /\ (kind = "full" => nw <= 1) /\ S.nextWal + nw <= MaxWal
                       /\ (kind = "inc" => \A y \in Sinks : ~(S.sinks[y].st = "hdr" /\ S.sinks[y].kind = "inc"))   \* local snapshots are serialised by Raft
                       /\ LET r == HeaderF(S, x, kind, nw) IN S' = r.s /\ Hist([op |-> "header", s |-> x, kind |-> kind, nw |-> nw, ok |-> r.ok])

DataF(s, x) == LET id == s.sinks[x].id IN
               [Step(s) EXCEPT !.sinks[x].data = TRUE, !.dirs[id].dbok = TRUE, !.dirs[id].wals = s.sinks[x].labels]
WriteData(x) == /\ S.sinks[x].st = "hdr" /\ S.sinks[x].kind = "full" /\ ~S.sinks[x].data /\ S.sinks[x].step = 0
                /\ S' = DataF(S, x) /\ Hist([op |-> "data", s |-> x])

Closable(sk) == sk.st \in {"open", "hdr", "refused"} /\ sk.step = 0
Close(x) == /\ AtomicClose /\ Closable(S.sinks[x])
            /\ LET r == CloseAll(Step(S), x) IN S' = r.s /\ Hist([op |-> "close", s |-> x, ok |-> r.ok])
(* Close cut by a process crash right after step k; the next process opens the store *)
CrashClose(x, k) == /\ AtomicClose /\ PastHeader(S.sinks[x]) /\ S.sinks[x].step = 0
                    /\ (k = 1 => S.sinks[x].kind = "inc")
                    /\ LET r == CloseFrom(Step(S), x, 1, k) IN
                       /\ r.ok
                       /\ LET o == CheckOpen(r.s) IN o.ok /\ S' = o.s
                    /\ Hist([op |-> "crashclose", s |-> x, k |-> k])
(* the same, step by step, other operations interleaving (model checking only) *)
CloseBegin(x) == /\ ~AtomicClose /\ Closable(S.sinks[x])
                 /\ IF PastHeader(S.sinks[x]) THEN S' = [S EXCEPT !.sinks[x].step = IF S.sinks[x].kind = "inc" THEN 1 ELSE 2]
                    ELSE S' = CloseNoHeader(S, x).s
                 /\ UNCHANGED P
CloseNext(x) == /\ ~AtomicClose /\ S.sinks[x].step >= 1
                /\ LET k == S.sinks[x].step  r == CloseStep(Step(S), x, k) IN
                   S' = IF r.ok /\ k < 5 THEN [r.s EXCEPT !.sinks[x].step = k + 1] ELSE r.s
                /\ UNCHANGED P

Cancel(x) == /\ Closable(S.sinks[x])
             /\ LET r == CancelSink(Step(S), x) IN S' = r.s /\ Hist([op |-> "cancel", s |-> x, ok |-> r.ok])
SetFullNeeded == /\ ~S.flag /\ S' = [S EXCEPT !.flag = TRUE] /\ Hist([op |-> "setfull"])
NotTwice(o) == IF P = <<>> THEN TRUE ELSE Last(P).op # o          \* generators: no-op calls are not repeated back to back
Reap == /\ S.nextId < MaxId /\ NotTwice("reap")
        /\ LET r == ReapAtomic(S) IN S' = r.s /\ Hist([op |-> "reap", ok |-> r.ok])
Reopen == /\ NotTwice("reopen")
          /\ LET r == CheckOpen(S) IN r.ok /\ S' = r.s
          /\ Hist([op |-> "reopen"])

CatNext == \/ \E x \in Sinks : Create(x) \/ WriteHeader(x) \/ WriteData(x) \/ Close(x) \/ Cancel(x)
                               \/ CloseBegin(x) \/ CloseNext(x) \/ \E k \in 1..4 : CrashClose(x, k)
           \/ SetFullNeeded \/ Reap \/ Reopen
CatSpec == CatInit /\ [][CatNext]_vars
CatView == S
DirAbs(d) == <<d.db, d.tmp, d.meta, d.wals # <<>>, d.term, d.idx>>
GenView == <<[k \in 1..Cardinality(DOMAIN S.dirs) |-> DirAbs(S.dirs[SetToSeq(DOMAIN S.dirs)[k]])], S.flag,
             {<<S.sinks[x].st, S.sinks[x].kind, S.sinks[x].data>> : x \in Sinks}>>
EmitWalk == Len(P) < GenDepth \/ PrintT(<<"@@", ToJson([ops |-> P])>>)
NegAlias == [hist |-> ToJson([ops |-> P])]                \* negative controls: the witness as an operation sequence
EmitHist == PrintT(<<"@@", ToJson([ops |-> P])>>)     \* generator: one shortest history per distinct state
SinkSym == Permutations(Sinks)

(* ---- C09 ---- *)
Complete(d) == d.meta /\ ~d.tmp /\ (IF d.db THEN d.dbok /\ d.crc = "ok" ELSE d.wals # <<>>)
ListedComplete == \A i \in Candidates(S) : Complete(S.dirs[i])
OlderOrEq(a, b) == \/ S.dirs[a].term < S.dirs[b].term
                   \/ S.dirs[a].term = S.dirs[b].term /\ S.dirs[a].idx < S.dirs[b].idx
                   \/ S.dirs[a].term = S.dirs[b].term /\ S.dirs[a].idx = S.dirs[b].idx /\ a <= b
NewestFirst == ScanOK(S) => LET l == ListAll(S) IN \A a, b \in 1..Len(l) : a < b => OlderOrEq(l[b], l[a])
Resolvable == ScanOK(S) => \A i \in Candidates(S) : Resolve(S, i).ok
IncGateHeader == "inc-visible-while-full-needed:gate=header" \notin S.bad
IncGateClose == "inc-visible-while-full-needed:gate=close" \notin S.bad
IncWhileFullNeeded == IncGateHeader /\ IncGateClose
IncHasBase == "inc-visible-without-base" \notin S.bad
ClearOnlyByInstall == "flag-cleared-without-install" \notin S.bad
StateViolations(s) == (IF \A i \in Candidates(s) : Complete(s.dirs[i]) THEN {} ELSE {"listed-incomplete"})
                      \cup (IF ScanOK(s) /\ \E i \in Candidates(s) : ~Resolve(s, i).ok
                            THEN {IF "inc-visible-without-base" \in s.bad THEN "listed-unresolvable:cause=inc-without-base"
                                  ELSE "listed-unresolvable:cause=other"} ELSE {})

-----------------------------------------------------------------------------
(* Reap mode: one store shape, a reap, up to MaxCrashes process crashes, recovery on open          *)

OlderKinds(o) == CASE o = 0 -> <<>> [] o = 1 -> <<"full">> [] o = 2 -> <<"full", "inc">> [] o = 3 -> <<"full", "full">>
IncSeqs == UNION {[1..n -> 1..MaxIncWals] : n \in 0..MaxIncs}
Shapes == [older : OlderSel, fw : 0..MaxFullWals, incs : IncSeqs, tmp : TmpSel]
Items0(sh) == [k \in 1..Len(OlderKinds(sh.older)) |-> [kind |-> OlderKinds(sh.older)[k], nw |-> IF OlderKinds(sh.older)[k] = "inc" THEN 1 ELSE 0]]
              \o <<[kind |-> "full", nw |-> sh.fw]>> \o [k \in 1..Len(sh.incs) |-> [kind |-> "inc", nw |-> sh.incs[k]]]
(* snapshot k of the shape has index k; the incrementals after the newest full are of term 2 *)
Items(sh) == [k \in 1..Len(Items0(sh)) |-> [kind |-> Items0(sh)[k].kind, nw |-> Items0(sh)[k].nw,
                                             term |-> IF k > Len(OlderKinds(sh.older)) + 1 THEN 2 ELSE 1, idx |-> k]]
RECURSIVE SumNw(_, _)
SumNw(it, k) == IF k = 0 THEN 0 ELSE it[k].nw + SumNw(it, k - 1)
ShapeDirs(sh) ==
  LET it == Items(sh)  n == Len(it)  no == Len(OlderKinds(sh.older)) IN
  [k \in 1..n |-> [term |-> it[k].term, idx |-> it[k].idx, tmp |-> FALSE, meta |-> TRUE, db |-> it[k].kind = "full", dbok |-> it[k].kind = "full",
                   crc |-> IF it[k].kind = "full" THEN "ok" ELSE "none", base |-> IF it[k].kind = "full" THEN k ELSE 0, applied |-> <<>>,
                   wals |-> [j \in 1..it[k].nw |-> SumNw(it, k - 1) + j], dbwal |-> 0]]
  @@ (IF sh.tmp THEN (n + 1) :> NewDir(2, n + 1) ELSE <<>>)
ShapeState(sh) == [dirs |-> ShapeDirs(sh), flag |-> FALSE, plan |-> NoPlan, ptmp |-> FALSE, sinks |-> [x \in Sinks |-> NoSink],
                   nextId |-> Len(Items(sh)) + (IF sh.tmp THEN 1 ELSE 0), nextWal |-> SumNw(Items(sh), Len(Items(sh))),
                   ht |-> 2, hi |-> 1, bad |-> {}]
Points == {"reap.preplan", "plan.write.tmp", "reap.plan", "plan.op.pre", "plan.op.post", "ckptwal.leftover", "ckptwal.renamed",
           "ckptwal.done", "reap.done", "reap.planremoved", "check.resume"}
NewestOf(s) == Last(Order(s))
Summary(s) == LET n == NewestOf(s)  r == Resolve(s, n) IN
              [term |-> s.dirs[n].term, idx |-> s.dirs[n].idx, base |-> r.base, applied |-> r.applied]

(* raw directory listing as the harness projects it *)
DirProj(s) == [k \in 1..Cardinality(DOMAIN s.dirs) |->
                LET id == SetToSeq(DOMAIN s.dirs)[k]  d == s.dirs[id] IN
                [id |-> id, tmp |-> d.tmp, meta |-> d.meta, mterm |-> IF d.meta THEN d.term ELSE 0, midx |-> IF d.meta THEN d.idx ELSE 0,
                 db |-> d.db, wals |-> d.wals, crcok |-> (d.tmp \/ ~d.db \/ d.crc = "ok"), dbwal |-> d.dbwal # 0]]
ReapInit == \E sh \in Shapes :
  /\ SumNw(Items(sh), Len(Items(sh))) <= MaxWal
  /\ S = ShapeState(sh)
  /\ P = [run |-> 1, ph |-> "start", i |-> 0, j |-> 0, ex |-> <<>>, vplan |-> <<>>, cnt |-> [p \in Points |-> 0],
          crashes |-> <<>>, shape |-> sh, orig |-> Summary(ShapeState(sh)), failed |-> ""]

(* arrival at a crash point: either the process goes on, or (k-th arrival chosen) it dies there *)
Go(ph, i, j) == [P EXCEPT !.ph = ph, !.i = i, !.j = j]
Arrive(pt, p2) ==
  LET c == P.cnt[pt] + 1 IN
  \/ P' = [p2 EXCEPT !.cnt[pt] = c]
  \/ /\ Len(P.crashes) < MaxCrashes /\ P.run < 3
     /\ P' = [p2 EXCEPT !.run = P.run + 1, !.ph = "open", !.i = 0, !.j = 0, !.ex = <<>>, !.vplan = <<>>,
                        !.cnt = [p \in Points |-> 0],
                        !.crashes = Append(P.crashes, [run |-> P.run, point |-> pt, k |-> c,
                                                       disk |-> [dirs |-> DirProj(S'), plan |-> S'.plan.exists, ptmp |-> S'.ptmp]])]
Fail(why) == P' = [P EXCEPT !.ph = "failed", !.failed = why]
Ops == IF P.run = 1 /\ ~PlanBeforeMutation THEN P.vplan ELSE S.plan.ops
AfterOp(i) == IF i < Len(Ops) THEN Go("exec", i + 1, 0) ELSE Go("execdone", 0, 0)

RStart == /\ P.run = 1 /\ P.ph = "start"
          /\ LET bp == BuildPlan(S) IN
             IF bp.kind = "err" THEN Fail("reap: scan") /\ UNCHANGED S
             ELSE IF bp.kind = "none" THEN P' = Go("finished", 0, 0) /\ UNCHANGED S
             ELSE /\ S' = [S EXCEPT !.nextId = IF PlanNames(bp.ops) THEN @ + 1 ELSE @]
                  /\ IF PlanBeforeMutation THEN Arrive("reap.preplan", [Go("writetmp", 0, 0) EXCEPT !.vplan = bp.ops])
                     ELSE P' = [(IF bp.ops = <<>> THEN Go("execdone", 0, 0) ELSE Go("exec", 1, 0)) EXCEPT !.vplan = bp.ops]
RWriteTmp == /\ P.ph = "writetmp" /\ S' = [S EXCEPT !.ptmp = TRUE] /\ Arrive("plan.write.tmp", Go("writeren", 0, 0))
RWriteRen == /\ P.ph = "writeren" /\ S' = [S EXCEPT !.ptmp = FALSE, !.plan = [exists |-> TRUE, ops |-> P.vplan]]
             /\ Arrive("reap.plan", IF P.vplan = <<>> THEN Go("execdone", 0, 0) ELSE Go("exec", 1, 0))
RPre == /\ P.ph = "exec" /\ UNCHANGED S /\ Arrive("plan.op.pre", Go("op", P.i, 0))
ROp == /\ P.ph = "op" /\ Ops[P.i].t # "ckpt"
       /\ LET r == DoOp(S, Ops[P.i]) IN
          IF r.ok THEN S' = r.s /\ Arrive("plan.op.post", AfterOp(P.i))
          ELSE UNCHANGED S /\ Fail(Ops[P.i].t)
(* Checkpoint, WAL by WAL *)
RCkLeft == /\ P.ph = "op" /\ Ops[P.i].t = "ckpt"
           /\ LET f == Ops[P.i].f IN
              IF Leftover(S, f) /\ LeftoverWALFirst THEN S' = CkptDbWal(S, f) /\ Arrive("ckptwal.leftover", Go("ckscan", P.i, 0))
              ELSE UNCHANGED S /\ P' = Go("ckscan", P.i, 0)
RCkScan == /\ P.ph = "ckscan" /\ UNCHANGED S
           /\ LET ex == Existing(S, Ops[P.i].refs) IN
              IF ex = <<>> THEN Arrive("plan.op.post", AfterOp(P.i))
              ELSE IF Ops[P.i].f \notin DOMAIN S.dirs THEN Fail("ckpt: no database")
              ELSE P' = [Go("ckren", P.i, 1) EXCEPT !.ex = ex]
RCkRen == /\ P.ph = "ckren" /\ S' = MoveWal(S, Ops[P.i].f, P.ex[P.j]) /\ Arrive("ckptwal.renamed", Go("ckcp", P.i, P.j))
RCkCp == /\ P.ph = "ckcp" /\ S' = CkptDbWal(S, Ops[P.i].f)
         /\ Arrive("ckptwal.done", IF P.j < Len(P.ex) THEN Go("ckren", P.i, P.j + 1) ELSE Go("ckend", P.i, 0))
RCkEnd == /\ P.ph = "ckend" /\ UNCHANGED S /\ Arrive("plan.op.post", AfterOp(P.i))
RExecDone == /\ P.ph = "execdone" /\ UNCHANGED S /\ Arrive("reap.done", Go("rmplan", 0, 0))
RRmPlan == /\ P.ph = "rmplan" /\ S' = [S EXCEPT !.plan = NoPlan]
           /\ Arrive("reap.planremoved", IF P.run = 1 THEN Go("finished", 0, 0) ELSE Go("tmpclean", 0, 0))
(* NewStore -> check() *)
ROpen == /\ P.run >= 2 /\ P.ph = "open"
         /\ S' = [S EXCEPT !.ptmp = FALSE]
         /\ IF S.plan.exists /\ ResumeOnOpen THEN Arrive("check.resume", Go("resume", 0, 0)) ELSE P' = Go("tmpclean", 0, 0)
RResume == /\ P.ph = "resume"
           /\ IF LastOpDoneShortcut /\ LastOpDone(S) THEN S' = [S EXCEPT !.plan = NoPlan] /\ P' = Go("tmpclean", 0, 0)
              ELSE UNCHANGED S /\ P' = (IF S.plan.ops = <<>> THEN Go("execdone", 0, 0) ELSE Go("exec", 1, 0))
RTmpClean == /\ P.ph = "tmpclean"
             /\ S' = IF TmpCleanAfterResume \/ P.cnt["check.resume"] = 0 THEN DropTmp(S) ELSE S
             /\ P' = Go("opened", 0, 0)
(* a process that ended without crashing is followed by the next one, until the third has opened *)
RNextRun == /\ P.ph \in {"finished", "opened"} /\ P.run < 3 /\ UNCHANGED S
            /\ P' = [P EXCEPT !.run = P.run + 1, !.ph = "open", !.i = 0, !.j = 0, !.ex = <<>>, !.vplan = <<>>, !.cnt = [p \in Points |-> 0]]
ReapNext == RStart \/ RWriteTmp \/ RWriteRen \/ RPre \/ ROp \/ RCkLeft \/ RCkScan \/ RCkRen \/ RCkCp \/ RCkEnd
            \/ RExecDone \/ RRmPlan \/ ROpen \/ RResume \/ RTmpClean \/ RNextRun
ReapSpec == ReapInit /\ [][ReapNext]_vars
ReapView == <<S, [P EXCEPT !.crashes = Len(@)]>>     \* model checking: which crashes led here does not matter

(* ---- C07 ---- *)
Final == P.ph = "opened" /\ P.run = 3
NoFailure == P.ph # "failed"                       \* neither the reap nor any later open returns an error
OpensOK(s) == ScanOK(s) /\ Order(s) # <<>> /\ Resolve(s, NewestOf(s)).ok /\ AllCrcOK(s)
Recovered == P.ph = "opened" => /\ OpensOK(S)
                                 /\ Summary(S) = P.orig
                                 /\ ~S.plan.exists /\ ~S.ptmp
                                 /\ \A i \in DOMAIN S.dirs : S.dirs[i].dbwal = 0
NoTmpLeft == P.ph = "opened" => \A i \in DOMAIN S.dirs : ~S.dirs[i].tmp
CaseOut == [shape |-> [items |-> Items(P.shape), tmp |-> P.shape.tmp], crashes |-> P.crashes,
            want |-> [term |-> P.orig.term, idx |-> P.orig.idx, base |-> P.orig.base, applied |-> SetToSeq(Range(P.orig.applied)),
                      last |-> IF P.orig.applied = <<>> THEN 0 ELSE Last(P.orig.applied), dirs |-> DirProj(S)]]
ReapAlias == [case |-> ToJson(CaseOut), ph |-> P.ph, failed |-> P.failed]
EmitCase == Final => PrintT(<<"@@", ToJson(CaseOut)>>)
=============================================================================
